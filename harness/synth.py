"""L1 correspondence: synthetic provider-set trees through the real buildProviderMap / verifyAcyclic / solve
(verif hook) versus the Coq model (coq/Model.v), compared inside Coq by vm_compute."""
import itertools, json, os, random, re
from common import *


# ------------------------------------------------------------------ helpers on trees
def tstr(t):
    return ("*" if t % 2 else "") + "s.T%d" % (t // 2)


def parse_t(s):
    s = s.strip().strip('"')
    m = re.fullmatch(r"(\*?)s\.T(\d+)", s)
    if not m:
        raise ValueError("cannot parse type %r" % s)
    return 2 * int(m.group(2)) + (1 if m.group(1) else 0)


def mkset(sid, imports=(), providers=(), values=(), fields=(), bindings=()):
    return {"id": sid, "var": "S%d" % sid if sid else "", "imports": list(imports), "providers": list(providers),
            "values": list(values), "fields": list(fields), "bindings": list(bindings)}


def mkprov(pid, out, args, struct=False, cleanup=False, err=False, varargs=False):
    outs = out if isinstance(out, list) else [out]
    return {"id": pid, "name": "p%d" % pid, "args": list(args), "fields": ["F%d" % i for i in range(len(args))] if struct else [],
            "varargs": varargs, "struct": struct, "outs": outs, "cleanup": cleanup, "err": err}


def all_types(tree, given, out):
    ts = set(given) | {out}

    def walk(s):
        for p in s["providers"]:
            ts.update(p["args"]); ts.update(p["outs"])
        for v in s["values"]:
            ts.add(v["out"])
        for f in s["fields"]:
            ts.add(f["parent"]); ts.update(f["outs"])
        for b in s["bindings"]:
            ts.add(b["iface"]); ts.add(b["conc"])
        for i in s["imports"]:
            walk(i)
    walk(tree)
    return ts


# ------------------------------------------------------------------ rendering to Coq
def r_nats(l):
    return coq_list([str(x) for x in l])


def r_set(s):
    provs = coq_list(["mkProv %d 0 %s %s %s %s %s %s %s %s" % (
        p["id"], coq_str(p["name"]), r_nats(p["args"]), coq_list([coq_str(f) for f in p["fields"]]),
        coq_bool(p["varargs"]), coq_bool(p["struct"]), r_nats(p["outs"]), coq_bool(p["cleanup"]), coq_bool(p["err"]))
        for p in s["providers"]])
    vals = coq_list(["mkVal %d %d %s" % (v["id"], v["out"], coq_bool(v.get("ok", True))) for v in s["values"]])
    flds = coq_list(["mkField %d 0 %d %s %s" % (f["id"], f["parent"], coq_str(f["name"]), r_nats(f["outs"])) for f in s["fields"]])
    binds = coq_list(["mkBind %d %d %d" % (b["id"], b["iface"], b["conc"]) for b in s["bindings"]])
    return "(RSet %d %s %s [] %s %s %s)" % (s["id"], coq_list([r_set(i) for i in s["imports"]]), provs, vals, flds, binds)


def r_call(c):
    return "(mkCall %d %d %d %s %s %s %s %s %s %s %s %d true)" % (
        c["kind"], c["out"], c.get("pkg", 0), coq_str(c["name"]), r_nats(c["args"]), coq_bool(c["varargs"]),
        coq_list([coq_str(f) for f in c["fields"]]), r_nats(c["ins"]), coq_bool(c["cleanup"]), coq_bool(c["err"]),
        coq_bool(c["ptrfield"]), c.get("vid", 0))


def r_diag(d):
    k = d[0]
    if k == "DUnparsed":
        return "(DItem 99 0)"
    if k == "DCycle":
        return "(DCycle %s)" % r_nats(d[1])
    if k == "DFuel":
        return "DFuel"
    return "(%s %s)" % (k, " ".join(str(x) for x in d[1:]))


# ------------------------------------------------------------------ parsing the implementation's messages
def find_direct(tree, kind, pred):
    for x in tree[kind]:
        if pred(x):
            return x["id"]
    return 999999


def find_lit(tree, lit):
    import spec as _spec
    for s in _spec.all_sets(tree):
        for p in s["providers"]:
            if p.get("struct") and lit in (p.get("_lits") or []):
                return p["id"]
    return 999999


def parse_errors(tree, msgs, parse_t=parse_t, strip=None):
    """Map Wire's error texts to the model's diag constructors (class + types/ids only)."""
    out = []
    for m in msgs:
        if strip:
            m = strip(m)
        first = m.split("\n")[0]
        mm = re.match(r"provider for (\S+) returns cleanup but injection does not return cleanup function$", first)
        if mm:
            out.append(("DNeedsCleanup", parse_t(mm.group(1)))); continue
        mm = re.match(r"provider for (\S+) returns error but injection not allowed to fail$", first)
        if mm:
            out.append(("DNeedsErr", parse_t(mm.group(1)))); continue
        mm = re.match(r"value (\S+) can't be used: ", first)
        if mm:
            out.append(("DValueAccess", parse_t(mm.group(1)))); continue
        mm = re.match(r"provider for (\S+) can't be used: uses unexported identifier", first)
        if mm:
            out.append(("DProvAccess", parse_t(mm.group(1)))); continue
        mm = re.match(r"provider has multiple parameters of type (\S+)$", first)
        if mm:
            out.append(("DItem", 1, parse_t(mm.group(1)))); continue
        mm = re.match(r"provider struct has multiple fields of type (\S+)$", first)
        if mm:
            out.append(("DItem", 2, parse_t(mm.group(1)))); continue
        mm = re.match(r'("[^"]*"|`[^`]*`) is not a field of ', first)
        if mm:
            out.append(("DItem", 3, find_lit(tree, mm.group(1)))); continue
        mm = re.match(r'("[^"]*"|`[^`]*`) is prevented from injecting by wire$', first)
        if mm:
            out.append(("DItem", 4, find_lit(tree, mm.group(1)))); continue
        mm = re.search(r"multiple bindings for (\S+)$", first)
        if mm:
            out.append(("DMulti", parse_t(mm.group(1)))); continue
        mm = re.search(r'wire\.Bind of concrete type "([^"]+)" to interface "([^"]+)", but .* does not include a provider for', first)
        if mm:
            out.append(("DBindMissing", parse_t(mm.group(2)), parse_t(mm.group(1)))); continue
        mm = re.match(r"cycle for (\S+):$", first)
        if mm:
            lines = m.split("\n")[1:]
            ts = [parse_t(l.split(" ")[0]) for l in lines]
            out.append(("DCycle", ts)); continue
        mm = re.match(r"no provider found for (\*?[\w./]+)", first)
        if mm:
            out.append(("DNoProvider", parse_t(mm.group(1)))); continue
        mm = re.match(r'unused provider set "S(\d+)"$', first)
        if mm:
            out.append(("DUnusedSet", int(mm.group(1)))); continue
        if first == "unused provider set":
            out.append(("DUnusedSet", 0)); continue
        mm = re.match(r'unused provider "(\w+)\.(\w+)"$', first)
        if mm:
            m2 = re.fullmatch(r"[pP](\d+)", mm.group(2))
            if m2:
                out.append(("DUnusedProv", int(m2.group(1)))); continue
            try:
                k = parse_t(mm.group(1) + "." + mm.group(2)) // 2
            except ValueError:
                k = -1
            out.append(("DUnusedProv", find_direct(tree, "providers", lambda p: p["struct"] and p["outs"][0] // 2 == k))); continue
        mm = re.match(r"unused value of type (\S+)$", first)
        if mm:
            t = parse_t(mm.group(1))
            out.append(("DUnusedVal", find_direct(tree, "values", lambda v: v["out"] == t))); continue
        mm = re.match(r"unused interface binding to type (\S+)$", first)
        if mm:
            t = parse_t(mm.group(1))
            out.append(("DUnusedBind", find_direct(tree, "bindings", lambda b: b["iface"] == t))); continue
        mm = re.match(r'unused field "([^"]+)"\.F(\d+)$', first)
        if mm:
            out.append(("DUnusedField", int(mm.group(2)))); continue
        out.append(("DUnparsed", 0))
    return out


def observed_term(tree, resp):
    if not resp.get("set_ok"):
        ds = parse_errors(tree, resp.get("set_errs") or [])
        return "(OErr StSet %s)" % coq_list([r_diag(d) for d in ds]), ("set", ds)
    if not resp.get("solved"):
        ds = parse_errors(tree, resp.get("solve_errs") or [])
        return "(OErr StSolve %s)" % coq_list([r_diag(d) for d in ds]), ("solve", ds)
    src = {r[0]: r for r in resp["src"]}
    rows = []
    pmk = {}
    for r in resp["pm"]:
        s = src[r[0]]
        rows.append(r_nats([r[0], r[1], r[2], r[3], s[1], s[2]]))
        pmk[r[0]] = r
    calls = resp.get("calls") or []
    for c in calls:
        if c["kind"] == 2:
            c["vid"] = pmk[c["out"]][3]
    return "(OOk %s %s)" % (coq_list(rows), coq_list([r_call(c) for c in calls])), ("ok", len(calls))


def case_term(i, tree, given, out, obs):
    ts = sorted(all_types(tree, given, out), key=tstr)
    return "(mkCase %d %s %s %s %d true true %s)" % (i, r_nats(ts), r_set(tree), r_nats(given), out, obs)


# ------------------------------------------------------------------ generators
KINDS = ["absent", "arg", "func", "funcptr", "struct", "value", "field", "fieldptr", "bind"]


def small_exhaustive(n):
    """All graphs on n named types where each type is provided in one of a few ways."""
    opts = []
    ids = list(range(n))
    subsets = [list(c) for r in range(n + 1) for c in itertools.combinations(ids, r)]
    per = []
    for k in ids:
        o = [("absent",), ("arg",), ("value",)]
        o += [("func", tuple(s)) for s in subsets]
        o += [("bind", j) for j in ids]
        o += [("field", j) for j in ids]
        per.append(o)
    for combo in itertools.product(*per):
        for out in ids:
            yield build_simple(n, combo, out)


def build_simple(n, combo, out):
    provs, vals, flds, binds, given = [], [], [], [], []
    for k, c in enumerate(combo):
        t = 2 * k
        if c[0] == "arg":
            given.append(t)
        elif c[0] == "value":
            vals.append({"id": k + 1, "out": t})
        elif c[0] == "func":
            provs.append(mkprov(k + 1, t, [2 * j for j in c[1]]))
        elif c[0] == "bind":
            binds.append({"id": k + 1, "iface": t, "conc": 2 * c[1]})
        elif c[0] == "field":
            flds.append({"id": k + 1, "parent": 2 * c[1], "name": "F%d" % (k + 1), "outs": [t]})
    return mkset(0, [], provs, vals, flds, binds), given, 2 * out


def random_case(rng, maxk=9, arg_w=6):
    """Mostly-valid stream: an acyclic, complete, fully used program is generated first and one defect
    (or none) is then seeded; the defect kind is returned for the distribution report."""
    K = rng.randint(2, maxk)
    nid = [100]

    def fresh():
        nid[0] += 1
        return nid[0]

    prov_ids = {}      # type index -> list of provided ids
    items = {}         # type index -> (kind, item)
    given = []
    for k in range(K - 1, -1, -1):
        t = 2 * k
        later = [j for j in range(k + 1, K)]

        def dep():
            j = rng.choice(later)
            return rng.choice(prov_ids[j])

        def deps(maxn):
            if not later:
                return []
            n = rng.choice([0, 1, 1, 2, 2, 3, maxn])
            return list(dict.fromkeys(dep() for _ in range(n)))

        kinds = ["func", "funcptr", "struct", "value", "arg"]
        weights = [40, 8, 12, 8, arg_w]
        if later:
            kinds += ["field", "fieldptr", "bind"]
            weights += [8, 5, 12]
        kind = rng.choices(kinds, weights=weights)[0]
        if kind == "arg" and (len(given) >= 3 or k == 0):
            kind = "func"
        if kind == "arg":
            a = t if rng.random() < 0.8 else t + 1
            given.append(a); prov_ids[k] = [a]; items[k] = ("a", None)
        elif kind == "func":
            items[k] = ("p", mkprov(fresh(), t, deps(4), cleanup=rng.random() < 0.3, err=rng.random() < 0.3, varargs=rng.random() < 0.05)); prov_ids[k] = [t]
        elif kind == "funcptr":
            items[k] = ("p", mkprov(fresh(), t + 1, deps(4), cleanup=rng.random() < 0.3, err=rng.random() < 0.3)); prov_ids[k] = [t + 1]
        elif kind == "struct":
            items[k] = ("p", mkprov(fresh(), [t, t + 1], deps(4), struct=True)); prov_ids[k] = [t, t + 1]
        elif kind == "value":
            items[k] = ("v", {"id": fresh(), "out": t}); prov_ids[k] = [t]
        elif kind == "field":
            i = fresh(); par = dep()
            if par % 2 == 0:
                items[k] = ("f", {"id": i, "parent": par, "name": "F%d" % i, "outs": [t]}); prov_ids[k] = [t]
            else:
                items[k] = ("f", {"id": i, "parent": par, "name": "F%d" % i, "outs": [t, t + 1]}); prov_ids[k] = [t, t + 1]
        elif kind == "fieldptr":
            i = fresh(); j = rng.choice(later); par = [x for x in prov_ids[j]][-1]
            outs = [t, t + 1] if par % 2 else [t]
            items[k] = ("f", {"id": i, "parent": par, "name": "F%d" % i, "outs": outs}); prov_ids[k] = outs
        elif kind == "bind":
            items[k] = ("b", {"id": fresh(), "iface": t, "conc": dep()}); prov_ids[k] = [t]
    out = rng.choice(prov_ids[0])

    def item_deps(k):
        kind, it = items[k]
        if kind == "p":
            return it["args"]
        if kind == "f":
            return [it["parent"]]
        if kind == "b":
            return [it["conc"]]
        return []
    reach = set(); todo = [0]
    while todo:
        k = todo.pop()
        if k in reach:
            continue
        reach.add(k)
        todo += [d // 2 for d in item_deps(k)]
    keep = [k for k in range(K) if k in reach or rng.random() < 0.1]
    given = [g for g in given if g // 2 in keep or rng.random() < 0.5]
    its = [items[k] for k in keep if items[k][0] != "a"]
    defect = "none"
    r = rng.random()
    if r < 0.08:
        defect = "dup-provider"; its.append(("p", mkprov(fresh(), rng.choice(prov_ids[rng.choice(keep)]), [])))
    elif r < 0.12:
        defect = "dup-value"; its.append(("v", {"id": fresh(), "out": rng.choice(prov_ids[rng.choice(keep)])}))
    elif r < 0.16:
        defect = "dup-bind"; its.append(("b", {"id": fresh(), "iface": rng.choice(prov_ids[rng.choice(keep)]), "conc": out}))
    elif r < 0.24 and len(its) > 1:
        defect = "missing"; its.pop(rng.randrange(len(its)))
    elif r < 0.30:
        defect = "cycle"
        ps = [it for kd, it in its if kd == "p"]
        if ps:
            # the argument that closes the cycle goes to a random position among the provider's arguments
            p = rng.choice(ps); extra = rng.choice(prov_ids[rng.choice(keep)]); a = list(p["args"])
            a.insert(rng.randrange(len(a) + 1), extra); p["args"] = list(dict.fromkeys(a))
            if p["struct"]:
                p["fields"] = ["F%d" % i for i in range(len(p["args"]))]
    elif r < 0.38:
        defect = "unused"
        kind = rng.choice(["p", "v", "b", "f"])
        t = 2 * K + 2
        if kind == "p":
            its.append(("p", mkprov(fresh(), t, [])))
        elif kind == "v":
            its.append(("v", {"id": fresh(), "out": t}))
        elif kind == "b":
            its.append(("b", {"id": fresh(), "iface": t, "conc": out}))
        else:
            # (a field selected from a pointer to the struct provides the field's type and a pointer to it)
            i = fresh(); its.append(("f", {"id": i, "parent": out, "name": "F%d" % i, "outs": [t, t + 1] if out % 2 else [t]}))
    elif r < 0.41:
        defect = "out-is-arg-extra"
        given = [out] + [g for g in given if g != out][:2]
        its = [("p", mkprov(fresh(), 2 * K + 2, []))] if rng.random() < 0.5 else its
    rng.shuffle(its)
    # distribute over a random set tree
    nsets = rng.choice([0, 0, 1, 2, 2, 3, 4])
    sets = [mkset(0)] + [mkset(i + 1) for i in range(nsets)]
    for i in range(1, nsets + 1):
        sets[rng.randrange(0, i)]["imports"].append(sets[i])
    if nsets >= 2 and rng.random() < 0.12:
        a = rng.randrange(1, nsets + 1); b = rng.randrange(0, nsets + 1)
        if b != a and sets[a] not in sets[b]["imports"] and not reaches(sets[a], sets[b]):
            sets[b]["imports"].append(sets[a]); defect += "+shared-set"
    where = {}
    for kind, it in its:
        if kind == "b":
            continue
        s = sets[rng.randrange(0, nsets + 1)]
        {"p": s["providers"], "v": s["values"], "f": s["fields"]}[kind].append(it)
        for o in (it["outs"] if "outs" in it else [it["out"]]):
            where[o] = s
    for kind, it in its:
        if kind != "b":
            continue
        s = where.get(it["conc"])
        if s is None or rng.random() < 0.06:
            s = sets[rng.randrange(0, nsets + 1)]
            if s is not where.get(it["conc"]):
                defect += "+bind-elsewhere"
        s["bindings"].append(it)
    # drop empty leaf sets half of the time (an empty import is an unused set)
    if rng.random() < 0.7:
        prune_empty(sets[0])
    return (sets[0], given, out), defect


def prune_empty(s):
    for i in list(s["imports"]):
        prune_empty(i)
        if not (i["imports"] or i["providers"] or i["values"] or i["fields"] or i["bindings"]):
            s["imports"].remove(i)


def reaches(a, b):
    if a is b:
        return True
    return any(reaches(i, b) for i in a["imports"])


def special_cases():
    """Hand-picked families: lassos, cycles through bindings/fields, diamonds, chains, shared sets."""
    cs = []
    # lasso whose cycle avoids the root: T0 -> T1 -> T2 -> T1
    cs.append((mkset(0, [], [mkprov(1, 0, [2]), mkprov(2, 2, [4]), mkprov(3, 4, [2])]), [], 0))
    # cycle closed by a binding: I(T0)=Bind=>T1(ptr 3) ; p(T1*) needs T2 ; p(T2) needs I
    cs.append((mkset(0, [], [mkprov(1, 3, [4]), mkprov(2, 4, [0])], [], [], [{"id": 1, "iface": 0, "conc": 3}]), [], 4))
    cs.append((mkset(0, [mkset(1, [], [mkprov(1, 3, [4]), mkprov(2, 4, [0]), mkprov(3, 6, [])], [], [], [{"id": 1, "iface": 0, "conc": 3}])], [], [], [], []), [], 6))
    # cycle closed by a field edge: S(T0) needs T1 ; field T1 of parent T0
    cs.append((mkset(0, [], [mkprov(1, [0, 1], [2], struct=True)], [], [{"id": 1, "parent": 0, "name": "F1", "outs": [2]}], []), [], 0))
    # two imported sets, each acyclic, cyclic together; root has only imports
    s1 = mkset(1, [], [mkprov(1, 0, [2])]); s2 = mkset(2, [], [mkprov(2, 2, [0])]); s3 = mkset(3, [], [mkprov(3, 4, [])])
    cs.append((mkset(0, [mkset(4, [s1, s2, s3])]), [], 4))
    cs.append((mkset(0, [s1, s2]), [], 0))
    cs.append((mkset(0, [s1, s2, s3]), [], 4))
    # lassos entered at depth d through a provider with several arguments, the cycle continuing through the
    # first / middle / last of them; tail types numbered before and after the cycle's types
    for d in (1, 2, 3, 4, 5, 7):
        for pos in (0, 1, 2):
            for tail_first in (True, False):
                tail = [2 * i for i in range(d)] if tail_first else [2 * (i + 10) for i in range(d)]
                cyc = [2 * (i + 10) for i in range(3)] if tail_first else [2 * i for i in range(3)]
                leaves = [40, 42]
                provs, nid = [], 1
                for i in range(d - 1):
                    provs.append(mkprov(nid, tail[i], [tail[i + 1]])); nid += 1
                provs.append(mkprov(nid, tail[d - 1], [cyc[0]])); nid += 1
                entry_args = list(leaves); entry_args.insert(pos, cyc[1])
                provs.append(mkprov(nid, cyc[0], entry_args)); nid += 1
                provs.append(mkprov(nid, cyc[1], [cyc[2]])); nid += 1
                provs.append(mkprov(nid, cyc[2], [cyc[0]])); nid += 1
                for l in leaves:
                    provs.append(mkprov(nid, l, [])); nid += 1
                cs.append((mkset(0, [], provs), [], tail[0]))
    # diamond lattice depth d (2^d paths)
    # (the deep ones, in both numberings: the cycle check takes its roots in the order of the type names, so whether
    # the top or the bottom of the lattice is searched first depends on the numbering)
    for d, flip in ((6, False), (20, False), (44, False), (44, True)):
        top = 2 * (2 * d + 1)
        ty = (lambda t: top - t) if flip else (lambda t: t)
        provs = [mkprov(1, ty(0), [])]
        for i in range(1, d + 1):
            # level i has two nodes a_i=2*(2i-1), b_i=2*(2i); each needs both nodes of level i-1
            prev = [0] if i == 1 else [2 * (2 * (i - 1) - 1), 2 * (2 * (i - 1))]
            provs.append(mkprov(2 * i, ty(2 * (2 * i - 1)), [ty(x) for x in prev]))
            provs.append(mkprov(2 * i + 1, ty(2 * (2 * i)), [ty(x) for x in prev]))
        provs.append(mkprov(999, ty(top), [ty(2 * (2 * d - 1)), ty(2 * (2 * d))]))
        cs.append((mkset(0, [], provs), [], ty(top)))
    # chain of depth 60
    provs = [mkprov(i + 1, 2 * i, [2 * (i + 1)]) for i in range(60)] + [mkprov(99, 120, [])]
    cs.append((mkset(0, [], provs), [], 0))
    # set reached along two paths
    sh = mkset(3, [], [mkprov(1, 0, [])])
    cs.append((mkset(0, [mkset(1, [sh]), mkset(2, [sh], [mkprov(2, 2, [0])])]), [], 2))
    # unused nested set / unused items of each kind
    cs.append((mkset(0, [mkset(1, [], [mkprov(1, 0, [])]), mkset(2, [], [mkprov(2, 2, [])])]), [], 0))
    cs.append((mkset(0, [], [mkprov(1, 0, []), mkprov(2, 2, [])], [{"id": 1, "out": 4}], [{"id": 1, "parent": 0, "name": "F1", "outs": [6]}], [{"id": 1, "iface": 8, "conc": 0}]), [], 0))
    # binding used only through the interface; struct used via pointer form only
    cs.append((mkset(0, [], [mkprov(1, [0, 1], [], struct=True), mkprov(2, 4, [2, 1])], [], [], [{"id": 1, "iface": 2, "conc": 1}]), [], 4))
    # missing input behind a binding and behind a field
    cs.append((mkset(0, [], [mkprov(1, 0, [2]), mkprov(2, 4, [6])], [], [{"id": 1, "parent": 8, "name": "F1", "outs": [6]}], [{"id": 1, "iface": 2, "conc": 4}]), [], 0))
    return cs


# ------------------------------------------------------------------ running
def run_cases(cases, workdir, tag, shard=600):
    """cases: list of (tree, given, out).  Returns (mismatch ids, stats, responses)."""
    resps = hook([{"op": "synth", "set": t, "given": g, "out": o} for (t, g, o) in cases])
    stats = {}
    terms = []
    kinds = []
    for i, ((t, g, o), r) in enumerate(zip(cases, resps)):
        if r.get("skipped"):
            kinds.append(("skipped", 0))
            stats["not-evaluated"] = stats.get("not-evaluated", 0) + 1
            continue
        if "panic" in r:
            kinds.append(("panic", r["panic"]))
            terms.append(case_term(i, t, g, o, "(OErr StSet [DFuel; DFuel])"))
            stats["impl-panic"] = stats.get("impl-panic", 0) + 1
            continue
        obs, kind = observed_term(t, r)
        kinds.append(kind)
        key = kind[0] if kind[0] == "ok" else kind[0] + ":" + ",".join(sorted({d[0] for d in kind[1]}))
        stats[key] = stats.get(key, 0) + 1
        terms.append(case_term(i, t, g, o, obs))
    mism = []
    for sh_i in range(0, len(terms), shard):
        chunk = terms[sh_i:sh_i + shard]
        f = os.path.join(workdir, "Cases_%s_%d.v" % (tag, sh_i // shard))
        with open(f, "w") as fh:
            fh.write("From Coq Require Import List String.\nFrom Wire Require Import Sets Model Bridge.\nImport ListNotations.\nOpen Scope string_scope.\n")
            fh.write("Definition cases : list case := [\n" + ";\n".join(chunk) + "\n].\n")
            fh.write("Definition M := Eval vm_compute in mismatches cases.\nPrint M.\n")
            # certificate: the well-formedness checker the planner theorems assume holds on every accepted map
            fh.write("Definition W := Eval vm_compute in map k_id (filter (fun k => match run_case k with ROk pm _ => negb (wfb pm (k_args k)) | _ => false end) cases).\nPrint W.\n")
        rc, out, err = coqc(f)
        m = re.search(r"M\s*=\s*(\[.*?\])\s*:\s*list nat", out, re.S)
        w = re.search(r"W\s*=\s*(\[.*?\])\s*:\s*list nat", out, re.S)
        if rc != 0 or not m or not w:
            raise RuntimeError("coqc failed on %s: rc=%d\n%s\n%s" % (f, rc, out[-2000:], err[-3000:]))
        for mm in (m, w):
            body = mm.group(1).strip()[1:-1].strip()
            if body:
                mism += [int(x) for x in body.split(";") if int(x) not in mism]
    return mism, stats, resps, kinds


def model_result(case, workdir):
    """Print the model's own result for one case (diagnosis of a mismatch)."""
    t, g, o = case
    f = os.path.join(workdir, "Diag.v")
    with open(f, "w") as fh:
        fh.write("From Coq Require Import List String.\nFrom Wire Require Import Sets Model.\nImport ListNotations.\nOpen Scope string_scope.\n")
        fh.write("Definition k := %s.\n" % case_term(0, t, g, o, "(OErr StSet [])"))
        fh.write("Eval vm_compute in match run_case k with RErr st ds => (Some (st, ds), None) | ROk pm cs => (None, Some (map pm_row pm, cs)) end.\n")
    rc, out, err = coqc(f)
    return (out + err)[-3000:]
