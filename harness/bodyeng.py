"""Engine (C20/C01, injector bodies): function bodies built from the statement kinds findInjectorBuild distinguishes
(wire.Build, panic(wire.Build), other panics, other calls, non-call expression statements, empty statements, returns,
anything else), all of them valid Go, through `wire gen`; whether the function is taken for an injector template,
refused as an invalid one, or left alone is compared with InjBody.find_build (vm_compute)."""
import itertools, random
from concurrent.futures import ThreadPoolExecutor
from common import *
import formeng

KINDS = {"SBuild": "wire.Build(NewA)", "SPanicBuild": "panic(wire.Build(NewA))", "SPanicOther": 'panic("x")', "SCallOther": "println()",
         "SExprNonCall": "<-Ch", "SEmpty": ";", "SReturn": "return 0", "SOther": "_ = 1"}
TERMINATING = ("SReturn", "SPanicBuild", "SPanicOther")


def bodies(rng, n, exhaustive_upto=2):
    names = list(KINDS)
    out = []
    for k in range(1, exhaustive_upto + 1):
        out += [list(t) for t in itertools.product(names, repeat=k)]
    while len(out) < n:
        out.append([rng.choice(names) for _ in range(rng.choice([3, 3, 4, 5]))])
    res = []
    for b in out[:max(n, len(out))]:
        if b[-1] not in TERMINATING:
            b = b + ["SReturn"]
        res.append(b)
    return res


def eng_body(pid, tier, wd, known, replay=None):
    rng = random.Random(seed() * 69621 + 1)
    bs = bodies(rng, 110 if tier == "quick" else 900)
    tools = build_tools()
    root = os.path.join(wd, "bodies")
    os.makedirs(root, exist_ok=True)
    open(os.path.join(root, "go.mod"), "w").write("module example.com/f\n\ngo 1.21\n\nrequire github.com/google/wire v0.1.0\n\nreplace github.com/google/wire => %s\n" % REPO)
    shutil.copy(os.path.join(REPO, "go.sum"), os.path.join(root, "go.sum"))
    for i, b in enumerate(bs):
        f = {"name": "body-%d" % i, "args": None, "res": "int", "expect": "any", "body": "\n\t".join(KINDS[k] for k in b), "dot": False, "key": "body", "params": ""}
        d = os.path.join(root, "f%d" % i)
        os.makedirs(d, exist_ok=True)
        files = formeng.render(f)
        if "wire." not in f["body"]:
            files["wire.go"] = files["wire.go"].replace('\t_ "github.com/google/wire"\n', '\t"github.com/google/wire"\n').replace("var _ unsafe.Pointer\n", "var _ unsafe.Pointer\nvar _ = wire.NewSet\n")
        for nm, t in files.items():
            open(os.path.join(d, nm), "w").write(t)

    def one(i):
        try:
            p = sh([tools["wire"], "gen", "./f%d" % i], cwd=root, env=GOENV, timeout=120, mem_gb=6)
            return i, p.returncode, p.stderr
        except subprocess.TimeoutExpired:
            return i, 124, "timeout"
    with ThreadPoolExecutor(max_workers=16) as ex:
        results = list(ex.map(one, range(len(bs))))
    viol, terms, dist = [], [], {}
    for i, rc, err in results:
        b = bs[i]
        gen = os.path.join(root, "f%d" % i, "wire_gen.go")
        if "goroutine " in err or rc in (2, 124):
            viol.append(({"property": pid, "kind": "failing-input", "engine": "body", "broken": "wire crashed on an injector body", "input": {"body": b},
                          "impl": {"exit": rc, "stderr": err[:600]}, "oracle": ["wire panicked or hung on a type-correct function body"], "seed": seed()}, True))
            continue
        if "a call to wire.Build indicates that this function is an injector" in err:
            cls = 1
        elif rc == 0 and os.path.exists(gen) and "func Inject(" in open(gen).read():
            cls = 2
        elif rc == 0 and not os.path.exists(gen):
            cls = 0
        else:
            if re.search(r"\.go:\d+:\d+: (missing return|.*declared and not used|syntax error|undefined|cannot use)", err):
                dist["not-type-correct"] = dist.get("not-type-correct", 0) + 1
                continue
            cls = 9
        dist[cls] = dist.get(cls, 0) + 1
        terms.append("(%d, %s, %d)" % (i, coq_list(b), cls))
    f = os.path.join(wd, "BCases.v")
    with open(f, "w") as fh:
        fh.write("From Coq Require Import List.\nFrom Wire Require Import InjBody.\nImport ListNotations.\n")
        fh.write("Definition cases : list (nat * list stmt * nat) := [\n" + ";\n".join(terms) + "\n].\n")
        fh.write("Definition M := Eval vm_compute in bmismatches cases.\nPrint M.\n")
    rc, out, err = coqc(f)
    m = re.search(r"M\s*=\s*(\[.*?\])\s*:\s*list nat", out, re.S)
    if rc != 0 or not m:
        raise RuntimeError("coqc failed on BCases.v: rc=%d\n%s\n%s" % (rc, out[-2000:], err[-3000:]))
    mism = [int(x) for x in re.findall(r"\d+", m.group(1))]
    res = {i: (rc, err) for i, rc, err in results}
    for i in mism[:8]:
        viol.append(({"property": pid, "kind": "no-failing-input-found", "engine": "body", "broken": "correspondence body: InjBody.find_build vs wire gen",
                      "input": {"body": bs[i], "go": [KINDS[k] for k in bs[i]]}, "impl": {"exit": res[i][0], "stderr": res[i][1][:500]}, "seed": seed()}, False))
    shutil.rmtree(root, ignore_errors=True)
    return {"name": "body", "evaluations": len(terms), "distinct_nontrivial": len({tuple(b) for b in bs}), "samples": [{"body": bs[9], "go": [KINDS[k] for k in bs[9]]}], "traces": len(terms),
            "stats": {"classes": {str(k): v for k, v in dist.items()}, "model_vs_impl_mismatches": len(mism), "exhaustive_up_to_statements": 2},
            "rule": "function bodies over the eight statement kinds findInjectorBuild distinguishes (all sequences of one and two statements, random longer ones; a terminating statement appended where Go needs "
                    "one) through wire gen: injector template / invalid injector / not an injector, against InjBody.find_build (vm_compute)",
            "violations": viol, "known": []}
