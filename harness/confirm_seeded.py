#!/usr/bin/env python3
"""Confirm externally produced mutants in a scratch worktree and file them under /verif/seeded/.
usage: confirm_seeded.py <worktree> <outroot> [Cxx/mN ...]"""
import glob, json, os, re, shutil, subprocess, sys
wt, outroot = sys.argv[1], sys.argv[2]
only = set(sys.argv[3:])
env = dict(os.environ, GOFLAGS="-mod=mod", GOPROXY="off", GOSUMDB="off", GOTOOLCHAIN="local")
props = {json.loads(l)["id"]: json.loads(l) for l in open("/verif/properties.jsonl")}

def run(cmd, cwd=None, timeout=1200):
    return subprocess.run(cmd, cwd=cwd, env=env, capture_output=True, text=True, timeout=timeout)

def suite():
    p = run(["go", "test", "-vet=off", "-count=1", "-v", "./..."], cwd=wt)
    res = sorted(set(re.findall(r"^\s*--- (PASS|FAIL): (\S+)", p.stdout, re.M)))
    return res

run(["git", "-C", wt, "checkout", "--", "."]); run(["git", "-C", wt, "clean", "-fdq"])
base = suite()
print("baseline: %d pass, fail=%s" % (sum(1 for r in base if r[0] == "PASS"), [r[1] for r in base if r[0] == "FAIL"]), flush=True)
for d in sorted(glob.glob(os.path.join(outroot, "C*", "m*"))):
    pid, name = d.split("/")[-2], d.split("/")[-1]
    if only and (pid + "/" + name) not in only:
        continue
    patch, demo = os.path.join(d, "patch.diff"), os.path.join(d, "demo.sh")
    if not (os.path.exists(patch) and os.path.exists(demo)):
        print(pid, name, "incomplete"); continue
    meta = {"property": pid, "mutant": name, "ran": []}
    run(["git", "-C", wt, "checkout", "--", "."])
    a = run(["git", "-C", wt, "apply", patch])
    meta["applies"] = a.returncode == 0
    b = run(["go", "build", "./..."], cwd=wt)
    meta["compiles"] = b.returncode == 0
    meta["suite_same_as_baseline"] = suite() == base
    dm = run(["bash", demo, wt], timeout=900)
    meta["demo_fails_with_change"] = dm.returncode != 0
    meta["demo_output_with_change"] = (dm.stdout + dm.stderr)[-600:]
    run(["git", "-C", wt, "checkout", "--", "."])
    dc = run(["bash", demo, wt], timeout=900)
    meta["demo_passes_without_change"] = dc.returncode == 0
    ok = all(meta[k] for k in ("applies", "compiles", "suite_same_as_baseline", "demo_fails_with_change", "demo_passes_without_change"))
    meta["confirmed"] = ok
    readme = open(os.path.join(d, "README.md")).read() if os.path.exists(os.path.join(d, "README.md")) else ""
    meta["needs_to_manifest"] = readme[:1500]
    meta["ran"] = ["git apply patch.diff in a scratch worktree of /repo at " + subprocess.run(["git", "-C", wt, "log", "--format=%h", "-1"], capture_output=True, text=True).stdout.strip(), "go build ./...", "go test -vet=off -count=1 -v ./... (sorted PASS/FAIL list compared with the unchanged tree's)",
                   "demo.sh <worktree> with the change (must fail)", "demo.sh <worktree> after git checkout -- . (must pass)"]
    print(pid, name, "confirmed" if ok else "NOT CONFIRMED", {k: meta[k] for k in ("applies", "compiles", "suite_same_as_baseline", "demo_fails_with_change", "demo_passes_without_change")}, flush=True)
    if ok:
        dst = os.path.join("/verif/seeded", "%s-%s%s" % (pid, os.environ.get("SEED_PREFIX", ""), name))
        os.makedirs(dst, exist_ok=True)
        shutil.copy(patch, os.path.join(dst, "patch.diff")); shutil.copy(demo, os.path.join(dst, "demo.sh"))
        if readme:
            open(os.path.join(dst, "README.md"), "w").write(readme)
        meta["breaks"] = props[pid]["title"]
        json.dump(meta, open(os.path.join(dst, "meta.json"), "w"), indent=1)
run(["git", "-C", wt, "checkout", "--", "."])
