"""Model-free property oracles over provider-set trees (the wording of the properties, computed directly on
the input description; independent of the Coq model and of Wire's algorithms).  Used to turn a broken
proof obligation or correspondence into a concrete failing input."""


def own_sources(s, given=None):
    """(type, (kind, id)) for everything one set level provides itself, bindings excluded."""
    out = []
    for i, g in enumerate(given or []):
        out.append((g, ("arg", i)))
    for p in s["providers"]:
        for t in p["outs"]:
            out.append((t, ("prov", p["id"])))
    for v in s["values"]:
        out.append((v["out"], ("val", v["id"])))
    for f in s["fields"]:
        for t in f["outs"]:
            out.append((t, ("field", f["id"])))
    return out


def flatten(s, given=None, path=()):
    """All occurrences (type, source, path) in the closure; a set reached twice counts twice."""
    occ = [(t, src, path) for t, src in own_sources(s, given)]
    for b in s["bindings"]:
        occ.append((b["iface"], ("bind", b["id"]), path))
    for k, i in enumerate(s["imports"]):
        occ += flatten(i, None, path + (k,))
    return occ


def duplicates(s, given=None):
    seen, dups = {}, set()
    for t, src, path in flatten(s, given):
        if t in seen:
            dups.add(t)
        seen[t] = True
    return dups


def all_sets(s):
    yield s
    for i in s["imports"]:
        yield from all_sets(i)


def resolver(s, given=None):
    """type -> ('prov'|'val'|'field'|'arg', item) after following bindings (first occurrence wins;
    only meaningful when there are no duplicates)."""
    direct, binds, items = {}, {}, {}
    def walk(x, g):
        for i, a in enumerate(g or []):
            direct.setdefault(a, ("arg", i))
        for p in x["providers"]:
            for t in p["outs"]:
                direct.setdefault(t, ("prov", p))
        for v in x["values"]:
            direct.setdefault(v["out"], ("val", v))
        for f in x["fields"]:
            for t in f["outs"]:
                direct.setdefault(t, ("field", f))
        for b in x["bindings"]:
            binds.setdefault(b["iface"], b)
        for i in x["imports"]:
            walk(i, None)
    walk(s, given)
    return direct, binds


def deps_of(direct, binds, t):
    """Dependency edges of key t in the flattened map (as verifyAcyclic / solve see them)."""
    if t in binds and t not in direct:
        c = binds[t]["conc"]
        # the interface key carries the concrete entry: its dependencies are the concrete's
        seen = set()
        while c in binds and c not in direct and c not in seen:
            seen.add(c); c = binds[c]["conc"]
        return deps_of(direct, binds, c) if c in direct else []
    if t not in direct:
        return []
    k, it = direct[t]
    if k == "prov":
        return list(it["args"])
    if k == "field":
        return [it["parent"]]
    return []


def has_cycle(s, given=None):
    direct, binds = resolver(s, given)
    keys = set(direct) | set(binds)
    color = {}
    def dfs(u):
        color[u] = 1
        for v in deps_of(direct, binds, u):
            if color.get(v) == 1:
                return True
            if v not in color and dfs_safe(v):
                return True
        color[u] = 2
        return False
    def dfs_safe(v):
        # iterative wrapper to avoid recursion limits on long chains
        stack = [(v, iter(deps_of(direct, binds, v)))]
        color[v] = 1
        while stack:
            u, it = stack[-1]
            adv = False
            for w in it:
                if color.get(w) == 1:
                    return True
                if w not in color:
                    color[w] = 1
                    stack.append((w, iter(deps_of(direct, binds, w))))
                    adv = True
                    break
            if not adv:
                color[u] = 2
                stack.pop()
        return False
    for k in keys:
        if k not in color and dfs_safe(k):
            return True
    return False


def any_set_cyclic(tree, given):
    if has_cycle(tree, given):
        return True
    return any(has_cycle(x) for x in all_sets(tree) if x is not tree)


def needed(tree, given, out):
    """Types reachable from out (alias edges followed, injector arguments cut)."""
    direct, binds = resolver(tree, given)
    seen, todo = set(), [out]
    while todo:
        t = todo.pop()
        if t in seen:
            continue
        seen.add(t)
        if t in direct and direct[t][0] == "arg":
            continue
        if t in binds and t not in direct:
            todo.append(binds[t]["conc"])
        else:
            todo += deps_of(direct, binds, t)
    return seen, direct, binds


def missing(tree, given, out):
    seen, direct, binds = needed(tree, given, out)
    return {t for t in seen if t not in direct and t not in binds}


def unused_direct(tree, given, out):
    """Direct items of the root not contributing to out: list of (kind, id)."""
    seen, direct, binds = needed(tree, given, out)
    res = []
    def provided_by(x):
        ts = set()
        for t, src, path in flatten(x):
            ts.add(t)
        return ts
    for i in tree["imports"]:
        if not (provided_by(i) & seen):
            res.append(("DUnusedSet", i["id"]))
    for p in tree["providers"]:
        if not (set(p["outs"]) & seen):
            res.append(("DUnusedProv", p["id"]))
    for v in tree["values"]:
        if v["out"] not in seen:
            res.append(("DUnusedVal", v["id"]))
    for b in tree["bindings"]:
        if b["iface"] not in seen:
            res.append(("DUnusedBind", b["id"]))
    for f in tree["fields"]:
        if not (set(f["outs"]) & seen):
            res.append(("DUnusedField", f["id"]))
    return res


def misplaced_bindings(tree, given):
    """Bindings whose concrete type has no source in the very set where the binding appears (own items,
    injector parameters or anything a nested set provides).  A binding whose concrete type is only provided
    by another binding of the same level (a chain) is outside the documented form; such sets are reported
    separately by has_chained_bindings and skipped by the oracles."""
    bad = []
    for x in all_sets(tree):
        g = given if x is tree else None
        have = {t for t, src, path in flatten(x, g) if not (src[0] == "bind" and path == ())}
        for b in x["bindings"]:
            if b["conc"] not in have:
                bad.append(b["id"])
    return bad


def has_chained_bindings(tree):
    for x in all_sets(tree):
        ifaces = {b["iface"] for b in x["bindings"]}
        if any(b["conc"] in ifaces for b in x["bindings"]):
            return True
    return False


def well_formed(tree, given, out):
    return (not duplicates(tree, given) and not any(duplicates(x) for x in all_sets(tree) if x is not tree)
            and not any_set_cyclic(tree, given) and not misplaced_bindings(tree, given)
            and not missing(tree, given, out) and not unused_direct(tree, given, out))


def check_plan(tree, given, out, calls):
    """C02 on the implementation's own call list: every argument slot holds the designated source's type,
    every provider appears at most once, every step is needed, the last step produces the result."""
    seen, direct, binds = needed(tree, given, out)
    def res(t):
        guard = 0
        while t in binds and t not in direct and guard < 100:
            t = binds[t]["conc"]; guard += 1
        return t
    slots = list(given) + [c["out"] for c in calls]
    problems = []
    names = [(c["kind"], c["name"], c["out"]) for c in calls]
    if len(set(names)) != len(names):
        problems.append("a step occurs twice")
    for j, c in enumerate(calls):
        if c["out"] not in seen and res(c["out"]) not in {res(t) for t in seen}:
            problems.append("step %d (%s) is not needed by the result" % (j, c["name"]))
        want = c["ins"] if c["kind"] in (0, 1) else ([direct[c["out"]][1]["parent"]] if c["kind"] == 3 and c["out"] in direct and direct[c["out"]][0] == "field" else [])
        if c["kind"] in (0, 1, 3) and len(want) != len(c["args"]):
            problems.append("step %d has %d arguments for %d inputs" % (j, len(c["args"]), len(want)))
            continue
        for a, t in zip(c["args"], want):
            if a >= len(given) + j:
                problems.append("step %d uses a later slot" % j)
            elif slots[a] != res(t):
                problems.append("step %d argument of type %d is fed from a slot of type %d" % (j, t, slots[a]))
    if calls:
        if calls[-1]["out"] != res(out):
            problems.append("the last step does not produce the result type")
    elif res(out) not in given:
        problems.append("no step and the result is not a parameter")
    return problems
