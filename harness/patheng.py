"""Engine (C16/C13, import paths): qualifyImport's vendor stripping, isWireImport and importableFrom (the go command's
rule for internal packages) through the hook on generated paths (elements drawn from a pool with `vendor`, `internal`
and near-misses such as `govendor`, `internals`), against Paths.v by vm_compute and against the rule read directly."""
import random
from common import *

POOL = ["vendor", "vendor", "internal", "internal", "govendor", "vendors", "xvendor", "internals", "myinternal", "example.com", "github.com", "google", "wire",
        "a", "b", "lib", "app", "x"]


def rpath(rng, lo=1, hi=7):
    return [rng.choice(POOL) for _ in range(rng.randint(lo, hi))]


def cases(rng, n):
    out = [(["github.com", "google", "wire"], ["a"]), (["a", "vendor", "github.com", "google", "wire"], ["a"]), (["vendor", "github.com", "google", "wire"], ["a"]),
           (["github.com", "google", "wire", "internal", "wire"], ["github.com", "google", "wire"]), (["a", "vendor"], ["a"]), (["vendor"], ["a"]), (["internal"], ["a"]),
           (["a", "internal"], ["a", "b"]), (["a", "internal"], ["ab"]), (["a", "vendor", "b", "govendor", "c"], ["a"]), (["a", "internal", "b", "internal", "c"], ["a", "internal", "b", "z"]),
           (["a", "internal", "b", "internal", "c"], ["a", "z"])]
    while len(out) < n:
        p = rpath(rng)
        r = rng.random()
        if r < 0.45 and "internal" in p:
            i = len(p) - 1 - p[::-1].index("internal")
            f = p[:i] + (rpath(rng, 0, 2) if rng.random() < 0.7 else [])        # inside the tree
            if rng.random() < 0.3 and f:
                f[-1] = f[-1] + "x"                                             # a sibling whose name has the parent's as a prefix
        else:
            f = rpath(rng, 1, 4)
        if not f:
            f = ["a"]
        out.append((p, f))
    return out


def eng_paths(pid, tier, wd, known, replay=None):
    rng = random.Random(seed() * 613 + 1)
    cs = cases(rng, 400 if tier == "quick" else 4000)
    if replay is not None and replay.get("engine") == "paths" and replay.get("input", {}).get("path"):
        cs = [(replay["input"]["path"], replay["input"]["from"])]
    resps = hook([{"op": "pathprobe", "name": "/".join(p), "pkg": "/".join(f)} for p, f in cs])
    viol, terms = [], []
    stats = {"paths": len(cs), "with_vendor_dir": 0, "with_internal": 0, "not_importable": 0, "wire": 0}
    for i, ((p, f), r) in enumerate(zip(cs, resps)):
        if "panic" in r or "unvendored" not in r:
            viol.append(({"property": pid, "kind": "failing-input", "engine": "paths", "broken": "path logic crashed", "input": {"path": p, "from": f}, "impl": r,
                          "oracle": ["the path functions panicked"], "seed": seed()}, True))
            continue
        u = r["unvendored"].split("/") if r["unvendored"] else []
        # the rules, read directly (independently of Paths.v)
        idx = [j for j, e in enumerate(p) if e == "vendor" and j + 1 < len(p)]
        want_u = p[idx[-1] + 1:] if idx else p
        ii = [j for j, e in enumerate(p) if e == "internal"]
        want_imp = True if not ii else (ii[-1] > 0 and f[:ii[-1]] == p[:ii[-1]])
        stats["with_vendor_dir"] += int(bool(idx)); stats["with_internal"] += int(bool(ii)); stats["not_importable"] += int(not want_imp); stats["wire"] += int(bool(r["iswire"]))
        why = []
        if u != want_u:
            why.append("import path %s is filed under %s; without its vendor directories it is %s" % ("/".join(p), r["unvendored"], "/".join(want_u)))
        if bool(r["importable"]) != want_imp:
            why.append("importableFrom(%s, %s) = %s; the go command's rule for internal packages says %s" % ("/".join(p), "/".join(f), r["importable"], want_imp))
        if bool(r["iswire"]) != (want_u == ["github.com", "google", "wire"]):
            why.append("isWireImport(%s) = %s" % ("/".join(p), r["iswire"]))
        if why:
            viol.append(({"property": pid, "kind": "failing-input", "engine": "paths", "broken": "C16/C13 oracle on the path functions", "input": {"path": p, "from": f}, "impl": r, "oracle": why, "seed": seed()}, True))
        terms.append("(%d, %s, %s, %s, %s, %s)" % (i, coq_list([coq_str(e) for e in p]), coq_list([coq_str(e) for e in f]), coq_list([coq_str(e) for e in u]),
                                                 coq_bool(bool(r["importable"])), coq_bool(bool(r["iswire"]))))
    mism = []
    for sh_i in range(0, len(terms), 1000):
        fcoq = os.path.join(wd, "PCases_%d.v" % (sh_i // 1000))
        with open(fcoq, "w") as fh:
            fh.write("From Coq Require Import List String.\nFrom Wire Require Import Paths.\nImport ListNotations.\nOpen Scope string_scope.\n")
            fh.write("Definition cases : list pcase := [\n" + ";\n".join(terms[sh_i:sh_i + 1000]) + "\n].\n")
            fh.write("Definition M := Eval vm_compute in pmismatches cases.\nPrint M.\n")
        rc, out, err = coqc(fcoq)
        m = re.search(r"M\s*=\s*(\[.*?\])\s*:\s*list nat", out, re.S)
        if rc != 0 or not m:
            raise RuntimeError("coqc failed on %s: rc=%d\n%s\n%s" % (fcoq, rc, out[-2000:], err[-3000:]))
        mism += [int(x) for x in re.findall(r"\d+", m.group(1))]
    flagged = {json.dumps(v[0]["input"]) for v in viol}
    for i in mism[:6]:
        inp = {"path": cs[i][0], "from": cs[i][1]}
        if json.dumps(inp) not in flagged:
            viol.append(({"property": pid, "kind": "no-failing-input-found", "engine": "paths", "broken": "correspondence paths: Paths.v vs qualifyImport / importableFrom / isWireImport",
                          "input": inp, "impl": resps[i], "seed": seed()}, False))
    stats["model_vs_impl_mismatches"] = len(mism)
    return {"name": "paths", "evaluations": len(cs), "distinct_nontrivial": len({(tuple(p), tuple(f)) for p, f in cs}), "samples": [{"path": "/".join(cs[9][0]), "from": "/".join(cs[9][1])}],
            "traces": len(terms), "stats": stats,
            "rule": "import paths over a pool of elements with vendor / internal and near-misses through the hook (the key qualifyImport files a path under, importableFrom, isWireImport) "
                    "against Paths.v (vm_compute) and against the rules read directly",
            "violations": viol[:12], "known": []}
