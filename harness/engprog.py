"""Engine: whole programs through the real `wire` binary, the Go compiler and the tracing runtime, vs the
Coq pipeline model (Emit.generate1); property oracles on the implementation's observable behaviour."""
import random, re
from common import *
import synth, spec, prog, gencase, traceoracle


def special_progs(rng):
    """Hand-picked shapes that random generation reaches rarely."""
    out = []
    mk = synth.mkprov

    def P(tree, given, o, defect, **kw):
        p = prog.make_prog(rng, base=((tree, given, o), defect))
        p.update(kw)
        return p
    # injector declaring a cleanup although no provider has one (non-nil no-op closure)
    out.append(P(synth.mkset(0, [], [mk(1, 0, [2]), mk(2, 2, [])]), [], 0, "none:no-cleanup-providers", cleanup=True, err=False))
    out.append(P(synth.mkset(0, [], [mk(1, 0, [2], err=True), mk(2, 2, [])]), [], 0, "none:no-cleanup-providers-err", cleanup=True, err=True))
    # every cell of the injector-shape x provider-shape matrix, provider in dependency position
    for pc in (False, True):
        for pe in (False, True):
            for ic in (False, True):
                for ie in (False, True):
                    out.append(P(synth.mkset(0, [], [mk(1, 0, [2]), mk(2, 2, [], cleanup=pc, err=pe)]), [], 0,
                                 "sig-matrix", cleanup=ic, err=ie))
    # 12 cleanup+error providers in a chain (two-digit cleanup names)
    provs = [mk(i + 1, 2 * i, [2 * (i + 1)], cleanup=True, err=True) for i in range(12)] + [mk(13, 24, [], cleanup=True, err=True)]
    out.append(P(synth.mkset(0, [], provs), [], 0, "none:long-cleanup-chain", cleanup=True, err=True))
    # interface result bound to a value struct / to a pointer, with failing providers
    out.append(P(synth.mkset(0, [], [mk(1, 2, [4], err=True), mk(2, 4, [], cleanup=True)], [], [], [{"id": 1, "iface": 0, "conc": 2}]), [], 0, "none:iface-result-value", cleanup=True, err=True))
    out.append(P(synth.mkset(0, [], [mk(1, 3, [4], err=True), mk(2, 4, [], cleanup=True, err=True)], [], [], [{"id": 1, "iface": 0, "conc": 3}]), [], 0, "none:iface-result-ptr", cleanup=True, err=True))
    # result type identical to a parameter type, alone and with one superfluous item of each kind
    out.append(P(synth.mkset(0), [0], 0, "none:out-is-arg"))
    out.append(P(synth.mkset(0, [], [mk(1, 2, [])]), [0], 0, "unused:out-is-arg+provider"))
    out.append(P(synth.mkset(0, [], [], [{"id": 1, "out": 2}]), [0], 0, "unused:out-is-arg+value"))
    out.append(P(synth.mkset(0, [synth.mkset(1, [], [mk(1, 2, [])])]), [0], 0, "unused:out-is-arg+set"))
    # pass-through injectors: the result is an argument, directly or through a binding, while an earlier argument's
    # type also implements the interface
    q = P(synth.mkset(0, [], [], [], [], [{"id": 1, "iface": 0, "conc": 4}]), [2, 4], 0, "none:pass-through-bound", cleanup=False, err=False)
    q["extra_impl"] = {1: [0]}
    out.append(q)
    q = P(synth.mkset(0, [], [], [], [], [{"id": 1, "iface": 0, "conc": 5}]), [3, 5], 0, "none:pass-through-bound-ptr", cleanup=True, err=True)
    q["extra_impl"] = {1: [0]}
    out.append(q)
    q = P(synth.mkset(0), [2, 0], 0, "none:pass-through-iface-arg")
    q["kinds"] = {0: "iface"}; q["extra_impl"] = {1: [0]}
    out.append(q)
    # a value written in a library set that mentions an unexported field, under every injector signature
    for ic in (False, True):
        for ie in (False, True):
            q = P(synth.mkset(0, [synth.mkset(1, [], [], [{"id": 5, "out": 2}])], [mk(1, 0, [2])]), [], 0, "none+value-unexported:sig", cleanup=ic, err=ie)
            for x in spec.all_sets(q["tree"]):
                if x["id"] == 1:
                    x["pkg"] = 1; x.pop("inline", None)
                    for w in x["values"]:
                        w["unexported"] = True; w["ok"] = False
            q["type_pkg"] = {}
            out.append(q)
    # two anonymous inline sets in one Build, one of them contributing nothing
    sa = synth.mkset(1, [], [mk(1, 0, [])]); sb = synth.mkset(2, [], [mk(2, 2, [])])
    q = P(synth.mkset(0, [sa, sb]), [], 0, "unused:inline-set")
    for x in q["tree"]["imports"]:
        x["inline"] = True; x["pkg"] = 0
    out.append(q)
    # a binding whose concrete type is an interface type provided by a function; both consumed
    q = P(synth.mkset(0, [], [mk(1, 4, [0, 2]), mk(2, 2, [])], [], [], [{"id": 1, "iface": 0, "conc": 2}]), [], 4, "none:bind-to-interface-type")
    q["kinds"] = {0: "iface", 1: "iface"}
    out.append(q)
    q = P(synth.mkset(0, [], [mk(1, 4, [0]), mk(2, 2, [])], [], [], [{"id": 1, "iface": 0, "conc": 2}]), [], 4, "none:bind-to-interface-type-only-bound-used")
    q["kinds"] = {0: "iface", 1: "iface"}
    out.append(q)
    # binding direct in Build, concrete type reached before the interface
    out.append(P(synth.mkset(0, [], [mk(1, 3, []), mk(2, 4, [3, 0])], [], [], [{"id": 1, "iface": 0, "conc": 3}]), [], 4, "none:concrete-first"))
    out.append(P(synth.mkset(0, [], [mk(1, 3, []), mk(2, 4, [6, 0]), mk(3, 6, [3])], [], [], [{"id": 1, "iface": 0, "conc": 3}]), [], 4, "none:concrete-deep"))
    # binding to a type provided by a field, same set and nested set
    fld = {"id": 5, "parent": 6, "name": "F5", "outs": [2]}
    out.append(P(synth.mkset(0, [], [mk(1, 6, []), mk(2, 4, [0])], [], [fld], [{"id": 1, "iface": 0, "conc": 2}]), [], 4, "none:bind-to-field"))
    fld2 = {"id": 5, "parent": 7, "name": "F5", "outs": [2, 3]}
    out.append(P(synth.mkset(0, [synth.mkset(1, [], [mk(1, 7, [])], [], [fld2], [{"id": 1, "iface": 0, "conc": 3}])], [mk(2, 4, [0, 3])]), [], 4, "none:bind-to-ptrfield-nested"))
    # struct pointer form colliding with an earlier source of *T: via injector parameter and via imported set
    out.append(P(synth.mkset(0, [], [mk(1, [0, 1], [2], struct=True), mk(2, 2, []), mk(3, 4, [1])]), [1], 4, "dup:struct-ptr-vs-arg"))
    out.append(P(synth.mkset(0, [synth.mkset(1, [], [mk(4, 1, []), mk(2, 2, [])])], [mk(1, [0, 1], [2], struct=True), mk(3, 4, [1])]), [], 4, "dup:struct-ptr-vs-set"))
    # the same binding twice (same interface, same concrete), same call and nested
    b = {"id": 1, "iface": 0, "conc": 3}; b2 = {"id": 2, "iface": 0, "conc": 3}
    out.append(P(synth.mkset(0, [synth.mkset(1, [], [mk(1, 3, [])], [], [], [b, b2])], [mk(2, 4, [0])]), [], 4, "dup:same-bind-twice"))
    out.append(P(synth.mkset(0, [synth.mkset(2, [synth.mkset(1, [], [mk(1, 3, [])], [], [], [b])], [], [], [], [b2])], [mk(2, 4, [0])]), [], 4, "dup:same-bind-nested"))
    # a type whose derived local name is cleanup / cleanup2 / err, after and on a cleanup-returning provider
    for nm in ("Cleanup", "Cleanup2", "Err", "Cleanup3"):
        q = P(synth.mkset(0, [], [mk(1, 0, [2]), mk(2, 2, [4], cleanup=True, err=True), mk(3, 4, [], cleanup=True)]), [], 0, "none:name-" + nm, cleanup=True, err=True)
        q["names"] = {"types": {1: nm}, "params": None, "libname": None, "app_decls": []}; q["same_pkg_name"] = False
        out.append(q)
        q = P(synth.mkset(0, [], [mk(1, 0, [2, 4]), mk(2, 2, [], cleanup=True, err=True), mk(3, 4, [], cleanup=True, err=True)]), [], 0, "none:name2-" + nm, cleanup=True, err=True)
        q["names"] = {"types": {2: nm}, "params": None, "libname": None, "app_decls": []}; q["same_pkg_name"] = False
        out.append(q)
    # the error / cleanup variables next to an import of the name Wire would pick for them
    for libname, decl in (("err2", "err"), ("cleanup2", "cleanup"), ("err2", "f:err"), ("err3", "err")):
        q = P(synth.mkset(0, [], [mk(1, 0, [2, 4]), mk(2, 2, [], cleanup=True, err=True), mk(3, 4, [], cleanup=True, err=True)]), [], 0, "none:import-named-" + libname, cleanup=True, err=True)
        q["names"] = {"types": {}, "params": None, "libname": libname, "app_decls": [decl] + (["err2"] if libname == "err3" else [])}; q["same_pkg_name"] = False
        for x in spec.all_sets(q["tree"]):
            for pr in x["providers"]:
                pr["pkg"] = 1
        out.append(q)
    # a user-chosen parameter name equal to the name Wire invents for an earlier blank or renamed parameter
    for params, tnames in ((["_", "foo"], {1: "Foo"}), (["err", "err2"], {}), (["cleanup", "cleanup2"], {}), (["_", "t1"], {}), (["_", "_", "foo2"], {1: "Foo", 2: "Foo2"})):
        giv = [2, 4] if len(params) == 2 else [2, 4, 6]
        q = P(synth.mkset(0, [], [mk(1, 0, giv, cleanup=True, err=True)]), giv, 0, "none:param-names-" + "-".join(p or "blank" for p in params), cleanup=True, err=True)
        q["names"] = {"types": tnames, "params": params, "libname": None, "app_decls": []}; q["same_pkg_name"] = False
        out.append(q)
    # "*" struct provider with a field whose tag merely contains wire:"-" (not prevented) and whose type has no source
    for tag in ('firewire:"-"', 'json:"x" wire:"-"', 'wire:"-" json:"y"', 'xwire:"-" '):
        q = P(synth.mkset(0, [], [mk(1, [0, 1], [2], struct=True), mk(2, 2, [])]), [], 0, "tag:" + tag, cleanup=False, err=False)
        q["star"] = True
        q["extra_fields"] = {0: {"name": "X1", "t": 4, "tag": tag}}
        if not prog.Render.prevented(tag):
            for x in spec.all_sets(q["tree"]):
                for pr in x["providers"]:
                    if pr["struct"]:
                        pr["args"] = [2, 4]; pr["fields"] = ["F0", "X1"]
            q["defect"] = "missing:tag-not-prevented"
        out.append(q)
    # values of T and *T in one injector (two value variables derived from one type name)
    out.append(P(synth.mkset(0, [], [mk(1, 0, [2, 3])], [{"id": 5, "out": 2}, {"id": 6, "out": 3}]), [], 0, "none:two-values-one-name"))
    # two selected struct fields of one type, declared after a prevented field ("*") and after an unselected field (explicit list)
    def reset_struct(q, args):
        for x in spec.all_sets(q["tree"]):
            for pr in x["providers"]:
                if pr["struct"]:
                    pr["args"] = list(args); pr["fields"] = ["F%d" % i for i in range(len(args))]
                    pr.pop("_custom_lits", None); pr.pop("_lit_defect", None)
    q = P(synth.mkset(0, [], [mk(1, [0, 1], [2, 2], struct=True), mk(2, 2, [])]), [], 0, "dup-field:after-prevented", cleanup=False, err=False)
    q["star"] = True; q["extra_fields"] = {0: {"name": "X1", "t": 4, "tag": 'wire:"-"', "first": True}}; reset_struct(q, [2, 2])
    out.append(q)
    q = P(synth.mkset(0, [], [mk(1, [0, 1], [2, 2], struct=True), mk(2, 2, [])]), [], 0, "dup-field:after-unselected", cleanup=False, err=False)
    q["star"] = False; q["extra_fields"] = {0: {"name": "X1", "t": 4, "tag": "", "first": True}}; reset_struct(q, [2, 2])
    out.append(q)
    q = P(synth.mkset(0, [], [mk(1, [0, 1], [2, 4], struct=True), mk(2, 2, []), mk(3, 4, [])]), [], 0, "none:fields-after-prevented", cleanup=False, err=False)
    q["star"] = True; q["extra_fields"] = {0: {"name": "X1", "t": 2, "tag": 'wire:"-"', "first": True}}; reset_struct(q, [2, 4])
    out.append(q)
    def Pclean(*a, **kw):          # make_prog decorates at random (a duplicated parameter, ...): take an undecorated draw
        for _ in range(40):
            q = P(*a, **kw)
            if "+" not in q["defect"] and not q.get("names"):
                return q
        return q
    # blank fields: "*" skips them (their type is then needed by nobody else unless something consumes it), "_" names no field
    q = Pclean(synth.mkset(0, [], [mk(1, [0, 1], [2], struct=True), mk(2, 2, []), mk(3, 4, []), mk(4, 6, [0, 4])]), [], 6, "none:blank-field-star", cleanup=False, err=False)
    q["star"] = True; q["extra_fields"] = {0: {"name": "_", "t": 4, "tag": "", "first": False}}
    out.append(q)
    q = Pclean(synth.mkset(0, [], [mk(1, [0, 1], [2], struct=True), mk(2, 2, []), mk(3, 4, []), mk(4, 6, [1, 4])]), [], 6, "none:blank-field-first-star", cleanup=False, err=False)
    q["star"] = True; q["extra_fields"] = {0: {"name": "_", "t": 4, "tag": "", "first": True}}
    out.append(q)
    q = Pclean(synth.mkset(0, [], [mk(1, [0, 1], [2], struct=True), mk(2, 2, []), mk(3, 4, []), mk(4, 6, [0, 4])]), [], 6, "lit-unknown:blank-field-named", cleanup=False, err=False)
    q["star"] = False; q["extra_fields"] = {0: {"name": "_", "t": 4, "tag": "", "first": False}}
    for x in spec.all_sets(q["tree"]):
        for pr in x["providers"]:
            if pr["struct"]:
                pr["_custom_lits"] = ['"F0"', '"_"']; pr["_lit_defect"] = "unknown"
    q["defect"] = "none+lit-unknown"
    out.append(q)
    # a field name written in another letter case names no field (every property's run sees this one; random draws are rare)
    q = Pclean(synth.mkset(0, [], [mk(1, [0, 1], [2], struct=True), mk(2, 2, [])]), [], 0, "lit-case:struct-field-name", cleanup=False, err=False)
    q["star"] = False
    for x in spec.all_sets(q["tree"]):
        for pr in x["providers"]:
            if pr["struct"]:
                pr["_custom_lits"] = ['"f0"']; pr["_lit_defect"] = "case"
    q["defect"] = "none+lit-case"
    out.append(q)
    # both forms of a struct provider consumed by one injector: two separate fresh structs
    out.append(P(synth.mkset(0, [], [mk(1, [0, 1], [2], struct=True), mk(2, 2, []), mk(3, 4, [0, 1])]), [], 4, "none:struct-both-forms", cleanup=False, err=False))
    out.append(P(synth.mkset(0, [], [mk(1, [0, 1], [2], struct=True), mk(2, 2, []), mk(3, 4, [1, 0])]), [], 4, "none:struct-both-forms-ptr-first", cleanup=False, err=False))
    # two parameters of one separately written composite type
    out.append(P(synth.mkset(0, [], [mk(1, 0, [3, 3]), mk(2, 3, [])]), [], 0, "dup-param:pointer"))
    out.append(P(synth.mkset(0, [synth.mkset(1, [], [mk(1, 0, [2, 5, 5]), mk(2, 5, []), mk(3, 2, [])])]), [], 0, "dup-param:pointer-nested"))
    # cycles spanning imported sets with import-only parents; cycle through a binding not used by the injector
    s1 = synth.mkset(1, [], [mk(1, 0, [2])]); s2 = synth.mkset(2, [], [mk(2, 2, [0])]); s3 = synth.mkset(3, [], [mk(3, 4, [])])
    out.append(P(synth.mkset(0, [synth.mkset(4, [s1, s2, s3])]), [], 4, "cycle:across-imports-unused"))
    out.append(P(synth.mkset(0, [s1, s2, s3]), [], 4, "cycle:across-imports-direct"))
    out.append(P(synth.mkset(0, [synth.mkset(1, [], [mk(1, 3, [4]), mk(2, 4, [0]), mk(3, 6, [])], [], [], [{"id": 1, "iface": 0, "conc": 3}])]), [], 6, "cycle:via-binding-unused"))
    return [p for p in out if not prog.renderable(p)]


def gen_progs(rng, n, pid):
    progs, skipped = [], {}
    for p in special_progs(rng):
        progs.append(p)
    while len(progs) < n:
        opts = {}
        if pid in ("C03", "C04", "C02"):
            opts["full_sig"] = rng.random() < 0.8
        if pid == "C12":
            opts["lit_p"] = 0.35
        if pid == "C06":
            opts["lit_p"] = 0.2
        if pid in ("C09", "C12"):
            opts["dup_field_p"] = 0.15
        if pid in ("C11", "C02"):
            opts["iface_conc_p"] = 0.35
        if pid in ("C13", "C01", "C19"):
            opts["unexported_p"] = 0.3
        if pid in ("C01", "C19", "C10"):
            opts["unexp_prov_p"] = 0.2
        if pid == "C19":
            opts["full_sig"] = rng.random() < 0.6
        if pid in ("C14", "C01"):
            opts["names_p"] = 0.9 if pid == "C14" else 0.5
        if pid in ("C13", "C01", "C10", "C15"):
            opts["same_pkg_p"] = 0.35
        if pid in ("C01", "C14", "C10", "C13", "C16"):
            opts["lib2_p"] = 0.55
        if pid in ("C05", "C10"):
            opts["dupset_p"] = 0.08
        if pid in ("C08", "C10"):
            opts["inline_p"] = 0.5
        p = prog.make_prog(rng, opts=opts)
        why = prog.renderable(p)
        if why:
            skipped[why] = skipped.get(why, 0) + 1
            continue
        progs.append(p)
    return progs, skipped


def prog_oracle(pid, p, r, o):
    """Property pid read directly on what the implementation did with program p."""
    tree, given, out = p["tree"], p["given"], p["out"]
    msgs = []
    if o.get("crash"):
        msgs.append("wire crashed or hung on this type-correct program: " + o["crash"][:300])
        return msgs
    accepted = bool(o["generated"])
    ds = synth.parse_errors(tree, o["errors"], parse_t=gencase.ptid_for(r), strip=gencase.strip_for(r)) if not accepted else []
    set_errs = [d for d in ds if d[0] in ("DMulti", "DBindMissing", "DCycle", "DItem", "DUnparsed")]
    solve_errs = [d for d in ds if d[0] == "DNoProvider" or d[0].startswith("DUnused")]
    inj_errs = [d for d in ds if d[0] in ("DNeedsCleanup", "DNeedsErr", "DValueAccess", "DProvAccess")]
    set_ok = accepted or not set_errs
    if pid in ("C05", "C06", "C07", "C08", "C09", "C10", "C11", "C12"):
        msgs += props_oracle_core(pid, (tree, given, out), accepted, set_ok, set_errs, solve_errs, None,
                                  sig=(p["cleanup"], p["err"]), inject_errs=inj_errs)
    if pid in ("C13", "C01") and accepted:
        seen_t, _, _ = spec.needed(tree, given, out)
        bad = [v["id"] for x in spec.all_sets(tree) for v in x["values"] if v.get("unexported") and v["out"] in seen_t]
        if bad:
            msgs.append("value expressions %s mention an unexported field of another package, yet generation succeeded" % bad)
    if pid in ("C01", "C19", "C10") and accepted:
        seen_t, direct_t, _ = spec.needed(tree, given, out)
        badp = sorted({q["id"] for x in spec.all_sets(tree) for q in x["providers"] if q.get("unexp") and any(t in seen_t and direct_t.get(t, ("", None))[0] == "prov" and direct_t[t][1]["id"] == q["id"] for t in q["outs"])})
        if badp:
            msgs.append("providers %s are unexported functions of another package that the injector must call, yet generation succeeded" % badp)
    if accepted:
        if "build_error" in o:
            msgs.append("wire gen succeeded but the package does not compile: " + o["build_error"][:400])
        if "readback" in o and o["readback"].get("error"):
            msgs.append("the generated file does not parse: " + o["readback"]["error"][:300])
        elif "readback" in o and pid in ("C01", "C02", "C03", "C04", "C14"):
            fn = [f for f in (o["readback"].get("funcs") or []) if f["name"] == "Inject"]
            if len(fn) != 1:
                msgs.append("expected exactly one generated implementation of Inject, found %d" % len(fn))
    if accepted and "runs" in o:
        if pid == "C02":
            msgs += traceoracle.check_c02(p, r, o["runs"])
        elif pid == "C03":
            msgs += traceoracle.check_c03(p, r, o["runs"])
        elif pid == "C04":
            msgs += traceoracle.check_c04(p, r, o["runs"])
        elif pid in ("C11", "C12"):
            # every consumer of a bound interface sees the very value supplied for the concrete type
            msgs += [m for m in traceoracle.check_c02(p, r, o["runs"])]
    if accepted and o.get("run_crash") and pid in ("C02", "C03", "C04"):
        msgs.append("the compiled injector crashed at run time: " + o["run_crash"][-300:])
    return msgs


props_oracle_core = None   # set by props.py (avoids a circular import)


def eng_prog(pid, tier, wd, known, replay=None):
    rng = random.Random(seed() * 104729 + 5)
    if replay is not None and replay.get("input", {}).get("prog"):
        rp = replay["input"]["prog"]
        rp["kinds"] = {int(k): v for k, v in (rp.get("kinds") or {}).items()}
        rp["extra_fields"] = {int(k): v for k, v in (rp.get("extra_fields") or {}).items()}
        rp["extra_impl"] = {int(k): v for k, v in (rp.get("extra_impl") or {}).items()}
        rp["type_pkg"] = {int(k): v for k, v in (rp.get("type_pkg") or {}).items()}
        progs, skipped = [rp], {}
    else:
        n = 260 if tier == "quick" else 2500
        progs, skipped = gen_progs(rng, n, pid)
    viol = []
    stats = {"skipped_unrenderable": skipped, "defects": {}, "outcomes": {}}
    mism_total = 0
    ntraces = 0
    nontrivial = set()
    samples = []
    B = 400
    for b0 in range(0, len(progs), B):
        chunk = progs[b0:b0 + B]
        obs, renders, root = prog.run_batch(chunk, wd, tag="p%d" % b0, want_run=True)
        keep = [i for i, o in enumerate(obs) if "invalid_go" not in o]
        stats["invalid_go_renderings_dropped"] = stats.get("invalid_go_renderings_dropped", 0) + len(obs) - len(keep)
        chunk = [chunk[i] for i in keep]; renders = [renders[i] for i in keep]; obs = [obs[i] for i in keep]
        if pid == "C19":
            # `wire check ./...` next to `wire gen ./...`: the same packages must fail
            tools = build_tools()
            for k2 in range(len(obs)):
                g2 = os.path.join(root, "c%d" % keep[k2], "app", "wire_gen.go")
                if os.path.exists(g2):
                    os.remove(g2)
            cp = sh([tools["wire"], "check", "./..."], cwd=root, env=GOENV, timeout=900)
            chk_bad = set(int(x) for x in re.findall(r"/c(\d+)/", cp.stderr))
            gen_bad = {keep[k2] for k2, o in enumerate(obs) if not o["generated"]}
            stats["check_vs_gen"] = {"gen_rejects": len(gen_bad), "check_rejects": len(chk_bad)}
            for i2 in sorted(chk_bad ^ gen_bad)[:5]:
                if i2 in keep:
                    j2 = keep.index(i2)
                    viol.append(({"property": pid, "kind": "failing-input", "broken": "C19 oracle: check vs gen on a generated program",
                                  "input": {"prog": chunk[j2]}, "rendered_files": renders[j2].files(),
                                  "impl": {"gen_errors": obs[j2]["errors"], "check_says_bad": i2 in chk_bad},
                                  "oracle": ["wire check %s this package, wire gen %s it" % ("rejects" if i2 in chk_bad else "accepts", "rejects" if i2 in gen_bad else "accepts")], "seed": seed()}, True))
        mism, kinds = gencase.run_gcases(chunk, renders, obs, wd, "p%d" % b0)
        mism_total += len(mism)
        for i, (p, r, o) in enumerate(zip(chunk, renders, obs)):
            d = p["defect"].split("+")[0].split(":")[0]
            stats["defects"][d] = stats["defects"].get(d, 0) + 1
            k = kinds[i][0]
            stats["outcomes"][k] = stats["outcomes"].get(k, 0) + 1
            ntraces += len(o.get("runs", {}))
            nitems = sum(len(x["providers"]) + len(x["values"]) + len(x["fields"]) + len(x["bindings"]) for x in spec.all_sets(p["tree"]))
            if nitems >= 2:
                nontrivial.add(json.dumps([p["tree"], p["given"], p["out"], p["cleanup"], p["err"]], sort_keys=True))
            why = prog_oracle(pid, p, r, o)
            if i in mism or why:
                files = r.files()
                payload = {"property": pid, "kind": "failing-input" if why else "no-failing-input-found",
                           "broken": ("correspondence prog: Emit.generate1 vs wire gen" if i in mism else "property oracle on the implementation (model agrees with the implementation)"),
                           "input": {"prog": p}, "rendered_files": files,
                           "impl": {"errors": o["errors"], "generated": o.get("gen_text"), "build_error": o.get("build_error"), "runs": o.get("runs")},
                           "model": gencase.model_output(p, r, o, wd)[-2500:] if i in mism else None,
                           "oracle": why, "seed": seed()}
                if len(viol) < 12:
                    viol.append((payload, bool(why)))
            if len(samples) < 3 and o["generated"] and len(o.get("runs", {})) > 1:
                samples.append({"prog": {"tree": p["tree"], "given": p["given"], "out": p["out"], "cleanup": p["cleanup"], "err": p["err"]},
                                "generated_lines": gencase.observed_lines(o["readback"])[0], "runs": o["runs"]})
        shutil.rmtree(root, ignore_errors=True)
    stats["model_vs_impl_mismatches"] = mism_total
    return {"name": "prog", "evaluations": len(progs), "distinct_nontrivial": len(nontrivial), "samples": samples, "traces": ntraces,
            "stats": stats,
            "rule": "whole Go programs rendered from abstract provider-set trees (hand-picked shapes + seeded random mostly-valid with one defect, random packaging/"
                    "spelling), run through the real `wire gen`, go build and the tracing runtime under every single-provider failure; the model's error classes or "
                    "emitted injector lines (names, imports, statements) compared by vm_compute; non-trivial = distinct program with >= 2 items",
            "violations": viol, "known": []}
