"""Engine: the wire command line (gen / diff / check / show) on a small multi-package workspace: exit status,
file-system footprint, histories; compared with coq/Cli.v by vm_compute and read against C16-C19 directly."""
import hashlib, itertools, random
from common import *

HDR = "//go:build wireinject\n// +build wireinject\n\npackage %s\n\nimport \"github.com/google/wire\"\n\n"
PKGS = {
    "ok1": {"p.go": "package ok1\n\ntype A struct{ N int }\n\nfunc NewA() A { return A{N: 1} }\n",
            "wire.go": HDR % "ok1" + "func InitA() A {\n\tpanic(wire.Build(NewA))\n}\n"},
    "ok2": {"p.go": "package ok2\n\ntype A struct{ N int }\ntype B struct{ A A }\n\nfunc NewA() (A, func(), error) { return A{N: 1}, func() {}, nil }\nfunc NewB(a A) B { return B{A: a} }\n",
            "wire.go": HDR % "ok2" + "func InitA() (A, func(), error) {\n\tpanic(wire.Build(NewA))\n}\n\nfunc InitB() (B, func(), error) {\n\tpanic(wire.Build(NewA, NewB))\n}\n"},
    "ok3": {"p.go": "package ok3\n\ntype Z struct{ N int }\n\nfunc NewZ() Z { return Z{N: 3} }\n",
            "wire.go": HDR % "ok3" + "func InitZ() Z {\n\tpanic(wire.Build(NewZ))\n}\n"},
    "bad": {"p.go": "package bad\n\ntype A struct{ N int }\ntype B struct{ A A }\n\nfunc NewB(a A) B { return B{A: a} }\n",
            "wire.go": HDR % "bad" + "func InitB() B {\n\tpanic(wire.Build(NewB))\n}\n"},
    "noinj": {"p.go": "package noinj\n\nimport _ \"embed\"\n\ntype A struct{ N int }\n\nfunc NewA() A { return A{N: 1} }\n"},
    # only test files: nothing is compiled into the package, it has no injectors and no error
    "tonly": {"x_test.go": "package tonly\n\nimport \"testing\"\n\nfunc TestX(t *testing.T) {}\n"},
    "needs": {"p.go": "package needs\n\ntype A struct{ N int }\n\nfunc NewA() (A, error) { return A{N: 1}, nil }\n",
              "wire.go": HDR % "needs" + "func InitA() A {\n\tpanic(wire.Build(NewA))\n}\n"},
    "nores": {"p.go": "package nores\n\ntype A struct{ N int }\n\nfunc NewA() A { return A{N: 1} }\n",
              "wire.go": HDR % "nores" + "func InitA() {\n\tpanic(wire.Build(NewA))\n}\n"},
    "showp": {"p.go": "package showp\n\nimport \"github.com/google/wire\"\n\ntype DSN string\ntype Flags int\ntype Port int\ntype Config struct{ Port Port }\ntype In struct{ Name Name }\ntype Name string\ntype Clock struct{}\n\n"
                      "func NewConfig(d DSN, f Flags) Config { return Config{} }\nfunc NewClock() Clock { return Clock{} }\n\n"
                      "var Set = wire.NewSet(NewConfig, wire.FieldsOf(new(Config), \"Port\"), NewClock, wire.FieldsOf(new(In), \"Name\"))\n"},
    # an alias of the marker type next to a set declared with it: gen accepts, so must check and show
    "aliasps": {"p.go": "package aliasps\n\nimport \"github.com/google/wire\"\n\ntype PS = wire.ProviderSet\n\ntype A struct{ N int }\n\nfunc NewA() A { return A{N: 1} }\n\nvar S PS = wire.NewSet(NewA)\n",
                "wire.go": HDR % "aliasps" + "func InitA() A {\n\tpanic(wire.Build(S))\n}\n"},
    # an injector template written as a method, with a missing input: gen refuses it, so must check
    "methbad": {"p.go": "package methbad\n\ntype F struct{}\ntype B struct{ N int }\n\nfunc NewB(n int) B { return B{N: n} }\n",
                "wire.go": HDR % "methbad" + "func (F) MakeB() B {\n\tpanic(wire.Build(NewB))\n}\n"},
    "cyc": {"p.go": "package cyc\n\nimport \"github.com/google/wire\"\n\ntype A struct{ N int }\ntype B struct{ N int }\n\nfunc NewA(b B) A { return A{} }\nfunc NewB(a A) B { return B{} }\nfunc NewC() int { return 1 }\n\nvar Unused = wire.NewSet(NewA, NewB)\n",
            "wire.go": HDR % "cyc" + "func InitC() int {\n\tpanic(wire.Build(NewC))\n}\n"},
}
# packages whose provider sets share variable names across packages (`wire show` lists included sets)
SHOW_PKGS = {
    "shbase": {"p.go": "package shbase\n\nimport \"github.com/google/wire\"\n\ntype Base struct{ N int }\n\nfunc NewBase() Base { return Base{N: 7} }\n\nvar Set = wire.NewSet(NewBase)\n"},
    "shstore": {"p.go": "package shstore\n\nimport (\n\t\"example.com/w/shbase\"\n\t\"github.com/google/wire\"\n)\n\ntype Store struct{ B shbase.Base }\n\n"
                        "func NewStore(b shbase.Base) Store { return Store{B: b} }\n\nvar Set = wire.NewSet(shbase.Set, NewStore)\n"},
    "shcache": {"p.go": "package shcache\n\nimport \"github.com/google/wire\"\n\ntype Cache struct{ N int }\n\nfunc NewCache() Cache { return Cache{N: 3} }\n\nvar Providers = wire.NewSet(NewCache)\n"},
    "shapp": {"p.go": "package shapp\n\nimport (\n\t\"example.com/w/shcache\"\n\t\"example.com/w/shstore\"\n\t\"github.com/google/wire\"\n)\n\ntype App struct {\n\tS shstore.Store\n\tC shcache.Cache\n}\n\n"
                      "func NewApp(s shstore.Store, c shcache.Cache) App { return App{S: s, C: c} }\n\nvar Set = wire.NewSet(shstore.Set, shcache.Providers, NewApp)\n\nvar Providers = wire.NewSet(Set)\n",
              "wire.go": HDR % "shapp" + "func Init() App {\n\tpanic(wire.Build(Set))\n}\n"},
    # a set re-exported under another name by a package that does not even import wire
    "shre": {"p.go": "package shre\n\nimport \"example.com/w/shstore\"\n\nvar ReExport = shstore.Set\n"},
}
# source variants of one package for the histories
VARIANTS = {
    1: {"p.go": "package h\n\ntype A struct{ N int }\ntype B struct{ A A }\n\nfunc NewA() A { return A{N: 1} }\nfunc NewB(a A) B { return B{A: a} }\n",
        "wire.go": HDR % "h" + "func InitA() A {\n\tpanic(wire.Build(NewA))\n}\n\nfunc InitB() B {\n\tpanic(wire.Build(NewA, NewB))\n}\n"},
    2: {"p.go": "package h\n\ntype A struct{ N int }\ntype B struct{ A A }\n\nfunc NewA() A { return A{N: 1} }\nfunc NewB(a A) B { return B{A: a} }\n",
        "wire.go": HDR % "h" + "func initA() A {\n\tpanic(wire.Build(NewA))\n}\n"},
    3: {"p.go": "package h\n\ntype A struct{ N int }\ntype B struct{ A A }\n\nfunc NewA() A { return A{N: 1} }\nfunc NewB(a A) B { return B{A: a} }\n",
        "wire.go": HDR % "h" + "func InitB() B {\n\tpanic(wire.Build(NewB))\n}\n"},
    4: {"p.go": "package h\n\ntype A struct{ N int }\ntype B struct{ A A }\n\nfunc NewA() A { return A{N: 1} }\nfunc NewB(a A) B { return B{A: a} }\n",
        "wire.go": HDR % "h" + "func InitA() A {\n\tpanic(wire.Build(NewA))\n}\n"},
    # ten values in one injector: the order of the value variables is part of the file
    5: {"p.go": "package h\n\n" + "".join("type V%d int\n" % i for i in range(10)) + "\ntype All struct {\n" + "".join("\tF%d V%d\n" % (i, i) for i in range(10)) + "}\n",
        "wire.go": HDR % "h" + "func InitAll() All {\n\tpanic(wire.Build(wire.Struct(new(All), \"*\"), " + ", ".join("wire.Value(V%d(%d))" % (i, i) for i in (3, 7, 1, 9, 0, 5, 2, 8, 4, 6)) + "))\n}\n"},
}
TAGSETS = [(), ("-tags=dev",), ("-tags=dev qa",)]
GARBAGE = "//go:build !wireinject\n// +build !wireinject\n\nthis is not go at all {{{\n" + "\n".join("// filler line %d" % i for i in range(80)) + "\n"
STALE = "//go:build !wireinject\n// +build !wireinject\n\npackage %s\n\nfunc Stale() int { return 42 }\n\n" + "\n".join("// stale filler %d" % i for i in range(60)) + "\n"
NONCOMP = "//go:build !wireinject\n// +build !wireinject\n\npackage %s\n\nfunc Broken() int { return undefinedName }\n"


_ids = {}


def sha(b):
    """A small content id (contents are compared by identity only)."""
    h = hashlib.sha1(b if isinstance(b, bytes) else b.encode()).hexdigest()
    if h not in _ids:
        _ids[h] = len(_ids) + 1
    return _ids[h]


def snapshot(root):
    snap = {}
    for d, _, fs in os.walk(root):
        for f in fs:
            p = os.path.join(d, f)
            snap[os.path.relpath(p, root)] = sha(open(p, "rb").read())
    return snap


def write_ws(root, pkgs):
    os.makedirs(root, exist_ok=True)
    open(os.path.join(root, "go.mod"), "w").write("module example.com/w\n\ngo 1.21\n\nrequire github.com/google/wire v0.1.0\n\nreplace github.com/google/wire => %s\n" % REPO)
    shutil.copy(os.path.join(REPO, "go.sum"), os.path.join(root, "go.sum"))
    for name, files in pkgs.items():
        os.makedirs(os.path.join(root, name), exist_ok=True)
        for f, t in files.items():
            open(os.path.join(root, name, f), "w").write(t)


def wire(root, args, cwd=None):
    t = build_tools()
    try:
        p = sh([t["wire"]] + args, cwd=cwd or root, env=GOENV, timeout=90, mem_gb=8)
    except subprocess.TimeoutExpired:
        return 124, "", "timeout: wire %s did not finish within 90s" % " ".join(args[:2])
    return p.returncode, p.stdout, p.stderr


def reference(wd, pkg_files, pkgname, opts=()):
    """Content a fresh checkout gets for one package (None if rejected or nothing to generate)."""
    root = scratch("ref")
    try:
        write_ws(root, {pkgname: pkg_files})
        if any(o.startswith("-header_file") for o in opts):
            open(os.path.join(root, "hdr.txt"), "w").write("// HEADER LINE\n")
        rc, out, err = wire(root, ["gen"] + [o.replace("HDR", os.path.join(root, "hdr.txt")) for o in opts] + ["./" + pkgname])
        prefix = ""
        for o in opts:
            if o.startswith("-output_file_prefix="):
                prefix = o.split("=", 1)[1]
        p = os.path.join(root, pkgname, prefix + "wire_gen.go")
        content = open(p, "rb").read() if os.path.exists(p) else None
        return rc, content
    finally:
        shutil.rmtree(root, ignore_errors=True)


def r_opt(x):
    return "None" if x is None else "(Some %d)" % x


def eng_cli(pid, tier, wd, known, replay=None):
    rng = random.Random(seed() * 31 + 7)
    viol, knownl, samples = [], [], []
    kf = {k["key"]: k for k in known if k.get("status") == "finding"}
    stats = {"invocations": 0, "history_steps": 0, "mismatches": 0}
    coq_cases, coq_obs, descs = [], [], []
    names = ["ok1", "ok2", "bad", "noinj", "needs", "tonly", "ok3"]
    # what the sources say, independently of the tool: does the package analyse cleanly?
    clean = {"ok1": True, "ok2": True, "bad": False, "noinj": True, "needs": False, "tonly": True, "ok3": True}
    optsets = [(), ("-output_file_prefix=zz_",), ("-header_file=HDR",), ("-tags=foo",), ("-tags=foo bar",)]
    ref = {}
    for o in optsets:
        for n in names:
            ref[(n, o)] = reference(wd, PKGS[n], n, o)
            if (ref[(n, o)][0] == 0) != clean[n] or ((ref[(n, o)][1] is not None) != (clean[n] and "wire.go" in PKGS[n])):
                viol.append(({"property": pid, "kind": "failing-input", "broken": "C17 oracle on the wire binary: one package alone", "input": {"invocation": {"cmd": "gen", "pkgs": [n], "opts": list(o)}},
                              "impl": {"exit": ref[(n, o)][0], "wrote_output": ref[(n, o)][1] is not None},
                              "oracle": ["package %s %s and %s injectors, but wire gen on it alone exits %d and %s" % (
                                  n, "analyses cleanly" if clean[n] else "has an error", "has" if "wire.go" in PKGS[n] else "has no", ref[(n, o)][0],
                                  "writes an output file" if ref[(n, o)][1] is not None else "writes nothing")], "seed": seed()}, True))
    pathid = {n: i + 1 for i, n in enumerate(names)}

    def check_case(cmd, pkgs, opts, prior, form="explicit", bad_header=False, bad_pattern=False):
        root = scratch("cli")
        try:
            write_ws(root, {n: PKGS[n] for n in names})
            open(os.path.join(root, "hdr.txt"), "w").write("// HEADER LINE\n")
            prefix = ""
            for o in opts:
                if o.startswith("-output_file_prefix=") and cmd == "gen":
                    prefix = o.split("=", 1)[1]
            fs0 = {}
            for n in pkgs:
                st = prior.get(n, "absent")
                p = os.path.join(root, n, prefix + "wire_gen.go")
                rc0, c0 = ref[(n, opts)]
                if st == "equal" and c0 is not None:
                    open(p, "wb").write(c0)
                elif st == "stale":
                    open(p, "w").write(STALE % n)
                elif st == "garbage":
                    open(p, "w").write(GARBAGE)
                elif st == "crlf" and c0 is not None:
                    open(p, "wb").write(c0.replace(b"\n", b"\r\n"))      # the expected output with other line endings
                elif st == "trailing" and c0 is not None:
                    open(p, "wb").write(c0 + b"\n")
                if os.path.exists(p):
                    fs0[n] = sha(open(p, "rb").read())
            for n in pkgs:          # a file of the user's next to the output, named like a temporary of it
                open(os.path.join(root, n, prefix + "wire_gen.go.tmp"), "w").write("user notes, not Wire's\n")
            before = snapshot(root)
            o2 = [o.replace("HDR", "/nonexistent/hdr" if bad_header else os.path.join(root, "hdr.txt")) for o in opts]
            if cmd == "diff":
                o2 = [o for o in o2 if not o.startswith("-output_file_prefix")]
            pats = ["./" + n for n in pkgs] + (["./doesnotexist"] if bad_pattern else [])
            args = ([cmd] if form == "explicit" else []) + o2 + pats
            rc, out, err = wire(root, args)
            after = snapshot(root)
            stats["invocations"] += 1
            changed = sorted(k for k in set(before) | set(after) if before.get(k) != after.get(k))
            outs = []
            for n in pkgs:
                rc0, c0 = ref[(n, opts)]
                outs.append("(mkPkg %d %s %s)" % (pathid[n], coq_bool(rc0 != 0), r_opt(sha(c0) if c0 else None)))
            fsl = coq_list(["(%d, %d)" % (pathid[n], c) for n, c in fs0.items()])
            coq_cases.append("(%d, %s, %s, %s, %s)" % (0 if cmd == "gen" else 1, coq_bool(bad_header), coq_bool(bad_pattern), coq_list(outs), fsl))
            obs_fs = []
            for n in pkgs:
                p = os.path.join(root, n, prefix + "wire_gen.go")
                obs_fs.append("(%d, %s)" % (pathid[n], r_opt(sha(open(p, "rb").read()) if os.path.exists(p) else None)))
            coq_obs.append("(%d, %s)" % (rc, coq_list(obs_fs)))
            d = {"cmd": cmd, "pkgs": pkgs, "opts": list(opts), "prior": prior, "form": form, "bad_header": bad_header, "bad_pattern": bad_pattern,
                 "exit": rc, "changed_files": changed, "stderr": err[-600:]}
            descs.append(d)
            # model-free oracle (C17 wording)
            why = []
            # "has injectors" is read off the sources (a package of PKGS has injectors iff it has a wire.go), not off what the tool wrote
            allowed = {os.path.join(n, prefix + "wire_gen.go") for n in pkgs if "wire.go" in PKGS[n] and ref[(n, opts)][0] == 0} if cmd == "gen" else set()
            if set(changed) - allowed:
                why.append("%s modified files outside its contract: %s" % (cmd, sorted(set(changed) - allowed)))
            anyerr = any(ref[(n, opts)][0] != 0 for n in pkgs) or bad_pattern
            if cmd == "gen":
                if (rc == 0) != (not anyerr and not bad_header):
                    why.append("gen exit %d but packages with errors: %s" % (rc, anyerr))
                if not bad_pattern and not bad_header:
                    for n in pkgs:
                        rc0, c0 = ref[(n, opts)]
                        p = os.path.join(root, n, prefix + "wire_gen.go")
                        if rc0 == 0 and c0 is not None and (not os.path.exists(p) or open(p, "rb").read() != c0):
                            why.append("package %s analysed cleanly but its output was not written as a fresh generation would" % n)
            elif cmd == "diff":
                differs = any(ref[(n, opts)][1] is not None and fs0.get(n) != sha(ref[(n, opts)][1]) for n in pkgs)
                want = 2 if (anyerr or bad_header) else (1 if differs else 0)
                if rc != want:
                    why.append("diff exit %d, contract says %d" % (rc, want))
            return d, why
        finally:
            shutil.rmtree(root, ignore_errors=True)

    cases = []
    priors = ["absent", "equal", "stale", "garbage"]
    for pk in [["ok1"], ["bad"], ["noinj"], ["needs"], ["ok1", "bad"], ["bad", "ok1"], ["ok2", "bad", "ok1"], ["ok1", "ok2", "noinj"], ["bad", "needs"], ["tonly"], ["ok1", "tonly"], ["tonly", "bad", "ok2"]]:
        for cmd in ("gen", "diff"):
            for pr in priors if (tier == "thorough" or len(pk) <= 2) else ["absent", "stale"]:
                cases.append((cmd, pk, (), {n: pr for n in pk}))
    for o in optsets[1:]:
        for cmd in ("gen", "diff"):
            cases.append((cmd, ["ok1", "bad"], o, {"ok1": "stale", "bad": "stale"}))
            cases.append((cmd, ["ok2"], o, {"ok2": "equal"}))
            cases.append((cmd, ["noinj"], o, {"noinj": "absent"}))
            cases.append((cmd, ["ok1", "noinj", "bad"], o, {"ok1": "absent", "noinj": "absent", "bad": "absent"}))
    # several small packages written in one invocation, with and without a (short) header
    for o in ((), ("-header_file=HDR",)):
        cases.append(("gen", ["ok1", "ok3"], o, {"ok1": "absent", "ok3": "absent"}))
        cases.append(("gen", ["ok3", "noinj", "ok1", "ok2"], o, {"ok1": "stale", "ok3": "absent", "ok2": "equal"}))
        cases.append(("diff", ["ok1", "ok3"], o, {"ok1": "equal", "ok3": "equal"}))
        cases.append(("diff", ["ok3", "ok1"], o, {"ok1": "equal", "ok3": "equal"}))
    # mixed priors: stale + failing in one invocation (status priority), equal + stale
    cases.append(("diff", ["bad", "ok1"], (), {"ok1": "stale"}))
    cases.append(("diff", ["ok1", "bad"], (), {"ok1": "absent"}))
    cases.append(("diff", ["ok1", "ok2"], (), {"ok1": "equal", "ok2": "stale"}))
    cases.append(("diff", ["ok1", "ok2"], (), {"ok1": "equal", "ok2": "equal"}))
    # ... the differing / absent output is not the last one compared
    cases.append(("diff", ["ok1", "ok2"], (), {"ok1": "stale", "ok2": "equal"}))
    cases.append(("diff", ["ok1", "ok2"], (), {"ok1": "absent", "ok2": "equal"}))
    cases.append(("diff", ["ok2", "noinj", "ok1"], (), {"ok2": "stale", "ok1": "equal"}))
    cases.append(("diff", ["ok2", "ok1", "tonly"], (), {"ok2": "equal", "ok1": "absent"}))
    cases.append(("diff", ["ok1", "ok2"], ("-header_file=HDR",), {"ok1": "trailing", "ok2": "equal"}))
    # near-misses of the expected output: other line endings, one more newline
    for near in ("crlf", "trailing"):
        cases.append(("diff", ["ok1"], (), {"ok1": near}))
        cases.append(("diff", ["ok1", "ok2"], (), {"ok1": "equal", "ok2": near}))
        cases.append(("gen", ["ok1"], (), {"ok1": near}))
        cases.append(("diff", ["ok2"], ("-header_file=HDR",), {"ok2": near}))
    for (cmd, pk, o, pr) in cases:
        d, why = check_case(cmd, pk, o, pr)
        if why:
            viol.append(({"property": pid, "kind": "failing-input", "broken": "C17 oracle on the wire binary", "input": {"invocation": d}, "oracle": why, "seed": seed()}, True))
    # a header file that is not a Go comment: formatting fails for every package (exit 1); whatever is written into a
    # package's directory must at least be that package's text
    root = scratch("cli")
    try:
        write_ws(root, {n: PKGS[n] for n in ("ok1", "ok3", "ok2")})
        open(os.path.join(root, "hdr.txt"), "w").write("Copyright nobody\n")
        rc, out, err = wire(root, ["gen", "-header_file=" + os.path.join(root, "hdr.txt"), "./ok1", "./ok3", "./ok2"])
        stats["invocations"] += 1
        why = []
        if rc == 0:
            why.append("gen exits 0 although the output of no package could be formatted")
        for n in ("ok1", "ok3", "ok2"):
            p = os.path.join(root, n, "wire_gen.go")
            if os.path.exists(p):
                t = open(p).read()
                others = [m for m in ("ok1", "ok2", "ok3") if m != n and ("package " + m) in t]
                if others or ("package " + n) not in t:
                    why.append("%s/wire_gen.go holds the text of package %s" % (n, ", ".join(others) or "?"))
        if why:
            viol.append(({"property": pid, "kind": "failing-input", "broken": "C17 oracle on the wire binary: header that is not Go", "input": {"invocation": {"cmd": "gen", "pkgs": ["ok1", "ok3", "ok2"], "opts": ["-header_file=<Copyright nobody>"]}},
                          "impl": {"exit": rc, "stderr": err[-400:]}, "oracle": why, "seed": seed()}, True))
    finally:
        shutil.rmtree(root, ignore_errors=True)
    # a package that uses cgo (its compiled files include translated ones in the build cache); only where cgo works here
    if pid == "C17":
        root = scratch("cli")
        try:
            cg = {"p.go": "package cgo1\n\n// #include <stdlib.h>\nimport \"C\"\n\ntype A struct{ N int }\n\nfunc NewA() A { return A{N: int(C.abs(-7))} }\n",
                  "wire.go": HDR % "cgo1" + "func InitA() A {\n\tpanic(wire.Build(NewA))\n}\n"}
            write_ws(root, {"cgo1": cg, "ok1": PKGS["ok1"]})
            cgoenv = dict(GOENV, CGO_ENABLED="1")
            tl = build_tools()

            def wire_cgo(args):
                try:
                    q = sh([tl["wire"]] + args, cwd=root, env=cgoenv, timeout=120, mem_gb=8)
                    return q.returncode, q.stdout, q.stderr
                except subprocess.TimeoutExpired:
                    return 124, "", "timeout"
            b = sh(["go", "build", "./cgo1"], cwd=root, env=cgoenv, timeout=300)
            if b.returncode != 0:
                stats["cgo_case"] = "skipped: cgo does not build here"
            else:
                before = snapshot(root)
                rc, out, err = wire_cgo(["gen", "./cgo1", "./ok1"])
                after = snapshot(root)
                changed = sorted(k for k in set(before) | set(after) if before.get(k) != after.get(k))
                rc2, _, err2 = wire_cgo(["diff", "./cgo1", "./ok1"])
                stats["invocations"] += 2; stats["cgo_case"] = "run"
                why = []
                if rc != 0:
                    why.append("gen exits %d on two packages that analyse cleanly (one of them uses cgo): %s" % (rc, err[-300:]))
                if changed != ["cgo1/wire_gen.go", "ok1/wire_gen.go"]:
                    why.append("gen changed %s; the contract says exactly cgo1/wire_gen.go and ok1/wire_gen.go" % changed)
                if rc == 0 and rc2 != 0:
                    why.append("diff right after gen exits %d" % rc2)
                if why:
                    viol.append(({"property": pid, "kind": "failing-input", "broken": "C17 oracle on the wire binary: cgo package", "input": {"invocation": {"cmd": "gen", "pkgs": ["cgo1", "ok1"], "files": cg}},
                                  "impl": {"exit": rc, "changed_files": changed, "stderr": err[-400:]}, "oracle": why, "seed": seed()}, True))
        finally:
            shutil.rmtree(root, ignore_errors=True)
    # option handling: unreadable header file, nonexistent pattern, default-command form
    for cmd in ("gen", "diff"):
        d, why = check_case(cmd, ["ok1"], ("-header_file=HDR",), {"ok1": "stale"}, bad_header=True)
        key = "diff-unreadable-header-exit-1"
        if why and cmd == "diff" and key in kf and d["exit"] == 1:
            knownl.append("wire diff -header_file=<unreadable> exits 1, the contract says 2")
        elif why:
            viol.append(({"property": pid, "kind": "failing-input", "broken": "C17 oracle: unusable header file", "input": {"invocation": d}, "oracle": why, "key": key, "seed": seed()}, True))
        d, why = check_case(cmd, ["ok1"], (), {"ok1": "stale"}, bad_pattern=True)
        if why:
            viol.append(({"property": pid, "kind": "failing-input", "broken": "C17 oracle: pattern that does not load", "input": {"invocation": d}, "oracle": why, "seed": seed()}, True))
    d, why = check_case("gen", ["ok1", "bad"], (), {"ok1": "stale"}, form="default")
    if why:
        viol.append(({"property": pid, "kind": "failing-input", "broken": "C17 oracle: default-command form", "input": {"invocation": d}, "oracle": why, "seed": seed()}, True))
    # ---- model vs implementation (Cli.v)
    f = os.path.join(wd, "CliCases.v")
    with open(f, "w") as fh:
        fh.write("From Coq Require Import List Arith Bool.\nFrom Wire Require Import Cli.\nImport ListNotations.\n")
        fh.write("Definition cases : list (cli_case * (nat * list (nat * option nat))) := [\n" +
                 ";\n".join("(%s, %s)" % (c, o) for c, o in zip(coq_cases, coq_obs)) + "\n].\n")
        fh.write("Definition oeq (a b : option nat) := match a, b with Some x, Some y => Nat.eqb x y | None, None => true | _, _ => false end.\n")
        fh.write("Fixpoint leq (a b : list (nat * option nat)) := match a, b with [] , [] => true | (p, x) :: r, (q, y) :: s => Nat.eqb p q && oeq x y && leq r s | _, _ => false end.\n")
        fh.write("Definition ok (k : cli_case * (nat * list (nat * option nat))) := let '(ex, l) := run_cli (fst k) in Nat.eqb ex (fst (snd k)) && leq l (snd (snd k)).\n")
        fh.write("Fixpoint idx (l : list (cli_case * (nat * list (nat * option nat)))) (i : nat) : list nat := match l with [] => [] | k :: r => (if ok k then [] else [i]) ++ idx r (S i) end.\n")
        fh.write("Definition M := Eval vm_compute in idx cases 0.\nPrint M.\n")
    rc, out, err = coqc(f)
    m = re.search(r"M\s*=\s*(\[.*?\])\s*:\s*list nat", out, re.S)
    if rc != 0 or not m:
        raise RuntimeError("coqc failed on CliCases.v\n" + (out + err)[-2000:])
    body = m.group(1).strip()[1:-1].strip()
    mism = [int(x) for x in body.split(";")] if body else []
    stats["mismatches"] = len(mism)
    for i in mism:
        d = descs[i]
        if d["cmd"] == "diff" and d["bad_header"] and "diff-unreadable-header-exit-1" in kf:
            continue
        viol.append(({"property": pid, "kind": "no-failing-input-found", "broken": "correspondence Cli.run_cli vs the wire binary", "input": {"invocation": d}, "seed": seed()}, False))
    samples.append({"invocation": descs[3]})
    # ---- histories (C18) against Cli.hstep
    if pid in ("C18", "C17"):
        refc = {}
        for v, files in VARIANTS.items():
            for tg in TAGSETS:
                rc0, c0 = reference(wd, files, "h", tg)
                refc[(v, tg)] = c0 if rc0 == 0 else None
        ops_all = [("switch", v) for v in VARIANTS] + [("gen",), ("gen",), ("diff",), ("check",), ("delete",), ("replace", "stale"), ("replace", "garbage"), ("replace", "noncomp")]
        hists = []
        n_h = 12 if tier == "quick" else 80
        for hi in range(n_h):
            # every fourth history runs all its commands under one tag, every fourth under two
            hists.append(([rng.choice(ops_all) for _ in range(rng.choice([6, 10, 14]))], TAGSETS[(0, 1, 0, 2)[hi % 4]]))
        picked = [[("switch", 1), ("gen",), ("switch", 2), ("gen",), ("diff",)],          # long output then short output
                  [("switch", 4), ("gen",), ("switch", 2), ("gen",), ("diff",)],          # outputs differing only in letter case
                  [("replace", "garbage"), ("switch", 4), ("gen",), ("diff",), ("gen",), ("diff",)],
                  [("switch", 1), ("gen",), ("switch", 3), ("gen",), ("diff",), ("switch", 4), ("gen",), ("diff",)]]
        picked.append([("switch", 5), ("gen",), ("gen",), ("diff",), ("switch", 1), ("gen",), ("switch", 5), ("gen",), ("diff",)])     # ten value variables
        hists += [(h, ()) for h in picked] + [(picked[0], TAGSETS[2]), (picked[2], TAGSETS[2]), (picked[3], TAGSETS[1])]
        hists.append(([("gen",), ("gen",), ("diff",), ("switch", 4), ("gen",), ("gen",), ("diff",)], TAGSETS[2]))   # regenerate next to a tagged output
        rep = {"stale": STALE % "h", "garbage": GARBAGE, "noncomp": NONCOMP % "h"}
        cid = {}                     # content (sha) -> small id for the Coq terms

        def cnum(b):
            return cid.setdefault(sha(b), len(cid) + 1)
        hterms, hmeta = [], []
        for hi, (hist, tg) in enumerate(hists):
            root = scratch("hist")
            try:
                var = 1
                write_ws(root, {"h": VARIANTS[1]})
                outp = os.path.join(root, "h", "wire_gen.go")
                trace = []
                for op in hist:
                    stats["history_steps"] += 1
                    ex = 0
                    if op[0] == "switch":
                        var = op[1]
                        for fn, t in VARIANTS[var].items():
                            open(os.path.join(root, "h", fn), "w").write(t)
                    elif op[0] in ("gen", "diff", "check"):
                        ex, so, se = wire(root, [op[0]] + list(tg) + ["./h"])
                    elif op[0] == "delete":
                        if os.path.exists(outp):
                            os.remove(outp)
                    elif op[0] == "replace":
                        open(outp, "w").write(rep[op[1]])
                    cur = open(outp, "rb").read() if os.path.exists(outp) else None
                    trace.append({"op": list(op), "exit": ex, "out": None if cur is None else sha(cur)})
                    # C18 wording, model-free: after a successful gen the file is what a fresh checkout gets
                    why = []
                    if op[0] == "gen":
                        want = refc[(var, tg)]
                        if want is not None and (ex != 0 or cur != want):
                            why.append("after history %s a successful gen must leave the fresh-checkout file (exit %d, same=%s)" % ([list(o) for o in hist[:len(trace)]], ex, cur == want))
                        if want is None and ex == 0:
                            why.append("gen succeeded on a rejected variant")
                    if op[0] == "diff":
                        want = refc[(var, tg)]
                        wantex = 2 if want is None else (0 if cur == want else 1)
                        if ex != wantex:
                            why.append("diff exit %d, expected %d after %s" % (ex, wantex, [list(o) for o in hist[:len(trace)]]))
                    if why:
                        viol.append(({"property": pid, "kind": "failing-input", "broken": "C18 oracle on the wire binary", "input": {"history": [list(o) for o in hist[:len(trace)]], "options": list(tg)},
                                      "impl": trace, "oracle": why, "seed": seed()}, True))
                        break
                # the same history through Cli.hstep (vm_compute below)
                def r_op(o):
                    return {"switch": lambda: "(OSwitch %d)" % o[1], "gen": lambda: "OGen", "diff": lambda: "ODiff", "check": lambda: "OCheck",
                            "delete": lambda: "ODelete", "replace": lambda: "(OReplace %d)" % cnum(rep[o[1]].encode())}[o[0]]()
                contents = coq_list(["(%d, %s)" % (v, r_opt(cnum(refc[(v, tg)]) if refc[(v, tg)] is not None else None)) for v in VARIANTS])
                opsl = coq_list([r_op(o) for o in hist[:len(trace)]])
                obs = coq_list(["(%d, %s)" % (st["exit"], r_opt(cid.get(st["out"]) if st["out"] is not None else None) if st["out"] is None or st["out"] in cid else "(Some 0)") for st in trace])
                hterms.append("(mkHCase %d %s 1 %s %s)" % (hi, contents, opsl, obs))
                hmeta.append((hist[:len(trace)], list(tg), trace))
                if hi == 0:
                    samples.append({"history": trace})
            finally:
                shutil.rmtree(root, ignore_errors=True)
        if hterms:
            f = os.path.join(wd, "HCases.v")
            with open(f, "w") as fh:
                fh.write("From Coq Require Import List Arith Bool.\nFrom Wire Require Import Cli.\nImport ListNotations.\n")
                fh.write("Definition cases : list hcase := [\n" + ";\n".join(hterms) + "\n].\n")
                fh.write("Definition M := Eval vm_compute in hmismatches cases.\nPrint M.\n")
            rc, out, err = coqc(f)
            m = re.search(r"M\s*=\s*(\[.*?\])\s*:\s*list nat", out, re.S)
            if rc != 0 or not m:
                raise RuntimeError("coqc failed on HCases.v\n" + (out + err)[-2000:])
            hm = [int(x) for x in re.findall(r"\d+", m.group(1))]
            stats["history_mismatches"] = len(hm)
            flagged = {json.dumps(v[0]["input"].get("history")) for v in viol if "history" in v[0].get("input", {})}
            for hi in hm[:4]:
                hist, tgs, trace = hmeta[hi]
                if json.dumps([list(o) for o in hist]) not in flagged:
                    viol.append(({"property": pid, "kind": "no-failing-input-found", "broken": "correspondence Cli.hstep vs the wire binary on a history",
                                  "input": {"history": [list(o) for o in hist], "options": tgs}, "impl": trace, "seed": seed()}, False))
    # ---- check / show (C19)
    if pid == "C19":
        root = scratch("chk")
        try:
            allp = dict(PKGS)
            write_ws(root, allp)
            before = snapshot(root)
            for n in allp:
                g_rc, _ = reference(wd, allp[n], n)
                c_rc, so, se = wire(root, ["check", "./" + n])
                s_rc, sso, sse = wire(root, ["show", "./" + n])
                stats["invocations"] += 2
                if n == "showp":
                    # grouping of outputs by the outside types needed to obtain them (the property's wording)
                    groups, cur = {}, None
                    for line in sso.split("\n"):
                        m = re.match(r"\tOutputs given (.*):$", line)
                        if m:
                            cur = m.group(1); continue
                        m = re.match(r"\t\t(\S+)$", line)
                        if m and cur is not None:
                            groups[m.group(1).split(".")[-1]] = cur
                    want = {"Config": "DSN, Flags", "Port": "DSN, Flags", "Clock": "no inputs", "Name": "In"}
                    got = {k: ", ".join(x.split(".")[-1] for x in v.split(", ")) for k, v in groups.items()}
                    if got != want:
                        viol.append(({"property": pid, "kind": "failing-input", "broken": "C19 oracle: wire show grouping", "input": {"package": n, "files": allp[n]},
                                      "impl": {"show": sso[-1200:]}, "oracle": ["wire show groups %s, the outside inputs needed are %s" % (got, want)], "seed": seed()}, True))
                    continue
                if s_rc in (2, 124) or c_rc in (2, 124):
                    viol.append(({"property": pid, "kind": "failing-input", "broken": "C19 oracle: check/show must terminate", "input": {"package": n, "files": allp[n]},
                                  "impl": {"check_exit": c_rc, "show_exit": s_rc, "stderr": (se + sse)[-400:]},
                                  "oracle": ["wire check (exit %d) or wire show (exit %d) crashed or did not finish" % (c_rc, s_rc)], "seed": seed()}, True))
                    continue
                if n == "cyc":
                    # an unused top-level set with a cycle: check must report it although gen does not look at it
                    if c_rc == 0:
                        viol.append(({"property": pid, "kind": "failing-input", "broken": "C19 oracle", "input": {"package": n, "files": allp[n]},
                                      "oracle": ["wire check accepts a package whose top-level provider set has a cycle"], "seed": seed()}, True))
                    continue
                if (g_rc == 0) != (c_rc == 0):
                    key = "check-misses-injector-signature-checks"
                    if n == "needs" and c_rc == 0 and key in kf:
                        knownl.append("wire check exits 0 where wire gen rejects: injector lacks the error result its provider needs (Load omits gen.inject's checks)")
                    else:
                        viol.append(({"property": pid, "kind": "failing-input", "broken": "C19 oracle: check vs gen", "input": {"package": n, "files": allp[n]},
                                      "impl": {"gen_exit": g_rc, "check_exit": c_rc, "check_stderr": se[-500:]}, "key": key,
                                      "oracle": ["wire check exit %d but wire gen exit %d" % (c_rc, g_rc)], "seed": seed()}, True))
            if snapshot(root) != before:
                viol.append(({"property": pid, "kind": "failing-input", "broken": "C19/C17 oracle", "input": {}, "oracle": ["check or show modified the tree"], "seed": seed()}, True))
            # included named sets, with variable names shared across packages
            shutil.rmtree(root, ignore_errors=True)
            write_ws(root, SHOW_PKGS)
            s_rc, sso, sse = wire(root, ["show", "./shapp", "./shre"])
            stats["invocations"] += 1
            blocks, cur = {}, None
            for line in sso.split("\n"):
                m = re.match(r'^("[^"]+"\.\w+)$', line)
                if m:
                    cur = m.group(1); blocks[cur] = []; continue
                m = re.match(r'^\t("[^"]+"\.\w+)$', line)
                if m and cur is not None:
                    blocks[cur].append(m.group(1))
                elif line.strip() == "" or not line.startswith("\t"):
                    cur = None if not line.startswith("\t") else cur
            want = {'"example.com/w/shapp".Set': ['"example.com/w/shbase".Set', '"example.com/w/shcache".Providers', '"example.com/w/shstore".Set'],
                    '"example.com/w/shapp".Providers': ['"example.com/w/shapp".Set', '"example.com/w/shbase".Set', '"example.com/w/shcache".Providers', '"example.com/w/shstore".Set'],
                    '"example.com/w/shre".ReExport': ['"example.com/w/shbase".Set', '"example.com/w/shstore".Set']}
            got = {k: blocks.get(k) for k in want}
            if sorted(blocks) != sorted(want):
                got["(sets listed)"] = sorted(blocks); want["(sets listed)"] = sorted(k for k in want)
            if s_rc != 0 or got != want:
                viol.append(({"property": pid, "kind": "failing-input", "broken": "C19 oracle: wire show, included named sets", "input": {"files": SHOW_PKGS},
                              "impl": {"exit": s_rc, "show": sso[-1500:], "stderr": sse[-400:]},
                              "oracle": ["wire show lists %s as the named sets included; the sources include %s" % (got, want)], "seed": seed()}, True))
        finally:
            shutil.rmtree(root, ignore_errors=True)
    return {"name": "cli", "evaluations": stats["invocations"] + stats["history_steps"], "distinct_nontrivial": len({json.dumps(d, sort_keys=True) for d in descs}),
            "samples": samples[:3], "traces": stats["invocations"], "stats": stats,
            "rule": "gen/diff invocations over {accepted, rejected, no injectors, needs-error} packages x prior output {absent, equal, stale, garbage} x options, "
                    "exit status and before/after tree hashes against Cli.run_cli (vm_compute) and against the contract; random and hand-picked histories against the fresh-checkout file",
            "violations": viol, "known": knownl}
