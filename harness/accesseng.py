"""Engine (C13, accessibility of value expressions): expressions over a fixed set of declarations (exported / unexported
variables, constants, types, fields; unkeyed and keyed literals, nested literals with elided types; function-local
names; builtins) type-checked in a package at a chosen import path and handed to the real accessibleFrom for a chosen
injector package (the same package, a sibling, inside / outside the tree of an internal package), through the hook
`accessprobe`; the verdict class against AccessRules.accessible_from (vm_compute) on the list of mentions the
expression makes, and against the wording (accepted iff everything mentioned can be named from the injector's package)."""
import random
from common import *

DECLS = ("type T struct {\n\tA int\n\tb int\n}\ntype U struct {\n\tA int\n\tB int\n}\ntype t struct{ A int }\n"
         "var X = T{}\nvar x = 2\nvar Y = U{}\nconst K = 1\nconst k = 2\n")
LOCALS = "V := 2\nv := 3\n_, _ = V, v"


def obj(exported, decl):
    return ("obj", exported, decl)


# int-typed atoms: (source text, mentions in the order ast.Inspect meets them, needs the function-local names)
ATOMS = [
    ("X.A", [obj(True, "PkgScope"), obj(True, "NoScope")], False),
    ("X.b", [obj(True, "PkgScope"), obj(False, "NoScope")], False),
    ("Y.B", [obj(True, "PkgScope"), obj(True, "NoScope")], False),
    ("x", [obj(False, "PkgScope")], False),
    ("K", [obj(True, "PkgScope")], False),
    ("k", [obj(False, "PkgScope")], False),
    ('len("a")', [("nopkg",)], False),
    ("7", [], False),
    ("T{1, 2}.A", [("unkeyed", "T"), obj(True, "PkgScope"), obj(True, "NoScope")], False),
    ("T{A: 1}.A", [obj(True, "PkgScope"), obj(True, "NoScope"), obj(True, "NoScope")], False),
    ("U{1, 2}.B", [("unkeyed", "U"), obj(True, "PkgScope"), obj(True, "NoScope")], False),
    ("t{1}.A", [("unkeyed", "t"), obj(False, "PkgScope"), obj(True, "NoScope")], False),
    ("[]T{{1, 2}}[0].A", [obj(True, "PkgScope"), ("unkeyed", "T"), obj(True, "NoScope")], False),
    ("[]U{{1, 2}, {A: 3}}[0].A", [obj(True, "PkgScope"), ("unkeyed", "U"), obj(True, "NoScope"), obj(True, "NoScope")], False),
    ("map[string]T{\"k\": {1, 2}}[\"k\"].A", [obj(True, "PkgScope"), ("unkeyed", "T"), obj(True, "NoScope")], False),
    ("[]*T{{1, 2}}[0].A", [obj(True, "PkgScope"), ("unkeyed", "T"), obj(True, "NoScope")], False),
    ("V", [obj(True, "LocalScope")], True),
    ("v", [obj(False, "LocalScope")], True),
]
PATHS = [("example.com/lib", "example.com/lib"), ("example.com/lib", "example.com/app"), ("example.com/lib/internal/z", "example.com/lib/cmd"),
         ("example.com/lib/internal/z", "example.com/app"), ("example.com/lib/internal/z", "example.com/lib/internal/z"), ("example.com/lib/internal", "example.com/libx")]


def importable(p, frm):
    el, f = p.split("/"), frm.split("/")
    ii = [j for j, e in enumerate(el) if e == "internal"]
    return True if not ii else (ii[-1] > 0 and f[:ii[-1]] == el[:ii[-1]])


def eng_access(pid, tier, wd, known, replay=None):
    rng = random.Random(seed() * 2917 + 5)
    n = 300 if tier == "quick" else 3000
    cs = []
    for a in ATOMS:                       # every atom alone, for every pair of paths
        for pp in PATHS:
            cs.append(([a], pp))
    while len(cs) < n:
        k = rng.choice([2, 2, 3, 4])
        cs.append(([rng.choice(ATOMS) for _ in range(k)], rng.choice(PATHS)))
    if replay is not None and replay.get("engine") == "access" and replay.get("input", {}).get("expr"):
        rp = replay["input"]
        cs = [([a for a in ATOMS if a[0] in rp["atoms"]], (rp["lib"], rp["want"]))]
    reqs = []
    for atoms, (lib, want) in cs:
        expr = " + ".join(a[0] for a in atoms) if atoms else "0"
        reqs.append({"op": "accessprobe", "pkg": lib, "decls": DECLS, "src": LOCALS if any(a[2] for a in atoms) else "", "expr": expr, "name": want})
    resps = hook(reqs)
    viol, terms, stats = [], [], {"cases": len(cs), "classes": {}}
    cls_of = {"": "Ok", "uses unexported identifier": "ErrUnexported", "is internal": "ErrInternal", "is not declared in package scope": "ErrLocal", "sets unexported field": "ErrUnkeyed"}
    for i, ((atoms, (lib, want)), rq, r) in enumerate(zip(cs, reqs, resps)):
        inp = {"expr": rq["expr"], "atoms": [a[0] for a in atoms], "lib": lib, "want": want}
        if "panic" in r or not r.get("ok"):
            viol.append(({"property": pid, "kind": "failing-input", "engine": "access", "broken": "accessibleFrom crashed or the probe does not type-check", "input": inp, "impl": r,
                          "oracle": ["the accessibility check did not answer: %s" % str(r)[:200]], "seed": seed()}, True))
            continue
        got = next((v for k_, v in cls_of.items() if k_ and k_ in r["msg"]), "Ok" if r["msg"] == "" else "Other")
        stats["classes"][got] = stats["classes"].get(got, 0) + 1
        foreign, imp = lib != want, importable(lib, want)
        ms, all_nameable = [], True
        for a in atoms:
            for m in a[1]:
                if m[0] == "nopkg":
                    ms.append("MNoPkg")
                elif m[0] == "unkeyed":
                    bad = foreign and m[1] == "T"
                    ms.append("(MUnkeyedLit %s)" % coq_bool(bad)); all_nameable &= not bad
                else:
                    _, exported, decl = m
                    ms.append("(MObj %s %s %s %s)" % (coq_bool(foreign), coq_bool(exported), decl, coq_bool(imp)))
                    all_nameable &= (exported or not foreign) and decl != "LocalScope" and (decl != "PkgScope" or not foreign or imp)
        if (got == "Ok") != all_nameable:
            viol.append(({"property": pid, "kind": "failing-input", "engine": "access", "broken": "C13 oracle: what the injector's package can name", "input": inp, "impl": r,
                          "oracle": ["the expression %s in package %s is %s for the injector package %s, but %s" % (
                              rq["expr"], lib, "accepted" if got == "Ok" else "refused (%s)" % r["msg"][:80], want,
                              "it mentions something that package cannot name" if not all_nameable else "everything it mentions can be named there")], "seed": seed()}, True))
        terms.append("(%d, %s, %s)" % (i, coq_list(ms), got if got != "Other" else "Ok"))
    mism = []
    if terms:
        f = os.path.join(wd, "ACases.v")
        with open(f, "w") as fh:
            fh.write("From Coq Require Import List.\nFrom Wire Require Import AccessRules.\nImport ListNotations.\n")
            fh.write("Definition cases : list (nat * list mention * verdict) := [\n" + ";\n".join(terms) + "\n].\n")
            fh.write("Definition M := Eval vm_compute in amismatches cases.\nPrint M.\n")
        rc, out, err = coqc(f)
        m = re.search(r"M\s*=\s*(\[.*?\])\s*:\s*list nat", out, re.S)
        if rc != 0 or not m:
            raise RuntimeError("coqc failed on ACases.v: rc=%d\n%s\n%s" % (rc, out[-2000:], err[-3000:]))
        mism = [int(x) for x in re.findall(r"\d+", m.group(1))]
    flagged = {json.dumps(v[0]["input"], sort_keys=True) for v in viol}
    for i in mism[:6]:
        atoms, (lib, want) = cs[i]
        inp = {"expr": reqs[i]["expr"], "atoms": [a[0] for a in atoms], "lib": lib, "want": want}
        if json.dumps(inp, sort_keys=True) not in flagged:
            viol.append(({"property": pid, "kind": "no-failing-input-found", "engine": "access", "broken": "correspondence access: AccessRules.accessible_from vs accessibleFrom",
                          "input": inp, "impl": resps[i], "seed": seed()}, False))
    stats["model_vs_impl_mismatches"] = len(mism)
    return {"name": "access", "evaluations": len(cs), "distinct_nontrivial": len({(tuple(a[0] for a in at), pp) for at, pp in cs}), "samples": [{"expr": reqs[40]["expr"], "lib": cs[40][1][0], "want": cs[40][1][1]}],
            "traces": len(terms), "stats": stats,
            "rule": "value expressions over exported / unexported package-level names, fields, unkeyed and keyed literals (nested, with elided types), builtins and function-local names, in packages "
                    "inside and outside internal trees, through the real accessibleFrom (hook accessprobe): verdict class against AccessRules.accessible_from (vm_compute) and against the wording",
            "violations": viol[:12], "known": []}
