"""O2 correspondence: abstract programs through `wire gen` vs the Coq emission model (Emit.generate1),
compared inside Coq on error classes or on the canonical lines of the generated injector."""
import re
from common import *
import synth, spec, prog

_universe = None


def universe():
    global _universe
    if _universe is None:
        _universe = hook([{"op": "universe"}])[0]["names"]
    return _universe


def ptid(s, names=None):
    s = s.strip().strip('"')
    m = re.fullmatch(r"(\*?)(?:[\w./-]+\.)?(\w+)", s)
    if not m:
        raise ValueError("cannot parse type %r" % s)
    n = m.group(2)
    if names and n in names:
        k = names[n]
    else:
        mm = re.fullmatch(r"T(\d+)", n)
        if not mm:
            raise ValueError("cannot parse type %r" % s)
        k = int(mm.group(1))
    return 2 * k + (1 if m.group(1) else 0)


def ptid_for(r):
    rev = {v: k for k, v in r.tnames.items()}
    return lambda s: ptid(s, rev)


def strip_msg(m):
    # (an error found in another package is reported where it is referenced: the message then starts with two positions)
    m = re.sub(r"^(\S+?:\d+:\d+: )+", "", m)
    m = re.sub(r"^inject \w+: ", "", m)
    m = re.sub(r"^(\S+?:\d+:\d+: )+", "", m)
    return m


def strip_for(r):
    """Like strip_msg, but an unused *inline* provider set (which has no name to print) is identified by the
    position of its wire.NewSet call in the rendered injector file."""
    return strip_msg


def flatten_fn(fn):
    lines = ["SIG %s(%s) -> %s" % (fn["name"], ", ".join(fn["params"] or []), ", ".join(fn["results"] or []))]

    def st(s, ind):
        k = s["kind"]
        if k in ("define", "assign"):
            lines.append(ind + ("DEF " if k == "define" else "ASSIGN ") + ", ".join(s["lhs"]) + " := " + s["rhs"])
        elif k == "if":
            lines.append(ind + "IF " + s["cond"])
            for b in s.get("body") or []:
                st(b, ind + "  ")
        elif k == "return":
            lines.append(ind + "RET " + ", ".join(s.get("exprs") or []))
        elif k == "expr":
            lines.append(ind + "EXPR " + s["text"])
        else:
            lines.append(ind + "OTHER " + s.get("text", ""))
    for s in fn.get("stmts") or []:
        st(s, "")
    return lines


def observed_lines(rb):
    funcs = {f["name"]: f for f in rb.get("funcs") or []}
    vars_ = {v[0]: v[1] for v in rb.get("vars") or []}
    lines = []
    for item in rb.get("seq") or []:
        if item.startswith("F:"):
            lines += flatten_fn(funcs[item[2:]])
        elif item.startswith("V:"):
            lines.append("VAR %s = %s" % (item[2:], vars_[item[2:]]))
    imports = [((a + " ") if a else "") + '"%s"' % p for a, p in (rb.get("imports") or []) if a != "_"]
    return lines, imports


def r_tydesc(d):
    k = d[0]
    if k == "named":
        return "(TNamed %d %s %s)" % (d[1], coq_str(d[2]), d[3])
    if k == "univ":
        return "(TUniv %s %s)" % (coq_str(d[1]), d[2])
    if k == "ptr":
        return "(TPtr %d)" % d[1]
    if k == "basic":
        return "(TBasic %s %s)" % (coq_str(d[1]), d[2])
    if k == "slice":
        return "(TSlice %d)" % d[1]
    if k == "array":
        return "(TArray %s %d)" % (coq_str(d[1]), d[2])
    if k == "map":
        return "(TMap %d %d)" % (d[1], d[2])
    if k == "opaque":
        return "(TOpaque %s %s %s)" % (coq_str(d[1]), coq_list([coq_str(x) for x in d[2]]), d[3])
    raise ValueError(d)


def r_set_pkg(s, r):
    funcs = [p for p in s["providers"] if not p["struct"]]
    structs = [p for p in s["providers"] if p["struct"]]
    provs = coq_list(["mkProv %d %d %s %s %s %s %s %s %s %s" % (
        p["id"], p.get("pkg", 0), coq_str(("p%d" if p.get("unexp") else "P%d") % p["id"]),
        synth.r_nats(p["args"]), "[]", coq_bool(p["varargs"]), "false", synth.r_nats(p["outs"]), coq_bool(p["cleanup"]), coq_bool(p["err"]))
        for p in funcs])
    sps = []
    for p in structs:
        k = p["outs"][0] // 2
        td = r.types[k]
        fields = ['mkSF %s 0 %s' % (coq_str("ID"), coq_str('wire:"-"')), 'mkSF %s 0 %s' % (coq_str("hid"), coq_str('wire:"-"'))] + \
                 ["mkSF %s %d %s" % (coq_str(f["name"]), f["t"], coq_str(f["tag"])) for f in td["fields"]]
        sps.append("mkSProv %d %d %s %d %d %s %s" % (p["id"], r.tpkg(k), coq_str(r.tn(k)), 2 * k, 2 * k + 1, coq_list(fields),
                                                   coq_list([coq_str(l) for l in p.get("_lits", [])])))
    vals = coq_list(["mkVal %d %d %s" % (v["id"], v["out"], coq_bool(v.get("ok", True))) for v in s["values"]])
    flds = coq_list(["mkField %d %d %d %s %s" % (f["id"], r.tpkg(f["parent"] // 2), f["parent"], coq_str(f["name"]), synth.r_nats(f["outs"])) for f in s["fields"]])
    binds = coq_list(["mkBind %d %d %d" % (b["id"], b["iface"], b["conc"]) for b in s["bindings"]])
    return "(RSet %d %s %s %s %s %s %s)" % (s["id"], coq_list([r_set_pkg(i, r) for i in s["imports"]]), provs, coq_list(sps), vals, flds, binds)


def case_term(i, p, r, o):
    """p: prog, r: Render, o: observation."""
    tree = p["tree"]
    types = []
    for k in sorted(r.types):
        td = r.types[k]
        types.append((2 * k, ("named", r.tpkg(k), r.tn(k), "ZNil" if td["kind"] == "iface" else "ZComposite")))
        types.append((2 * k + 1, ("ptr", 2 * k)))
    scope = ["Inject", "Run"] + ["P%d" % pr["id"] for pr in r.provs.values() if pr["pkg"] == 0 and not pr["struct"]] + \
            ["S%d" % s["id"] for s in r.sets.values() if s["pkg"] == 0 and s["id"] != 0] + \
            [d[2:] if d.startswith("f:") else d for d in r.app_decls] + universe()
    env = "(mkEnv %s %s %s)" % (
        coq_list(["(%s, %s)" % (coq_str(r.apppath), coq_str("app")), "(%s, %s)" % (coq_str(r.libpath), coq_str(r.libname)), "(%s, %s)" % (coq_str(r.lib2path), coq_str(r.lib2name))]),
        coq_list(["(%d, %s)" % (t, r_tydesc(d)) for t, d in types]),
        coq_list([coq_str(x) for x in scope]))
    order = sorted([t for t, _ in types], key=lambda t: ("*" if t % 2 else "") + (r.libpath if r.tpkg(t // 2) == 1 else r.lib2path) + "." + r.tn(t // 2))
    argidx = p["given"].index(p["out"]) if p["out"] in p["given"] else 0
    inj = "(mkInj %s %s None %d %s %s %d)" % (
        coq_str("Inject"), coq_list(["(%s, %d)" % (coq_str(nm), t) for nm, t in zip(r.inj_param_names(), p["given"])]),
        p["out"], coq_bool(p["cleanup"]), coq_bool(p["err"]), argidx)
    vals = []
    for s in spec.all_sets(tree):
        for v in s["values"]:
            t = v["out"]
            k = t // 2
            if r.types[k]["kind"] == "iface":
                pieces = '[PPkg %d; PText %s]' % (r.tpkg(k), coq_str('NewImpl%d("val%d")' % (k, v["id"])))
            else:
                pieces = '[%sPPkg %d; PText %s]' % ('PText "&"%string; ' if t % 2 else "", r.tpkg(k), coq_str('%s{ID: "val%d"}' % (r.tn(k), v["id"])))
            if v.get("paren"):
                pieces = '[PText "("%string; ' + pieces[1:-1] + '; PText ")"%string]'
            vals.append("(mkVI %d %d %s)" % (v["id"], t, pieces))
    if o["generated"] and "readback" in o:
        lines, imports = observed_lines(o["readback"])
        obs = "(GOOk %s %s)" % (coq_list([coq_str(x) for x in lines]), coq_list([coq_str(x) for x in imports]))
        kind = ("ok", len(lines))
    else:
        ds = synth.parse_errors(tree, o["errors"], parse_t=ptid_for(r), strip=strip_for(r))
        stage = "StSet"
        if not ds:
            ds = [("DUnparsed", 0)]
        if any(d[0] in ("DNoProvider",) or d[0].startswith("DUnused") for d in ds):
            stage = "StSolve"
        if any(d[0] in ("DNeedsCleanup", "DNeedsErr", "DValueAccess", "DProvAccess") for d in ds):
            stage = "StInject"
        obs = "(GOErr %s %s)" % (stage, coq_list([synth.r_diag(d) for d in ds]))
        kind = (stage, ds)
    anon = [x["id"] for x in tree["imports"] if x.get("inline")]
    return "(mkGCase %d %s %s %s %s %s %s %s)" % (i, env, synth.r_nats(order), r_set_pkg(tree, r), inj, coq_list(vals), synth.r_nats(anon), obs), kind


HEADER = ("From Coq Require Import List String.\nFrom Wire Require Import Sets Front Model Names Emit Bridge.\n"
          "Import ListNotations.\nOpen Scope string_scope.\n")


def run_gcases(progs, renders, obs, workdir, tag, shard=150):
    terms, kinds = [], []
    for i, (p, r, o) in enumerate(zip(progs, renders, obs)):
        t, k = case_term(i, p, r, o)
        terms.append(t); kinds.append(k)
    mism = []
    for sh_i in range(0, len(terms), shard):
        chunk = terms[sh_i:sh_i + shard]
        f = os.path.join(workdir, "GCases_%s_%d.v" % (tag, sh_i // shard))
        with open(f, "w") as fh:
            fh.write(HEADER)
            fh.write("Definition cases : list gcase := [\n" + ";\n".join(chunk) + "\n].\n")
            fh.write("Definition M := Eval vm_compute in gmismatches cases.\nPrint M.\n")
            fh.write("Definition W := Eval vm_compute in map gk_id (filter (fun k => let a := map snd (i_params (gk_inj k)) in "
                     "match analyze (gk_order k) (gk_root k) a (i_out (gk_inj k)) (i_cleanup (gk_inj k)) (i_err (gk_inj k)) with ROk pm _ => negb (wfb pm a) | _ => false end) cases).\nPrint W.\n")
        rc, out, err = coqc(f)
        m = re.search(r"M\s*=\s*(\[.*?\])\s*:\s*list nat", out, re.S)
        w = re.search(r"W\s*=\s*(\[.*?\])\s*:\s*list nat", out, re.S)
        if rc != 0 or not m or not w:
            raise RuntimeError("coqc failed on %s: rc=%d\n%s\n%s" % (f, rc, out[-2000:], err[-3000:]))
        for mm in (m, w):
            body = mm.group(1).strip()[1:-1].strip()
            if body:
                mism += [int(x) for x in body.split(";") if int(x) not in mism]
    return mism, kinds


def model_output(p, r, o, workdir):
    f = os.path.join(workdir, "GDiag.v")
    t, _ = case_term(0, p, r, o)
    with open(f, "w") as fh:
        fh.write(HEADER)
        fh.write("Definition k := %s.\nEval vm_compute in run_gcase k.\n" % t)
    rc, out, err = coqc(f)
    return (out + err)[-4000:]
