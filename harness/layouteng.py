"""Engine (layouts): hand-written programs whose provider graph is fixed while the *layout* varies -- which package
declares a set, how far away it is imported from, packages that share a name and export the same identifiers,
import aliases that differ from package names, packages first mentioned inside the injector's body.  Each layout goes
through `wire gen`, `go build` and a run; every layout of one graph must be accepted and print the same line."""
from common import *

W = "github.com/google/wire"
INJ = "//go:build wireinject\n// +build wireinject\n\n"


def scenarios():
    S = []

    def add(name, graph, files, main, want, pids, reject=None):
        S.append({"name": name, "graph": graph, "files": files, "main": main, "want": want, "pids": pids, "reject": reject})
    # ---------------- graph A: NewDB -> NewService, in four layouts
    types_a = "type DB struct{ DSN string }\ntype Service struct{ DB *DB }\n\nfunc NewDB() *DB { return &DB{DSN: \"dsn\"} }\nfunc NewService(db *DB) *Service { return &Service{DB: db} }\n"
    add("A-flat", "A", {
        "app/app.go": "package main\n\nimport \"fmt\"\n\n" + types_a + "\nfunc main() { fmt.Println(\"svc\", initService().DB.DSN) }\n",
        "app/wire.go": INJ + "package main\n\nimport \"%s\"\n\nfunc initService() *Service {\n\tpanic(wire.Build(NewDB, NewService))\n}\n" % W,
    }, "./app", "svc dsn", ["C10"])
    infra = "package infra\n\nimport \"%s\"\n\ntype DB struct{ DSN string }\n\nfunc NewDB() *DB { return &DB{DSN: \"dsn\"} }\n\nvar Set = wire.NewSet(NewDB)\n" % W
    feature = ("package feature\n\nimport (\n\t\"example.com/l/%s/infra\"\n\t\"%s\"\n)\n\ntype Service struct{ DB *infra.DB }\n\n"
               "func NewService(db *infra.DB) *Service { return &Service{DB: db} }\n\nvar Set = wire.NewSet(infra.Set, NewService)\n")
    add("A-set-two-imports-away", "A", {
        "a2/infra/infra.go": infra,
        "a2/feature/feature.go": feature % ("a2", W),
        "a2/app/app.go": "package main\n\nimport (\n\t\"fmt\"\n\n\t\"example.com/l/a2/feature\"\n)\n\nfunc main() { fmt.Println(\"svc\", initService().DB.DSN) }\n\nvar _ = feature.Set\n",
        "a2/app/wire.go": INJ + "package main\n\nimport (\n\t\"example.com/l/a2/feature\"\n\t\"%s\"\n)\n\nfunc initService() *feature.Service {\n\tpanic(wire.Build(feature.Set))\n}\n" % W,
    }, "./a2/app", "svc dsn", ["C10"])
    add("A-set-three-imports-away", "A", {
        "a3/infra/infra.go": infra,
        "a3/feature/feature.go": feature % ("a3", W),
        "a3/top/top.go": "package top\n\nimport (\n\t\"example.com/l/a3/feature\"\n\t\"%s\"\n)\n\nvar All = wire.NewSet(feature.Set)\n\ntype Svc = feature.Service\n" % W,
        "a3/app/app.go": "package main\n\nimport \"fmt\"\n\nfunc main() { fmt.Println(\"svc\", initService().DB.DSN) }\n",
        "a3/app/wire.go": INJ + "package main\n\nimport (\n\t\"example.com/l/a3/top\"\n\t\"%s\"\n)\n\nfunc initService() *top.Svc {\n\tpanic(wire.Build(top.All))\n}\n" % W,
    }, "./a3/app", "svc dsn", ["C10"])
    add("A-set-reexported-by-a-package-without-wire", "A", {
        "a5/infra/infra.go": infra,
        "a5/feature/feature.go": feature % ("a5", W),
        "a5/facade/facade.go": "package facade\n\nimport \"example.com/l/a5/feature\"\n\nvar Set = feature.Set\n\ntype Svc = feature.Service\n",
        "a5/app/app.go": "package main\n\nimport \"fmt\"\n\nfunc main() { fmt.Println(\"svc\", initService().DB.DSN) }\n",
        "a5/app/wire.go": INJ + "package main\n\nimport (\n\t\"example.com/l/a5/facade\"\n\t\"%s\"\n)\n\nfunc initService() *facade.Svc {\n\tpanic(wire.Build(facade.Set))\n}\n" % W,
    }, "./a5/app", "svc dsn", ["C10", "C20"])
    add("A-inline-nested", "A", {
        "a4/app.go": "package main\n\nimport \"fmt\"\n\n" + types_a + "\nfunc main() { fmt.Println(\"svc\", initService().DB.DSN) }\n",
        "a4/wire.go": INJ + "package main\n\nimport \"%s\"\n\nvar inner = wire.NewSet(NewDB)\n\nfunc initService() *Service {\n\tpanic(wire.Build(wire.NewSet(wire.NewSet(inner), NewService)))\n}\n" % W,
    }, "./a4", "svc dsn", ["C10"])
    # ---------------- graph B: two packages with one name exporting the same identifiers
    def store(kind):
        return ("package store\n\nimport \"%s\"\n\ntype %s struct{ Name string }\n\nfunc New() *%s { return &%s{Name: \"%s\"} }\n\nvar Set = wire.NewSet(New)\n"
                % (W, kind, kind, kind, kind.lower()))
    appb = ("package main\n\nimport (\n\t\"fmt\"\n\n\tostore \"example.com/l/%s/orders/store\"\n\tustore \"example.com/l/%s/users/store\"\n)\n\n"
            "type App struct {\n\tU *ustore.Users\n\tO *ostore.Orders\n}\n\nfunc NewApp(u *ustore.Users, o *ostore.Orders) *App { return &App{U: u, O: o} }\n\n"
            "func main() { a := initApp(); fmt.Println(a.U.Name, a.O.Name) }\n")
    wireb = INJ + ("package main\n\nimport (\n\tostore \"example.com/l/%s/orders/store\"\n\tustore \"example.com/l/%s/users/store\"\n\t\"%s\"\n)\n\n"
                   "func initApp() *App {\n\tpanic(wire.Build(%s))\n}\n")
    add("B-same-named-packages-sets", "B", {
        "b1/users/store/store.go": store("Users"), "b1/orders/store/store.go": store("Orders"),
        "b1/app/app.go": appb % ("b1", "b1"), "b1/app/wire.go": wireb % ("b1", "b1", W, "ustore.Set, ostore.Set, NewApp"),
    }, "./b1/app", "users orders", ["C10", "C14", "C01"])
    add("B-same-named-packages-funcs", "B", {
        "b2/users/store/store.go": store("Users"), "b2/orders/store/store.go": store("Orders"),
        "b2/app/app.go": appb % ("b2", "b2"), "b2/app/wire.go": wireb % ("b2", "b2", W, "ostore.New, NewApp, ustore.New"),
    }, "./b2/app", "users orders", ["C10", "C14", "C01"])
    # ---------------- graph C: value expression naming a package through an alias, package mentioned nowhere else
    add("C-aliased-import-in-value", "C", {
        "c1/config/config.go": "package config\n\ntype Config struct{ Name string }\n\nvar Default = \"default\"\n\nvar Full = Config{Name: \"full\"}\n",
        "c1/app/app.go": ("package app\n\nimport (\n\tcfg \"example.com/l/c1/config\"\n\t\"%s\"\n)\n\ntype App struct{ Name string }\n\nfunc NewApp(n string) *App { return &App{Name: n} }\n\n"
                          "var Set = wire.NewSet(NewApp, wire.Value(cfg.Default))\n") % W,
        "c1/cmd/main.go": "package main\n\nimport \"fmt\"\n\nfunc main() { fmt.Println(initApp().Name) }\n",
        "c1/cmd/wire.go": INJ + "package main\n\nimport (\n\t\"example.com/l/c1/app\"\n\t\"%s\"\n)\n\nfunc initApp() *app.App {\n\tpanic(wire.Build(app.Set))\n}\n" % W,
    }, "./c1/cmd", "default", ["C01", "C13", "C14"])
    add("C-aliased-import-in-value-same-package", "C", {
        "c2/config/config.go": "package config\n\nvar Default = \"default\"\n",
        "c2/cmd/main.go": "package main\n\nimport \"fmt\"\n\ntype App struct{ Name string }\n\nfunc NewApp(n string) *App { return &App{Name: n} }\n\nfunc main() { fmt.Println(initApp().Name) }\n",
        "c2/cmd/wire.go": INJ + "package main\n\nimport (\n\tsettings \"example.com/l/c2/config\"\n\t\"%s\"\n)\n\nfunc initApp() *App {\n\tpanic(wire.Build(NewApp, wire.Value(settings.Default)))\n}\n" % W,
    }, "./c2/cmd", "default", ["C01", "C13", "C14"])
    add("C-value-in-package-named-like-the-injectors", "C", {
        "c3/lib/app/app.go": ("package app\n\nimport \"%s\"\n\ntype Name string\n\nvar Default = Name(\"default\")\n\nvar Set = wire.NewSet(wire.Value(Default))\n") % W,
        "c3/app/main.go": "package app\n\nimport lib \"example.com/l/c3/lib/app\"\n\ntype App struct{ Name lib.Name }\n\nfunc NewApp(n lib.Name) *App { return &App{Name: n} }\n\nfunc Run() string { return string(initApp().Name) }\n",
        "c3/app/wire.go": INJ + "package app\n\nimport (\n\tlib \"example.com/l/c3/lib/app\"\n\t\"%s\"\n)\n\nfunc initApp() *App {\n\tpanic(wire.Build(NewApp, lib.Set))\n}\n" % W,
        "c3/cmd/main.go": "package main\n\nimport (\n\t\"fmt\"\n\n\t\"example.com/l/c3/app\"\n)\n\nfunc main() { fmt.Println(app.Run()) }\n",
    }, "./c3/cmd", "default", ["C13", "C01", "C14"])
    # ---------------- graph D: a package first mentioned inside the injector's body, after a local took its name
    add("D-struct-provider-package-first-mentioned-in-body", "D", {
        "d1/cfg/cfg.go": "package cfg\n\ntype Settings struct {\n\tLevel int\n}\n",
        "d1/main.go": ("package main\n\nimport (\n\t\"fmt\"\n\n\t\"example.com/l/d1/cfg\"\n)\n\ntype Cfg struct{ Base int }\ntype App struct{ Level int }\n\nfunc provideCfg() Cfg { return Cfg{Base: 41} }\n"
                       "func provideLevel(c Cfg) int { return c.Base + 1 }\nfunc newApp(s cfg.Settings) App { return App{Level: s.Level} }\n\nfunc main() { fmt.Println(\"level\", initApp().Level) }\n"),
        "d1/wire.go": INJ + "package main\n\nimport (\n\t\"example.com/l/d1/cfg\"\n\t\"%s\"\n)\n\nfunc initApp() App {\n\tpanic(wire.Build(provideCfg, provideLevel, wire.Struct(new(cfg.Settings), \"*\"), newApp))\n}\n" % W,
    }, "./d1", "level 42", ["C14", "C01"])
    add("D-function-provider-package-first-mentioned-in-body", "D", {
        "d2/cfg/cfg.go": "package cfg\n\nfunc Level(base int) int64 { return int64(base) + 1 }\n",
        "d2/main.go": ("package main\n\nimport \"fmt\"\n\ntype Cfg int\ntype App struct{ Level int64 }\n\nfunc provideCfg() Cfg { return 41 }\nfunc provideBase(c Cfg) int { return int(c) }\n"
                       "func newApp(l int64) App { return App{Level: l} }\n\nfunc main() { fmt.Println(\"level\", initApp().Level) }\n"),
        "d2/wire.go": INJ + "package main\n\nimport (\n\t\"example.com/l/d2/cfg\"\n\t\"%s\"\n)\n\nfunc initApp() App {\n\tpanic(wire.Build(provideCfg, provideBase, cfg.Level, newApp))\n}\n" % W,
    }, "./d2", "level 42", ["C14", "C01"])
    add("D-value-package-first-mentioned-after-the-body", "D", {
        "d3/cfg/cfg.go": "package cfg\n\nvar Bonus = int64(1)\n",
        "d3/main.go": ("package main\n\nimport \"fmt\"\n\ntype Cfg int\ntype App struct{ Level int64 }\n\nfunc provideCfg() Cfg { return 41 }\n"
                       "func newApp(c Cfg, b int64) App { return App{Level: int64(c) + b} }\n\nfunc main() { fmt.Println(\"level\", initApp().Level) }\n"),
        "d3/wire.go": INJ + "package main\n\nimport (\n\t\"example.com/l/d3/cfg\"\n\t\"%s\"\n)\n\nfunc initApp() App {\n\tpanic(wire.Build(provideCfg, newApp, wire.Value(cfg.Bonus)))\n}\n" % W,
    }, "./d3", "level 42", ["C14", "C01", "C13"])
    # ---------------- graph F: value expressions spelled alike with different meanings, several injectors in one package
    def region(name, url):
        return ("package %s\n\nimport \"%s\"\n\ntype Client struct{ URL string }\n\nvar Default = \"%s\"\n\nfunc NewClient(u string) *Client { return &Client{URL: u} }\n\n"
                "var Set = wire.NewSet(wire.Value(Default), NewClient)\n") % (name, W, url)
    add("F-same-spelling-different-values", "F", {
        "f1/eu/eu.go": region("eu", "eu-west"), "f1/us/us.go": region("us", "us-east"),
        "f1/app/main.go": "package main\n\nimport \"fmt\"\n\nfunc main() { fmt.Println(initEU().URL, initUS().URL, initEU2().URL) }\n",
        "f1/app/wire.go": INJ + ("package main\n\nimport (\n\t\"example.com/l/f1/eu\"\n\t\"example.com/l/f1/us\"\n\t\"%s\"\n)\n\n"
                                 "func initEU() *eu.Client {\n\tpanic(wire.Build(eu.Set))\n}\n\nfunc initUS() *us.Client {\n\tpanic(wire.Build(us.Set))\n}\n\n"
                                 "func initEU2() *eu.Client {\n\tpanic(wire.Build(eu.Set))\n}\n") % W,
    }, "./f1/app", "eu-west us-east eu-west", ["C02", "C13", "C01"])
    add("F-same-spelling-inline-values", "F", {
        "f2/app/main.go": ("package main\n\nimport \"fmt\"\n\ntype A struct{ N int }\ntype B struct{ N int }\n\nfunc NewA(n int) A { return A{N: n} }\nfunc NewB(n int) B { return B{N: n + 100} }\n\n"
                           "func main() { fmt.Println(initA().N, initB().N) }\n"),
        "f2/app/wire.go": INJ + ("package main\n\nimport \"%s\"\n\nfunc initA() A {\n\tseven := 0\n\t_ = seven\n\tpanic(wire.Build(NewA, wire.Value(7)))\n}\n\n"
                                 "func initB() B {\n\tpanic(wire.Build(NewB, wire.Value(7)))\n}\n") % W,
    }, "./f2/app", "7 107", ["C02", "C13"]) if False else None
    # ---------------- graph E: providers the injector's package cannot name (must be refused, with a position)
    libe = ("package lib\n\nimport \"%s\"\n\ntype T struct{ N int }\ntype U struct{ t T }\ntype hidden struct{ N int }\ntype W struct{ H int }\n\n"
            "func newT() T { return T{N: 1} }\nfunc NewU(t T) U { return U{t: t} }\nfunc GetT(u U) int { return u.t.N }\nfunc NewW(h *hidden) W { return W{H: h.N} }\n\n"
            "var SetFunc = wire.NewSet(newT, NewU)\nvar SetStructField = wire.NewSet(wire.Value(T{N: 2}), wire.Struct(new(U), \"t\"))\n"
            "var SetStructType = wire.NewSet(wire.Struct(new(hidden)), wire.Value(3), NewW)\n") % W
    def inje(e, expr, res, params=""):
        return {"%s/lib/lib.go" % e: libe,
                "%s/app/app.go" % e: "package main\n\nfunc main() {}\n",
                "%s/app/wire.go" % e: INJ + "package main\n\nimport (\n\t\"example.com/l/%s/lib\"\n\t\"%s\"\n)\n\nfunc initX(%s) %s {\n\tpanic(wire.Build(%s))\n}\n" % (e, W, params, res, expr)}
    rx = r"wire\.go:\d+:\d+: inject initX: provider for \S+ can't be used: uses unexported identifier"
    add("E-unexported-function-in-library-set", "E", inje("e1", "lib.SetFunc", "lib.U"), "./e1/app", None, ["C01", "C19"], reject=rx)
    add("E-unexported-field-in-library-struct-provider", "E", inje("e2", "lib.SetStructField", "lib.U"), "./e2/app", None, ["C01", "C19", "C12"], reject=rx)
    add("E-unexported-struct-type-in-library-set", "E", inje("e3", "lib.SetStructType", "lib.W"), "./e3/app", None, ["C01", "C19", "C12"], reject=rx)
    add("E-unexported-field-selected-from-the-injector-package", "E", inje("e4", 'wire.FieldsOf(new(lib.U), "t")', "lib.T", "u lib.U"), "./e4/app", None, ["C01", "C19", "C12"], reject=rx)
    # ---------------- graph G: a library set listing providers and values of its own internal package
    def libg(g):
        return {"%s/lib/internal/impl/impl.go" % g: "package impl\n\ntype Store struct{ N int }\n\nvar Default = 40\n\nfunc NewStore(n int) *Store { return &Store{N: n + 2} }\n",
                "%s/lib/lib.go" % g: ("package lib\n\nimport (\n\t\"example.com/l/%s/lib/internal/impl\"\n\t\"%s\"\n)\n\ntype Store = impl.Store\n\n"
                                     "var Set = wire.NewSet(wire.Value(impl.Default), impl.NewStore)\n\nvar StructSet = wire.NewSet(wire.Value(1), wire.Struct(new(impl.Store), \"N\"))\n") % (g, W)}
    gin = libg("g1")
    gin.update({"g1/lib/cmd/main.go": "package main\n\nimport \"fmt\"\n\nfunc main() { fmt.Println(\"store\", initStore().N) }\n",
                "g1/lib/cmd/wire.go": INJ + "package main\n\nimport (\n\t\"example.com/l/g1/lib\"\n\t\"%s\"\n)\n\nfunc initStore() *lib.Store {\n\tpanic(wire.Build(lib.Set))\n}\n" % W})
    add("G-internal-providers-used-inside-the-tree", "G", gin, "./g1/lib/cmd", "store 42", ["C01", "C13", "C10"])
    rxi = r"wire\.go:\d+:\d+: inject initX: (provider for|value) \S+ can't be used: .*internal"
    for g, expr in (("g2", "lib.Set"), ("g3", "lib.StructSet")):
        gout = libg(g)
        gout.update({"%s/app/app.go" % g: "package main\n\nfunc main() {}\n",
                     "%s/app/wire.go" % g: INJ + "package main\n\nimport (\n\t\"example.com/l/%s/lib\"\n\t\"%s\"\n)\n\nfunc initX() *lib.Store {\n\tpanic(wire.Build(%s))\n}\n" % (g, W, expr)})
        add("E-internal-package-of-the-library-%s" % g, "E", gout, "./%s/app" % g, None, ["C01", "C13", "C19"], reject=rxi)
    # ---------------- graph H: forms the generator does not write
    # wire dot-imported, Bind in its value form, the concrete type from a struct provider offering both forms
    add("H-dot-imported-bind-value-form", "H", {
        "h1/app/main.go": ("package main\n\nimport \"fmt\"\n\ntype Shape interface{ Area() int }\ntype Circle struct{ R int }\n\nfunc (c Circle) Area() int { return 3 * c.R * c.R }\n\n"
                           "type UsesShape struct{ Kind string }\ntype UsesPtr struct{ P *Circle }\ntype Both struct {\n\tS UsesShape\n\tP UsesPtr\n}\n\n"
                           "func NewUsesShape(s Shape) UsesShape { return UsesShape{Kind: fmt.Sprintf(\"%T/%d\", s, s.Area())} }\nfunc NewUsesPtr(c *Circle) UsesPtr { c.R = 100; return UsesPtr{P: c} }\n"
                           "func NewBoth(p UsesPtr, s UsesShape) Both { return Both{S: s, P: p} }\n\nfunc main() { b := initBoth(); fmt.Println(b.S.Kind, b.P.P.R) }\n"),
        "h1/app/wire.go": INJ + ("package main\n\nimport . \"%s\"\n\nfunc initBoth() Both {\n\tpanic(Build(Value(2), Struct(new(Circle), \"R\"), Bind(new(Shape), new(Circle)), NewUsesShape, NewUsesPtr, NewBoth))\n}\n") % W,
    }, "./h1/app", "main.Circle/12 100", ["C02", "C11"])
    # FieldsOf on a pointer to a struct that is an injector argument: the pointer to the field aliases the argument
    add("H-pointer-to-field-of-an-injector-argument", "H", {
        "h2/app/main.go": ("package main\n\nimport \"fmt\"\n\ntype DB struct{ DSN string }\ntype Config struct {\n\tDB    DB\n\tLabel string\n}\ntype Svc struct {\n\tDB *DB\n\tL  string\n}\n\n"
                           "func NewSvc(db *DB, l string) *Svc { return &Svc{DB: db, L: l} }\nfunc NewConfig() *Config { return &Config{DB: DB{DSN: \"p\"}, Label: \"lp\"} }\n\n"
                           "func main() {\n\tcfg := &Config{DB: DB{DSN: \"a\"}, Label: \"la\"}\n\ts := initFromArg(7, cfg)\n\ts.DB.DSN = \"written\"\n\tt := initFromProvider()\n"
                           "\tfmt.Println(s.L, s.DB == &cfg.DB, cfg.DB.DSN, t.L, t.DB.DSN)\n}\n"),
        "h2/app/wire.go": INJ + ("package main\n\nimport \"%s\"\n\nvar set = wire.NewSet(wire.FieldsOf(new(*Config), \"DB\", \"Label\"), NewSvc)\n\n"
                                 "func initFromArg(unrelated int, cfg *Config) *Svc {\n\tpanic(wire.Build(set))\n}\n\nfunc initFromProvider() *Svc {\n\tpanic(wire.Build(set, NewConfig))\n}\n") % W,
    }, "./h2/app", "la true written lp p", ["C12", "C02"])
    # a directory whose name is not its package's name, next to a package that has that name
    add("H-directory-named-unlike-its-package", "H", {
        "h3/foo/foo.go": "package foo\n\ntype T struct{ N int }\n",
        "h3/foo2/x.go": "package foo\n\nimport first \"example.com/l/h3/foo\"\n\nfunc NewT(n int) first.T { return first.T{N: n + 1} }\n\nvar Forty = 40\n",
        "h3/app/main.go": "package main\n\nimport \"fmt\"\n\nvar foo = 1\n\nfunc main() { fmt.Println(\"t\", initT().N + foo, initN()) }\n",
        "h3/app/wire.go": INJ + ("package main\n\nimport (\n\tone \"example.com/l/h3/foo\"\n\ttwo \"example.com/l/h3/foo2\"\n\t\"%s\"\n)\n\n"
                                 "func initT() one.T {\n\tpanic(wire.Build(two.NewT, wire.Value(two.Forty)))\n}\n\nfunc initN() int {\n\tpanic(wire.Build(wire.Value(two.Forty)))\n}\n") % W,
    }, "./h3/app", "t 42 40", ["C14", "C01", "C15"])
    # ... and alone, its package name taken by a package-level identifier: the invented alias equals the directory name
    add("H-directory-named-like-the-invented-alias", "H", {
        "h4/foo2/x.go": "package foo\n\nvar Forty = 40\n\nfunc NewS(n int) string { return \"s\" }\n",
        "h4/app/main.go": "package main\n\nimport \"fmt\"\n\nvar foo = 2\n\nfunc main() { fmt.Println(\"n\", initN() + foo, initS()) }\n",
        "h4/app/wire.go": INJ + ("package main\n\nimport (\n\ttwo \"example.com/l/h4/foo2\"\n\t\"%s\"\n)\n\n"
                                 "func initN() int {\n\tpanic(wire.Build(wire.Value(two.Forty)))\n}\n\nfunc initS() string {\n\tpanic(wire.Build(two.NewS, wire.Value(two.Forty)))\n}\n") % W,
    }, "./h4/app", "n 42 s", ["C14", "C01", "C15"])
    # a pointer-typed field selected from a pointer to the struct: the consumer of **T gets the address of the field
    add("H-pointer-to-a-pointer-typed-field", "H", {
        "h6/app/main.go": ("package main\n\nimport \"fmt\"\n\ntype DB struct{ DSN string }\ntype Config struct{ P *DB }\ntype Svc struct {\n\tPP **DB\n\tP  *DB\n}\n\n"
                           "func NewSvc(pp **DB, p *DB) *Svc { return &Svc{PP: pp, P: p} }\n\n"
                           "func main() {\n\tcfg := &Config{P: &DB{DSN: \"a\"}}\n\ts := initSvc(cfg)\n\tfmt.Println(s.PP == &cfg.P, s.P == cfg.P, (*s.PP).DSN)\n}\n"),
        "h6/app/wire.go": INJ + ("package main\n\nimport \"%s\"\n\nfunc initSvc(cfg *Config) *Svc {\n\tpanic(wire.Build(wire.FieldsOf(new(*Config), \"P\"), NewSvc))\n}\n") % W,
    }, "./h6/app", "true true a", ["C12", "C02"])
    # two packages with one name declaring the same identifiers (a set, a provider, a binding), used by sibling injectors
    def store(kind):
        return ("package store\n\nimport \"%s\"\n\ntype Backend interface{ Kind() string }\ntype Store struct{ K string }\n\nfunc (s *Store) Kind() string { return s.K }\n\n"
                "func New() *Store { return &Store{K: \"%s\"} }\n\nvar Binding = wire.Bind(new(Backend), new(*Store))\n\nvar Set = wire.NewSet(New, Binding)\n") % (W, kind)
    add("I-same-named-packages-same-identifiers", "I", {
        "i1/mysql/store/store.go": store("mysql"), "i1/memory/store/store.go": store("memory"),
        "i1/app/main.go": "package main\n\nimport \"fmt\"\n\nfunc main() { fmt.Println(initProd().Kind(), initDev().Kind(), initDevFn().K, initProdBackend().Kind()) }\n",
        "i1/app/wire.go": INJ + ("package main\n\nimport (\n\tmem \"example.com/l/i1/memory/store\"\n\tsql \"example.com/l/i1/mysql/store\"\n\t\"%s\"\n)\n\n"
                                 "func initProd() sql.Backend {\n\tpanic(wire.Build(sql.Set))\n}\n\nfunc initDev() mem.Backend {\n\tpanic(wire.Build(mem.Set))\n}\n\n"
                                 "func initDevFn() *mem.Store {\n\tpanic(wire.Build(mem.New))\n}\n\nfunc initProdBackend() sql.Backend {\n\tpanic(wire.Build(sql.New, sql.Binding))\n}\n") % W,
    }, "./i1/app", "mysql memory memory mysql", ["C02", "C06", "C11", "C05", "C14"])
    # the injector sits in the very directory that holds internal/ (the parent itself may import it), and in a sibling
    # directory whose name merely starts like the parent's (it may not)
    g4 = libg("g4")
    g4.update({"g4/lib/main_test_helper.go": "package lib\n",
               "g4/lib/wire.go": INJ + "package lib\n\nimport \"%s\"\n\nfunc InitStore() *Store {\n\tpanic(wire.Build(Set))\n}\n" % W,
               "g4/run/main.go": "package main\n\nimport (\n\t\"fmt\"\n\n\t\"example.com/l/g4/lib\"\n)\n\nfunc main() { fmt.Println(\"store\", lib.InitStore().N) }\n"})
    add("G-internal-providers-used-by-the-parent-itself", "G", g4, "./g4/run", "store 42", ["C01", "C13", "C10"])
    g5 = libg("g5")
    g5.update({"g5/libfront/app.go": "package main\n\nfunc main() {}\n",
               "g5/libfront/wire.go": INJ + "package main\n\nimport (\n\t\"example.com/l/g5/lib\"\n\t\"%s\"\n)\n\nfunc initX() *lib.Store {\n\tpanic(wire.Build(lib.Set))\n}\n" % W})
    add("E-internal-package-used-by-a-sibling-with-a-longer-name", "E", g5, "./g5/libfront", None, ["C01", "C13", "C19"], reject=rxi)
    # a pointer to an interface-typed field
    add("H-pointer-to-an-interface-typed-field", "H", {
        "h7/app/main.go": ("package main\n\nimport \"fmt\"\n\ntype Logger interface{ Log() string }\ntype std struct{ p string }\n\nfunc (s std) Log() string { return s.p }\n\n"
                           "type Env struct {\n\tName string\n\tLog  Logger\n}\ntype Svc struct {\n\tL *Logger\n\tN *string\n}\n\nfunc NewSvc(l *Logger, n *string) *Svc { return &Svc{L: l, N: n} }\n\n"
                           "func main() {\n\tenv := &Env{Name: \"e\", Log: std{p: \"a\"}}\n\ts := initSvc(env)\n\t*s.L = std{p: \"b\"}\n\t*s.N = \"f\"\n\tfmt.Println(env.Log.Log(), env.Name, s.L == &env.Log)\n}\n"),
        "h7/app/wire.go": INJ + ("package main\n\nimport \"%s\"\n\nfunc initSvc(env *Env) *Svc {\n\tpanic(wire.Build(wire.FieldsOf(new(*Env), \"Log\", \"Name\"), NewSvc))\n}\n") % W,
    }, "./h7/app", "b f true", ["C12", "C02"])
    # wire.Struct on another package's type, first mention of that package, next to a local named like the package
    add("H-struct-of-a-package-first-mentioned-by-wire-struct", "H", {
        "h8/conf/conf.go": "package conf\n\ntype Settings struct {\n\tHost string\n\tPort int\n\tNote string\n}\n",
        "h8/app/main.go": ("package main\n\nimport (\n\t\"fmt\"\n\n\t\"example.com/l/h8/conf\"\n)\n\ntype Conf struct{ H string }\ntype Out struct{ S string }\n\nfunc provideConf() Conf { return Conf{H: \"h\"} }\nfunc provideHost(c Conf) string { return c.H }\n"
                           "func providePort() int { return 80 }\nfunc NewOut(s *conf.Settings) Out { return Out{S: fmt.Sprint(s.Host, s.Port, s.Note == \"\")} }\n\nfunc main() { fmt.Println(initOut().S) }\n"),
        "h8/app/wire.go": INJ + ("package main\n\nimport (\n\t\"example.com/l/h8/conf\"\n\t\"%s\"\n)\n\nfunc initOut() Out {\n\tpanic(wire.Build(provideConf, provideHost, providePort, wire.Struct(new(conf.Settings), \"Host\", \"Port\"), NewOut))\n}\n") % W,
    }, "./h8/app", "h80 true", ["C12", "C14", "C01"])
    # "*" on a struct with an embedded field whose type something else consumes as well
    add("H-star-with-an-embedded-field", "H", {
        "h9/app/main.go": ("package main\n\nimport \"fmt\"\n\ntype Logger struct{ P string }\ntype Store struct{ L *Logger }\ntype App struct {\n\t*Logger\n\tMax int\n\tS   Store\n}\n\n"
                           "func NewLogger() *Logger { return &Logger{P: \"log\"} }\nfunc NewMax() int { return 9 }\nfunc NewStore(l *Logger) Store { return Store{L: l} }\n\n"
                           "func main() {\n\ta := initApp()\n\tfmt.Println(a.Logger != nil && a.P == \"log\", a.Max, a.S.L == a.Logger)\n}\n"),
        "h9/app/wire.go": INJ + ("package main\n\nimport \"%s\"\n\nfunc initApp() *App {\n\tpanic(wire.Build(NewLogger, NewMax, NewStore, wire.Struct(new(App), \"*\")))\n}\n") % W,
    }, "./h9/app", "true 9 true", ["C02", "C12"])
    # variadic provider fed from a slice provider, variadic injector parameter consumed as a slice
    add("H-variadic-provider-and-injector", "H", {
        "h5/app/main.go": ("package main\n\nimport \"fmt\"\n\ntype Option string\ntype App struct {\n\tOpts []Option\n\tIDs  []string\n}\n\nfunc NewOptions() []Option { return []Option{\"a\", \"b\"} }\n"
                           "func NewApp(ids []string, opts ...Option) *App { return &App{Opts: opts, IDs: ids} }\n\n"
                           "func main() {\n\ta := initApp(\"x\", \"y\")\n\tb := initApp()\n\tfmt.Println(len(a.Opts), a.Opts[1], len(a.IDs), a.IDs[0], len(b.IDs), len(b.Opts))\n}\n"),
        "h5/app/wire.go": INJ + ("package main\n\nimport \"%s\"\n\nfunc initApp(ids ...string) *App {\n\tpanic(wire.Build(NewOptions, NewApp))\n}\n") % W,
    }, "./h5/app", "2 b 2 x 0 2", ["C01", "C02"])
    # a value whose unkeyed literal sets an unexported field of the library's struct
    libu = ("package lib\n\nimport \"%s\"\n\ntype Pair struct {\n\tName   string\n\thidden int\n}\n\nfunc (p Pair) Hidden() int { return p.hidden }\n\n"
            "var Unkeyed = wire.NewSet(wire.Value(Pair{\"a\", 7}))\nvar Nested = wire.NewSet(wire.Value([]Pair{{\"a\", 7}}))\nvar NestedPtr = wire.NewSet(wire.Value([]*Pair{{\"a\", 7}}))\nvar Keyed = wire.NewSet(wire.Value(Pair{Name: \"k\"}))\n") % W
    rxu = r"wire\.go:\d+:\d+: inject initX: value \S+ can't be used: .*unexported field"
    for g, expr, res in (("u1", "lib.Unkeyed", "lib.Pair"), ("u2", "lib.Nested", "[]lib.Pair"), ("u4", "lib.NestedPtr", "[]*lib.Pair")):
        add("E-unkeyed-literal-with-unexported-field-%s" % g, "E", {
            "%s/lib/lib.go" % g: libu, "%s/app/app.go" % g: "package main\n\nfunc main() {}\n",
            "%s/app/wire.go" % g: INJ + "package main\n\nimport (\n\t\"example.com/l/%s/lib\"\n\t\"%s\"\n)\n\nfunc initX() %s {\n\tpanic(wire.Build(%s))\n}\n" % (g, W, res, expr)},
            "./%s/app" % g, None, ["C13", "C01", "C19"], reject=rxu)
    add("G-keyed-literal-of-a-struct-with-unexported-fields", "G", {
        "u3/lib/lib.go": libu, "u3/app/app.go": "package main\n\nimport \"fmt\"\n\nfunc main() { p := initX(); fmt.Println(p.Name, p.Hidden()) }\n",
        "u3/app/wire.go": INJ + "package main\n\nimport (\n\t\"example.com/l/u3/lib\"\n\t\"%s\"\n)\n\nfunc initX() lib.Pair {\n\tpanic(wire.Build(lib.Keyed))\n}\n" % W},
        "./u3/app", "k 0", ["C13", "C01"])
    # an injector parameter named like a provider function that a sibling injector uses (the object cache is keyed by name)
    add("E-parameter-shadowing-a-provider", "E", {
        "s1/app/app.go": "package main\n\ntype A struct{}\ntype B struct{ A A }\n\nfunc provideA() A { return A{} }\nfunc provideB(a A) B { return B{A: a} }\n\nfunc main() {}\n",
        "s1/app/wire.go": INJ + ("package main\n\nimport \"%s\"\n\nfunc initB1() B {\n\tpanic(wire.Build(provideA, provideB))\n}\n\n"
                                 "func initX(provideA wire.ProviderSet) B {\n\tpanic(wire.Build(provideA, provideB))\n}\n") % W},
        "./s1/app", None, ["C06", "C20", "C10"], reject=r"wire\.go:\d+:\d+: .*provideA .*is not a provider or a provider set")
    return S


def eng_layouts(pid, tier, wd, known, replay=None):
    tools = build_tools()
    sc = [s for s in scenarios() if pid in s["pids"]]
    if replay is not None and replay.get("input", {}).get("layout"):
        sc = [s for s in scenarios() if s["name"] == replay["input"]["layout"]]
    root = os.path.join(wd, "layouts")
    os.makedirs(root, exist_ok=True)
    open(os.path.join(root, "go.mod"), "w").write("module example.com/l\n\ngo 1.21\n\nrequire %s v0.1.0\n\nreplace %s => %s\n" % (W, W, REPO))
    shutil.copy(os.path.join(REPO, "go.sum"), os.path.join(root, "go.sum"))
    for s in sc:
        for rel, t in s["files"].items():
            p = os.path.join(root, rel)
            os.makedirs(os.path.dirname(p), exist_ok=True)
            open(p, "w").write(t)
    viol, outcomes = [], {}
    bygraph = {}
    for s in sc:
        why, gen_text = [], None
        top = s["main"].split("/")[1]
        try:
            q = sh([tools["wire"], "gen", "./%s/..." % top], cwd=root, env=GOENV, timeout=120)
            rc, err = q.returncode, q.stderr
        except subprocess.TimeoutExpired:
            rc, err = 124, "timeout"
        if "goroutine " in err or rc in (2, 124):
            why.append("wire crashed on a well-formed program (exit %d): %s" % (rc, err[:400]))
        elif s.get("reject"):
            if rc == 0:
                b = sh(["go", "build", s["main"]], cwd=root, env=GOENV, timeout=300)
                why.append("the injector's package cannot name this provider, yet wire generated code" + ("; it does not compile: " + b.stderr[-300:] if b.returncode != 0 else ""))
            elif not re.search(s["reject"], err):
                why.append("refused, but without the positioned diagnostic about what the injector's package cannot name: " + err[:400])
            if pid == "C19":
                c = sh([tools["wire"], "check", "./%s/..." % top], cwd=root, env=GOENV, timeout=120)
                if (c.returncode == 0) != (rc == 0):
                    why.append("wire check exits %d where wire gen exits %d" % (c.returncode, rc))
        elif rc != 0:
            why.append("a well-formed program is rejected in this layout: " + err[:400])
        else:
            gens = [os.path.join(dp, f) for dp, _, fs in os.walk(os.path.join(root, top)) for f in fs if f == "wire_gen.go"]
            gen_text = "\n".join(open(g).read() for g in gens)
            b = sh(["go", "run", s["main"]], cwd=root, env=GOENV, timeout=300)
            if b.returncode != 0:
                why.append("the generated code does not compile or run: " + b.stderr[-500:])
            elif b.stdout.strip() != s["want"]:
                why.append("the program prints %r, the graph determines %r" % (b.stdout.strip(), s["want"]))
            else:
                bygraph.setdefault(s["graph"], set()).add(b.stdout.strip())
        outcomes["failed" if why else "ok"] = outcomes.get("failed" if why else "ok", 0) + 1
        if why:
            viol.append(({"property": pid, "kind": "failing-input", "broken": "layout oracle on the wire binary", "input": {"layout": s["name"]}, "rendered_files": s["files"],
                          "impl": {"exit": rc, "stderr": err[:800], "generated": gen_text}, "oracle": why, "seed": seed()}, True))
    shutil.rmtree(root, ignore_errors=True)
    return {"name": "layouts", "evaluations": len(sc), "distinct_nontrivial": len(sc), "samples": [{"layout": s["name"], "want": s["want"]} for s in sc[:2]], "traces": len(sc),
            "stats": {"outcomes": outcomes, "layouts": [s["name"] for s in sc]},
            "rule": "fixed provider graphs in varying layouts (sets declared two and three imports away from the injector, anonymous nested sets, same-named packages exporting the same "
                    "identifiers, import aliases differing from package names in value expressions, packages first mentioned inside or after the injector's body): accepted, compiled, "
                    "run; every layout of a graph prints the line the graph determines",
            "violations": viol, "known": []}
