#!/usr/bin/env python3
"""vcheck <property> [--tier quick|thorough] [--replay path]

Decides one property: (1) rebuilds the tools from /repo's working tree, (2) re-checks the property's
theorems (coqc + Print Assumptions), (3) runs the correspondence engines that tie the model to the code,
(4) on any break searches for a concrete failing input with the property oracle, (5) writes evidence."""
import sys, os, time, traceback
sys.path.insert(0, os.path.dirname(os.path.abspath(__file__)))
from common import *
import props


def main():
    args = sys.argv[1:]
    if not args:
        print(__doc__); sys.exit(2)
    pid = args[0]
    tier = os.environ.get("VERIF_TIER", "quick")
    replay = None
    i = 1
    while i < len(args):
        if args[i] == "--tier":
            tier = args[i + 1]; i += 2
        elif args[i] == "--replay":
            replay = args[i + 1]; i += 2
        else:
            i += 1
    if tier not in ("quick", "thorough"):
        tier = "quick"
    if pid not in props.PROPS:
        print("unknown property", pid); sys.exit(2)
    spec = props.PROPS[pid]
    t0 = time.time()
    wd = scratch("vc-" + pid)
    violations = []     # (replay payload, found_input: bool)
    known_lines = []
    cov = {"obligations": 0, "discharged": 0, "checker_cmd": "make -C coq (coq_makefile, full .vo build) + coqc Obligations.v with Print Assumptions per theorem; correspondence by coqc Cases_*.v (vm_compute)",
           "trusted_base": TRUSTED, "engines": {}, "evaluations": 0, "distinct_nontrivial": 0, "samples": [], "rule": ""}
    try:
        build_tools()
        ok, log = coq_build()
        theorems = spec["theorems"]
        cov["obligations"] = len(theorems)
        if not ok:
            details = {t: "development does not build" for t in theorems}
            n_ok = 0
            violations.append(({"property": pid, "kind": "no-failing-input-found", "broken": "coq development build", "log": log[-3000:]}, False))
        else:
            n_ok, details = check_obligations(theorems, wd)
            for t, d in details.items():
                if d != "closed":
                    violations.append(({"property": pid, "kind": "no-failing-input-found", "broken": "theorem " + t, "detail": d}, False))
        cov["discharged"] = n_ok
        cov["obligation_details"] = details
        known = [k for k in load_known() if k.get("property") == pid]
        rules = []
        for eng in spec["engines"]:
            if replay:
                res = eng(pid, tier, wd, known, replay=json.load(open(replay)))
            else:
                res = eng(pid, tier, wd, known)
            cov["engines"][res["name"]] = res.get("stats", {})
            cov["evaluations"] += res.get("evaluations", 0)
            cov["distinct_nontrivial"] += res.get("distinct_nontrivial", 0)
            cov["samples"] += res.get("samples", [])[:3]
            cov["traces_validated_against_impl"] = cov.get("traces_validated_against_impl", 0) + res.get("traces", 0)
            if res.get("exhaustive"):
                cov["exhaustive"] = True
            rules.append(res.get("rule", ""))
            violations += res.get("violations", [])
            known_lines += res.get("known", [])
        cov["rule"] = " | ".join(r for r in rules if r)
    except Exception as e:
        traceback.print_exc()
        violations.append(({"property": pid, "kind": "no-failing-input-found", "broken": "check machinery raised " + repr(e)[:500]}, False))
    finally:
        shutil.rmtree(wd, ignore_errors=True)
    for line in sorted(set(known_lines)):
        print("KNOWN-FINDING: property=%s %s" % (pid, line))
    wall = time.time() - t0
    if not cov["samples"]:
        cov["samples"] = [{"note": "no case sampled"}]
    write_evidence(pid, tier, "proof", cov, spec.get("assumptions", []) + TRUSTED, wall, len(violations))
    if violations:
        seen = set()
        violations.sort(key=lambda v: 0 if v[1] else 1)
        for payload, found in violations[:5]:
            path = write_replay(pid, payload)
            if path in seen:
                continue
            seen.add(path)
            print("VIOLATION property=%s replay=%s%s" % (pid, path, "" if found else " no-failing-input-found"))
        sys.exit(1)
    print("OK property=%s tier=%s obligations=%d/%d evaluations=%d wall=%.1fs" % (
        pid, tier, cov["discharged"], cov["obligations"], cov["evaluations"], wall))
    sys.exit(0)


if __name__ == "__main__":
    main()
