#!/usr/bin/env python3
"""Regenerates MANIFEST.json from the property table (claimed = has an entry in props.PROPS)."""
import json, os, sys
sys.path.insert(0, os.path.dirname(os.path.abspath(__file__)))
import props
from common import VERIF

LEVEL_TEXT = {}
DEFAULT_TEXT = ("Machine-checked proof in Coq 8.16.1 of the property over an executable Gallina model of the code "
                "(all inputs, no bound), re-checked each run (coqc + Print Assumptions), and the model is tied to /repo's "
                "current source by a correspondence run of model (vm_compute) against implementation on the same inputs.")
ids = [json.loads(l)["id"] for l in open(os.path.join(VERIF, "properties.jsonl"))]
checks, na = [], []
for pid in ids:
    if pid in props.PROPS:
        p = props.PROPS[pid]
        checks.append({
            "property_id": pid,
            "quick_cmd": "./bin/vcheck %s --tier quick" % pid,
            "thorough_cmd": "./bin/vcheck %s --tier thorough" % pid,
            "evidence_file": "evidence/%s.json" % pid,
            "replay_cmd_template": "./bin/vcheck %s --replay {path}" % pid,
            "engine": "rocq-model+" + "+".join(e.__name__.replace("eng_", "") for e in p["engines"]),
            "level_claimed": {"category": "proof", "text": p.get("level_text", DEFAULT_TEXT), "design_ref": p.get("design_ref", "DESIGN.md section 6, " + pid)},
            "level_note": "; ".join(p.get("assumptions", [])) + "; trusted base: Coq kernel + VM, no axioms, hand-written model tied by correspondence (see DESIGN.md section 8)",
            "technique": p.get("technique", "Rocq (Coq) proof over executable model + model/implementation correspondence (vm_compute)"),
        })
    else:
        na.append({"property_id": pid, "reason": props.NOT_YET.get(pid, "check not built yet in this round; planned per DESIGN.md section 6")})
m = {
    "version": 1,
    "setup_cmd": "./bin/vsetup",
    "hooks": {"guard": "verif", "enable": "go build -tags verif ./internal/verifcmd (files internal/wire/verif_hooks.go, internal/verifcmd/main.go, both //go:build verif)",
              "baseline_off_cmd": "cd /repo && go test -mod=mod -json -vet=off -count=1 -timeout 25m ./...",
              "source_commits": props.HOOK_COMMITS, "add_only": True},
    "engines": [
        {"name": "rocq-model", "path": "coq/", "serves_properties": [c["property_id"] for c in checks], "kind_free_text": "Coq 8.16.1 development: executable model, refinement proofs, Properties.v"},
        {"name": "synth", "path": "harness/synth.py", "serves_properties": [c["property_id"] for c in checks if "synth" in c["engine"]], "kind_free_text": "synthetic provider-set trees through the real analysis (verif hook) vs the model, compared by vm_compute"},
    ],
    "checks": checks,
    "not_applicable": na,
    "notes": "All checks rebuild wire and the verif hook command from /repo's working tree on every run. Evidence is rewritten by every run.",
}
json.dump(m, open(os.path.join(VERIF, "MANIFEST.json"), "w"), indent=1)
print("claimed:", [c["property_id"] for c in checks])
