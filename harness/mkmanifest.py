#!/usr/bin/env python3
"""Regenerates MANIFEST.json from the property table (claimed = has an entry in props.PROPS)."""
import json, os, sys
sys.path.insert(0, os.path.dirname(os.path.abspath(__file__)))
import props
from common import VERIF

LEVEL_TEXT = {}
DEFAULT_TEXT = ("Machine-checked proof in Coq 8.16.1 of the property over an executable Gallina model of the code "
                "(all inputs, no bound), re-checked each run (coqc + Print Assumptions), and the model is tied to /repo's "
                "current source by a correspondence run of model (vm_compute) against implementation on the same inputs.")
ids = [json.loads(l)["id"] for l in open(os.path.join(VERIF, "properties.jsonl"))]
checks, na = [], []
for pid in ids:
    if pid in props.PROPS:
        p = props.PROPS[pid]
        checks.append({
            "property_id": pid,
            "quick_cmd": "./bin/vcheck %s --tier quick" % pid,
            "thorough_cmd": "./bin/vcheck %s --tier thorough" % pid,
            "evidence_file": "evidence/%s.json" % pid,
            "replay_cmd_template": "./bin/vcheck %s --replay {path}" % pid,
            "engine": "rocq-model+" + "+".join(e.__name__.replace("eng_", "") for e in p["engines"]),
            "level_claimed": {"category": "proof", "text": p.get("level_text", DEFAULT_TEXT), "design_ref": p.get("design_ref", "DESIGN.md section 6, " + pid)},
            "level_note": "; ".join(p.get("assumptions", [])) + "; trusted base: Coq kernel + VM, no axioms, hand-written model tied by correspondence (see DESIGN.md section 8)",
            "technique": p.get("technique", "Rocq (Coq) proof over executable model + model/implementation correspondence (vm_compute)"),
        })
    else:
        na.append({"property_id": pid, "reason": props.NOT_YET.get(pid, "check not built yet in this round; planned per DESIGN.md section 6")})
m = {
    "version": 1,
    "setup_cmd": "./bin/vsetup",
    "hooks": {"guard": "verif", "enable": "go build -tags verif ./internal/verifcmd (files internal/wire/verif_hooks.go, internal/verifcmd/main.go, both //go:build verif)",
              "baseline_off_cmd": "cd /repo && go test -mod=mod -json -vet=off -count=1 -timeout 25m ./...",
              "source_commits": props.HOOK_COMMITS, "add_only": True},
    "engines": [
        {"name": "rocq-model", "path": "coq/", "serves_properties": [c["property_id"] for c in checks], "kind_free_text": "Coq 8.16.1 development: executable model, refinement proofs, Properties.v"},
        {"name": "synth", "path": "harness/synth.py", "serves_properties": [c["property_id"] for c in checks if "synth" in c["engine"]], "kind_free_text": "synthetic provider-set trees through the real analysis (verif hook) vs the model, compared by vm_compute"},
    ] + [{"name": n, "path": "harness/" + f, "serves_properties": [c["property_id"] for c in checks if n in c["engine"].split("+")], "kind_free_text": t} for n, f, t in [
        ("prog", "engprog.py", "whole Go modules rendered from abstract programs through wire gen, go build and traced runs vs Emit.generate1 / Exec (vm_compute) and the property oracles"),
        ("multi", "multieng.py", "sibling injectors of one package: independence, value variables, permuted items"),
        ("layouts", "layouteng.py", "hand-written programs in varying package layouts, generated, compiled and run against their expected output"),
        ("forms", "formeng.py", "hand-written and grammar-generated spellings of the marker calls through gen and check: diagnostics contract, compile oracle"),
        ("front", "fronteng.py", "marker calls over known go/types shapes vs FrontRules.v"),
        ("body", "bodyeng.py", "injector bodies over the statement kinds of findInjectorBuild vs InjBody.v"),
        ("seq", "seqeng.py", "file layout of wire_gen.go (sections, injectors, copied declarations) vs Layout.v"),
        ("show", "showeng.py", "wire show output vs Show.v and the property's wording"),
        ("cli", "clieng.py", "gen / diff / check / show invocations and histories vs Cli.v and the command-line contract"),
        ("determinism", "deteng.py", "byte comparison of outputs across repeats, locations, patterns and module / GOPATH / vendor layouts"),
        ("rename", "renameeng.py", "the real rewritePkgRefs on generated functions (hook renameprobe) vs Rename.v"),
        ("paths", "patheng.py", "vendor stripping, importableFrom, isWireImport (hook pathprobe) vs Paths.v"),
        ("access", "accesseng.py", "accessibleFrom on generated expressions (hook accessprobe) vs AccessRules.v"),
        ("copyprobe", "probeeng.py", "copyAST on every go/ast node type and field: regenerated table theorem"),
        ("copydecls", "probeeng.py", "declaration corpus copied from an injector file: structure and behaviour"),
        ("valuetable", "probeeng.py", "processValue on expression forms: regenerated table vs Front.value_ok"),
        ("funcoutput", "props.py", "funcOutput on all result lists up to length 4: regenerated table theorem"),
        ("zerovalue", "props.py", "zeroValue on every type kind: regenerated table theorem, expressions compiled"),
    ] if any(n in c["engine"].split("+") for c in checks)],
    "checks": checks,
    "not_applicable": na,
    "notes": "All checks rebuild wire and the verif hook command from /repo's working tree on every run. Evidence is rewritten by every run.",
}
json.dump(m, open(os.path.join(VERIF, "MANIFEST.json"), "w"), indent=1)
print("claimed:", [c["property_id"] for c in checks])
