"""Engine (C20, C13, C11 front end): unusual but type-correct spellings of marker-call arguments and result
types through the real binary: exit status 0, or non-zero with a positioned diagnostic; never a panic."""
from concurrent.futures import ThreadPoolExecutor
from common import *

BASE = '''package p

import (
	"unsafe"

	"github.com/google/wire"
)

var _ unsafe.Pointer
var _ = wire.NewSet

type S struct {
	A int
	B string
}
type I interface{ M() }
type J interface {
	M()
	N()
}
type C struct{}

func (C) M() {}

type D struct{}

func (*D) M() {}

type G[T any] struct{ V T }
type F func() int
type AS = S

func NewA() int       { return 1 }
func NewB() string    { return "" }
func NewC() C         { return C{} }
func NewE() (int, error) { return 1, nil }
func mk() *S          { return nil }

func dupFn(a func(x int) int, b func(y int) int) int { return a(1) + b(2) }
func dupAny(a any, b interface{}) int               { return 0 }
func dupAlias(a S, b AS) int                        { return 0 }
func dupVar(a []int, b ...int) int                  { return 0 }
func noDup(a func(x int) int, b func(y int) string) int { return 0 }
func NewFn1() func(int) int                         { return nil }
func NewFn2() func(int) string                      { return nil }
func NewAny() any                                   { return nil }
func NewS() S                                       { return S{} }
func NewInts() []int                                { return nil }
func mk1(x int) *S    { return nil }

var SetV = wire.NewSet(NewA)
var V = 3
var PS = new(S)
var Fn F
var Ch chan int
var ChC chan C
var Sl = []int{1, 2, 3}
var IV I = C{}
var JV J = jimpl{}

type élan struct{ N int }

func newÉlan() élan       { return élan{N: 1} }
func useÉlan(e élan) int { return e.N }

type One struct{ A int }
type BlankS struct {
	A int
	_ string
}
type PSp *S

func mkPSp() PSp { return &S{A: 5} }

type AnonS = struct {
	A int
	B string
}
type PI *int
type MS map[string]int
type SL []int

var (
	vS    S
	vPS   *S
	vPPS  **S
	vAS   AS
	vG    G[int]
	vPG   *G[int]
	vI    I
	vInt  int
	vPInt *int
	vMap  MS
	vArr  [2]S
	vFn   func() *S
	sName = "A"
)

func mkG() *G[int]       { return nil }
func mkI() I             { return C{} }
func mkPI() *I           { return nil }
func idS(p *S) *S        { return p }
func NewV() (v struct{}) { return }

func two() (wire.ProviderSet, wire.ProviderSet) { return wire.NewSet(NewA), wire.NewSet() }
func GenF[T any]() (z T)                        { return }

var MA, MB = two()
var PA, PB = wire.NewSet(NewB), wire.NewSet(NewA)
var NV wire.ProviderSet
var FV = NewA
var SV2 = SetV
var Holder = struct{ S wire.ProviderSet }{wire.NewSet(NewA)}
var (
	GA = wire.NewSet(NewB)
	GB = wire.NewSet(NewA)
)

const K = 4
const FieldA = "A"
const iota0 = iota
'''

DEP = '''package dep

import "github.com/google/wire"

type T struct{ N int }

func N1() T { return T{N: 1} }
func N2() T { return T{N: 2} }
type Two struct{ A, B uint16 }

func Exit(code int) {}
func Three() (int, int, int) { return 1, 2, 3 }

var BadSet = wire.NewSet(N1, N2)
var GoodSet = wire.NewSet(N1)
'''
INJ = '''//go:build wireinject
// +build wireinject

package p

import (
	"unsafe"

	%s"github.com/google/wire"
)

var _ unsafe.Pointer

func Inject(%s) %s {
	%s
}
'''


def forms():
    F = []

    def add(name, args, res="int", expect="diag", body=None, dot=False, key=None, params="", dotdep=False):
        F.append({"name": name, "args": args, "res": res, "expect": expect, "body": body, "dot": dot, "key": key or name, "params": params, "dotdep": dotdep})
    # ---- wire.Build / NewSet arguments
    add("provider", "NewA", expect="ok")
    add("paren-provider", "(NewA)", expect="ok")
    add("set-var", "SetV", expect="ok")
    add("inline-set", "wire.NewSet(NewA)", expect="ok")
    add("nil", "nil", key="build-arg:nil")
    add("plain-var", "V")
    add("const", "K")
    add("builtin-new", "new(S)")
    add("builtin-len", 'len("x")')
    add("builtin-make", "make(chan int)")
    add("conversion-predeclared", 'string("x")')
    add("conversion-error", "error(nil)")
    add("addr-of-literal", "&S{}")
    add("struct-literal", "S{}, NewA, NewB", res="S", expect="ok")
    add("anon-struct-literal", "struct{}{}")
    add("slice-literal", "[]int{1}")
    add("func-literal", "func() int { return 1 }")
    add("nested-build", "wire.Build(NewA)")
    add("method-value", "C{}.M")
    add("index-expr", "Sl[0]")
    add("basic-literal", "42")
    add("generic-func-inst", "NewA, G[int]{}")
    # ---- identifiers of every object kind / declaration shape
    add("multi-value-var-first", "MA", key="build-arg:var-from-multi-value-call")
    add("multi-value-var-second", "MB", key="build-arg:var-from-multi-value-call")
    add("parallel-var-second", "PB", expect="ok")
    add("grouped-var-second", "GB", expect="ok")
    add("var-without-value", "NV")
    add("var-of-func", "FV", expect="any")
    add("var-of-set-var", "SV2", expect="any")
    add("field-of-var", "Holder.S")
    add("method-expr", "C.M")
    add("generic-func-instance", "GenF[int]")
    add("parameter", "ps", params="ps wire.ProviderSet")
    add("parameter-func", "pf", params="pf func() int")
    # ---- wire.Struct
    add("struct-star", 'wire.Struct(new(S), "*"), NewA, NewB', res="S", expect="ok")
    add("struct-names", 'wire.Struct(new(S), "A"), NewA', res="*S", expect="ok")
    add("struct-alias", 'wire.Struct(new(AS), "*"), NewA, NewB', res="S", expect="ok")
    add("struct-addr-literal", 'wire.Struct(&S{}, "*"), NewA, NewB', res="S", expect="ok", key="struct-first-arg:addr-of-literal")
    add("struct-variable", 'wire.Struct(PS, "*"), NewA, NewB', res="S", expect="ok", key="struct-first-arg:variable")
    add("struct-paren-new", 'wire.Struct((new(S)), "*"), NewA, NewB', res="S", expect="ok", key="struct-first-arg:parenthesised-new")
    add("struct-anon", 'wire.Struct(new(struct{ A int }), "*"), NewA', res="struct{ A int }", key="struct-first-arg:new-anonymous-struct")
    add("struct-generic", 'wire.Struct(new(G[int]), "*"), NewA', res="G[int]", key="struct-first-arg:new-generic-instance")
    add("struct-conv-nil", 'wire.Struct((*S)(nil), "*"), NewA, NewB', res="S", expect="ok", key="struct-first-arg:conversion")
    add("struct-call-noarg", 'wire.Struct(mk(), "*"), NewA, NewB', res="S", expect="ok", key="struct-first-arg:call-without-argument")
    add("struct-call-arg", 'wire.Struct(mk1(V), "*"), NewA, NewB', res="S", expect="ok", key="struct-first-arg:call-with-argument")
    add("struct-not-struct", 'wire.Struct(new(int), "*")')
    add("struct-not-pointer", 'wire.Struct(S{}, "*")')
    add("struct-const-name", "wire.Struct(new(S), FieldA), NewA", res="S")
    add("struct-unknown-name", 'wire.Struct(new(S), "Z"), NewA', res="S")
    add("struct-raw-name", "wire.Struct(new(S), `A`), NewA", res="S")
    add("struct-dup-type", 'wire.Struct(new(struct{ A, B int }), "*"), NewA', res="struct{ A, B int }", key="struct-first-arg:new-anonymous-struct")
    add("struct-repeated-name-short", 'wire.Struct(new(One), "A", "A"), NewA', res="One")
    add("struct-repeated-name-long", 'wire.Struct(new(S), "A", "B", "A"), NewA, NewB', res="S")
    add("struct-repeated-star", 'wire.Struct(new(One), "*", "*"), NewA', res="One", expect="any")
    # ---- wire.FieldsOf
    add("fields-defined-pointer-type", 'wire.FieldsOf(new(PSp), "A"), mkPSp', res="*int", expect="ok")
    add("fields-defined-pointer-type-value", 'wire.FieldsOf(new(PSp), "A"), mkPSp', res="int", expect="ok")
    add("fields-repeated-name", 'wire.FieldsOf(new(S), "A", "A"), wire.Struct(new(S), "B"), NewB', expect="any")
    add("fields-value", 'wire.FieldsOf(new(S), "A"), wire.Struct(new(S), "B"), NewB', expect="ok")
    add("fields-pointer", 'wire.FieldsOf(new(*S), "A"), wire.Struct(new(S), "B"), NewB', expect="ok")
    add("fields-ptr-ptr", 'wire.FieldsOf(new(**S), "A")', key="fieldsof-first-arg:pointer-to-pointer-to-pointer")
    add("fields-ptr-int", 'wire.FieldsOf(new(*int), "A")', key="fieldsof-first-arg:pointer-to-pointer-to-non-struct")
    add("fields-int", 'wire.FieldsOf(new(int), "A")')
    add("fields-none", "wire.FieldsOf(new(S))")
    add("fields-too-many", 'wire.FieldsOf(new(S), "A", "B", "A")')
    add("fields-variable", 'wire.FieldsOf(&PS, "A"), wire.Value(PS)', expect="any")
    # ---- wire.Bind
    add("bind-ok", "wire.Bind(new(I), new(C)), NewC", res="I", expect="ok")
    add("bind-ptr-recv", "wire.Bind(new(I), new(*D)), wire.Struct(new(D))", res="I", expect="ok")
    add("bind-value-with-ptr-recv", "wire.Bind(new(I), new(D)), wire.Struct(new(D))", res="I")
    add("bind-self", "wire.Bind(new(I), new(I))", res="I")
    add("bind-not-iface", "wire.Bind(new(C), new(C)), NewC", res="C")
    add("bind-not-impl", "wire.Bind(new(I), new(S))", res="I")
    add("bind-iface-missing-method", "wire.Bind(new(J), new(I)), wire.InterfaceValue(new(I), C{})", res="J")
    add("bind-iface-to-iface", "wire.Bind(new(I), new(J)), wire.InterfaceValue(new(J), jimpl{})", res="I", expect="any")
    add("bind-not-pointer", "wire.Bind(new(I), C{})", res="I")
    add("bind-dot-import", "Bind(new(I), new(C)), NewC", res="I", dot=True, expect="ok", key="bind:dot-imported-wire")
    add("newset-dot-import", "NewSet(NewA)", dot=True, expect="ok")
    add("value-dot-import", "Value(7)", dot=True, expect="ok")
    # ---- wire.Value / InterfaceValue
    add("value-literal", "wire.Value(7)", expect="ok")
    add("value-call", "wire.Value(NewA())")
    add("value-named-func-call", "wire.Value(Fn())", key="value:call-through-named-func-type")
    add("value-recv", "wire.Value(<-Ch)")
    add("value-iface", "wire.Value(IV)", res="I")
    add("value-call-then-conv", "wire.Value(NewA() + int(K))")
    add("value-recv-then-conv", "wire.Value(<-Ch + int(K))")
    add("value-composite-call-conv", "wire.Value([]int{NewA(), int(K)})", res="[]int")
    add("value-conv", "wire.Value(int(K))", expect="ok")
    add("value-const-builtin", "wire.Value(len([3]int{}))", expect="ok")
    add("value-nonconst-builtin", "wire.Value(len(Sl))")
    add("value-funclit", "wire.Value(func() int { return 1 })", res="func() int")
    add("value-nil", "wire.Value(nil)", expect="any")
    add("ifacevalue-ok", "wire.InterfaceValue(new(I), C{})", res="I", expect="ok")
    # calls and receives inside wire.InterfaceValue (C13 refuses them for both kinds of value provider; the pinned tree and
    # its own InterfaceValue golden case accept them: known finding, see known_findings.json)
    add("ifacevalue-call", "wire.InterfaceValue(new(I), NewC())", res="I", key="ifacevalue:call-accepted")
    add("ifacevalue-recv", "wire.InterfaceValue(new(I), <-ChC)", res="I", key="ifacevalue:call-accepted")
    add("ifacevalue-not-impl", "wire.InterfaceValue(new(I), S{})", res="I")
    add("ifacevalue-not-iface", "wire.InterfaceValue(new(C), C{})", res="C")
    add("ifacevalue-smaller-iface", "wire.InterfaceValue(new(J), IV)", res="J")
    add("ifacevalue-larger-iface", "wire.InterfaceValue(new(I), JV)", res="I", expect="ok")
    # ---- result types (zero value in the error branch)
    for i, t in enumerate(["unsafe.Pointer", "func() int", "F", "chan int", "map[string]int", "[2]int", "G[int]", "*S", "I", "[]string", "struct{ A int }", "any", "error", "uintptr", "complex128"]):
        add("result-%d" % i, "newR%d" % i, res=t, expect="ok")
    # ---- top-level variables of type wire.ProviderSet (what `wire check` / `wire show` load)
    for nm, decl in [("literal", "var TL = wire.ProviderSet{}"), ("no-value", "var TZ wire.ProviderSet"), ("from-func", "func mkSet() wire.ProviderSet { return wire.NewSet() }\nvar TF = mkSet()"),
                     ("deref-new", "var TP = *new(wire.ProviderSet)"), ("indexed", "var TI = [1]wire.ProviderSet{wire.NewSet()}[0]"), ("parallel", "var TA, TB = wire.NewSet(NewA), wire.NewSet()"),
                     ("multi-value", "var TM, TN = two()"), ("of-var", "var TV = SetV"), ("paren", "var TQ = (wire.NewSet(NewA))"), ("typed-decl", "var TT wire.ProviderSet = wire.NewSet(NewB)"),
                     ("pointer", "var TPtr = &wire.ProviderSet{}"), ("in-struct", "var TS = struct{ S wire.ProviderSet }{wire.NewSet()}"), ("unexported", "var tl = wire.NewSet(NewA, NewA)"),
                     ("bad-set", "var TBad = wire.NewSet(NewA, NewA)"), ("cyclic-set", "func cA(b bb) aa { return 0 }\nfunc cB(a aa) bb { return 0 }\ntype aa int\ntype bb int\nvar TC = wire.NewSet(cA, cB)")]:
        add("toplevel-" + nm, "NewA", expect="any")
        F[-1]["decl"] = decl
    # ---- functions and sets of another package (a dependency) that are no providers / not well-formed: the diagnostic
    # must point at the reference in the user's file, not only into the dependency
    add("dep-func-not-provider", "NewA, dep.Exit")
    add("dep-func-bad-results", "NewA, dep.Three")
    add("dep-bad-set", "dep.BadSet")
    add("dep-bad-set-nested", "wire.NewSet(NewB, wire.NewSet(dep.BadSet))")
    add("dep-good-set", "dep.GoodSet", res="dep.T", expect="ok")
    add("dep-struct-dup-fields", 'wire.Struct(new(dep.Two), "*")', res="dep.Two")
    add("dep-struct-literal-dup-fields", "dep.Two{}", res="dep.Two")
    # ... the same reached through a dot import (the reference is a bare identifier)
    add("dep-dot-func-not-provider", "NewA, Exit", dotdep=True)
    add("dep-dot-bad-set", "BadSet", dotdep=True)
    add("dep-dot-good-set", "GoodSet", res="T", expect="ok", dotdep=True)
    # ---- provider functions with two parameters of one type written in two ways
    add("dup-param-func-types", "dupFn, NewFn1")
    add("dup-param-any", "dupAny, NewAny")
    add("dup-param-alias", "dupAlias, NewS")
    add("dup-param-variadic", "dupVar, NewInts")
    add("dup-param-none", "noDup, NewFn1, NewFn2", expect="ok")
    # the deprecated struct-literal provider form on a struct with a blank field
    # a type whose name starts with a non-ASCII letter and whose derived variable name is taken (the fall-back name is
    # built with strings.Title)
    add("non-ascii-type-name-collision", "newÉlan, useÉlan", expect="ok")
    add("struct-literal-blank-field", "NewA, BlankS{}", res="BlankS", expect="ok")
    add("struct-star-blank-field", 'NewA, wire.Struct(new(BlankS), "*")', res="BlankS", expect="ok")
    # ---- injector shapes
    add("injector-extra-stmt", None, body="_ = 1\n\tpanic(wire.Build(NewA))", key="invalid-injector:diagnostic-without-position")
    add("injector-two-builds", None, body="wire.Build(NewA)\n\twire.Build(NewA)\n\treturn 0", key="invalid-injector:diagnostic-without-position")
    add("injector-return-style", None, body="wire.Build(NewA)\n\treturn 0", expect="ok")
    add("injector-no-result", "NewA", res="", expect="diag")
    return F


def gen_forms(rng, n):
    """Grammar-based spellings: pointer-valued first arguments of Struct / FieldsOf / Bind over a zoo of types and
    expression shapes, field-name arguments, value expressions.  Only the C20 contract is expected of them; the ones
    wire accepts are compiled (C01)."""
    out = []
    ptr_exprs = {          # expression -> pointee type text
        "S": ["new(S)", "(new(S))", "&S{}", "&S{A: 1}", "(*S)(nil)", "vPS", "&vS", "mk()", "mk1(1)", "idS(new(S))", "*vPPS", "&vArr[0]", "vFn()", "(&vS)"],
        "AS": ["new(AS)", "&AS{}", "&vAS", "(*AS)(nil)"],
        "G[int]": ["new(G[int])", "&G[int]{}", "vPG", "&vG", "mkG()"],
        "AnonS": ["new(AnonS)", "&AnonS{}", "new(struct {\n\tA int\n\tB string\n})"],
        "*S": ["new(*S)", "&vPS", "vPPS", "new(PSp)"],
        "I": ["new(I)", "&vI", "mkPI()"],
        "int": ["new(int)", "&vInt", "vPInt", "new(PI)"],
        "MS": ["new(MS)", "&vMap"],
        "C": ["new(C)", "&C{}"],
        "*C": ["new(*C)"],
        "D": ["new(D)", "&D{}"],
        "*D": ["new(*D)"],
        "J": ["new(J)"],
    }
    names = ['"A"', '"B"', '"*"', '`A`', '"a"', '""', '"Z"', 'FieldA', 'sName', '"A" + ""', '"V"', '"A", "B"', '"B", "A"', '"A", "A"', '"*", "A"']
    provs = "NewA, NewB"
    for _ in range(n):
        k = rng.choice(["struct", "struct", "fields", "fields", "bind", "value", "ifacevalue", "build"])
        if k == "struct":
            ty = rng.choice(["S", "S", "AS", "G[int]", "AnonS", "*S", "int", "I", "MS"])
            e = rng.choice(ptr_exprs[ty]); nm = rng.choice(names)
            res = rng.choice([ty, "*" + ty]) if ty not in ("*S",) else "S"
            out.append({"name": "g-struct", "args": "wire.Struct(%s, %s), %s" % (e, nm, provs), "res": res})
        elif k == "fields":
            ty = rng.choice(["S", "S", "*S", "AS", "G[int]", "AnonS", "int", "I"])
            e = rng.choice(ptr_exprs[ty]); nm = rng.choice(names)
            src = {"S": "wire.Value(S{A: 1})", "*S": "mk", "AS": "wire.Value(AS{})", "G[int]": "wire.Value(G[int]{})", "AnonS": "wire.Value(AnonS{})", "int": "NewA", "I": "mkI"}[ty]
            out.append({"name": "g-fields", "args": "wire.FieldsOf(%s, %s), %s" % (e, nm, src), "res": rng.choice(["int", "string", "*int", "*string"])})
        elif k == "bind":
            it = rng.choice(["I", "I", "J", "C", "int", "*S"]); ct = rng.choice(["C", "*C", "D", "*D", "S", "I", "J", "int"])
            ie = rng.choice(ptr_exprs.get(it, ["new(%s)" % it])); ce = rng.choice(ptr_exprs.get(ct, ["new(%s)" % ct]))
            src = {"C": "NewC", "*C": "wire.Value(&C{})", "D": "wire.Struct(new(D))", "*D": "wire.Struct(new(D))", "S": "wire.Value(S{})", "I": "mkI", "J": "wire.InterfaceValue(new(J), jimpl{})", "int": "NewA"}[ct]
            out.append({"name": "g-bind", "args": "wire.Bind(%s, %s), %s" % (ie, ce, src), "res": it if it in ("I", "J") else "I"})
        elif k == "value":
            e, t = rng.choice([("vS", "S"), ("vS.A", "int"), ("&vS", "*S"), ("vArr[1]", "S"), ("vArr[1].B", "string"), ("[]int{1, 2}[0]", "int"), ("SL{1}", "SL"), ("MS{}", "MS"), ("vMap[\"k\"]", "int"),
                               ("*vPInt", "int"), ("-vInt", "int"), ("vInt + K", "int"), ("K << 2", "int"), ("string(rune(K))", "string"), ("float64(vInt)", "float64"), ("(vS)", "S"), ("struct{}{}", "struct{}"),
                               ("[2]int{}", "[2]int"), ("&vArr", "*[2]S"), ("vFn", "func() *S"), ("mk", "func() *S"), ("vI.(C)", "C"), ("vPS.A", "int"), ("(*vPS).B", "string"), ("unsafe.Sizeof(vS)", "uintptr"),
                               ("len(vArr)", "int"), ("cap(Sl)", "int"), ("new(int)", "*int"), ("complex(1, 2)", "complex128"), ("real(complex(1, 2))", "float64"), ("vG.V", "int"), ("G[int]{V: 1}", "G[int]"),
                               ("AS{}", "S"), ("AnonS{A: 1}", "AnonS"), ("func() {}", "func()"), ("Fn", "F"), ("F(nil)", "F"), ("IV", "I"), ("error(nil)", "error"), ("any(1)", "any")])
            out.append({"name": "g-value", "args": "wire.Value(%s)" % e, "res": t})
        elif k == "ifacevalue":
            it = rng.choice(["I", "J", "any", "error", "C", "F"]); e = rng.choice(["C{}", "&C{}", "&D{}", "D{}", "jimpl{}", "IV", "JV", "vI", "nil", "mkI()", "1", "S{}", "(*D)(nil)", "I(C{})", "struct{ C }{}"])
            out.append({"name": "g-ifacevalue", "args": "wire.InterfaceValue(new(%s), %s)" % (it, e), "res": it})
        else:
            e = rng.choice(["vS", "&vS", "vFn", "mk", "mk()", "NewV", "GA, GB", "(GA)", "PA", "wire.NewSet(wire.NewSet(), (NewA))", "wire.NewSet(SetV)", "SetV, SetV", "NewA, NewA", "S{}, NewB, NewA", "S{A: 1}", "&S{}, NewA, NewB",
                            "AS{}, NewA, NewB", "G[int]{}", "C{}", "vS.A", "C.M", "(*D).M", "idS", "Holder", "struct{ S wire.ProviderSet }{}.S", "[]wire.ProviderSet{SetV}[0]", "func() wire.ProviderSet { return SetV }()",
                            "wire.ProviderSet{}", "*new(wire.ProviderSet)", "NV", "unsafe.Pointer(nil)", "I(nil)", "error(nil)", "K", "iota0", "true", "\"s\"", "'c'", "1.5", "vArr", "vMap", "Ch"])
            out.append({"name": "g-build", "args": e, "res": rng.choice(["int", "S", "*S"])})
    for i, f in enumerate(out):
        f.update({"name": "%s-%d" % (f["name"], i), "expect": "any", "body": None, "dot": False, "key": "generated-form", "params": "", "generated": True})
    return out


def render(f):
    extra = ["type jimpl struct{}\nfunc (jimpl) M() {}\nfunc (jimpl) N() {}\n"]
    for i, t in enumerate(["unsafe.Pointer", "func() int", "F", "chan int", "map[string]int", "[2]int", "G[int]", "*S", "I", "[]string", "struct{ A int }", "any", "error", "uintptr", "complex128"]):
        extra.append("func newR%d() (%s, error) { var z %s; return z, nil }" % (i, t, t))
    body = f["body"] if f["body"] is not None else "panic(%s(%s))" % ("Build" if f["dot"] else "wire.Build", f["args"])
    res = f["res"]
    if f["name"].startswith("result-"):
        res = "(%s, error)" % f["res"]
    imp = '. "github.com/google/wire"\n\t' if f["dot"] else ""
    if f.get("dotdep"):
        imp += '. "example.com/depmod/dep"\n\t'
    elif "dep." in body or "dep." in res:
        imp += '"example.com/depmod/dep"\n\t'
    inj = INJ % (imp, f.get("params", ""), res, body)
    if f["dot"]:
        inj = inj.replace('\t"github.com/google/wire"\n', "")
    elif "wire." not in body:
        inj = inj.replace('\t"github.com/google/wire"\n', '\t_ "github.com/google/wire"\n')
    return {"p.go": BASE + "\n".join(extra) + "\n" + (f.get("decl") or "") + "\n", "wire.go": inj}


def eng_forms(pid, tier, wd, known, replay=None):
    fs = forms()
    if pid == "C13":
        fs = [f for f in fs if f["name"].startswith(("value", "ifacevalue"))]
    elif pid == "C11":
        fs = [f for f in fs if f["name"].startswith("bind")]
    elif pid == "C06":
        fs = [f for f in fs if f["name"].startswith(("bind", "struct", "fields"))]
    elif pid == "C09":
        fs = [f for f in fs if f["name"].startswith("dup-param")]
    elif pid == "C12":
        fs = [f for f in fs if f["name"].startswith(("struct", "fields"))]
    if pid in ("C20", "C01"):
        import random as _random
        fs = fs + gen_forms(_random.Random(seed() * 7 + 3), 220 if tier == "quick" else 2500)
    for f in fs:
        if f["key"] == "ifacevalue:call-accepted" and pid != "C13":
            f["expect"] = "any"          # C13's rule; under the other properties only their own contract is read
    if replay is not None and replay.get("input", {}).get("form"):
        rf = replay["input"]["form"]
        fs = [rf] if rf.get("generated") else [f for f in fs if f["name"] == rf["name"]]
    tools = build_tools()
    root = os.path.join(wd, "forms")
    os.makedirs(root, exist_ok=True)
    open(os.path.join(root, "go.mod"), "w").write("module example.com/f\n\ngo 1.21\n\nrequire github.com/google/wire v0.1.0\n\nrequire example.com/depmod v0.0.0\n\n"
                                                  "replace github.com/google/wire => %s\n\nreplace example.com/depmod => ../depmod\n" % REPO)
    shutil.copy(os.path.join(REPO, "go.sum"), os.path.join(root, "go.sum"))
    # a dependency: another module, outside the user's sources
    depmod = os.path.join(wd, "depmod")
    os.makedirs(os.path.join(depmod, "dep"), exist_ok=True)
    open(os.path.join(depmod, "go.mod"), "w").write("module example.com/depmod\n\ngo 1.21\n\nrequire github.com/google/wire v0.1.0\n")
    open(os.path.join(depmod, "dep", "dep.go"), "w").write(DEP)
    for i, f in enumerate(fs):
        d = os.path.join(root, "f%d" % i)
        os.makedirs(d, exist_ok=True)
        for n, t in render(f).items():
            open(os.path.join(d, n), "w").write(t)

    def one(i):
        try:
            p = sh([tools["wire"], "gen", "./f%d" % i], cwd=root, env=GOENV, timeout=120, mem_gb=6)
            return i, p.returncode, p.stderr
        except subprocess.TimeoutExpired:
            return i, 124, "timeout"

    def one_check(i):
        try:
            p = sh([tools["wire"], "check", "./f%d" % i], cwd=root, env=GOENV, timeout=120, mem_gb=6)
            return i, p.returncode, p.stderr
        except subprocess.TimeoutExpired:
            return i, 124, "timeout"
    with ThreadPoolExecutor(max_workers=16) as ex:
        results = list(ex.map(one, range(len(fs))))
        checks = list(ex.map(one_check, range(len(fs)))) if pid == "C20" else []
    kf = {k["key"]: k for k in known if k.get("status") == "finding"}
    viol, knownl, dist = [], [], {}
    invalid = []
    for i, rc, err in results:
        f = fs[i]
        panicked = ("goroutine " in err and ("panic:" in err or "fatal error" in err)) or rc == 124
        typeerr = rc == 1 and not panicked and re.search(r"wire: (\S+\.go:\d+:\d+: )?(undefined|cannot use|invalid|syntax error|declared and not used|.* redeclared|missing return|not enough|too many arguments|.*imported and not used)", err) is not None and "generate failed" in err and "inject " not in err and "wire.go" in err and f["expect"] != "diag"
        positioned = re.search(r"wire: [^\n]*f%d/[\w.]+:\d+:\d+: " % i, err) is not None
        cls = "panic" if panicked else ("ok" if rc == 0 else ("diag" if positioned else "no-position"))
        dist[cls] = dist.get(cls, 0) + 1
        f["_obs"] = {"exit": rc, "class": cls, "stderr": err[:700]}
        why = []
        if panicked:
            why.append("wire panicked / did not finish on a type-correct package (exit %d)" % rc)
        elif rc != 0 and not positioned:
            why.append("non-zero exit without any diagnostic carrying a position inside the user's sources")
        if f["expect"] == "ok" and rc != 0 and not why:
            why.append("a documented form was rejected: " + err[:300])
        if f["expect"] == "diag" and rc == 0:
            why.append("an input the rules reject was accepted (exit 0)")
        if pid == "C01":
            why = []        # under C01 only the compile oracle below applies
        if why:
            if f["key"] in kf and ((panicked or (rc != 0 and not positioned)) if kf[f["key"]].get("when") != "accepted" else (rc == 0 and f["expect"] == "diag")):
                knownl.append("%s: %s" % (f["key"], kf[f["key"]].get("what_fails", why[0])))
            else:
                viol.append(({"property": pid, "kind": "failing-input", "broken": "C20 oracle on the wire binary", "input": {"form": {k: v for k, v in f.items() if not k.startswith("_")}},
                              "rendered_files": render(f), "impl": f["_obs"], "oracle": why, "key": f["key"], "seed": seed()}, True))
    # the same contract for `wire check` (parse.go:Load also looks at every top-level provider-set variable)
    for i, rc, err in checks:
        f = fs[i]
        panicked = ("goroutine " in err and ("panic:" in err or "fatal error" in err)) or rc == 124 or rc == 2
        positioned = re.search(r"wire: [^\n]*f%d/[\w.]+:\d+:\d+: " % i, err) is not None
        dist["check:" + ("panic" if panicked else "ok" if rc == 0 else "diag" if positioned else "no-position")] = dist.get("check:" + ("panic" if panicked else "ok" if rc == 0 else "diag" if positioned else "no-position"), 0) + 1
        why = []
        if panicked:
            why.append("wire check panicked / did not finish on a type-correct package (exit %d)" % rc)
        elif rc != 0 and not positioned:
            why.append("wire check: non-zero exit without any diagnostic carrying a position inside the user's sources")
        if why:
            if f["key"] in kf and not panicked:
                continue
            viol.append(({"property": pid, "kind": "failing-input", "broken": "C20 oracle on the wire binary (check)", "input": {"form": {k: v for k, v in f.items() if not k.startswith("_")}, "command": "check"},
                          "rendered_files": render(f), "impl": {"exit": rc, "stderr": err[:700]}, "oracle": why, "key": f["key"], "seed": seed()}, True))
    compiled = 0
    if pid == "C01":
        # whatever wire accepted must compile with the generated file standing in for the injector
        acc = [i for i, rc, err in results if rc == 0 and os.path.exists(os.path.join(root, "f%d" % i, "wire_gen.go"))]

        def build(i):
            b = sh(["go", "build", "./f%d" % i], cwd=root, env=GOENV, timeout=300)
            return i, b.returncode, b.stderr
        with ThreadPoolExecutor(max_workers=16) as ex:
            for i, brc, berr in ex.map(build, acc):
                compiled += 1
                if brc != 0:
                    f = fs[i]
                    viol.append(({"property": pid, "kind": "failing-input", "broken": "C01 oracle on the wire binary: accepted form must compile", "input": {"form": {k: v for k, v in f.items() if not k.startswith("_")}},
                                  "rendered_files": render(f), "impl": {"generated": open(os.path.join(root, "f%d" % i, "wire_gen.go")).read(), "build": berr[-600:]},
                                  "oracle": ["wire gen succeeded but the package does not compile: " + berr[-300:]], "key": f["key"], "seed": seed()}, True))
    dist["compiled"] = compiled
    return {"name": "forms", "evaluations": len(fs), "distinct_nontrivial": len(fs), "exhaustive": False,
            "samples": [{"form": fs[min(4, len(fs) - 1)]["name"], "args": fs[min(4, len(fs) - 1)]["args"], "impl": fs[min(4, len(fs) - 1)]["_obs"]}], "traces": len(fs), "stats": {"classes": dist},
            "rule": "one tiny package per spelling of a marker-call argument / result type / injector shape (every object kind, nil, literals, address-of, conversions, builtins, "
                    "anonymous and generic types, non-literal field names, dot-imported wire) plus grammar-generated spellings (pointer-valued first arguments over a zoo of types and "
                    "expression shapes, field-name arguments, value and interface-value expressions, Build arguments), each through `wire gen`: exit 0, or non-zero with a file:line:col "
                    "inside the package; no panic; under C01 every accepted one is compiled",
            "violations": viol, "known": knownl}
