"""Whole-program corpus: abstract programs (front-level provider-set trees over a small type universe) rendered
to Go modules, run through the real `wire` binary, the Go compiler and an instrumented runtime."""
import json, os, random, re
from common import *
import synth, spec

WIRE_IMPORT = "github.com/google/wire"


# ------------------------------------------------------------------ abstract program = synth tree + typing/packaging
def make_prog(rng, base=None, opts=None):
    """Decorate a synth case with what rendering needs: kinds of types, packages of items and sets, spellings."""
    opts = opts or {}
    if base is None:
        (tree, given, out), defect = synth.random_case(rng, maxk=opts.get("maxk", 8), arg_w=opts.get("arg_w", 18))
    else:
        (tree, given, out), defect = base
    tree = json.loads(json.dumps(tree))
    # no variadic providers at this level (slices are outside the small type universe)
    for s in spec.all_sets(tree):
        for p in s["providers"]:
            p["varargs"] = False
    prog = {"tree": tree, "given": list(given), "out": out, "defect": defect,
            "cleanup": rng.random() < 0.75, "err": rng.random() < 0.75,
            "style": rng.choice(["panic", "return"]), "same_pkg_name": rng.random() < opts.get("same_pkg_p", 0.12)}
    if opts.get("full_sig"):
        prog["cleanup"] = prog["err"] = True
    kinds = {}
    for s in spec.all_sets(tree):
        for b in s["bindings"]:
            kinds[b["iface"] // 2] = "iface"
    # a binding whose "concrete" type is itself an interface type (provided by a function or a value)
    for s in spec.all_sets(tree):
        for b in s["bindings"]:
            ck = b["conc"] // 2
            if b["conc"] % 2 == 0 and ck not in kinds and rng.random() < opts.get("iface_conc_p", 0.12):
                kinds[ck] = "iface"
    prog["kinds"] = kinds
    # packages: 0 = app (injector package), 1 = lib
    def assign(s, parent_pkg):
        s["pkg"] = parent_pkg if (parent_pkg == 1 or s["id"] == 0) else rng.choice([0, 1, 1])
        if s["id"] == 0:
            s["pkg"] = 0
        for p in s["providers"]:
            if "pkg" not in p:
                p["pkg"] = 1 if s["pkg"] == 1 else rng.choice([0, 1, 1])
            if p["struct"]:
                p["pkg"] = 1
        for i in s["imports"]:
            if "pkg" not in i:
                assign(i, s["pkg"])
    assign(tree, 0)
    # a set or provider shared between an app set and a lib set must live in lib
    changed = True
    while changed:
        changed = False
        bypkg = {}
        for s in spec.all_sets(tree):
            bypkg[("s", s["id"])] = max(bypkg.get(("s", s["id"]), 0), s["pkg"])
            for p in s["providers"]:
                bypkg[("p", p["id"])] = max(bypkg.get(("p", p["id"]), 0), p["pkg"])
        for s in spec.all_sets(tree):
            if s["pkg"] != bypkg[("s", s["id"])]:
                s["pkg"] = bypkg[("s", s["id"])]; changed = True
            for p in s["providers"]:
                if p["pkg"] != bypkg[("p", p["id"])]:
                    p["pkg"] = bypkg[("p", p["id"])]; changed = True
        for s in spec.all_sets(tree):
            if s["pkg"] == 1:
                for i in s["imports"]:
                    if i["pkg"] != 1:
                        i["pkg"] = 1; changed = True
                for p in s["providers"]:
                    if p["pkg"] != 1:
                        p["pkg"] = 1; changed = True
    if rng.random() < opts.get("dupset_p", 0.04):
        hosts = [x for x in spec.all_sets(tree) if x["imports"]]
        if hosts:
            h = rng.choice(hosts)
            h["imports"].append(json.loads(json.dumps(rng.choice(h["imports"]))))
            prog["defect"] = "dup-set-direct+" + prog["defect"]
    # a value expression wrapped in parentheses
    if rng.random() < opts.get("paren_p", 0.15):
        vs = [v for x in spec.all_sets(tree) for v in x["values"]]
        if vs:
            pick = rng.choice(vs)["id"]
            for x in spec.all_sets(tree):
                for v in x["values"]:
                    if v["id"] == pick:
                        v["paren"] = True
    # anonymous inline sets: wire.NewSet(...) written in place instead of a named variable
    if rng.random() < opts.get("inline_p", 0.2):
        count = {}
        for x in spec.all_sets(tree):
            count[x["id"]] = count.get(x["id"], 0) + 1
        for h in spec.all_sets(tree):
            for x in h["imports"]:
                hidden = any(v.get("unexported") for v in x["values"]) or any(q.get("unexp") for q in x["providers"])
                if count[x["id"]] == 1 and rng.random() < 0.5 and (h["pkg"] == 0 or x["pkg"] == 1) and not hidden:
                    x["inline"] = True; x["pkg"] = h["pkg"] if h["pkg"] == 1 else x["pkg"]
    # concrete argument types that happen to implement a bound interface without being bound to it
    prog["extra_impl"] = {}
    ifs = sorted({b["iface"] // 2 for x in spec.all_sets(tree) for b in x["bindings"]})
    if ifs and prog["given"] and rng.random() < opts.get("extra_impl_p", 0.3):
        for g in prog["given"]:
            if kinds.get(g // 2) != "iface" and rng.random() < 0.6:
                prog["extra_impl"][g // 2] = [rng.choice(ifs)]
    prog["multi_var"] = rng.random() < 0.3
    prog["star"] = rng.random() < 0.5
    # adversarial names (C14): types, injector parameters, library package name, package-level declarations
    if rng.random() < opts.get("names_p", 0.3):
        prog["names"] = adversarial_names(rng, prog, kinds)
        prog["same_pkg_name"] = False
    # front-level variety: a provider with two parameters of one (separately written) type
    allp = [p for s in spec.all_sets(tree) for p in s["providers"]]
    if rng.random() < 0.04:
        fp = [p for p in allp if not p["struct"] and p["args"]]
        if fp:
            p = rng.choice(fp); extra = rng.choice(p["args"])
            for q in allp:
                if q["id"] == p["id"]:
                    q["args"] = q["args"] + [extra]
            prog["defect"] += "+dup-param"
    # ... and a struct provider with two selected fields of one type
    if rng.random() < opts.get("dup_field_p", 0.04):
        fp = [p for p in allp if p["struct"] and p["args"]]
        if fp:
            p = rng.choice(fp); extra = rng.choice(p["args"])
            for q in allp:
                if q["id"] == p["id"]:
                    q["args"] = q["args"] + [extra]; q["fields"] = q["fields"] + ["F%d" % len(q["fields"])]
            prog["defect"] += "+dup-field"
    # a value expression written in a library set that mentions an unexported field (C13/C01: not accessible
    # from the injector's package)
    if rng.random() < opts.get("unexported_p", 0.08):
        win = written_in(tree)
        cands = [(x, v) for x in spec.all_sets(tree) if win.get(x["id"]) == {1} for v in x["values"] if kinds.get(v["out"] // 2) != "iface"]
        if cands:
            x, v = rng.choice(cands)
            for y in spec.all_sets(tree):
                for w in y["values"]:
                    if w["id"] == v["id"]:
                        w["unexported"] = True; w["ok"] = False
            prog["defect"] += "+value-unexported"
    # a provider function with an unexported name, declared in the library and listed in a library set only
    # (C01: the injector's package cannot call it)
    if rng.random() < opts.get("unexp_prov_p", 0.06):
        win = written_in(tree)
        rootish = {q["id"] for x in spec.all_sets(tree) if win.get(x["id"]) != {1} for q in x["providers"]}
        cands = sorted({q["id"] for x in spec.all_sets(tree) if win.get(x["id"]) == {1} for q in x["providers"] if not q["struct"] and q["pkg"] == 1 and q["id"] not in rootish})
        if cands:
            pick = rng.choice(cands)
            for q in allp:
                if q["id"] == pick:
                    q["unexp"] = True
            prog["defect"] += "+provider-unexported"
    # field-name literal spellings (C12): wrong case, unknown name, raw string, prevented field
    sps = [p for p in allp if p["struct"] and p["fields"]]
    if sps and rng.random() < opts.get("lit_p", 0.06):
        p = rng.choice(sps)
        kind = rng.choice(["case", "unknown", "raw", "case", "star-extra", "star-extra"])
        names = list(p["fields"])
        j = rng.randrange(len(names))
        lits = ['"%s"' % n for n in names]
        if kind == "case":
            lits[j] = '"%s"' % (names[j].lower() if names[j].lower() != names[j] else names[j].upper())
        elif kind == "unknown":
            lits[j] = '"Nope%d"' % p["id"]
        elif kind == "star-extra":      # "*" followed by more names is not the wildcard: "*" is then looked up as a field name
            lits = ['"*"', rng.choice(['"%s"' % names[j], '"Nope%d"' % p["id"], '"*"'])]
        else:
            lits[j] = "`%s`" % names[j]
        for q in allp:
            if q["id"] == p["id"]:
                q["_custom_lits"] = lits
                q["_lit_defect"] = kind
        prog["defect"] += "+lit-" + kind
        prog["star"] = False
    # extra tagged fields on struct-provided types
    prog["extra_fields"] = {}
    for p in allp:
        if p["struct"] and rng.random() < 0.35:
            k = p["outs"][0] // 2
            if k in prog["extra_fields"]:
                continue
            tag = rng.choice(['wire:"-"', 'wire:"-"', 'firewire:"-"', 'json:"a" wire:"-"', 'wire:"-" json:"b"', 'json:"wire"', 'wire:"-,x"'])
            cands = [a for a in p["args"]] + [t for t in prog["given"]]
            ft = rng.choice(cands) if cands and rng.random() < 0.6 else None
            if ft is None:
                others = sorted(spec.all_types(tree, prog["given"], prog["out"]) if hasattr(spec, "all_types") else synth.all_types(tree, prog["given"], prog["out"]))
                others = [t for t in others if t // 2 != k and kinds.get(t // 2) != "iface"]
                if not others:
                    continue
                ft = rng.choice(others)
            if kinds.get(ft // 2) == "iface" and ft % 2:
                continue
            name = "X%d" % p["id"]
            prog["extra_fields"][k] = {"name": name, "t": ft, "tag": tag, "first": Render.prevented(tag) and rng.random() < 0.5}
            if prog["star"] and not Render.prevented(tag):
                for q in allp:      # every copy of the provider (a set reached along two paths is duplicated in the tree)
                    if q["struct"] and q["outs"][0] // 2 == k and name not in q["fields"]:
                        q["args"] = q["args"] + [ft]; q["fields"] = q["fields"] + [name]
    # types spread over two library packages: lib2 holds types whose fields (if any) are lib2 types as well; lib imports it
    prog["type_pkg"] = {}
    if rng.random() < opts.get("lib2_p", 0.3):
        ftypes = {}
        for x in spec.all_sets(tree):
            for q in x["providers"]:
                if q["struct"]:
                    ftypes.setdefault(q["outs"][0] // 2, set()).update(a // 2 for a in q["args"])
            for f in x["fields"]:
                ftypes.setdefault(f["parent"] // 2, set()).add(f["outs"][0] // 2)
        for k, xf in prog["extra_fields"].items():
            ftypes.setdefault(int(k), set()).add(xf["t"] // 2)
        ks = sorted({t // 2 for t in synth.all_types(tree, prog["given"], prog["out"])} | set(ftypes) | {j for v in ftypes.values() for j in v})
        pinned = {v["out"] // 2 for x in spec.all_sets(tree) for v in x["values"] if v.get("unexported")}
        chosen = {k for k in ks if k not in pinned and rng.random() < 0.5}
        if chosen and len(chosen) == len(ks):
            chosen.discard(min(chosen))
        changed = True
        while changed:
            changed = False
            for k in sorted(chosen):
                if any(j not in chosen for j in ftypes.get(k, ())):
                    chosen.discard(k); changed = True
        prog["type_pkg"] = {k: 2 for k in chosen}
        prog["lib2_same_name"] = rng.random() < 0.3
    return prog


def written_in(tree):
    """set id -> set of packages (0 app / 1 lib) in whose source text the set's items are written: an inline set is
    written where its host is."""
    out = {}

    def walk(x, ctx):
        out.setdefault(x["id"], set()).add(ctx)
        for y in x["imports"]:
            walk(y, ctx if y.get("inline") else y["pkg"])
    walk(tree, 0)
    return out


TYPE_POOL = ["Cleanup", "Cleanup2", "Err", "Err2", "Error", "Type", "Func", "Select", "Var", "Range", "Map", "Chan", "Go", "String",
             "Int", "Nil", "Len", "True", "New", "Append", "Bool", "Foo", "Foo2", "Foo1", "Foo1_2", "Lib", "App", "Arg", "V", "Inject", "Run",
             "LibFoo", "HTTPServer", "ID", "A0", "A1"]
PARAM_POOL = ["err", "cleanup", "cleanup2", "err2", "string", "error", "nil", "len", "foo", "foo2", "lib", "app", "v", "arg", "t0", "t1", "a0",
              "true", "int", "cleanup10", "rt"]
LIB_POOL = ["err", "cleanup", "foo", "foo2", "lib2", "t0", "arg", "v", "string", "inject", "wire", "rt2"]
DECL_POOL = ["err", "cleanup", "f:cleanup", "foo", "foo2", "t0", "t1", "v", "arg", "lib", "f:err", "cleanup2", "err2", "libFoo", "f:foo", "libT0"]


def adversarial_names(rng, prog, kinds):
    tree = prog["tree"]
    ks = sorted({t // 2 for t in synth.all_types(tree, prog["given"], prog["out"])})
    names = {}
    pool = list(TYPE_POOL); rng.shuffle(pool)
    for k in ks:
        if pool and rng.random() < 0.6:
            names[k] = pool.pop()
    n = len(prog["given"])
    mode = rng.random()
    if mode < 0.15:
        params = "unnamed"
    else:
        pp = list(PARAM_POOL); rng.shuffle(pp)
        params = []
        for i in range(n):
            r = rng.random()
            params.append("_" if r < 0.3 else (pp.pop() if r < 0.85 and pp else "a%d" % i))
        for i in range(n):                     # Go wants distinct parameter names
            if params[i] != "_" and params[i] in params[:i]:
                params[i] = "q%d" % i
    decls = []
    dp = list(DECL_POOL); rng.shuffle(dp)
    taken = set()
    for d in dp[:rng.choice([0, 1, 2, 3])]:
        nm = d[2:] if d.startswith("f:") else d
        if nm not in taken:
            decls.append(d); taken.add(nm)
    return {"types": names, "params": params, "libname": rng.choice(LIB_POOL) if rng.random() < 0.5 else None, "app_decls": decls}


def renderable(prog):
    """Reject shapes the small Go type universe cannot express (reported in the distribution)."""
    tree = prog["tree"]
    kinds = prog["kinds"]
    odd_iface = set()
    val_fields = {}
    bound_ifaces = {b["iface"] // 2 for s in spec.all_sets(tree) for b in s["bindings"]}
    for s in spec.all_sets(tree):
        for p in s["providers"]:
            for t in p["outs"] + p["args"]:
                if t % 2 and kinds.get(t // 2) == "iface":
                    odd_iface.add(t)
            if p["struct"]:
                if kinds.get(p["outs"][0] // 2) == "iface":
                    return "struct provider for an interface type"
                for a in p["args"]:
                    if a % 2 == 0 and kinds.get(a // 2) != "iface":
                        val_fields.setdefault(p["outs"][0] // 2, set()).add(a // 2)
        for v in s["values"]:
            if v["out"] % 2 and kinds.get(v["out"] // 2) == "iface":
                odd_iface.add(v["out"])
        for f in s["fields"]:
            if kinds.get(f["parent"] // 2) == "iface":
                return "field of an interface type"
            if kinds.get(f["outs"][0] // 2) == "iface":
                return "field of interface type"
            val_fields.setdefault(f["parent"] // 2, set()).add(f["outs"][0] // 2)
        for b in s["bindings"]:
            if b["iface"] % 2 or (kinds.get(b["conc"] // 2) == "iface" and b["conc"] % 2):
                return "binding chain / pointer to interface"
            if b["conc"] // 2 in bound_ifaces:      # the concrete side is itself bound (chain, self binding): outside the documented form
                return "binding chain / pointer to interface"
    for t in prog["given"] + [prog["out"]]:
        if t % 2 and kinds.get(t // 2) == "iface":
            odd_iface.add(t)
    if odd_iface:
        return "pointer to interface"
    for k, xf in (prog.get("extra_fields") or {}).items():
        if xf["t"] % 2 == 0 and kinds.get(xf["t"] // 2) != "iface":
            val_fields.setdefault(k, set()).add(xf["t"] // 2)
    # value-field recursion makes an invalid recursive Go type
    def cyc(k, seen):
        if k in seen:
            return True
        return any(cyc(j, seen | {k}) for j in val_fields.get(k, ()))
    if any(cyc(k, frozenset()) for k in list(val_fields)):
        return "recursive struct type"
    # a type may be declared with one set of struct-provider fields only
    sp = {}
    for s in spec.all_sets(tree):
        for p in s["providers"]:
            if p["struct"]:
                k = p["outs"][0] // 2
                if k in sp and sp[k] != p["id"]:
                    return "two struct providers for one type"
                sp[k] = p["id"]
    return None


# ------------------------------------------------------------------ rendering
def tname(k):
    return "T%d" % k


class Render:
    def __init__(self, prog, modpath, cdir):
        self.p = prog
        self.mod = modpath
        self.cdir = cdir
        names = prog.get("names") or {}
        self.libname = names.get("libname") or ("app" if prog["same_pkg_name"] else "lib")
        sub = "lib" if self.libname == "lib" else "sub/" + self.libname
        self.libpath = "%s/%s/%s" % (modpath, cdir, sub)
        self.libdir = "%s/%s" % (cdir, sub)
        self.apppath = "%s/%s/app" % (modpath, cdir)
        self.liblocal = "xlib"   # local import name used in the app's hand-written files
        self.type_pkg = {int(k): int(v) for k, v in (prog.get("type_pkg") or {}).items()}
        self.lib2name = self.libname if prog.get("lib2_same_name") else ("lib2" if self.libname != "lib2" else "lib3")
        self.lib2path = "%s/%s/sub2/%s" % (modpath, cdir, self.lib2name)
        self.lib2dir = "%s/sub2/%s" % (cdir, self.lib2name)
        self.tnames = {int(k): v for k, v in (names.get("types") or {}).items()}
        self.param_names = names.get("params")
        self.app_decls = names.get("app_decls") or []
        self.collect()

    def tn(self, k):
        return self.tnames.get(k, "T%d" % k)

    def tpkg(self, k):
        return self.type_pkg.get(k, 1)

    def tq(self, k, ctx):
        """Qualifier of the package that declares type k, as written in package ctx (0 app, 1 lib, 2 lib2)."""
        tp = self.tpkg(k)
        if tp == ctx:
            return ""
        if ctx == 0:
            return "xlib." if tp == 1 else "xlib2."
        return "lib2x."

    # type expression for type id t as seen from package pkg (0 app / 1 lib / 2 lib2)
    def ty(self, t, pkg):
        return ("*" if t % 2 else "") + self.tq(t // 2, pkg) + self.tn(t // 2)

    def collect(self):
        p = self.p
        tree = p["tree"]
        self.types = {}
        def touch(t):
            k = t // 2
            if k not in self.types:
                self.types[k] = {"kind": p["kinds"].get(k, "struct"), "fields": [], "impl": set(), "ptrimpl": set()}
            return self.types[k]
        for t in p["given"] + [p["out"]]:
            touch(t)
        self.provs, self.sets = {}, {}
        for s in spec.all_sets(tree):
            self.sets[s["id"]] = s
            for pr in s["providers"]:
                self.provs[pr["id"]] = pr
                for t in pr["outs"] + pr["args"]:
                    touch(t)
                if pr["struct"]:
                    td = touch(pr["outs"][0])
                    have = {f["name"] for f in td["fields"]}
                    xf = (p.get("extra_fields") or {}).get(pr["outs"][0] // 2) or (p.get("extra_fields") or {}).get(str(pr["outs"][0] // 2))
                    for fn, a in zip(pr["fields"], pr["args"]):
                        if fn not in have:
                            tag = xf["tag"] if xf and xf["name"] == fn else ""
                            td["fields"].append({"name": fn, "t": a, "tag": tag, "sp": True})
            for v in s["values"]:
                touch(v["out"])
            for f in s["fields"]:
                td = touch(f["parent"])
                for t in f["outs"]:
                    touch(t)
                if f["name"] not in {x["name"] for x in td["fields"]}:
                    td["fields"].append({"name": f["name"], "t": f["outs"][0], "tag": "", "sp": False})
            for b in s["bindings"]:
                touch(b["iface"])
                c = touch(b["conc"])
                (c["ptrimpl"] if b["conc"] % 2 else c["impl"]).add(b["iface"] // 2)
        for k, lst in (p.get("extra_impl") or {}).items():
            if int(k) in self.types and self.types[int(k)]["kind"] != "iface":
                for i in lst:
                    if i in self.types and self.types[i]["kind"] == "iface":
                        self.types[int(k)]["impl"].add(i)
        for k, xf in (p.get("extra_fields") or {}).items():
            td = touch(2 * k)
            touch(xf["t"])
            if xf["name"] not in {f["name"] for f in td["fields"]}:
                if xf.get("first"):      # a prevented field declared before the selected ones
                    td["fields"].insert(0, {"name": xf["name"], "t": xf["t"], "tag": xf["tag"], "sp": False})
                else:
                    td["fields"].append({"name": xf["name"], "t": xf["t"], "tag": xf["tag"], "sp": False})
        for s in spec.all_sets(tree):
            for pr in s["providers"]:
                if pr["struct"]:
                    self.set_lits(pr)
        # interface types that are provided directly (function / value / argument) need an implementation
        for k, td in self.types.items():
            td["defimpl"] = td["kind"] == "iface"

    # ---- Go snippets
    def desc(self, expr, t, pkg):
        k = t // 2
        q = self.tq(k, pkg)
        if self.types[k]["kind"] == "iface":
            return "%sDescI%d(%s)" % (q, k, expr)
        if t % 2:
            return "%sDescP%d(%s)" % (q, k, expr)
        return "%s.Desc()" % expr

    def mkval(self, t, idexpr, pkg, fields_from_id=True):
        """Expression building a value of type t with identity idexpr (a Go string expression)."""
        k = t // 2
        q = self.tq(k, pkg)
        td = self.types[k]
        if td["kind"] == "iface":
            return "%sNewImpl%d(%s)" % (q, k, idexpr)
        inner = ["ID: " + idexpr]
        if fields_from_id:
            for f in td["fields"]:
                ft = f["t"]
                if self.types[ft // 2]["kind"] == "iface":
                    continue
                if ft // 2 == k or f["name"] == "_":
                    continue
                sub = self.mkval_leaf(ft, '%s + ".%s"' % (idexpr, f["name"]), pkg)
                inner.append("%s: %s" % (f["name"], sub))
        lit = "%s%s{%s}" % (q, self.tn(k), ", ".join(inner))
        return ("&" if t % 2 else "") + lit

    def mkval_leaf(self, t, idexpr, pkg):
        q = self.tq(t // 2, pkg)
        lit = "%s%s{ID: %s}" % (q, self.tn(t // 2), idexpr)
        return ("&" if t % 2 else "") + lit

    def zero(self, t, pkg):
        q = self.tq(t // 2, pkg)
        if t % 2 or self.types[t // 2]["kind"] == "iface":
            return "nil"
        return "%s%s{}" % (q, self.tn(t // 2))

    @staticmethod
    def pname(pr):
        return ("p%d" if pr.get("unexp") else "P%d") % pr["id"]

    def provider_src(self, pr):
        pkg = pr["pkg"]
        name = "P%d" % pr["id"]
        params = ", ".join("a%d %s" % (i, self.ty(a, pkg)) for i, a in enumerate(pr["args"]))
        out = pr["outs"][0]
        res = [self.ty(out, pkg)]
        if pr["cleanup"]:
            res.append("func()")
        if pr["err"]:
            res.append("error")
        rs = res[0] if len(res) == 1 else "(" + ", ".join(res) + ")"
        descs = ", ".join(self.desc("a%d" % i, a, pkg) for i, a in enumerate(pr["args"]))
        body = ['\tid := rt.Call("%s"%s)' % (name, (", " + descs) if descs else "")]
        if pr["err"]:
            fail = [self.zero(out, pkg)]
            if pr["cleanup"]:
                fail.append('func() { rt.Cleanup("OWN-CLEANUP-OF-FAILED-%s") }' % name)
            fail.append('&rt.Err{Name: "%s"}' % name)
            body.append('\tif rt.Fail("%s") {\n\t\treturn %s\n\t}' % (name, ", ".join(fail)))
        ok = [self.mkval(out, "id", pkg)]
        if pr["cleanup"]:
            ok.append('func() { rt.Cleanup("%s") }' % name)
        if pr["err"]:
            ok.append("nil")
        body.append("\treturn " + ", ".join(ok))
        return "func %s(%s) %s {\n%s\n}\n" % (self.pname(pr), params, rs, "\n".join(body))

    def item_exprs(self, s, pkg):
        """Marker-call arguments for one set, in Go argument order (interleaved deterministically)."""
        q = "" if pkg == 1 else self.liblocal + "."
        out = []
        for i in s["imports"]:
            if i.get("inline"):
                out.append("wire.NewSet(%s)" % ", ".join(self.item_exprs(i, pkg)))
            else:
                out.append((q if i["pkg"] == 1 else "") + "S%d" % i["id"])
        for pr in s["providers"]:
            if pr["struct"]:
                k = pr["outs"][0] // 2
                tq = self.tq(k, pkg) + self.tn(k)
                fields = self.types[k]["fields"]
                allsp = [f["name"] for f in fields if not self.prevented(f["tag"]) and f["name"] != "_"]
                self.set_lits(pr)
                out.append("wire.Struct(new(%s)%s)" % (tq, "".join(", " + l for l in pr["_lits"])))
            else:
                out.append((q if pr["pkg"] == 1 else "") + self.pname(pr))
        for v in s["values"]:
            t = v["out"]
            if self.types[t // 2]["kind"] == "iface":
                out.append("wire.InterfaceValue(new(%s%s), %s%sNewImpl%d(\"val%d\")%s)" % (self.tq(t // 2, pkg), self.tn(t // 2), "(" if v.get("paren") else "", self.tq(t // 2, pkg), t // 2, v["id"], ")" if v.get("paren") else ""))
                v["_call"] = True
            else:
                e = self.mkval(t, '"val%d"' % v["id"], pkg, fields_from_id=False)
                if v.get("unexported"):
                    e = e[:-1] + ", hid: 1}"
                out.append("wire.Value(%s)" % (("(" + e + ")") if v.get("paren") else e))
        for f in s["fields"]:
            par = f["parent"]
            out.append('wire.FieldsOf(new(%s%s%s), "%s")' % ("*" if par % 2 else "", self.tq(par // 2, pkg), self.tn(par // 2), f["name"]))
        for b in s["bindings"]:
            out.append("wire.Bind(new(%s%s), new(%s%s%s))" % (self.tq(b["iface"] // 2, pkg), self.tn(b["iface"] // 2), "*" if b["conc"] % 2 else "", self.tq(b["conc"] // 2, pkg), self.tn(b["conc"] // 2)))
        return out

    def set_lits(self, pr):
        if pr.get("_custom_lits") is not None:
            pr["_lits"] = list(pr["_custom_lits"])
            return
        fields = self.types[pr["outs"][0] // 2]["fields"]
        allsp = [f["name"] for f in fields if not self.prevented(f["tag"]) and f["name"] != "_"]
        if self.p["star"] and allsp == pr["fields"]:
            pr["_lits"] = ['"*"']
        else:
            pr["_lits"] = ['"%s"' % f for f in pr["fields"]]

    @staticmethod
    def prevented(tag):
        return re.search(r'(^|\s)wire:"-"', tag) is not None

    def lib_go(self, which=1):
        L = ["package %s\n" % (self.libname if which == 1 else self.lib2name)]
        uses_wire = which == 1 and any(s["pkg"] == 1 and s["id"] != 0 and not s.get("inline") for s in self.sets.values())
        imps = ['"%s/rt"' % self.mod]
        if uses_wire:
            imps.append('"%s"' % WIRE_IMPORT)
        l2 = sorted(k for k in self.types if self.tpkg(k) == 2)
        if which == 1 and l2:
            imps.append('lib2x "%s"' % self.lib2path)
        L.append("import (\n\t" + "\n\t".join(imps) + "\n)\n")
        L.append("var _ = rt.Note\n")
        if which == 1 and l2:
            L.append("var _ lib2x.%s\n" % self.tn(l2[0]))
        for k in sorted(self.types):
            if self.tpkg(k) != which:
                continue
            td = self.types[k]
            n = self.tn(k)
            if td["kind"] == "iface":
                more = sorted((td["impl"] | td["ptrimpl"]) - {k})      # interfaces this interface type is bound to
                L.append("type %s interface {\n\tDesc() string\n\tIs%d()\n%s}\n" % (n, k, "".join("\tIs%d()\n" % i for i in more)))
                L.append("type Impl%d struct{ ID string }\n" % k)
                L.append("func (x Impl%d) Desc() string { return x.ID }\nfunc (x Impl%d) Is%d() {}\n" % (k, k, k))
                for i in more:
                    L.append("func (x Impl%d) Is%d() {}\n" % (k, i))
                L.append("func NewImpl%d(id string) %s { return Impl%d{ID: id} }\n" % (k, n, k))
                L.append('func DescI%d(x %s) string {\n\tif x == nil {\n\t\treturn "nil"\n\t}\n\treturn x.Desc()\n}\n' % (k, n))
                continue
            fl = ["\tID string `wire:\"-\"`", "\thid int `wire:\"-\"`"]
            for f in td["fields"]:
                tag = (" `%s`" % f["tag"]) if f["tag"] else ""
                fl.append("\t%s %s%s" % (f["name"], self.ty(f["t"], which), tag))
            L.append("type %s struct {\n%s\n}\n" % (n, "\n".join(fl)))
            parts = []
            for f in td["fields"]:
                if f["name"] == "_":        # a blank field can be neither read nor set
                    continue
                parts.append('"%s:" + %s' % (f["name"], self.desc("x." + f["name"], f["t"], which)))
            lit = ' + "," + '.join(parts) if parts else '""'
            L.append('func (x %s) Desc() string {\n\tif x.ID != "" {\n\t\treturn x.ID\n\t}\n\tif x == (%s{}) {\n\t\treturn "zero"\n\t}\n\treturn "%s{" + %s + "}"\n}\n' % (n, n, "T%d" % k, lit))
            L.append('func DescP%d(p *%s) string {\n\tif p == nil {\n\t\treturn "nil"\n\t}\n\treturn "&" + p.Desc()\n}\n' % (k, n))
            for i in sorted(td["impl"]):
                L.append("func (x %s) Is%d() {}\n" % (n, i))
            for i in sorted(td["ptrimpl"] - td["impl"]):
                L.append("func (x *%s) Is%d() {}\n" % (n, i))
        if which == 1:
            for pr in sorted(self.provs.values(), key=lambda x: x["id"]):
                if pr["pkg"] == 1 and not pr["struct"]:
                    L.append(self.provider_src(pr))
            L.append(self.sets_src(1))
        return "\n".join(L)

    def sets_src(self, pkg):
        ss = [s for s in sorted(self.sets.values(), key=lambda x: x["id"]) if s["pkg"] == pkg and s["id"] != 0 and not s.get("inline")]
        out = []
        if self.p["multi_var"] and len(ss) >= 2:
            names = ", ".join("S%d" % s["id"] for s in ss)
            vals = ", ".join("wire.NewSet(%s)" % ", ".join(self.item_exprs(s, pkg)) for s in ss)
            out.append("var %s = %s\n" % (names, vals))
        else:
            for s in ss:
                out.append("var S%d = wire.NewSet(%s)\n" % (s["id"], ", ".join(self.item_exprs(s, pkg))))
        return "\n".join(out)

    def inj_param_names(self):
        n = len(self.p["given"])
        if self.param_names is None:
            return ["a%d" % i for i in range(n)]
        if self.param_names == "unnamed":
            return [""] * n
        return list(self.param_names)[:n] + ["a%d" % i for i in range(len(self.param_names), n)]

    def inj_imports(self, text):
        """Import block of an injector file: only what its text mentions (a blank use would be copied into wire_gen.go)."""
        imps = []
        if "xlib." in text:
            imps.append('xlib "%s"' % self.libpath)
        if "xlib2." in text:
            imps.append('xlib2 "%s"' % self.lib2path)
        imps.append('"%s"' % WIRE_IMPORT)
        return "import (\n\t" + "\n\t".join(imps) + "\n)\n"

    def app_files(self):
        p = self.p
        files = {}
        l1 = sorted(k for k in self.types if self.tpkg(k) == 1)
        l2 = sorted(k for k in self.types if self.tpkg(k) == 2)
        imp_lib = 'xlib "%s"' % self.libpath + ('\n\txlib2 "%s"' % self.lib2path if l2 else "")
        blank = "var _ %s\n" % (self.liblocal + "." + self.tn(l1[0])) + ("var _ xlib2.%s\n" % self.tn(l2[0]) if l2 else "")
        self._imp_lib, self._blank = imp_lib, blank
        # providers and sets of the app package
        L = ["package app\n", "import (\n\t%s\n\t\"%s/rt\"\n\t\"%s\"\n)\n" % (imp_lib, self.mod, WIRE_IMPORT),
             "var _ = rt.Note\nvar _ = wire.NewSet\n" + blank]
        for pr in sorted(self.provs.values(), key=lambda x: x["id"]):
            if pr["pkg"] == 0 and not pr["struct"]:
                L.append(self.provider_src(pr))
        L.append(self.sets_src(0))
        for d in self.app_decls:
            L.append("var %s = 0\n" % d if not d.startswith("f:") else "func %s() {}\n" % d[2:])
        files["app/prov.go"] = "\n".join(L)
        # injector
        pn = self.inj_param_names()
        params = ", ".join(((pn[i] + " ") if pn[i] else "") + self.ty(t, 0) for i, t in enumerate(p["given"]))
        res = [self.ty(p["out"], 0)]
        if p["cleanup"]:
            res.append("func()")
        if p["err"]:
            res.append("error")
        rs = res[0] if len(res) == 1 else "(" + ", ".join(res) + ")"
        build = "wire.Build(%s)" % ", ".join(self.item_exprs(p["tree"], 0))
        zero = [self.zero(p["out"], 0)] + (["nil"] if p["cleanup"] else []) + (["nil"] if p["err"] else [])
        if p["style"] == "panic" or "nil" in pn:      # a parameter named nil shadows the nil of `return x, nil, nil`
            body = "\tpanic(%s)" % build
        else:
            body = "\t%s\n\treturn %s" % (build, ", ".join(zero))
        fn = "func Inject(%s) %s {\n%s\n}\n" % (params, rs, body)
        W = ["//go:build wireinject\n// +build wireinject\n", "package app\n", self.inj_imports(fn), fn]
        files["app/wire.go"] = "\n".join(W)
        self.inline_pos = {}
        text, start = files["app/wire.go"], 0
        for i, e in zip(p["tree"]["imports"], self.item_exprs(p["tree"], 0)):
            if i.get("inline"):
                at = text.find(e, text.find("wire.Build(") if start == 0 else start)
                if at >= 0:
                    line = text.count("\n", 0, at) + 1
                    col = at - (text.rfind("\n", 0, at) + 1) + 1
                    self.inline_pos[(line, col)] = i["id"]
                    start = at + 1
        # driver
        D = ["package app\n", "import (\n\t%s\n\t\"%s/rt\"\n)\n" % (imp_lib, self.mod), blank]
        fails = [""] + ["P%d" % pr["id"] for pr in sorted(self.provs.values(), key=lambda x: x["id"]) if pr["err"] and not pr["struct"]]
        args = ", ".join(self.mkval(t, '"arg%d"' % i, 0) for i, t in enumerate(p["given"]))
        lhs = ["v"] + (["cleanup"] if p["cleanup"] else []) + (["err"] if p["err"] else [])
        D.append("func Run() {\n\tfor _, f := range []string{%s} {" % ", ".join('"%s"' % f for f in fails))
        D.append("\t\trt.Reset(f)")
        D.append("\t\t%s := Inject(%s)" % (", ".join(lhs), args))
        D.append('\t\trt.Note("result " + %s)' % self.desc("v", p["out"], 0))
        if p["err"]:
            D.append('\t\trt.Note("error " + rt.ErrDesc(err))')
        if p["cleanup"]:
            D.append('\t\tif cleanup == nil {\n\t\t\trt.Note("cleanup-nil")\n\t\t} else {\n\t\t\trt.Note("cleanup-invoke")\n\t\t\tcleanup()\n\t\t}')
        D.append('\t\trt.Dump("%s " + f)\n\t}\n}\n' % self.cdir)
        files["app/drv.go"] = "\n".join(D)
        return files

    def files(self):
        out = {self.libdir + "/lib.go": self.lib_go()}
        if any(self.tpkg(k) == 2 for k in self.types):
            out[self.lib2dir + "/lib2.go"] = self.lib_go(2)
        for k, v in self.app_files().items():
            out[self.cdir + "/" + k] = v
        return out


# ------------------------------------------------------------------ batch execution
def write_module(root, progs, modpath="example.com/m"):
    os.makedirs(root, exist_ok=True)
    with open(os.path.join(root, "go.mod"), "w") as f:
        f.write("module %s\n\ngo 1.21\n\nrequire %s v0.1.0\n\nreplace %s => %s\n" % (modpath, WIRE_IMPORT, WIRE_IMPORT, REPO))
    shutil.copy(os.path.join(REPO, "go.sum"), os.path.join(root, "go.sum"))
    os.makedirs(os.path.join(root, "rt"), exist_ok=True)
    shutil.copy(os.path.join(VERIF, "gotools/rt/rt.go"), os.path.join(root, "rt/rt.go"))
    renders = []
    for i, p in enumerate(progs):
        r = Render(p, modpath, "c%d" % i)
        for rel, text in r.files().items():
            path = os.path.join(root, rel)
            os.makedirs(os.path.dirname(path), exist_ok=True)
            with open(path, "w") as f:
                f.write(text)
        renders.append(r)
    return renders


def classify_stderr(text):
    """Split wire's stderr into per-package diagnostics. Returns {pkgpath: [messages]}, plus loose lines."""
    per = {}
    cur = []
    loose = []
    for line in text.split("\n"):
        m = re.match(r"wire: (\S+): generate failed$", line)
        if m:
            per.setdefault(m.group(1), []).extend(cur); cur = []
            continue
        m = re.match(r"wire: (\S+): wrote (\S+)$", line)
        if m:
            continue
        if line.startswith("wire: "):
            cur.append(line[6:])
        elif line.startswith("\t") and cur:
            cur[-1] += "\n" + line[1:]
        elif line.strip():
            loose.append(line)
    return per, loose + cur


def run_batch(progs, workdir, tag="b", want_run=True):
    """Render, `wire gen ./...`, read back, go build, run.  Returns per-program observation dicts."""
    tools = build_tools()
    root = os.path.join(workdir, "mod_" + tag)
    renders = write_module(root, progs)
    env = dict(GOENV)
    dropped = {}
    hung = False
    for attempt in range(4):
        try:
            p = sh([tools["wire"], "gen", "./..."], cwd=root, env=env, timeout=240, mem_gb=10)
        except subprocess.TimeoutExpired:
            # the tool does not finish on the batch: find the packages it hangs on, one by one
            hung = True
            p = subprocess.CompletedProcess([], 124, "", "timeout: wire gen ./... did not finish within 240s")
            per, loose = {}, []
            break
        if p.returncode < 0 or "out of memory" in p.stderr or "cannot allocate memory" in p.stderr:
            hung = True
            per, loose = {}, []
            break
        per, loose = classify_stderr(p.stderr)
        if p.returncode == 0 or per or "wrote" in p.stderr or "panic:" in p.stderr or "goroutine " in p.stderr:
            break
        # the loader refused the whole invocation: some rendered package is not valid Go (harness defect,
        # not Wire's); drop the packages named in the errors and try again
        bad = set(int(x) for x in re.findall(r"/c(\d+)/", p.stderr))
        if not bad:
            raise RuntimeError("wire gen ./... failed without naming a package:\n" + p.stderr[-3000:])
        for i in bad:
            dropped[i] = "\n".join(l for l in p.stderr.split("\n") if ("/c%d/" % i) in l)[:600]
            shutil.rmtree(os.path.join(root, "c%d" % i), ignore_errors=True)
    crashed = {}
    if hung or ("goroutine " in p.stderr and ("panic:" in p.stderr or "fatal error:" in p.stderr)):
        # the tool crashed on the whole pattern: run every package on its own to find out which ones do it
        from concurrent.futures import ThreadPoolExecutor

        def one(i):
            try:
                q = sh([tools["wire"], "gen", "./c%d/app" % i], cwd=root, env=env, timeout=20, mem_gb=4)
                return i, q.returncode, q.stderr
            except subprocess.TimeoutExpired:
                return i, 124, "timeout: wire gen did not finish within 20s"
        per = {}
        with ThreadPoolExecutor(max_workers=16) as ex:
            for i, rc, err in ex.map(one, [i for i in range(len(renders)) if i not in dropped]):
                if "goroutine " in err or rc == 124 or rc == 2 or rc < 0:
                    crashed[i] = err[:1500] or "killed (memory limit)"
                pp, _ = classify_stderr(err)
                per.update(pp)
    obs = []
    gens = []
    for i, r in enumerate(renders):
        gen = os.path.join(root, "c%d" % i, "app", "wire_gen.go")
        o = {"exit": p.returncode, "errors": per.get(r.apppath, []), "generated": os.path.exists(gen), "gen_path": gen}
        if i in crashed:
            o["crash"] = crashed[i]
        if i in dropped:
            o["invalid_go"] = dropped[i]
        obs.append(o)
        if o["generated"]:
            gens.append(gen)
    # read back
    rb = os.path.join(WORK, "bin", "readback")
    if "readback" not in tools:
        sh(["go", "build", "-o", rb, "./readback"], cwd=os.path.join(VERIF, "gotools"), env=GOENV, check=True, timeout=300)
        tools["readback"] = rb
    if gens:
        for j in range(0, len(gens), 200):
            q = sh([rb] + gens[j:j + 200], timeout=300, check=True)
            for f in json.loads(q.stdout):
                idx = int(re.search(r"/c(\d+)/app/wire_gen\.go$", f["path"]).group(1))
                obs[idx]["readback"] = f
                obs[idx]["gen_text"] = open(f["path"]).read()
    if want_run:
        # compile everything that generated; packages that fail to compile are reported and dropped
        good = [i for i, o in enumerate(obs) if o["generated"]]
        for attempt in range(3):
            main = ["package main\n", "import ("] + ['\tc%d "example.com/m/c%d/app"' % (i, i) for i in good] + [")\n", "func main() {"] + ["\tc%d.Run()" % i for i in good] + ["}\n"]
            os.makedirs(os.path.join(root, "zmain"), exist_ok=True)
            open(os.path.join(root, "zmain/main.go"), "w").write("\n".join(main))
            b = sh(["go", "build", "-o", os.path.join(root, "zmain/zmain"), "./zmain"], cwd=root, env=env, timeout=900)
            if b.returncode == 0:
                break
            bad = set(int(x) for x in re.findall(r"(?m)^c(\d+)/", b.stderr)) | set(int(x) for x in re.findall(r"example\.com/m/c(\d+)/", b.stderr))
            if not bad:
                raise RuntimeError("go build failed without naming a package:\n" + b.stderr[-3000:])
            for i in bad:
                if i in good:
                    obs[i]["build_error"] = "\n".join(l for l in b.stderr.split("\n") if ("c%d/" % i) in l)[:1500]
                    good.remove(i)
        if good:
            r = sh([os.path.join(root, "zmain/zmain")], cwd=root, timeout=600)
            cur = None
            for line in r.stderr.split("\n"):
                if line.startswith("RUN "):
                    _, c, *f = line.split(" ")
                    cur = (int(c[1:]), f[0] if f else "")
                    obs[cur[0]].setdefault("runs", {})[cur[1]] = []
                elif line == "END":
                    cur = None
                elif cur is not None:
                    obs[cur[0]]["runs"][cur[1]].append(line)
            if r.returncode != 0:
                for i in good:
                    if "runs" not in obs[i]:
                        obs[i]["run_crash"] = r.stderr[-1500:]
                        break
    return obs, renders, root
