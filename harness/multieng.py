"""Engine (siblings): every generated program is rendered three times -- alone (c<i>/app, one injector), in a package
with several injectors spread over two files (c<i>/multi: Inject, InjectB = the same wire.Build with its items
permuted, InjectC = the same items asked for another type) and InjectC alone (c<i>/soloc).  wire's treatment of an
injector is a function of that injector's own wire.Build (model: Cli/analyze is applied pointwise), so
  * the multi package is generated iff every one of its injectors is accepted alone,
  * its diagnostics are the union of the diagnostics the injectors get alone,
  * it compiles, and every injector run under every single-provider failure leaves the very trace it leaves alone
    (InjectB: the trace of Inject -- C10_analysis_order_independent)."""
import random, re
from common import *
import synth, spec, prog
from prog import Render, WIRE_IMPORT


class RenderM(Render):
    def __init__(self, p, modpath, cdir, rng):
        super().__init__(p, modpath, cdir)
        self.rng = rng
        seen, direct, binds = spec.needed(p["tree"], p["given"], p["out"])
        cands = sorted(t for t in seen if t != p["out"] and t not in p["given"] and t // 2 in self.types
                       and not (t % 2 and self.types[t // 2]["kind"] == "iface"))
        self.out_c = rng.choice(cands) if cands and rng.random() < 0.4 else None
        items = list(range(len(self.item_exprs(p["tree"], 0))))
        perm = list(items); rng.shuffle(perm)
        self.perm = perm
        self.c_first = rng.random() < 0.3

    def injector_src(self, name, out, perm=None):
        p = self.p
        pn = self.inj_param_names()
        params = ", ".join(((pn[i] + " ") if pn[i] else "") + self.ty(t, 0) for i, t in enumerate(p["given"]))
        res = [self.ty(out, 0)] + (["func()"] if p["cleanup"] else []) + (["error"] if p["err"] else [])
        rs = res[0] if len(res) == 1 else "(" + ", ".join(res) + ")"
        items = self.item_exprs(p["tree"], 0)
        if perm is not None:
            items = [items[j] for j in perm]
        build = "wire.Build(%s)" % ", ".join(items)
        zero = [self.zero(out, 0)] + (["nil"] if p["cleanup"] else []) + (["nil"] if p["err"] else [])
        body = "\tpanic(%s)" % build if (p["style"] == "panic" or "nil" in pn) else "\t%s\n\treturn %s" % (build, ", ".join(zero))
        return "func %s(%s) %s {\n%s\n}\n" % (name, params, rs, body)

    def driver_src(self, tagdir, injectors):
        p = self.p
        self.app_files()
        imp_lib = self._imp_lib
        D = ["package app\n", "import (\n\t%s\n\t\"%s/rt\"\n)\n" % (imp_lib, self.mod), self._blank]
        fails = [""] + ["P%d" % pr["id"] for pr in sorted(self.provs.values(), key=lambda x: x["id"]) if pr["err"] and not pr["struct"]]
        args = ", ".join(self.mkval(t, '"arg%d"' % i, 0) for i, t in enumerate(p["given"]))
        D.append("func Run() {\n\tfor _, f := range []string{%s} {" % ", ".join('"%s"' % f for f in fails))
        for name, out in injectors:
            lhs = ["v"] + (["cleanup"] if p["cleanup"] else []) + (["err"] if p["err"] else [])
            D.append("\t\tfunc() {")
            D.append("\t\t\trt.Reset(f)")
            D.append("\t\t\t%s := %s(%s)" % (", ".join(lhs), name, args))
            D.append('\t\t\trt.Note("result " + %s)' % self.desc("v", out, 0))
            if p["err"]:
                D.append('\t\t\trt.Note("error " + rt.ErrDesc(err))')
            if p["cleanup"]:
                D.append('\t\t\tif cleanup == nil {\n\t\t\t\trt.Note("cleanup-nil")\n\t\t\t} else {\n\t\t\t\trt.Note("cleanup-invoke")\n\t\t\t\tcleanup()\n\t\t\t}')
            D.append('\t\t\trt.Dump("%s:%s:%s " + f)' % (self.cdir, tagdir, name))
            D.append("\t\t}()")
        D.append("\t}\n}\n")
        return "\n".join(D)

    def pkg(self, d, filesplit):
        """filesplit: list of (filename, [(injname, out, perm)], extra decl text)"""
        base = self.app_files()
        imp_lib = self._imp_lib
        out = {"%s/%s/prov.go" % (self.cdir, d): base["app/prov.go"]}
        injs = []
        for fname, lst, extra in filesplit:
            body = ([extra] if extra else [])
            for name, o, perm in lst:
                body.append(self.injector_src(name, o, perm))
                injs.append((name, o))
            W = ["//go:build wireinject\n// +build wireinject\n", "package app\n", self.inj_imports("\n".join(body))] + body
            out["%s/%s/%s" % (self.cdir, d, fname)] = "\n".join(W)
        out["%s/%s/drv.go" % (self.cdir, d)] = self.driver_src(d, injs)
        return out

    def files(self):
        out = super().files()
        a = [("Inject", self.p["out"], None)]
        b = [("InjectB", self.p["out"], self.perm)]
        c = [("InjectC", self.out_c, None)] if self.out_c is not None else []
        first = (c + a) if self.c_first else (a + c)
        out.update(self.pkg("multi", [("wire.go", first, ""), ("wire_b.go", b, "")]))
        if c:
            out.update(self.pkg("soloc", [("wire.go", c, "")]))
        return out


def norm_errors(errs, rename=None):
    out = []
    for e in errs:
        l = e.split("\n")[0]
        l = re.sub(r"^(\S+\.go:\d+:\d+: )+", "", l)
        l = re.sub(r"/(multi|soloc)\b", "/app", l)
        if rename:
            l = l.replace("inject %s:" % rename[0], "inject %s:" % rename[1])
        out.append(l)
    return sorted(out)


def eng_multi(pid, tier, wd, known, replay=None):
    import engprog
    rng = random.Random(seed() * 7919 + 11)
    if replay is not None and replay.get("input", {}).get("prog") and replay.get("engine") == "multi":
        rp = replay["input"]["prog"]
        rp["kinds"] = {int(k): v for k, v in (rp.get("kinds") or {}).items()}
        rp["extra_fields"] = {int(k): v for k, v in (rp.get("extra_fields") or {}).items()}
        rp["extra_impl"] = {int(k): v for k, v in (rp.get("extra_impl") or {}).items()}
        rp["type_pkg"] = {int(k): v for k, v in (rp.get("type_pkg") or {}).items()}
        progs, rseed = [rp], replay["input"].get("render_seed", 0)
    else:
        want_n = 90 if tier == "quick" else 900
        progs = [c for c in engprog.special_progs(rng) if rng.random() < 0.25]
        while len(progs) < want_n:
            c = prog.make_prog(rng, opts={"full_sig": rng.random() < 0.85, "names_p": 0.4, "unexported_p": 0.05, "lit_p": 0.05})
            if prog.renderable(c):
                continue
            d = c["defect"].split("+")[0].split(":")[0]
            if d == "none" or rng.random() < 0.3:
                progs.append(c)
        rseed = seed()
    tools = build_tools()
    viol, stats = [], {"outcomes": {}, "injectors": 0, "with_third_injector": 0}
    ntr = 0
    samples = []
    B = 150
    for b0 in range(0, len(progs), B):
        chunk = progs[b0:b0 + B]
        root = os.path.join(wd, "multi_%d" % b0)
        os.makedirs(os.path.join(root, "rt"), exist_ok=True)
        open(os.path.join(root, "go.mod"), "w").write("module example.com/m\n\ngo 1.21\n\nrequire %s v0.1.0\n\nreplace %s => %s\n" % (WIRE_IMPORT, WIRE_IMPORT, REPO))
        shutil.copy(os.path.join(REPO, "go.sum"), os.path.join(root, "go.sum"))
        shutil.copy(os.path.join(VERIF, "gotools/rt/rt.go"), os.path.join(root, "rt/rt.go"))
        renders = []
        for i, p in enumerate(chunk):
            r = RenderM(p, "example.com/m", "c%d" % i, random.Random(rseed * 1000003 + b0 + i))
            for rel, text in r.files().items():
                path = os.path.join(root, rel)
                os.makedirs(os.path.dirname(path), exist_ok=True)
                open(path, "w").write(text)
            renders.append(r)
        dropped = set()
        hung = False
        for attempt in range(4):
            try:
                q = sh([tools["wire"], "gen", "./..."], cwd=root, env=GOENV, timeout=240, mem_gb=10)
            except subprocess.TimeoutExpired:
                hung = True
                q = subprocess.CompletedProcess([], 124, "", "timeout")
                per, loose = {}, []
                break
            if q.returncode < 0 or "out of memory" in q.stderr or "cannot allocate memory" in q.stderr:
                hung = True
                per, loose = {}, []
                break
            per, loose = prog.classify_stderr(q.stderr)
            if q.returncode == 0 or per or "wrote" in q.stderr or "goroutine " in q.stderr:
                break
            bad = set(int(x) for x in re.findall(r"/c(\d+)/", q.stderr))
            if not bad:
                raise RuntimeError("wire gen ./... failed without naming a package:\n" + q.stderr[-3000:])
            for i in bad:
                dropped.add(i); shutil.rmtree(os.path.join(root, "c%d" % i), ignore_errors=True)
        crashed = {}
        if hung or ("goroutine " in q.stderr and ("panic:" in q.stderr or "fatal error:" in q.stderr)):
            from concurrent.futures import ThreadPoolExecutor
            jobs = [(i, d) for i in range(len(renders)) if i not in dropped for d in ("app", "multi", "soloc") if os.path.isdir(os.path.join(root, "c%d" % i, d))]

            def one(j):
                i, d = j
                try:
                    x = sh([tools["wire"], "gen", "./c%d/%s" % (i, d)], cwd=root, env=GOENV, timeout=30, mem_gb=4)
                    return i, d, x.returncode, x.stderr
                except subprocess.TimeoutExpired:
                    return i, d, 124, "timeout"
            per = {}
            with ThreadPoolExecutor(max_workers=16) as ex:
                for i, d, rc, err in ex.map(one, jobs):
                    if "goroutine " in err or rc in (2, 124) or rc < 0:
                        crashed[(i, d)] = err[:1200] or "killed (memory limit)"
                    pp, _ = prog.classify_stderr(err)
                    per.update(pp)
        # compile and run whatever generated
        def gen_ok(i, d):
            return os.path.exists(os.path.join(root, "c%d" % i, d, "wire_gen.go"))
        good = [(i, d) for i in range(len(renders)) if i not in dropped for d in ("app", "multi", "soloc") if gen_ok(i, d)]
        build_err = {}
        for attempt in range(4):
            main = ["package main\n", "import ("] + ['\tc%d%s "example.com/m/c%d/%s"' % (i, d, i, d) for i, d in good] + [")\n", "func main() {"] + ["\tc%d%s.Run()" % (i, d) for i, d in good] + ["}\n"]
            os.makedirs(os.path.join(root, "zmain"), exist_ok=True)
            open(os.path.join(root, "zmain/main.go"), "w").write("\n".join(main))
            b = sh(["go", "build", "-o", os.path.join(root, "zmain/zmain"), "./zmain"], cwd=root, env=GOENV, timeout=900)
            if b.returncode == 0:
                break
            bad = set((int(x), d) for x, d in re.findall(r"(?m)^c(\d+)/(app|multi|soloc)/", b.stderr)) | set((int(x), d) for x, d in re.findall(r"example\.com/m/c(\d+)/(app|multi|soloc)", b.stderr))
            if not bad:
                raise RuntimeError("go build failed without naming a package:\n" + b.stderr[-3000:])
            for k in bad:
                if k in good:
                    build_err[k] = "\n".join(l for l in b.stderr.split("\n") if ("c%d/%s/" % k) in l)[:1200]
                    good.remove(k)
        runs = {}
        if good and b.returncode == 0:
            x = sh([os.path.join(root, "zmain/zmain")], cwd=root, timeout=600)
            cur = None
            for line in x.stderr.split("\n"):
                if line.startswith("RUN "):
                    parts = line.split(" ")
                    h = parts[1].split(":")
                    cur = (int(h[0][1:]), h[1] if len(h) > 1 else "app", h[2] if len(h) > 2 else "Inject", parts[2] if len(parts) > 2 else "")
                    runs[cur] = []
                elif line == "END":
                    cur = None
                elif cur is not None:
                    runs[cur].append(line)
        for i, (p, r) in enumerate(zip(chunk, renders)):
            if i in dropped:
                stats["outcomes"]["invalid-go-dropped"] = stats["outcomes"].get("invalid-go-dropped", 0) + 1
                continue
            has_c = r.out_c is not None
            stats["injectors"] += 3 if has_c else 2
            stats["with_third_injector"] += int(has_c)
            pa, pm_, pc = "example.com/m/c%d/app" % i, "example.com/m/c%d/multi" % i, "example.com/m/c%d/soloc" % i
            ea, em, ec_ = per.get(pa, []), per.get(pm_, []), per.get(pc, [])
            why = []
            for d in ("app", "multi", "soloc"):
                if (i, d) in crashed:
                    why.append("wire crashed or hung on package %s of this type-correct program: %s" % (d, crashed[(i, d)][:300]))
            if not why:
                alone_ok = gen_ok(i, "app") and (gen_ok(i, "soloc") or not has_c)
                if gen_ok(i, "multi") != alone_ok:
                    why.append("the package with several injectors is %s although its injectors alone are %s (Inject alone: %s, InjectC alone: %s)" % (
                        "generated" if gen_ok(i, "multi") else "rejected", "all accepted" if alone_ok else "not all accepted",
                        "accepted" if gen_ok(i, "app") else norm_errors(ea)[:3], ("accepted" if gen_ok(i, "soloc") else norm_errors(ec_)[:3]) if has_c else "-"))
                want = sorted(norm_errors(ea) + norm_errors(ea, rename=("Inject", "InjectB")) + norm_errors(ec_))
                got = norm_errors(em)
                if not why and want != got:
                    why.append("diagnostics of the package with several injectors differ from the union of the diagnostics of its injectors alone: got %s, want %s" % (
                        [g for g in got if g not in want][:4] or got[:4], [w for w in want if w not in got][:4] or want[:4]))
                if gen_ok(i, "multi") and (i, "multi") in build_err and (i, "app") not in build_err and (i, "soloc") not in build_err:
                    why.append("the generated file of the package with several injectors does not compile (each injector alone does): " + build_err[(i, "multi")][:400])
                if gen_ok(i, "multi"):
                    # one value variable per value expression of the sources: an expression in a named set is shared by the
                    # injectors that use it, one written inside wire.Build (or an inline set there) belongs to its injector
                    def used_values(o):
                        seen, direct, _ = spec.needed(p["tree"], p["given"], o)
                        return {direct[t][1]["id"] for t in seen if t in direct and direct[t][0] == "val"}

                    def located(x, shared, acc):
                        for v in x["values"]:
                            acc[v["id"]] = shared
                        for y in x["imports"]:
                            located(y, shared or not y.get("inline"), acc)
                    loc = {}
                    located(p["tree"], False, loc)
                    outs_ = [p["out"], p["out"]] + ([r.out_c] if has_c else [])
                    per_inj = [used_values(o) for o in outs_]
                    want_vars = sum(len([v for v in u if not loc.get(v)]) for u in per_inj) + len({v for u in per_inj for v in u if loc.get(v)})
                    txt = open(os.path.join(root, "c%d" % i, "multi", "wire_gen.go")).read()
                    got_vars = len(re.findall(r"(?m)^\t?(?:var )?_wire\w*Value\w* += ", txt))
                    if got_vars != want_vars:
                        why.append("the generated file declares %d value variables; the sources hold %d value expressions in use (each is to be evaluated once)" % (got_vars, want_vars))
                if gen_ok(i, "multi") and (i, "multi") not in build_err and (i, "app") not in build_err:
                    fails = sorted({k[3] for k in runs if k[0] == i and k[1] == "app"})
                    for f in fails:
                        ta = runs.get((i, "app", "Inject", f))
                        for inj in ("Inject", "InjectB"):
                            tm = runs.get((i, "multi", inj, f))
                            ntr += 1
                            if tm is not None and ta is not None and tm != ta:
                                why.append("%s in the package with several injectors behaves differently from Inject alone when %s fails: %s vs %s" % (inj, f or "nothing", tm[:8], ta[:8]))
                                break
                        if has_c and (i, "soloc") not in build_err:
                            tc, tmc = runs.get((i, "soloc", "InjectC", f)), runs.get((i, "multi", "InjectC", f))
                            ntr += 1
                            if tc is not None and tmc is not None and tc != tmc:
                                why.append("InjectC behaves differently next to siblings when %s fails: %s vs %s" % (f or "nothing", tmc[:8], tc[:8]))
                        if why:
                            break
            k = "generated" if gen_ok(i, "multi") else "rejected"
            stats["outcomes"][k] = stats["outcomes"].get(k, 0) + 1
            if why and len(viol) < 10:
                files = r.files()
                viol.append(({"property": pid, "kind": "failing-input", "engine": "multi", "broken": "sibling-independence oracle on the wire binary (Cli model: analysis is pointwise per injector)",
                              "input": {"prog": p, "render_seed": rseed, "index": b0 + i}, "rendered_files": files,
                              "impl": {"alone": ea, "multi": em, "soloc": ec_, "build_error": build_err.get((i, "multi"))}, "oracle": why, "seed": seed()}, True))
            if len(samples) < 2 and gen_ok(i, "multi") and has_c:
                samples.append({"prog": {"tree": p["tree"], "given": p["given"], "out": p["out"]}, "third_injector_out": r.out_c, "permutation": r.perm})
        shutil.rmtree(root, ignore_errors=True)
    return {"name": "multi", "evaluations": stats["injectors"], "distinct_nontrivial": len(progs), "samples": samples, "traces": ntr, "stats": stats,
            "rule": "each generated program rendered alone, in a package with three injectors over two files (same Build; same Build with permuted items; same items asked for "
                    "another type) and the third injector alone; acceptance, diagnostics (first lines, positions dropped), compilation and per-failure run traces of every "
                    "injector must equal what it gets alone",
            "violations": viol, "known": []}
