"""Probe-table engines: copyAST over every go/ast node kind x field (reflection, regenerated each run),
processValue over expression forms, and the copied-declaration corpus (C13, C15)."""
from common import *

# fields whose loss cannot change the meaning of printed code
MEANINGLESS = {("CompositeLit", "Incomplete"), ("RangeStmt", "Range"), ("StructType", "Incomplete"), ("InterfaceType", "Incomplete")}


def eng_copyprobe(pid, tier, wd, known, replay=None):
    r = hook([{"op": "copyprobe"}])[0]
    rows = [x.split("|") for x in r["rows"]]
    nodes = r["nodes"]
    kf = {k["key"]: k for k in known if k.get("status") == "finding"}
    viol, knownl = [], []
    lost = [(n, f, st) for n, f, st in rows if st != "KEPT" and (n, f) not in MEANINGLESS]
    for n, f, st in lost:
        key = "copyast:%s.%s" % (n, f)
        why = "copyAST %s for node kind %s%s" % ("panics" if st.startswith("PANIC") else ("shares (does not copy) field " + f if st == "SHARED" else "drops field " + f), n, "" if f == "*" else "." + f)
        if st == "SHARED":
            why += " -- the rewriting of the copy then edits the user's own syntax tree, which every later reader of the expression sees"
        if key in kf:
            knownl.append(key + ": " + kf[key].get("what_fails", why))
        else:
            viol.append(({"property": pid, "kind": "failing-input", "broken": "table theorem copy_table_complete (regenerated from copyAST by reflection)",
                          "input": {"node": n, "field": f, "status": st}, "oracle": [why + ": a declaration or value expression containing it is not copied faithfully"], "key": key, "seed": seed()}, True))
    # the table as a Coq term: kinds and fields numbered in sorted order; theorem: every child field is covered
    kinds = sorted({n for n, _, _ in rows})
    kid = {n: i for i, n in enumerate(kinds)}
    fields = sorted({f for _, f, _ in rows})
    fid = {f: i for i, f in enumerate(fields)}
    kept = {}
    allf = {}
    for n, f, st in rows:
        allf.setdefault(n, []).append(f)
        if st == "KEPT" or (n, f) in MEANINGLESS:
            kept.setdefault(n, []).append(f)
    f = os.path.join(wd, "CopyTable.v")
    with open(f, "w") as fh:
        fh.write("From Coq Require Import List Arith Bool.\nFrom Wire Require Import CopyAst.\nImport ListNotations.\n")
        fh.write("Definition kept : list (nat * list nat) := %s.\n" % coq_list(["(%d, %s)" % (kid[n], coq_list([str(fid[x]) for x in kept.get(n, []) if x != "*"])) for n in kinds]))
        fh.write("Definition declared : list (nat * list nat) := %s.\n" % coq_list(["(%d, %s)" % (kid[n], coq_list([str(fid[x]) for x in allf.get(n, []) if x != "*"])) for n in kinds]))
        fh.write("Definition tbl (k : nat) : list nat := match find (fun r => Nat.eqb (fst r) k) kept with Some r => snd r | None => [] end.\n")
        fh.write("Definition complete : bool := forallb (fun r => forallb (fun f => memb f (tbl (fst r))) (snd r)) declared.\n")
        fh.write("Definition missing := Eval vm_compute in filter (fun r => negb (forallb (fun f => memb f (tbl (fst r))) (snd r))) declared.\nPrint missing.\n")
        fh.write("Theorem copy_table_complete : complete = true.\nProof. vm_compute. reflexivity. Qed.\n")
        fh.write("(* with the regenerated table, copyAST is the identity on every tree built from the declared fields *)\n")
        fh.write("Theorem copy_identity : forall t, covered tbl t -> copy tbl t = t.\nProof. exact (copy_id tbl). Qed.\nPrint Assumptions copy_identity.\n")
    rc, out, err = coqc(f)
    table_ok = rc == 0 and "Closed under the global context" in out
    if not table_ok and not lost:
        viol.append(({"property": pid, "kind": "no-failing-input-found", "broken": "table theorem copy_table_complete", "coqc": (out + err)[-800:], "seed": seed()}, False))
    return {"name": "copy-probe", "evaluations": len(rows), "distinct_nontrivial": len(rows), "exhaustive": True,
            "samples": [{"row": rows[10]}], "traces": len(rows), "stats": {"node_kinds": len(nodes), "fields": len(rows), "lost": [list(x) for x in lost], "table_theorem": table_ok},
            "rule": "one fully populated instance of every go/ast node type (reflection over the toolchain's go/ast) through the real copyAST, every exported field deep-compared and checked not to share a node (other than identifiers) or a slice with the original; "
                    "table theorem (every declared child field is copied) re-proved by vm_compute, lifted to all trees by CopyAst.copy_id",
            "violations": viol, "known": knownl}


# ---------------------------------------------------------------------------------------------
G, CV, CL, RC, OT = "KGood", "KConv", "KCall", "KRecv", "KOther"


def n(k, *cs):
    return "(VN %s %s)" % (k, coq_list(list(cs)))


DECLS = """type T struct{ A int }
type F func() int
var v int
var p *int
var a [3]int
var sl []int
var x interface{}
var ch chan int
var m map[string]int
var Fn F
var t T
const k = 2
func f() int { return 1 }
func (T) M() int { return 1 }
"""
leaf = n(G)
VALUE_FORMS = [
    ("1", leaf, True), ('"a" + "b"', n(G, leaf, leaf), True), ("T{A: 1}", n(G, leaf, n(G, leaf, leaf)), True),
    ("&v", n(G, leaf), True), ("*p", n(G, leaf), True), ("a[0]", n(G, leaf, leaf), True), ("sl[0:1]", n(G, leaf, leaf, leaf), True),
    ("sl[0:1:2]", n(G, leaf, leaf, leaf, leaf), True), ("x.(int)", n(G, leaf, leaf), True), ("(1)", n(G, leaf), True),
    ("int64(3)", n(CV, leaf, leaf), True), ("f()", n(CL, leaf), False), ("<-ch", n(RC, leaf), False), ("func() {}", n(OT), False),
    ("f() + int(k)", n(G, n(CL, leaf), n(CV, leaf, leaf)), False), ("[]int{f(), int(k)}", n(G, n(G, leaf), n(CL, leaf), n(CV, leaf, leaf)), False),
    ("<-ch + int(k)", n(G, n(RC, leaf), n(CV, leaf, leaf)), False), ("int(k) + f()", n(G, n(CV, leaf, leaf), n(CL, leaf)), False),
    ("[]interface{}{1}", n(G, n(G, n(G, n(OT))), leaf), False), ("len(a)", n(CV, leaf, leaf), True), ("len(sl)", n(CL, leaf, leaf), False),
    ("Fn()", n(CL, leaf), False), ('m["k"]', n(G, leaf, leaf), True), ("struct{ A int }{A: 1}", n(G, n(G, n(OT)), n(G, leaf, leaf)), False),
    ("T{A: f()}", n(G, leaf, n(G, leaf, n(CL, leaf))), False), ("int(f())", n(CV, leaf, n(CL, leaf)), False), ("t.M()", n(CL, n(G, leaf, leaf)), False),
    ("new(int)", n(CL, leaf, leaf), False), ('map[string]int{"a": 1}', n(G, n(G, leaf, leaf), n(G, leaf, leaf)), True), ("[2]int{1, 2}", n(G, n(G, leaf, leaf), leaf, leaf), True),
    ("(chan int)(nil)", n(CV, n(G, n(G, leaf)), leaf), True), ("-v", n(G, leaf), True), ("t.A", n(G, leaf, leaf), True),
    ("T{A: int(k)}.A + int(f())", n(G, n(G, n(G, leaf, n(G, leaf, n(CV, leaf, leaf))), leaf), n(CV, leaf, n(CL, leaf))), False),
]


def eng_valuetable(pid, tier, wd, known, replay=None):
    resps = hook([{"op": "valuecheck", "decls": DECLS, "expr": e} for e, _, _ in VALUE_FORMS])
    viol = []
    rows = []
    for (e, term, safe), r in zip(VALUE_FORMS, resps):
        acc = bool(r["ok"]) or ("may not be an interface value" in r.get("msg", ""))     # the walk itself accepted
        if "parse:" in r.get("msg", "") or "check:" in r.get("msg", ""):
            raise RuntimeError("value form %r does not type-check: %s" % (e, r["msg"]))
        rows.append("(%s, %s)" % (term, coq_bool(acc)))
        # property oracle: expressions that call or receive must be refused; panics never
        why = []
        if "PANIC" in r.get("msg", ""):
            why.append("processValue panicked on %s" % e)
        if acc and not safe:
            why.append("wire.Value(%s) was accepted although evaluating it calls a function or receives from a channel" % e)
        if why:
            viol.append(({"property": pid, "kind": "failing-input", "broken": "C13 oracle on processValue", "input": {"decls": DECLS, "expr": e}, "impl": r, "oracle": why, "seed": seed()}, True))
    f = os.path.join(wd, "ValueTable.v")
    with open(f, "w") as fh:
        fh.write("From Coq Require Import List Bool.\nFrom Wire Require Import Front.\nImport ListNotations.\n")
        fh.write("Definition table : list (vexpr * bool) := [\n" + ";\n".join(rows) + "\n].\n")
        fh.write("Fixpoint idx (l : list (vexpr * bool)) (i : nat) : list nat := match l with [] => [] | r :: t => (if Bool.eqb (value_ok (fst r)) (snd r) then [] else [i]) ++ idx t (S i) end.\n")
        fh.write("Definition bad := Eval vm_compute in idx table 0.\nPrint bad.\n")
        fh.write("Theorem value_table : forallb (fun r => Bool.eqb (value_ok (fst r)) (snd r)) table = true.\nProof. vm_compute. reflexivity. Qed.\nPrint Assumptions value_table.\n")
    rc, out, err = coqc(f)
    ok = rc == 0 and "Closed under the global context" in out
    if not ok:
        m = re.search(r"bad\s*=\s*(\[.*?\])\s*:", out, re.S)
        idxs = [int(x) for x in re.findall(r"\d+", m.group(1))] if m else []
        found = bool(viol)
        viol.append(({"property": pid, "kind": "failing-input" if found else "no-failing-input-found", "broken": "table theorem value_table (processValue vs Front.value_ok)",
                      "input": {"exprs": [VALUE_FORMS[i][0] for i in idxs]}, "coqc": (out + err)[-500:], "seed": seed()}, found))
    return {"name": "value-table", "evaluations": len(VALUE_FORMS), "distinct_nontrivial": len(VALUE_FORMS), "samples": [{"expr": VALUE_FORMS[14][0], "impl": resps[14]}],
            "traces": len(VALUE_FORMS), "stats": {"accepted": sum(1 for r in resps if r["ok"])},
            "rule": "expression forms of every ast.Expr kind the whitelist names, nested, with a call / receive before and after a conversion, each through the real processValue (hook) "
                    "and Front.value_ok; table theorem re-proved by vm_compute",
            "violations": viol, "known": []}


# ---------------------------------------------------------------------------------------------
COPY_SRC = '''//go:build wireinject
// +build wireinject

package cp

import (
	baz "example.com/c/bar"
	. "example.com/c/dot"
	"github.com/google/wire"
)

func InitA() num {
	panic(wire.Build(NewA))
}

// Doc comment of Pair.
type Pair struct {
	A int `json:"a"`
	B string
}

type Alias = Pair

const (
	K1 = iota
	K2
)

var table = map[string][]int{"a": {1, 2}, "b": nil}

func head(s []int, n int) []int { return s[:n:n] }

func score() int {
	bar := baz.Base()
	total := 0
	{
		bar2 := 20
		total += bar*100 + bar2
	}
	return total + bar
}

func score2() int {
	bar2 := 20
	bar := baz.Base()
	return bar*100 + bar2
}

func score3(table3 int) int {
	table2 := 3
	table := 4
	return table*100 + table2*10 + table3
}

// identifiers of a dot-imported package: bare, as the base of a field selector, as a method expression, as a
// composite literal type and as a conversion
func dotted() string {
	g := Greeter{Name: Default.Name}
	f := Greeter.Greet
	return f(g) + "/" + Itoa(Port(80)) + "/" + Default.Greet()
}

func labels(xs []int) int {
	sum := 0
outer:
	for i, x := range xs {
		switch {
		case x < 0:
			continue outer
		case x > 100:
			break outer
		default:
			sum += x * i
		}
	}
	goto done
done:
	return sum
}

func closures() func() int {
	n := 0
	return func() int { n++; return n }
}

func variadic(xs ...int) (n int, err error) {
	defer func() { recover() }()
	for _, x := range xs {
		n += x
	}
	var i interface{} = n
	switch v := i.(type) {
	case int:
		n = v
	}
	if ch := make(chan int, 1); n > 0 {
		ch <- n
		select {
		case m := <-ch:
			n = m
		default:
		}
	}
	return n, nil
}

// an embedded dot-imported type (the identifier both declares a field and uses a type)
func wrapped() string {
	type W struct{ Greeter }
	w := W{}
	w.Name = "w"
	return w.Greet()
}

// a type switch whose symbolic variable is named like an import of the generated file: the variable has no object,
// each clause declares its own
func tswitch(v interface{}) string {
	switch bar := v.(type) {
	case string:
		return bar + "/" + Itoa(Port(baz.Base()))
	case int, int64:
		_ = bar
		return "n"
	case uint:
		return Itoa(Port(int(bar) + baz.Base()))
	}
	return ""
}

// a local type named like an import of the generated file, embedded
func embedded() int {
	type bar struct{ n int }
	type T struct{ bar }
	return T{bar{2}}.n + baz.Base()
}

// selectors and literal keys naming a field declared by embedding a renamed local type
func embeddedSel() int {
	type bar struct{ N int }
	type w struct{ bar }
	type pw struct{ *bar }
	v := w{bar{baz.Base()}}
	u := pw{bar: &bar{N: 1}}
	return v.bar.N + u.bar.N
}

// ... and a field declared by embedding a local alias of another local type
func embeddedAlias() int {
	type a struct{ n int }
	type bar = a
	type c struct{ bar }
	v := c{bar: a{n: baz.Base()}}
	return v.bar.n
}

// an unparenthesised declaration that ends in a package qualifier, with a closure parameter named like the import
var scale = func(bar int) baz.Dur { return baz.Dur(bar) }(3) * baz.Second

// a label used before it is declared, and a type parameter used in the constraint of an earlier one, both named like
// something in the generated file's scope
func forward(n int) int {
	if n > 0 {
		goto bar
	}
	n = -n
bar:
	return n + baz.Base()
}

type E = string

func firstOf[S ~[]E, E any](s S) E { return s[0] }

func (p Pair) Method() string { return p.B }

// a method that happens to carry the injector's name
func (p Pair) InitA() string { return "method:" + p.B }
'''
DOT_SRC = '''package dot

import "strconv"

type Greeter struct{ Name string }

func (g Greeter) Greet() string { return "hi " + g.Name }

type Port int

var Default = Greeter{Name: "svc"}

func Itoa(p Port) string { return strconv.Itoa(int(p)) }
'''
COPY_OTHER = '''package cp

type num = int

func NewA() num { return 1 }

func refScore() int {
	b := 10
	total := 0
	{
		c := 20
		total += b*100 + c
	}
	return total + b
}

func Check() string {
	if score() != refScore() {
		return "score differs"
	}
	if score2() != 1020 || score3(5) != 435 {
		return "score2/score3 differ"
	}
	if dotted() != "hi svc/80/hi svc" {
		return "dotted differs: " + dotted()
	}
	d := []int{1, 2, 3, 99}
	h := head(d, 2)
	if cap(h) != 2 {
		return "head capacity differs"
	}
	if labels([]int{1, 2, -1, 3}) != 2+9 {
		return "labels differs"
	}
	if n, _ := variadic(1, 2, 3); n != 6 {
		return "variadic differs"
	}
	if wrapped() != "hi w" || tswitch("q") != "q/10" || tswitch(uint(5)) != "15" || tswitch(7) != "n" || embedded() != 12 {
		return "embedded type names / type-switch variables differ"
	}
	if embeddedAlias() != 10 {
		return "embedded alias differs"
	}
	if embeddedSel() != 11 || int(scale) != 3000 || forward(-2) != 12 || forward(3) != 13 || firstOf([]int{7, 8}) != 7 {
		return "embedded selectors / trailing qualifier / forward references differ"
	}
	if (Pair{B: "y"}).InitA() != "method:y" {
		return "method named like the injector differs"
	}
	if (Pair{B: "x"}).Method() != "x" || K2 != 1 || len(table["a"]) != 2 {
		return "decls differ"
	}
	f := closures()
	f()
	if f() != 2 {
		return "closures differ"
	}
	return "ok"
}
'''


def eng_copydecls(pid, tier, wd, known, replay=None):
    tools = build_tools()
    root = os.path.join(wd, "copydecls")
    os.makedirs(os.path.join(root, "cp"), exist_ok=True)
    os.makedirs(os.path.join(root, "bar"), exist_ok=True)
    os.makedirs(os.path.join(root, "main"), exist_ok=True)
    open(os.path.join(root, "go.mod"), "w").write("module example.com/c\n\ngo 1.21\n\nrequire github.com/google/wire v0.1.0\n\nreplace github.com/google/wire => %s\n" % REPO)
    shutil.copy(os.path.join(REPO, "go.sum"), os.path.join(root, "go.sum"))
    open(os.path.join(root, "bar/bar.go"), "w").write("package bar\n\ntype Dur int\n\nconst Second Dur = 1000\n\nfunc Base() int { return 10 }\n")
    os.makedirs(os.path.join(root, "dot"), exist_ok=True)
    open(os.path.join(root, "dot/dot.go"), "w").write(DOT_SRC)
    open(os.path.join(root, "cp/wire.go"), "w").write(COPY_SRC)
    open(os.path.join(root, "cp/other.go"), "w").write(COPY_OTHER)
    open(os.path.join(root, "main/main.go"), "w").write('package main\n\nimport "example.com/c/cp"\n\nfunc main() { println(cp.Check()) }\n')
    viol = []
    p = sh([tools["wire"], "gen", "./cp"], cwd=root, env=GOENV, timeout=300)
    gen = os.path.join(root, "cp/wire_gen.go")
    why = []
    stats = {}
    if p.returncode != 0 or not os.path.exists(gen):
        why.append("wire gen failed on the declaration corpus: " + p.stderr[-400:])
    else:
        rb = os.path.join(WORK, "bin", "readback")
        if "readback" not in tools:
            sh(["go", "build", "-o", rb, "./readback"], cwd=os.path.join(VERIF, "gotools"), env=GOENV, check=True, timeout=300)
            tools["readback"] = rb
        q = sh([rb, os.path.join(root, "cp/wire.go"), gen], check=True)
        src, out = json.loads(q.stdout)
        want = [d for d in src["other"]] + [None]
        srcfuncs = [f["name"] for f in src["funcs"] if f["name"] != "InitA"]
        outfuncs = [f["name"] for f in out["funcs"] if f["name"] != "InitA"]
        stats = {"declarations": len(src["other"]) + len(srcfuncs)}
        if srcfuncs != outfuncs:
            why.append("copied functions %s, source has %s (each once, in order)" % (outfuncs, srcfuncs))
        if len(out["other"]) != len(src["other"]):
            why.append("copied %d non-function declarations, the source file has %d" % (len(out["other"]), len(src["other"])))
        # structural identity where no renaming is involved
        for fs_, fo in zip([f for f in src["funcs"] if f["name"] in ("head", "labels", "closures", "variadic")], [f for f in out["funcs"] if f["name"] in ("head", "labels", "closures", "variadic")]):
            if json.dumps(fs_["stmts"]) != json.dumps(fo["stmts"]) or fs_["params"] != fo["params"] or fs_["results"] != fo["results"]:
                why.append("function %s is not copied structurally identical" % fs_["name"])
        for a, b in zip(src["other"], out["other"]):
            if a != b and "baz." not in a:          # (a declaration that mentions the aliased import is rewritten: compared by behaviour)
                why.append("declaration copied differently: %r vs %r" % (a[:80], b[:80]))
        b = sh(["go", "run", "./main"], cwd=root, env=GOENV, timeout=300)
        if b.returncode != 0:
            why.append("the package with the copied declarations does not build or run: " + b.stderr[-400:])
        elif b.stderr.strip() != "ok":
            why.append("copied code behaves differently from the original: " + b.stderr.strip())
    if why:
        viol.append(({"property": pid, "kind": "failing-input", "broken": "C15 oracle: declarations copied from an injector file",
                      "input": {"files": {"cp/wire.go": COPY_SRC, "cp/other.go": COPY_OTHER}}, "impl": {"generated": open(gen).read() if os.path.exists(gen) else None}, "oracle": why, "seed": seed()}, True))
    return {"name": "copy-decls", "evaluations": 1 + stats.get("declarations", 0), "distinct_nontrivial": stats.get("declarations", 0), "samples": [{"corpus": "cp/wire.go", "functions": ["head", "score", "labels", "closures", "variadic"]}],
            "traces": 1, "stats": stats,
            "rule": "an injector file holding one declaration per construct (types with tags and doc comments, alias, iota constants, composite literals, 3-index slice, labels/goto/break/continue, "
                    "closures, defer/recover, type switch, select, if with init, methods, locals that collide with the generated import name or a package-level name, next to numbered siblings declared before and after them) through wire gen; "
                    "copied declarations compared structurally with the source and by behaviour against reference copies",
            "violations": viol, "known": []}
