"""Engine (C15/C14, renaming pass of rewritePkgRefs): generated functions whose locals collide with names of the
generated file's scope (package-level declarations, universe names, import names), with numbered siblings declared
before and after them, shadowing in nested blocks, loop and if-init variables.  Each goes through the real
rewritePkgRefs (hook `renameprobe`); the new names are compared with Rename.rpass by vm_compute, the hypothesis of
rename_no_capture is evaluated on every case, and -- independently -- the renamed function is compiled next to the
original and both are run on the same arguments."""
import random
from common import *

POOL = ["x", "x2", "x3", "x2_2", "y", "y2", "n1", "n1_2", "len", "cap", "true", "string", "err", "fmt", "fmt2", "cfg", "v", "v2"]


def gen_case(rng):
    pool = list(POOL)
    rng.shuffle(pool)
    pk = {}                    # package-level name -> kind
    for nm in pool[:rng.choice([1, 2, 3, 4])]:
        if nm in ("len", "cap", "true", "string"):
            continue           # universe names are in scope anyway
        pk[nm] = rng.choice(["var", "const", "func"])
    imports = [nm for nm in ("fmt", "fmt2", "cfg") if nm not in pk and rng.random() < 0.4]
    lits = iter(range(3, 10 ** 6, 7))
    lines = []
    scopes = [dict()]          # innermost last: name -> "int"

    def visible_ints():
        out = {}
        for nm, k in pk.items():
            out[nm] = nm if k in ("var", "const") else nm + "()"
        for sc in scopes:
            for nm, kd in sc.items():
                if kd == "int":
                    out[nm] = nm
                else:
                    out.pop(nm, None)      # a local type (or type parameter) shadows the outer name
        return out

    def expr():
        vis = visible_ints()
        parts = [str(next(lits))]
        for nm in rng.sample(sorted(vis), min(len(vis), rng.choice([0, 1, 2]))):
            parts.append(vis[nm])
        return " + ".join(parts)

    def fresh_name():
        cands = [n for n in POOL if n not in scopes[-1] and n not in imports]
        return rng.choice(cands)

    def block(depth, ind):
        for _ in range(rng.choice([1, 2, 3])):
            r = rng.random()
            if r < 0.12:
                nm = fresh_name()
                lines.append("%sconst %s = %d" % (ind, nm, next(lits)))
                scopes[-1][nm] = "int"
                lines.append("%sacc += %s * %d" % (ind, nm, next(lits)))
            elif r < 0.22:
                nm = fresh_name()
                lines.append("%stype %s int" % (ind, nm))
                scopes[-1][nm] = "type"
                lines.append("%sacc += int(%s(%d))" % (ind, nm, next(lits)))
            elif r < 0.55 or depth >= 2:
                nm = fresh_name()
                lines.append("%s%s := %s" % (ind, nm, expr()))
                scopes[-1][nm] = "int"
                lines.append("%sacc += %s * %d" % (ind, nm, next(lits)))
            elif r < 0.7:
                lines.append(ind + "{")
                scopes.append({}); block(depth + 1, ind + "\t"); scopes.pop()
                lines.append(ind + "}")
            elif r < 0.85:
                nm = fresh_name()
                lines.append("%sfor %s := 0; %s < 2; %s++ {" % (ind, nm, nm, nm))
                scopes.append({nm: "int"})
                lines.append("%s\tacc += %s" % (ind, nm))
                scopes.append({}); block(depth + 1, ind + "\t"); scopes.pop()
                scopes.pop()
                lines.append(ind + "}")
            else:
                nm = fresh_name()
                lines.append("%sif %s := %s; %s > 0 {" % (ind, nm, expr(), nm))
                scopes.append({nm: "int"})
                lines.append("%s\tacc += %s" % (ind, nm))
                scopes.append({}); block(depth + 1, ind + "\t"); scopes.pop()
                scopes.pop()
                lines.append(ind + "}")

    params = []
    tparam = None
    if rng.random() < 0.2:
        tparam = fresh_name(); scopes[-1][tparam] = "type"
    for _ in range(rng.choice([0, 1, 2])):
        nm = fresh_name()
        scopes[-1][nm] = "int"; params.append(nm)
    block(0, "\t")
    decls = []
    for nm, k in sorted(pk.items()):
        decls.append({"var": "var %s = %d" % (nm, next(lits)), "const": "const %s = %d" % (nm, next(lits)), "func": "func %s() int { return %d }" % (nm, next(lits))}[k])
    src = "package p\n\n" + "\n".join(decls) + "\n\nfunc f%s(%s) int {\n\tacc := 0\n%s\n\treturn acc\n}\n" % (
        ("[%s any]" % tparam) if tparam else "", ", ".join(p + " int" for p in params), "\n".join(lines))
    return {"src": src, "imports": imports, "nparams": len(params), "decls": decls, "generic": bool(tparam)}


FIXED = [
    {"src": "package p\n\nvar x = 5\n\nfunc f() int {\n\tacc := 0\n\tx2 := 10\n\tx := 1\n\tacc += x - x2\n\treturn acc\n}\n", "imports": [], "nparams": 0},
    {"src": "package p\n\nvar x = 5\n\nfunc f() int {\n\tacc := 0\n\tx := 1\n\tx2 := 10\n\tacc += x - x2\n\treturn acc\n}\n", "imports": [], "nparams": 0},
    {"src": "package p\n\nfunc f(fmt int, fmt2 int) int {\n\tacc := 0\n\tacc += fmt*3 + fmt2\n\treturn acc\n}\n", "imports": ["fmt"], "nparams": 2},
    {"src": "package p\n\nfunc f() int {\n\tacc := 0\n\tlen2 := 4\n\tlen := 3\n\tacc += len*7 + len2\n\treturn acc\n}\n", "imports": [], "nparams": 0},
    {"src": "package p\n\nvar v = 1\nvar v2 = 2\n\nfunc f() int {\n\tacc := v + v2\n\t{\n\t\tv := 10\n\t\tacc += v + v2\n\t\t{\n\t\t\tv3 := 100\n\t\t\tacc += v3 + v\n\t\t}\n\t}\n\treturn acc\n}\n", "imports": [], "nparams": 0},
]


def eng_rename(pid, tier, wd, known, replay=None):
    rng = random.Random(seed() * 2654435761 % (2 ** 31) + 17)
    n = 120 if tier == "quick" else 1200
    cases = [dict(c) for c in FIXED]
    if replay is not None and replay.get("engine") == "rename":
        cases = [replay["input"]["case"]]
    else:
        while len(cases) < n:
            cases.append(gen_case(rng))
    resps = hook([{"op": "renameprobe", "src": c["src"], "name": "f", "names": c["imports"]} for c in cases])
    viol, terms, keep = [], [], []
    stats = {"renamed_occurrences": 0, "occurrences": 0, "cases_with_renaming": 0, "invalid": 0, "panics": 0}
    for i, (c, r) in enumerate(zip(cases, resps)):
        if r.get("msg", "").startswith(("parse:", "check:")):
            stats["invalid"] += 1      # a generated function that is not valid Go: generator defect, not compared
            continue
        if r.get("msg") or r.get("timeout") or "occs" not in r:
            stats["panics"] += 1
            viol.append(({"property": pid, "kind": "failing-input", "engine": "rename", "broken": "rewritePkgRefs on a type-correct function", "input": {"case": c},
                          "impl": r, "oracle": ["rewritePkgRefs panicked or did not return: %s" % str(r)[:300]], "seed": seed()}, True))
            continue
        occs = r["occs"]
        ren = sum(1 for o in occs if o["before"] != o["after"])
        stats["occurrences"] += len(occs); stats["renamed_occurrences"] += ren; stats["cases_with_renaming"] += int(ren > 0)
        c["_resp"] = r
        terms.append("(mkRCase %d %s %s %s)" % (i, coq_list([coq_str(s) for s in r["scope"]]),
                                                coq_list(["(mkOcc %s %s %s)" % ("None" if o["obj"] < 0 else "(Some %d)" % o["obj"], coq_str(o["before"]), coq_bool(o["local"])) for o in occs]),
                                                coq_list([coq_str(o["after"]) for o in occs])))
        keep.append(i)
    # ---- model vs implementation, and the theorem's hypothesis on every case
    mism, incoh = [], []
    for sh_i in range(0, len(terms), 200):
        f = os.path.join(wd, "RCases_%d.v" % (sh_i // 200))
        with open(f, "w") as fh:
            fh.write("From Coq Require Import List String.\nFrom Wire Require Import Rename.\nImport ListNotations.\nOpen Scope string_scope.\n")
            fh.write("Definition cases : list rcase := [\n" + ";\n".join(terms[sh_i:sh_i + 200]) + "\n].\n")
            fh.write("Definition M := Eval vm_compute in rmismatches cases.\nPrint M.\nDefinition W := Eval vm_compute in rincoherent cases.\nPrint W.\n")
        rc, out, err = coqc(f)
        m = re.search(r"M\s*=\s*(\[.*?\])\s*:\s*list nat", out, re.S)
        w = re.search(r"W\s*=\s*(\[.*?\])\s*:\s*list nat", out, re.S)
        if rc != 0 or not m or not w:
            raise RuntimeError("coqc failed on %s: rc=%d\n%s\n%s" % (f, rc, out[-2000:], err[-3000:]))
        mism += [int(x) for x in re.findall(r"\d+", m.group(1))]
        incoh += [int(x) for x in re.findall(r"\d+", w.group(1))]
    # ---- independent oracle: the renamed function compiles in the file scope and computes what the original computes
    root = os.path.join(wd, "rename_mod")
    os.makedirs(root, exist_ok=True)
    open(os.path.join(root, "go.mod"), "w").write("module example.com/r\n\ngo 1.21\n")
    mains = []
    for i in keep:
        c = cases[i]
        d = os.path.join(root, "r%d" % i)
        os.makedirs(d, exist_ok=True)
        renamed = re.sub(r"^func f([\[(])", r"func fRenamed\1", c["_resp"]["printed"], count=1)
        extra = "".join("var %s = 0\n" % nm for nm in c["imports"])      # the import names are taken in the file scope
        body = c["src"].replace("package p\n", "package r%d\n" % i, 1)
        args = ", ".join(str(3 + j) for j in range(c["nparams"]))
        inst = "[int]" if c.get("generic") else ""
        open(os.path.join(d, "p.go"), "w").write(body + "\n" + extra + "\n" + renamed + "\n\nfunc Check() bool { return f%s(%s) == fRenamed%s(%s) }\n" % (inst, args, inst, args))
        mains.append(i)
    bad_build, bad_run = {}, []
    for attempt in range(4):
        src = ["package main\n", "import ("] + ['\tr%d "example.com/r/r%d"' % (i, i) for i in mains] + [")\n", "func main() {"] + \
              ['\tif !r%d.Check() {\n\t\tprintln("DIFF %d")\n\t}' % (i, i) for i in mains] + ["}\n"]
        os.makedirs(os.path.join(root, "zmain"), exist_ok=True)
        open(os.path.join(root, "zmain/main.go"), "w").write("\n".join(src))
        b = sh(["go", "build", "-o", os.path.join(root, "zmain/zmain"), "./zmain"], cwd=root, env=GOENV, timeout=600)
        if b.returncode == 0:
            break
        bad = set(int(x) for x in re.findall(r"(?m)^r(\d+)/", b.stderr)) | set(int(x) for x in re.findall(r"example\.com/r/r(\d+)", b.stderr))
        if not bad:
            raise RuntimeError("go build of the renamed functions failed without naming a package:\n" + b.stderr[-2000:])
        for i in bad:
            if i in mains:
                bad_build[i] = "\n".join(l for l in b.stderr.split("\n") if ("r%d/" % i) in l)[:800]
                mains.remove(i)
    if mains and b.returncode == 0:
        x = sh([os.path.join(root, "zmain/zmain")], cwd=root, timeout=300)
        bad_run = [int(v) for v in re.findall(r"DIFF (\d+)", x.stderr)]
    flagged = set()
    for i, why in [(i, "the renamed function does not compile in the generated file's scope: " + e) for i, e in bad_build.items()] + \
                  [(i, "the renamed function computes another value than the original") for i in bad_run]:
        flagged.add(i)
        if len(viol) < 8:
            viol.append(({"property": pid, "kind": "failing-input", "engine": "rename", "broken": "renaming oracle: compile and run next to the original", "input": {"case": {k: v for k, v in cases[i].items() if not k.startswith("_")}},
                          "impl": {"printed": cases[i]["_resp"]["printed"], "occs": cases[i]["_resp"]["occs"]}, "oracle": [why], "seed": seed()}, True))
    for i in mism[:6]:
        if i not in flagged:
            viol.append(({"property": pid, "kind": "no-failing-input-found", "engine": "rename", "broken": "correspondence rename: Rename.rpass vs rewritePkgRefs", "input": {"case": {k: v for k, v in cases[i].items() if not k.startswith("_")}},
                          "impl": {"printed": cases[i]["_resp"]["printed"], "occs": cases[i]["_resp"]["occs"]}, "seed": seed()}, False))
    for i in incoh[:3]:
        viol.append(({"property": pid, "kind": "no-failing-input-found", "engine": "rename", "broken": "hypothesis of rename_no_capture (occurrences of one object agree) does not hold on an observed case",
                      "input": {"case": {k: v for k, v in cases[i].items() if not k.startswith("_")}}, "seed": seed()}, False))
    stats["model_vs_impl_mismatches"] = len(mism); stats["incoherent_cases"] = len(incoh); stats["do_not_compile"] = len(bad_build); stats["differ_at_run_time"] = len(bad_run)
    shutil.rmtree(root, ignore_errors=True)
    return {"name": "rename", "evaluations": len(keep), "distinct_nontrivial": stats["cases_with_renaming"], "samples": [{"src": cases[0]["src"], "after": [o["after"] for o in cases[0]["_resp"]["occs"]] if "_resp" in cases[0] else None}],
            "traces": len(keep), "stats": stats,
            "rule": "functions with locals, parameters, loop and if-init variables named like package-level declarations, universe names and import names, with numbered siblings declared before "
                    "and after them and shadowing in nested blocks, through the real rewritePkgRefs (hook); new names against Rename.rpass (vm_compute); coherence hypothesis evaluated per case; "
                    "the renamed function compiled in the file scope and run against the original",
            "violations": viol, "known": []}
