"""Property table: theorems (proof obligations) and correspondence engines per property."""
import random
from common import *
import synth, spec


# ---------------------------------------------------------------------------------------------
# Engine: synthetic provider-set trees through the real analysis (hook) vs the Coq model
# ---------------------------------------------------------------------------------------------
def oracle_synth(pid, case, resp):
    """Model-free reading of property pid on one synthetic case and the implementation's answer.
    Returns a list of explanations (empty = the property holds on this case)."""
    tree, given, out = case
    if resp.get("skipped"):
        return []
    if "panic" in resp:
        return ["the analysis panicked or did not terminate: " + str(resp["panic"])[:200]] if pid in ("C07", "C11", "C05", "C06", "C08", "C10", "C02", "C20") else []
    accepted = bool(resp.get("set_ok")) and bool(resp.get("solved"))
    set_errs = synth.parse_errors(tree, resp.get("set_errs") or [])
    solve_errs = synth.parse_errors(tree, resp.get("solve_errs") or [])
    return oracle_core(pid, case, accepted, bool(resp.get("set_ok")), set_errs, solve_errs, resp.get("calls") or [])


def oracle_core(pid, case, accepted, set_ok, set_errs, solve_errs, calls, sig=None, inject_errs=()):
    tree, given, out = case
    nested_dups = any(spec.duplicates(x) for x in spec.all_sets(tree) if x is not tree)
    dups = spec.duplicates(tree, given)
    cyc = spec.any_set_cyclic(tree, given)
    bad_binds = spec.misplaced_bindings(tree, given)
    out_msgs = []
    if spec.has_chained_bindings(tree):
        return out_msgs          # chained bindings are outside the documented form (DESIGN.md, C10 scope note)
    item_errs = [d for d in set_errs if d[0] in ("DItem", "DUnparsed")]
    if pid == "C12":
        bad_lits = [p["id"] for x in spec.all_sets(tree) for p in x["providers"] if p.get("_lit_defect")]
        if bad_lits and accepted:
            out_msgs.append("struct providers %s name a field with a literal that is not exactly a field name, yet the program was accepted" % bad_lits)
        return out_msgs
    if pid == "C05":
        if (dups or nested_dups) and accepted:
            out_msgs.append("types %s have two sources in the closure but the set was accepted" % sorted(dups))
        if dups and not nested_dups and not accepted and not cyc and not bad_binds and not item_errs:
            named = {d[1] for d in set_errs if d[0] == "DMulti"}
            if not (named & dups):
                out_msgs.append("duplicated types %s, but no multiple-bindings error names one of them (got %s)" % (sorted(dups), set_errs))
        if not dups and not nested_dups and any(d[0] == "DMulti" for d in set_errs):
            out_msgs.append("multiple-bindings error although every type has one source")
    elif pid == "C07":
        if cyc and set_ok:
            out_msgs.append("a provider set in the closure has a dependency cycle but was accepted")
        if not cyc and any(d[0] == "DCycle" for d in set_errs):
            out_msgs.append("cycle diagnostic although no set in the closure has a cycle")
    elif pid == "C11":
        if bad_binds and not dups and not nested_dups and set_ok:
            out_msgs.append("bindings %s sit in a set that does not provide their concrete type, yet the set was accepted" % bad_binds)
        if not bad_binds and any(d[0] == "DBindMissing" for d in set_errs):
            out_msgs.append("binding reported as lacking its concrete type although its set provides it")
    elif pid == "C10" and not set_ok:
        dup_params = [p["id"] for x in spec.all_sets(tree) for p in x["providers"] if len(set(p["args"])) != len(p["args"])]
        if not dups and not nested_dups and not cyc and not bad_binds and not dup_params and not item_errs:
            if not spec.missing(tree, given, out) and not spec.unused_direct(tree, given, out):
                out_msgs.append("well-formed program rejected at the provider-set stage: %s" % set_errs)
    elif pid in ("C06", "C08", "C10", "C02", "C09") and set_ok and not dups and not nested_dups and not cyc and not bad_binds:
        miss = spec.missing(tree, given, out)
        unused = spec.unused_direct(tree, given, out) if not miss else []
        needs = []
        if sig is not None and not miss and not unused:
            seen, direct, binds = spec.needed(tree, given, out)
            for t in sorted(seen):
                if t in direct and direct[t][0] == "prov":
                    pr = direct[t][1]
                    if pr["cleanup"] and not sig[0]:
                        needs.append(("DNeedsCleanup", t))
                    if pr["err"] and not sig[1]:
                        needs.append(("DNeedsErr", t))
        if pid == "C06":
            if miss and accepted:
                out_msgs.append("types %s are needed and have no source, yet the injector was accepted" % sorted(miss))
            rep = {d[1] for d in solve_errs if d[0] == "DNoProvider"}
            if miss and not accepted and rep != miss:
                out_msgs.append("missing types %s but reported %s" % (sorted(miss), sorted(rep)))
            if not miss and rep:
                out_msgs.append("no-provider error for %s although nothing is missing" % sorted(rep))
        elif pid == "C08":
            if not miss:
                rep = sorted(d for d in solve_errs if d[0].startswith("DUnused"))
                # an anonymous inline set has no name to print: Wire's message identifies it as "a set" only
                anon = {i["id"] for i in tree["imports"] if i.get("inline")}
                unused = [("DUnusedSet", 0) if (u[0] == "DUnusedSet" and u[1] in anon) else u for u in unused]
                if sorted(unused) != rep:
                    out_msgs.append("unused direct items %s but reported %s" % (sorted(unused), rep))
                if unused and accepted:
                    out_msgs.append("unused direct items %s yet accepted" % sorted(unused))
        elif pid == "C10":
            seen_t, _, _ = spec.needed(tree, given, out)
            bad_vals = [v["id"] for x in spec.all_sets(tree) for v in x["values"] if v.get("unexported") and v["out"] in seen_t]
            bad_provs = [p["id"] for x in spec.all_sets(tree) for p in x["providers"] if p.get("unexp") and (set(p["outs"]) & seen_t)]
            if not miss and not unused and not needs and not bad_vals and not bad_provs and not accepted:
                out_msgs.append("well-formed program rejected: %s" % (set_errs + solve_errs + list(inject_errs)))
        elif pid == "C09":
            dup_params = [p["id"] for x in spec.all_sets(tree) for p in x["providers"] if len(set(p["args"])) != len(p["args"])]
            if dup_params and accepted:
                out_msgs.append("providers %s have two parameters (or selected fields) of identical type, yet the program was accepted" % dup_params)
            if sig is not None and not miss and not unused:
                if needs and accepted:
                    out_msgs.append("injector lacks the error/cleanup result that a needed provider returns (%s) yet was accepted" % needs)
                rep = sorted(d for d in inject_errs if d[0] in ("DNeedsCleanup", "DNeedsErr"))
                if sorted(set(needs)) != sorted(set(rep)):
                    out_msgs.append("needs %s but reported %s" % (sorted(set(needs)), rep))
        elif pid == "C02":
            if accepted and calls is not None:
                out_msgs += spec.check_plan(tree, given, out, calls)
    return out_msgs


def permute_tree(rng, s):
    """A variant with every argument list shuffled (imports among themselves etc.; Go keeps the
    classes in separate slices, so relative order inside each class is what can matter)."""
    t = dict(s)
    for k in ("imports", "providers", "values", "fields", "bindings"):
        l = list(s[k]); rng.shuffle(l); t[k] = l
    t["imports"] = [permute_tree(rng, i) for i in t["imports"]]
    return t


def regroup_tree(rng, s, nid):
    """Move a random subset of the root's own non-binding items, plus the bindings whose concrete type
    moves with them, into a fresh nested set."""
    t = dict(s)
    new = synth.mkset(nid)
    moved_types = set()
    for k in ("providers", "values", "fields"):
        keep, mv = [], []
        for it in s[k]:
            (mv if rng.random() < 0.5 else keep).append(it)
        t[k] = keep; new[k] = mv
        for it in mv:
            moved_types.update(it["outs"] if "outs" in it else [it["out"]])
    keepb, mvb = [], []
    for b in s["bindings"]:
        (mvb if b["conc"] in moved_types else keepb).append(b)
    t["bindings"] = keepb; new["bindings"] = mvb
    if new["providers"] or new["values"] or new["fields"]:
        t["imports"] = list(s["imports"]) + [new]
    return t


def chain_findings(pid, known):
    """Interface-to-interface binding chains (Bind(A, B) next to Bind(B, *C)): the property's wording on three fixed
    inputs.  Listed in known_findings.json; a tree that treats them as the properties say prints nothing."""
    kf = {k["key"]: k for k in known if k.get("status") == "finding"}
    mk = synth.mkprov
    prov = mk(1, 1, [])                                   # *T0
    ab = {"id": 2, "iface": 2, "conc": 4}                 # A -> B
    bc = {"id": 1, "iface": 4, "conc": 1}                 # B -> *T0
    viol, knownl = [], []

    def run(tree, out):
        r = hook([{"op": "synth", "set": tree, "given": [], "out": out}])[0]
        return r, bool(r.get("set_ok")) and bool(r.get("solved"))
    if pid == "C08":
        tree = synth.mkset(0, [], [prov], [], [], [bc, ab])
        r, ok = run(tree, 2)
        unused = [e for e in (r.get("solve_errs") or []) if "unused interface binding" in e]
        if unused:
            key = "bind-chain:contributing-binding-reported-unused"
            if key in kf:
                knownl.append("%s: %s" % (key, kf[key]["what_fails"]))
            else:
                viol.append(({"property": pid, "kind": "failing-input", "broken": "C08 oracle: binding chain", "input": {"graph": {"set": tree, "given": [], "out": 2}}, "impl": r, "key": key,
                              "oracle": ["the binding B -> *T0 is what lets A (bound to B) be built, yet it is reported as unused: %s" % unused[0][:120]], "seed": seed()}, True))
    if pid == "C10":
        t1 = synth.mkset(0, [synth.mkset(1, [], [prov], [], [], [ab, bc])])
        t2 = synth.mkset(0, [synth.mkset(1, [], [prov], [], [], [bc, ab])])
        (r1, ok1), (r2, ok2) = run(t1, 2), run(t2, 2)
        if ok1 != ok2:
            key = "bind-chain:acceptance-depends-on-argument-order"
            if key in kf:
                knownl.append("%s: %s" % (key, kf[key]["what_fails"]))
            else:
                viol.append(({"property": pid, "kind": "failing-input", "broken": "C10 oracle: binding chain", "input": {"graph": {"set": t1, "given": [], "out": 2}, "permuted": {"set": t2}},
                              "impl": {"order1": r1, "order2": r2}, "key": key,
                              "oracle": ["wire.NewSet(Bind(A, B), Bind(B, *T0), p) is %s, the same set with the two bindings swapped is %s" % ("accepted" if ok1 else "rejected", "accepted" if ok2 else "rejected")],
                              "seed": seed()}, True))
    return viol, knownl


def eng_synth(pid, tier, wd, known, replay=None):
    rng = random.Random(seed() * 7919 + 17)
    cases, tags = [], []
    if replay is not None and replay.get("input", {}).get("graph"):
        g = replay["input"]["graph"]
        cases = [(g["set"], g["given"], g["out"])]; tags = ["replay"]
    else:
        for c in synth.special_cases():
            cases.append(c); tags.append("special")
        if tier == "thorough":
            for c in synth.small_exhaustive(2):
                cases.append(c); tags.append("exh2")
            ex3 = list(synth.small_exhaustive(3))
            rng.shuffle(ex3)
            for c in ex3[:6000]:
                cases.append(c); tags.append("exh3-sample")
            nrand = 6000
        else:
            ex2 = list(synth.small_exhaustive(2))
            for c in ex2:
                cases.append(c); tags.append("exh2")
            nrand = 900
        for _ in range(nrand):
            c, d = synth.random_case(rng)
            cases.append(c); tags.append("rand:" + d.split("+")[0])
            if pid == "C10" and d == "none" and rng.random() < 0.5:
                cases.append((permute_tree(rng, c[0]), c[1], c[2])); tags.append("perm-of:%d" % (len(cases) - 2))
                cases.append((regroup_tree(rng, c[0], 77), c[1], c[2])); tags.append("regroup-of:%d" % (len(cases) - 3))
    mism, stats, resps, kinds = synth.run_cases(cases, wd, pid)
    viol = []
    # 1. correspondence mismatches -> search for a failing input with the property oracle
    unexplained = 0
    for m in mism:
        why = oracle_synth(pid, cases[m], resps[m])
        if not why:
            unexplained += 1
            if unexplained > 10:
                continue
        elif len(viol) >= 40:
            continue
        payload = {"property": pid, "kind": "failing-input" if why else "no-failing-input-found",
                   "broken": "correspondence synth: Model.analyze vs buildProviderMap/verifyAcyclic/solve",
                   "input": {"graph": {"set": cases[m][0], "given": cases[m][1], "out": cases[m][2]}},
                   "impl": resps[m], "model": synth.model_result(cases[m], wd)[-1500:], "oracle": why, "seed": seed()}
        viol.append((payload, bool(why)))
    # 2. the oracle on every case (finds violations the faithful model would share)
    nontrivial = set()
    tagstats = {}
    for i, (c, r) in enumerate(zip(cases, resps)):
        tagstats[tags[i].split(":")[0] if tags[i].startswith(("perm", "regroup")) else tags[i]] = tagstats.get(tags[i].split(":")[0] if tags[i].startswith(("perm", "regroup")) else tags[i], 0) + 1
        why = oracle_synth(pid, c, r)
        if why and i not in mism:
            payload = {"property": pid, "kind": "failing-input", "broken": "property oracle on the implementation (model agrees with the implementation)",
                       "input": {"graph": {"set": c[0], "given": c[1], "out": c[2]}}, "impl": r, "oracle": why, "seed": seed()}
            viol.append((payload, True))
        nitems = sum(len(x["providers"]) + len(x["values"]) + len(x["fields"]) + len(x["bindings"]) for x in spec.all_sets(c[0]))
        if nitems >= 2:
            nontrivial.add(json.dumps(c, sort_keys=True))
        # C10: variants must agree with their original on acceptance and (when accepted) on the wiring
        if tags[i].startswith(("perm-of:", "regroup-of:")):
            j = int(tags[i].split(":")[1])
            a = bool(resps[j].get("set_ok")) and bool(resps[j].get("solved"))
            b = bool(r.get("set_ok")) and bool(r.get("solved"))
            same = (a == b) if tags[i].startswith("perm-of:") else (b or not a)
            if a and b:
                wa = sorted((x["kind"], x["name"], x["out"], tuple(x["ins"])) for x in resps[j]["calls"])
                wb = sorted((x["kind"], x["name"], x["out"], tuple(x["ins"])) for x in r["calls"])
                same = wa == wb
            if not same:
                payload = {"property": pid, "kind": "failing-input", "broken": "C10 oracle: a permuted/regrouped variant is treated differently",
                           "input": {"graph": {"set": c[0], "given": c[1], "out": c[2]}, "original": {"set": cases[j][0], "given": cases[j][1], "out": cases[j][2]}},
                           "impl": r, "impl_original": resps[j], "oracle": ["variant %s differs from its original" % tags[i]], "seed": seed()}
                viol.append((payload, True))
    samples = [{"graph": {"set": cases[i][0], "given": cases[i][1], "out": cases[i][2]}, "impl_outcome": kinds[i][0]} for i in (0, len(cases) // 2, len(cases) - 1)]
    knownl = []
    if pid in ("C08", "C10") and replay is None:
        v2, knownl = chain_findings(pid, known)
        viol += v2
    return {"name": "synth", "evaluations": len(cases), "distinct_nontrivial": len(nontrivial), "samples": samples,
            "traces": len(cases),
            "stats": {"outcomes": stats, "generators": tagstats, "model_vs_impl_mismatches": len(mism)},
            "exhaustive": True,
            "rule": "synthetic provider-set trees: hand-picked families + all 2-type graphs (exhaustive) + seeded random mostly-valid trees with one defect; "
                    "each run through the real buildProviderMap/verifyAcyclic/solve (hook) and through Model.analyze by vm_compute, compared on error class+types / provider map / call list; "
                    "non-trivial = distinct tree with >= 2 items",
            "violations": viol, "known": knownl}


# ---------------------------------------------------------------------------------------------
# Engine: funcOutput decision table, regenerated from the code on every run, checked by a table theorem
# ---------------------------------------------------------------------------------------------
RK = {"val": "RVal", "error": "RError", "cleanup": "RCleanup", "namedfunc": "RNamedFunc", "otherfunc": "ROtherFunc",
      "namederr": "RNamedErr", "funcerr": "RFuncErr"}


def fo_observed(r):
    if "panic" in r:
        return "FoTooMany (* panic *)", "panic"
    if r["ok"]:
        return "(FoOk %s %s)" % (coq_bool(r["cleanup"]), coq_bool(r["err"])), "ok"
    m = r["msg"]
    if m == "no return values":
        return "FoNoReturn", "none"
    if m == "too many return values":
        return "FoTooMany", "many"
    if m.startswith("second return type") and m.endswith("must be error or func()"):
        return "FoSecond", "second"
    if m.startswith("second return type") and m.endswith("must be func()"):
        return "FoSecondOf3", "second3"
    if m.startswith("third return type"):
        return "FoThird", "third"
    return "FoTooMany (* unparsed *)", "unparsed:" + m


def eng_funcoutput(pid, tier, wd, known, replay=None):
    import itertools
    kinds = list(RK)
    shapes = [list(c) for n in range(0, 5) for c in itertools.product(kinds, repeat=n)]
    resps = hook([{"op": "funcoutput", "kinds": sh} for sh in shapes])
    rows, dist = [], {}
    for sh, r in zip(shapes, resps):
        o, k = fo_observed(r)
        dist[k.split(":")[0]] = dist.get(k.split(":")[0], 0) + 1
        rows.append("(%s, %s)" % (coq_list([RK[x] for x in sh]), o))
    f = os.path.join(wd, "FuncOutputTable.v")
    with open(f, "w") as fh:
        fh.write("From Coq Require Import List Bool.\nFrom Wire Require Import Front.\nImport ListNotations.\n")
        fh.write("Definition table : list (list rkind * fo_result) := [\n" + ";\n".join(rows) + "\n].\n")
        fh.write("Definition bad := Eval vm_compute in map fst (filter (fun r => negb (fo_eqb (func_output (fst r)) (snd r))) table).\nPrint bad.\n")
        fh.write("(* the regenerated table theorem: the real funcOutput equals the model on every shape of length 0..4 over 7 kinds *)\n")
        fh.write("Theorem func_output_table : forallb (fun r => fo_eqb (func_output (fst r)) (snd r)) table = true.\nProof. vm_compute. reflexivity. Qed.\n")
        fh.write("Theorem func_output_table_all : forall rs o, In (rs, o) table -> fo_eqb (func_output rs) o = true.\n"
                 "Proof. intros rs o H. exact (proj1 (forallb_forall _ _) func_output_table (rs, o) H). Qed.\nPrint Assumptions func_output_table_all.\n")
    rc, out, err = coqc(f)
    viol = []
    if rc != 0 or "Closed under the global context" not in out:
        m = re.search(r"bad\s*=\s*(\[.*?\])\s*:", out, re.S)
        badtxt = m.group(1) if m else (err or out)[-800:]
        # the property oracle: which shapes does the implementation now classify against the documented rule?
        wrong = []
        for sh, r in zip(shapes, resps):
            legal = (len(sh) == 1) or (len(sh) == 2 and sh[1] in ("error", "cleanup")) or (len(sh) == 3 and sh[1] == "cleanup" and sh[2] == "error")
            if bool(r.get("ok")) != legal or (r.get("ok") and ((len(sh) >= 2 and (r["err"] != (sh[-1] == "error") or r["cleanup"] != (sh[1] == "cleanup"))))):
                wrong.append({"results": sh, "impl": r})
        payload = {"property": pid, "kind": "failing-input" if wrong else "no-failing-input-found",
                   "broken": "table theorem func_output_table (regenerated from funcOutput)", "input": {"shapes": wrong[:5]},
                   "model_disagrees_on": badtxt[:1500], "oracle": ["funcOutput accepts/rejects these result lists against the documented rule"] if wrong else [], "seed": seed()}
        viol.append((payload, bool(wrong)))
    return {"name": "funcoutput-table", "evaluations": len(shapes), "distinct_nontrivial": len(shapes) - 1, "exhaustive": True,
            "samples": [{"results": shapes[400], "impl": resps[400]}], "traces": len(shapes), "stats": {"classes": dist},
            "rule": "every result list of length 0..4 over {value, error, func(), named func type, other func type, named interface embedding error, func() error} through the real funcOutput (hook); table theorem re-proved by vm_compute",
            "violations": viol, "known": []}


# ---------------------------------------------------------------------------------------------
# ---------------------------------------------------------------------------------------------
# Engine: zeroValue over every type kind (regenerated table + table theorem + compile check)
# ---------------------------------------------------------------------------------------------
def zero_kinds():
    basics = [("bool", "ZBool"), ("string", "ZString")] + [(t, "ZNum") for t in
              ["int", "int8", "int16", "int32", "int64", "uint", "uint8", "uint16", "uint32", "uint64", "uintptr",
               "float32", "float64", "complex64", "complex128", "byte", "rune"]]
    comps = [("[3]int", "ZComposite"), ("struct{A int}", "ZComposite"), ("chan int", "ZNil"), ("<-chan int", "ZNil"), ("chan<- int", "ZNil"),
             ("interface{}", "ZNil"), ("any", "ZNil"), ("error", "ZNil"), ("map[string]int", "ZNil"), ("*int", "ZNil"), ("func()", "ZNil"),
             ("func(int) string", "ZNil"), ("[]int", "ZNil"), ("unsafe.Pointer", "ZNil")]
    rows = []
    for i, (t, zk) in enumerate(basics + comps):
        rows.append({"decls": "", "type": t, "zk": zk, "named": False})
        rows.append({"decls": "type N%d %s" % (i, t), "type": "N%d" % i, "zk": zk, "named": True})
    rows.append({"decls": "type A1 = int", "type": "A1", "zk": "ZNum", "named": False})
    rows.append({"decls": "type G1[T any] struct{ v T }", "type": "G1[int]", "zk": "ZComposite", "named": True})
    rows.append({"decls": "type NP *int", "type": "NP", "zk": "ZNil", "named": True})
    return rows


def eng_zerovalue(pid, tier, wd, known, replay=None):
    rows = zero_kinds()
    resps = hook([{"op": "zerovalue", "decls": r["decls"], "type": r["type"]} for r in rows])
    viol, knownl = [], []
    # 1. table theorem: the model's zero expression for the kind equals what zeroValue printed
    trs = []
    for r, o in zip(rows, resps):
        obs = o["s"] if o["ok"] else "?PANIC"
        trs.append("(%s, %s, %s)" % (r["zk"], coq_str(r["type"]), coq_str(obs)))
    f = os.path.join(wd, "ZeroValueTable.v")
    with open(f, "w") as fh:
        fh.write("From Coq Require Import List Bool String.\nFrom Wire Require Import Names Model Emit.\nImport ListNotations.\n")
        fh.write("Definition table : list (zkind * string * string) := [\n" + ";\n".join(trs) + "\n].\n")
        fh.write("Definition zv (r : zkind * string * string) : string :=\n  fst (zero_value (mkEnv [] [(0, TOpaque (snd (fst r)) [] (fst (fst r)))] []) (mkG [] []) 0).\n")
        fh.write("Definition bad := Eval vm_compute in map (fun r => snd (fst r)) (filter (fun r => negb (String.eqb (zv r) (snd r))) table).\nPrint bad.\n")
        fh.write("Theorem zero_value_table : forallb (fun r => String.eqb (zv r) (snd r)) table = true.\nProof. vm_compute. reflexivity. Qed.\nPrint Assumptions zero_value_table.\n")
    rc, out, err = coqc(f)
    m = re.search(r"bad\s*=\s*(\[.*?\])\s*:", out, re.S)
    badtypes = re.findall(r'"([^"]*)"', m.group(1)) if m else []
    table_ok = rc == 0 and "Closed under the global context" in out
    # 2. property oracle, model-free: the printed expression must be a well-typed zero value of the type
    src = ["package z", 'import "unsafe"', "var _ unsafe.Pointer"]
    seen = set()
    checks = []
    for i, (r, o) in enumerate(zip(rows, resps)):
        if r["decls"] and r["decls"] not in seen:
            src.append(r["decls"]); seen.add(r["decls"])
        if o["ok"]:
            src.append("var _ %s = %s // row %d" % (r["type"], o["s"], i))
            src.append("var z%d %s\nvar _ = z%d == (%s)" % (i, r["type"], i, o["s"]) if r["zk"] in ("ZBool", "ZNum", "ZString") else "")
    zd = os.path.join(wd, "zcheck"); os.makedirs(zd, exist_ok=True)
    open(os.path.join(zd, "go.mod"), "w").write("module z\n\ngo 1.21\n")
    open(os.path.join(zd, "z.go"), "w").write("\n".join(src) + "\n")
    b = sh(["go", "vet", "./..."], cwd=zd, env=GOENV, timeout=300)
    compile_bad = b.returncode != 0
    kf = {k["key"]: k for k in known if k.get("status") == "finding"}
    for r, o in zip(rows, resps):
        if not o["ok"]:
            key = "zero-value-panic:" + ("named " if r["named"] else "") + re.sub(r"N\d+", "N", r["type"] if not r["named"] else r["decls"].split(" ", 2)[2])
            if key in kf:
                knownl.append("zeroValue panics for result type %s (%s)" % (r["type"], kf[key].get("what_fails", "")))
            else:
                viol.append(({"property": pid, "kind": "failing-input", "broken": "zeroValue panics", "input": {"decls": r["decls"], "type": r["type"]},
                              "impl": o, "oracle": ["zeroValue(%s) panicked: %s; an injector with this result type and an error-returning provider crashes wire" % (r["type"], o["s"])],
                              "key": key, "seed": seed()}, True))
    panicked = {r["type"] for r, o in zip(rows, resps) if not o["ok"]}
    unexpected_bad = [t for t in badtypes if t not in panicked]
    if compile_bad:
        viol.append(({"property": pid, "kind": "failing-input", "broken": "zero value expressions do not type-check", "input": {"file": "\n".join(src)},
                      "impl": b.stderr[-1500:], "oracle": ["go vet rejects the zero-value expression wire prints for some result type"], "seed": seed()}, True))
    if (not table_ok and not panicked) or unexpected_bad:
        viol.append(({"property": pid, "kind": "no-failing-input-found" if not compile_bad else "failing-input", "broken": "table theorem zero_value_table",
                      "model_disagrees_on": unexpected_bad or badtypes, "coqc": (out + err)[-800:], "seed": seed()}, compile_bad))
    return {"name": "zerovalue-table", "evaluations": len(rows), "distinct_nontrivial": len(rows), "exhaustive": True,
            "samples": [{"type": rows[5]["type"], "zero": resps[5]}], "traces": len(rows), "stats": {"panics": sorted(panicked), "model_disagrees_on": badtypes},
            "rule": "every predeclared basic type and every composite kind, bare and behind a named type, plus alias, generic instance, named pointer, through the real zeroValue (hook); "
                    "table theorem re-proved by vm_compute; every printed expression compiled against its type with go vet",
            "violations": viol, "known": knownl}


import engprog
import clieng
import formeng
import probeeng
import deteng
import multieng
import layouteng
import showeng
import renameeng
import fronteng
import bodyeng
import seqeng
import patheng
import accesseng
eng_determinism = deteng.eng_determinism
eng_copyprobe = probeeng.eng_copyprobe
eng_valuetable = probeeng.eng_valuetable
eng_copydecls = probeeng.eng_copydecls
eng_forms = formeng.eng_forms
eng_cli = clieng.eng_cli
engprog.props_oracle_core = oracle_core
eng_prog = engprog.eng_prog
eng_multi = multieng.eng_multi
eng_layouts = layouteng.eng_layouts
eng_show = showeng.eng_show
eng_rename = renameeng.eng_rename
eng_front = fronteng.eng_front
eng_body = bodyeng.eng_body
eng_seq = seqeng.eng_seq
eng_paths = patheng.eng_paths
eng_access = accesseng.eng_access

WF_NOTE = "the well-formedness of every accepted provider map (wfb) is proved (C05_accepted_maps_well_formed); the correspondence run still evaluates it per accepted case as a redundant check"
SYNTH_NOTE = "explicit loop bounds of the model: acyc_fuel and solve_fuel are proved sufficient for every accepted map (C07_linear_bound, C07_planner_linear_bound); on rejected maps the planner is not run by Wire"
PROPS = {
    "C01": {"level_text": "Machine-checked proof in Coq 8.16.1 over an executable model tied to the code by a per-run correspondence; the emission model and the name-freshness theorems are proved; that the emitted package compiles under Go's type checker is established by compiling every accepted program of the corpus (partial).", "theorems": ["C01_one_implementation", "C01_injector_emitted_iff", "C01_injectors_emitted_once", "C14_names_distinct", "C14_invented_names_fresh"], "engines": [eng_prog, eng_zerovalue, eng_multi, eng_layouts, eng_forms, eng_body, eng_seq, eng_copydecls, eng_paths],
            "assumptions": ["partial: Go's full type checker and types.TypeString are not modelled; that the package compiles is established by go build on every accepted program"]},
    "C02": {"theorems": ["C02_wiring_accepted", "C02_each_type_built_once", "C02_provider_called_at_most_once", "C02_called_only_if_needed", "C02_machine_refines_visit", "C06_accepted_is_complete_accepted", "C05_accepted_maps_well_formed"], "engines": [eng_synth, eng_prog, eng_multi, eng_layouts], "assumptions": [SYNTH_NOTE, WF_NOTE, "emission of the planned calls and the run-time behaviour are tied by the emitted-lines correspondence and the runtime traces"]},
    "C03": {"theorems": ["C03_failure", "C03_nothing_called_after_failure", "C03_unwinds_exactly_the_succeeded", "C03_unwinds_once", "C03_own_cleanup_never_runs"], "engines": [eng_prog],
            "assumptions": ["Go semantics of the emitted fragment (short variable declarations, if, calls, closures) is Exec.v's reading of the Go spec, validated by the runtime traces of every generated injector under every single-provider failure"]},
    "C04": {"theorems": ["C04_success", "C04_releases_everything", "C04_releases_once", "C04_dependents_released_first", "C04_nothing_released_early"], "engines": [eng_prog],
            "assumptions": ["Go semantics of the emitted fragment is Exec.v's reading of the Go spec, validated by runtime traces"]},
    "C05": {"theorems": ["C05_never_picks", "C05_closure_spelled_out", "C05_conflict_is_real", "C05_conflict_is_reported", "C05_accepted_maps_well_formed"], "engines": [eng_synth, eng_prog, eng_multi, eng_layouts], "assumptions": [SYNTH_NOTE]},
    "C06": {"theorems": ["C06_missing_accepted", "C06_object_cache_transparent", "C06_rejected_names_missing_accepted", "C06_accepted_is_complete_accepted"], "engines": [eng_synth, eng_prog, eng_multi, eng_forms, eng_layouts], "assumptions": [SYNTH_NOTE, WF_NOTE]},
    "C07": {"theorems": ["C07_cycles_detected", "C07_only_cycle_errors", "C07_terminates", "C07_machine_refines_dfs", "C07_solve_terminates", "C07_checker_graph_covers_planner_graph", "C07_accepted_sets_acyclic_for_planner", "C07_linear_bound", "C07_cycles_detected_total", "C07_planner_linear_bound"],
            "engines": [eng_synth, eng_prog],
            "assumptions": [SYNTH_NOTE, "wall-clock behaviour is runtime, sampled on lattices/chains only"]},
    "C08": {"theorems": ["C08_used_exactly", "C08_chain_binding_reported_unused_refuted", "C08_unused_reported_exactly", "C08_called_is_used", "C08_used_have_source"], "engines": [eng_synth, eng_prog, eng_multi], "assumptions": [SYNTH_NOTE]},
    "C09": {"theorems": ["C09_results", "C09_rejects", "C09_identical_types_rejected"], "engines": [eng_funcoutput, eng_prog, eng_forms],
            "assumptions": ["result kinds are abstracted to what funcOutput can distinguish (identity with error / func())"]},
    "C10": {"theorems": ["C10_regrouping_preserves_analysis", "C10_binding_order_refuted", "C10_analysis_order_independent", "C10_solve_depends_on_lookups_only", "C10_phase_order_independent", "C05_never_picks"], "engines": [eng_synth, eng_prog, eng_multi, eng_layouts], "assumptions": [SYNTH_NOTE]},
    "C11": {"theorems": ["C11_bind_accepts", "C11_colocated", "C11_shared_instance", "C02_wiring_accepted"], "engines": [eng_synth, eng_prog, eng_forms, eng_front, eng_layouts], "assumptions": [SYNTH_NOTE, "Go's method-set rule (types.Implements) is go/types' and is not modelled"]},
    "C12": {"theorems": ["C12_fieldsof_accepts", "C12_fieldsof_pointer_iff", "C12_struct_needs_named_struct", "C12_check_field_sound", "C12_star_selects_unprevented", "C12_struct_provider_outputs"], "engines": [eng_prog, eng_forms, eng_layouts, eng_front],
            "assumptions": ["field names are ASCII; strconv.Quote and strings.EqualFold are modelled on ASCII identifiers", "FieldsOf name resolution shares checkField; its front end is exercised through the binary only"]},
    "C13": {"theorems": ["C13_ifacevalue_accepts", "C13_whitelist_sound", "C13_whitelist_complete", "C13_internal_package_rule", "C13_accessible_iff_nameable"], "engines": [eng_valuetable, eng_forms, eng_copyprobe, eng_prog, eng_layouts, eng_multi, eng_front, eng_paths, eng_access],
            "assumptions": ["expression trees are abstracted to the node kinds processValue distinguishes; the mapping from Go syntax to kinds is the table's (hand-written per form)",
                            "evaluation once at package initialisation is Go's semantics of package-level variables, not modelled"]},
    "C14": {"theorems": ["C14_names_distinct", "C14_file_names_distinct", "C14_emitted_pass_names_fresh", "C14_invented_names_fresh", "C14_disambiguate_fresh", "C16_collision_order_independent"], "engines": [eng_prog, eng_multi, eng_layouts, eng_rename, eng_copydecls],
            "assumptions": ["identifiers are ASCII in the model; non-ASCII names are outside the generated corpus"]},
    "C15": {"level_text": "Machine-checked proof in Coq 8.16.1 over an executable model tied to the code by a per-run correspondence; the copy is proved to be the identity for any complete table and the table is regenerated from copyAST each run; the renaming pass is modelled (Rename.v, tied by a hook that runs the real rewritePkgRefs) and proved never to capture; the qualification pass (package references) is exercised by the copy corpus and the layouts, not modelled (partial).", "theorems": ["C15_copy_identity", "C15_missing_field_is_lost", "C15_renaming_never_captures", "C15_layout_is_sections", "C15_copied_iff", "C15_copied_once", "C15_copied_in_source_order", "C15_nothing_emitted_twice"], "engines": [eng_copyprobe, eng_copydecls, eng_rename, eng_seq, eng_layouts],
            "assumptions": ["partial: the second (renaming) pass of rewritePkgRefs is modelled as a pass over the sequence of identifier occurrences (Rename.v, tied by the renameprobe hook); its first pass (package qualifiers) and Go's scoping of the copied declarations are exercised by the declaration corpus (structure + behaviour), not modelled",
                            "go/printer prints what copyAST returns; not modelled"]},
    "C16": {"level_text": "Machine-checked proof in Coq 8.16.1 over an executable model tied to the code by a per-run correspondence; order-independence of every map-driven decision of the model is proved; loader behaviour across layouts is sampled by byte-comparing runs (partial).", "theorems": ["C16_collision_order_independent", "C16_import_block_order_independent", "C16_vendor_prefix_stripped", "C16_unvendored_path_is_clean", "C10_analysis_order_independent", "C10_phase_order_independent", "C07_cycles_detected"], "engines": [eng_determinism, eng_paths],
            "assumptions": ["partial: loader behaviour across layouts is the go tool's and go/packages' runtime behaviour; the model cannot exhibit it, the runs sample it",
                            "the import block is modelled as the sorted list of the allocated imports (Imports.v); the model's block is compared line by line, in order, with the generated file in every emitted-lines case of the prog engine (C01/C02/C14), and between runs here"]},
    "C17": {"level_text": "Machine-checked proof in Coq 8.16.1 over an executable model tied to the code by a per-run correspondence; the command logic is proved over an abstract file system; the OS write is modelled as whole-file replace and tied by tree hashes (partial).", "theorems": ["C17_gen_exit", "C17_gen_footprint", "C17_failed_package_untouched", "C17_failure_does_not_block_others", "C17_diff_readonly", "C17_diff_exit"],
            "engines": [eng_cli], "assumptions": ["partial: OS write semantics are modelled as whole-file replace, tied by before/after tree hashes", "per-package Generate results are inputs of the command model"]},
    "C18": {"level_text": "Machine-checked proof in Coq 8.16.1 over an executable model tied to the code by a per-run correspondence; the history machine is proved under the hypothesis that analysis depends on current sources only, which the histories test against the binary (partial).", "theorems": ["C18_history_independent", "C18_failed_gen_untouched", "C17_diff_readonly"], "engines": [eng_cli],
            "assumptions": ["partial: that analysis is a function of the current sources (files constrained !wireinject are invisible under -tags=wireinject) is the section hypothesis content_of; it is exactly what the histories test against the binary"]},
    "C19": {"theorems": ["C19_check_iff_gen", "C19_show_groups_by_needed_inputs", "C19_show_lists_included_sets", "C19_show_included_sets_terminates", "C19_show_groups_terminate", "C05_never_picks"], "engines": [eng_cli, eng_prog, eng_show, eng_layouts],
            "assumptions": ["the `show` grouping (gather's stack machine) and the included-sets work-list are modelled in Show.v and compared with the binary's output per set; the output is also checked against the property's wording computed independently from the program"]},
    "C20": {"level_text": "Machine-checked proof in Coq 8.16.1 over an executable model tied to the code by a per-run correspondence; the modelled rules are total functions and zeroValue/funcOutput tables are regenerated and re-proved each run; the acceptance rules of the marker calls and of injector bodies are modelled (FrontRules.v, InjBody.v); crash-freedom of the Go code's pattern recognition rests on enumerated and grammar-generated spellings through gen and check (partial).", "theorems": ["C20_injector_template_iff", "C20_invalid_injector_calls_build", "C09_results", "C12_check_field_sound", "C07_terminates"], "engines": [eng_forms, eng_zerovalue, eng_funcoutput, eng_multi, eng_layouts, eng_body, eng_synth],
            "assumptions": ["partial: the front end's pattern recognition of marker-call arguments is not modelled in Coq; the crash-freedom claim for it rests on the enumerated spellings through the binary",
                            "proved parts: the modelled rules (funcOutput, field selection, cycle check) are total functions; zeroValue is total over the regenerated kind table"]},
}

HOOK_COMMITS = ["fc0854c", "b8ca607", "2f47b21", "272baf3", "7ffb9a5", "dab7f62"]
NOT_YET = {}
