#!/usr/bin/env python3
"""Development-time self-test: apply each seeded/external mutant patch to /repo, run the property's quick
check, revert.  usage: mutants.py <dir-with-Cxx/mN/patch.diff> [pid ...]"""
import glob, os, subprocess, sys, time
root = sys.argv[1]
only = set(sys.argv[2:])
rows = []
for patch in sorted(glob.glob(os.path.join(root, "C*", "*", "patch.diff"))):
    pid = patch.split("/")[-3]
    name = patch.split("/")[-2]
    if only and pid not in only and (pid + "/" + name) not in only:
        continue
    if os.path.exists(os.path.join(os.path.dirname(patch), "patch_current.diff")):
        patch = os.path.join(os.path.dirname(patch), "patch_current.diff")      # port of a patch the later fix: commits broke
    chk = subprocess.run(["git", "-C", "/repo", "apply", "--check", patch], capture_output=True, text=True)
    if chk.returncode != 0:
        rows.append((pid, name, "patch does not apply", "")); continue
    subprocess.run(["git", "-C", "/repo", "apply", patch], check=True)
    t0 = time.time()
    try:
        p = subprocess.run(["/verif/bin/vcheck", pid, "--tier", "quick"], capture_output=True, text=True, cwd="/verif", timeout=1500)
        viol = [l for l in p.stdout.splitlines() if l.startswith("VIOLATION")]
        found = [l for l in viol if "no-failing-input-found" not in l]
        rows.append((pid, name, "exit=%d violations=%d with-input=%d" % (p.returncode, len(viol), len(found)), "%.0fs" % (time.time() - t0)))
    finally:
        subprocess.run(["git", "-C", "/repo", "checkout", "--", "."], check=True)
    print(rows[-1], flush=True)
st = subprocess.run(["git", "-C", "/repo", "status", "--short"], capture_output=True, text=True).stdout
print("repo status after:", repr(st))
