"""Engine (C12/C11/C13 front end): marker calls whose arguments have known go/types shapes -- pointers to named, generic,
anonymous, alias, defined-pointer, interface and non-struct types written in many expression forms; field-name arguments
that are literals, raw literals, constants, variables and concatenations -- through the real `wire gen`; the class of
the first front-end diagnostic (or acceptance by the front end) is compared with FrontRules.v by vm_compute."""
import random
from concurrent.futures import ThreadPoolExecutor
from common import *
import formeng

INT, STRING = 100, 101
A = 'mkSF "A" %d ""' % INT
B = 'mkSF "B" %d ""' % STRING
S_DESC = "(GNamed 1 false (UStruct [%s; %s]))" % (A, B)
DESC = {
    "S": S_DESC, "AS": S_DESC,
    "G[int]": '(GNamed 2 true (UStruct [mkSF "V" %d ""]))' % INT,
    "AnonS": "(GStruct [%s; %s])" % (A, B),
    "*S": "(GPtr %s)" % S_DESC, "PSp": "(GNamed 3 false (UPtr %s))" % S_DESC,
    "I": "(GNamed 4 false UIface)", "J": "(GNamed 5 false UIface)", "any": "GIface", "error": "(GNamed 6 false UIface)",
    "int": "GOther", "MS": "(GNamed 7 false UOther)", "C": "(GNamed 8 false (UStruct []))", "D": "(GNamed 9 false (UStruct []))",
    "*C": "(GPtr (GNamed 8 false (UStruct [])))", "*D": "(GPtr (GNamed 9 false (UStruct [])))", "F": "(GNamed 10 false UOther)",
    "PI": "(GNamed 11 false (UPtr GOther))",
    "TP": '(GNamed 12 false (UStruct [%s; mkSF "B" %d %s]))' % (A, STRING, coq_str('wire:"-"')),
    "TD": '(GNamed 13 false (UStruct [%s; mkSF "A2" %d ""]))' % (A, INT),
    "jimpl": "(GNamed 14 false (UStruct []))",
}
PTR = {        # expressions of static type *K
    "S": ["new(S)", "(new(S))", "&S{}", "&S{A: 1}", "(*S)(nil)", "vPS", "&vS", "mk()", "mk1(1)", "idS(new(S))", "*vPPS", "&vArr[0]", "vFn()"],
    "AS": ["new(AS)", "&AS{}", "&vAS"], "G[int]": ["new(G[int])", "&G[int]{}", "vPG", "&vG", "mkG()"],
    "AnonS": ["new(AnonS)", "&AnonS{}"], "*S": ["new(*S)", "&vPS", "vPPS"], "PSp": ["new(PSp)"],
    "I": ["new(I)", "&vI", "mkPI()"], "J": ["new(J)"], "any": ["new(any)"], "error": ["new(error)"],
    "int": ["new(int)", "&vInt", "vPInt"], "MS": ["new(MS)", "&vMap"], "C": ["new(C)", "&C{}"], "D": ["new(D)", "&D{}"],
    "*C": ["new(*C)"], "*D": ["new(*D)"], "F": ["new(F)"], "PI": ["new(PI)"], "TP": ["new(TP)", "&TP{}"], "TD": ["new(TD)"], "jimpl": ["new(jimpl)"],
}
NONPTR = [("S{}", S_DESC), ("vS", S_DESC), ("1", "GOther"), ('"x"', "GOther"), ("nil", "GUntypedNil"), ("vI", DESC["I"]), ("C{}", DESC["C"])]
NAMES = [('"A"', True), ('"B"', True), ('"*"', True), ("`A`", True), ('"a"', True), ('""', True), ('"Z"', True), ('"V"', True), ('"A2"', True),
         ("FieldA", False), ("sName", False), ('"A" + ""', False)]
IMPL = {("I", "I"), ("J", "J"), ("error", "error"), ("C", "I"), ("*C", "I"), ("*D", "I"), ("J", "I"), ("jimpl", "I"), ("jimpl", "J"), ("*jimpl", "I"), ("*jimpl", "J")}
for k in list(DESC):
    IMPL.add((k, "any"))
EXTRA_DECL = 'type TP struct {\n\tA int\n\tB string `wire:"-"`\n}\ntype TD struct {\n\tA  int\n\tA2 int\n}\n'


def lit_term(text, is_lit):
    return "(LStr %s)" % coq_str(text) if is_lit else "LExpr"


def gen_cases(rng, n):
    cases = []
    for i in range(n):
        k = rng.choice(["struct", "struct", "fields", "fields", "bind", "ival"])
        if k in ("struct", "fields"):
            if rng.random() < 0.12:
                e, d = rng.choice(NONPTR); argdesc = d
            else:
                key = rng.choice(["S", "S", "S", "S", "AS", "AS", "TP", "TP", "TD", "*S", "*S", "PSp", "G[int]", "AnonS", "I", "int", "MS", "C", "PI"]) if k == "fields" else rng.choice(["S", "S", "S", "S", "AS", "AS", "TP", "TP", "TD", "TD", "C", "G[int]", "AnonS", "*S", "PSp", "I", "int", "MS", "PI"])
                e = rng.choice(PTR[key]); argdesc = "(GPtr %s)" % DESC[key]
            pool = NAMES[:3] * 4 + NAMES
            names = [rng.choice(pool) for _ in range(rng.choice([0, 1, 1, 1, 2, 2, 3] if k == "struct" else [0, 1, 1, 2, 2, 3]))]
            go_names = "".join(", " + t for t, _ in names)
            lits = coq_list([lit_term(t, l) for t, l in names])
            if k == "struct":
                cases.append({"kind": k, "args": "wire.Struct(%s%s), NewA, NewB" % (e, go_names), "res": "S", "term": "(FcStruct %d %s %s @OBS@)" % (i, argdesc, lits)})
            else:
                cases.append({"kind": k, "args": "wire.FieldsOf(%s%s), mk" % (e, go_names), "res": "int", "term": "(FcFields %d %s %s @OBS@)" % (i, argdesc, lits)})
        elif k == "bind":
            ik = rng.choice(["I", "I", "J", "any", "C", "int", "*S", "error"]); ck = rng.choice(["C", "*C", "D", "*D", "S", "I", "J", "int", "jimpl"])
            if rng.random() < 0.1:
                ie, idesc = rng.choice(NONPTR)
            else:
                ie, idesc = rng.choice(PTR[ik]), "(GPtr %s)" % DESC[ik]
            if rng.random() < 0.1:
                ce, cdesc, ck = rng.choice(NONPTR) + ("?",)
            else:
                ce, cdesc = rng.choice(PTR[ck]), "(GPtr %s)" % DESC[ck]
            ident = ik == ck
            impl = (ck, ik) in IMPL or (ik == "any")
            cases.append({"kind": k, "args": "wire.Bind(%s, %s), NewA" % (ie, ce), "res": "int",
                          "term": "(FcBind %d %s %s %s %s @OBS@)" % (i, idesc, cdesc, coq_bool(ident), coq_bool(impl))})
        else:
            ik = rng.choice(["I", "J", "any", "error", "C", "F", "int"])
            ie, idesc = (rng.choice(NONPTR) if rng.random() < 0.1 else (rng.choice(PTR[ik]), "(GPtr %s)" % DESC[ik]))
            ve, vk, vdesc = rng.choice([("C{}", "C", DESC["C"]), ("&C{}", "*C", DESC["*C"]), ("&D{}", "*D", DESC["*D"]), ("D{}", "D", DESC["D"]), ("jimpl{}", "jimpl", DESC["jimpl"]),
                                        ("IV", "I", DESC["I"]), ("JV", "J", DESC["J"]), ("nil", "nil", "GUntypedNil"), ("1", "int", "GOther"), ("S{}", "S", S_DESC)])
            impl = (vk, ik) in IMPL or (ik == "any" and vk != "nil")
            cases.append({"kind": k, "args": "wire.InterfaceValue(%s, %s)" % (ie, ve), "res": "int", "term": "(FcIVal %d %s %s %s @OBS@)" % (i, idesc, vdesc, coq_bool(impl))})
    return cases


CLASSES = {
    "struct": [(r"first argument to Struct must be a pointer to a named struct", 1), (r"must be a string with the field name", 8), (r"is not a field of", 13),
               (r"is prevented from injecting", 14), (r"provider struct has multiple fields of type", 12)],
    "fields": [(r"call to FieldsOf must specify fields", 2), (r"first argument to FieldsOf must be", 1), (r"fields number exceeds", 3), (r"must be a string with the field name", 8),
               (r"is not a field of", 13), (r"is prevented from injecting", 14)],
    "bind": [(r"first argument to Bind must be", 1), (r"second argument to Bind must be a pointer", 4), (r"cannot bind interface to itself", 5), (r"does not implement", 6)],
    "ival": [(r"first argument to InterfaceValue must be", 1), (r"may not be an untyped nil", 7), (r"does not implement", 6)],
}


def eng_front(pid, tier, wd, known, replay=None):
    rng = random.Random(seed() * 48271 + 9)
    cases = gen_cases(rng, 260 if tier == "quick" else 2600)
    if pid == "C11":
        cases = [c for c in cases if c["kind"] == "bind"]
    elif pid == "C13":
        cases = [c for c in cases if c["kind"] == "ival"]
    elif pid == "C12":
        cases = [c for c in cases if c["kind"] in ("struct", "fields")]
    for j, c in enumerate(cases):      # renumber after filtering: the ids inside the Coq terms are list positions
        c["term"] = re.sub(r"^\((Fc\w+) \d+ ", lambda m: "(%s %d " % (m.group(1), j), c["term"])
    tools = build_tools()
    root = os.path.join(wd, "front")
    os.makedirs(root, exist_ok=True)
    open(os.path.join(root, "go.mod"), "w").write("module example.com/f\n\ngo 1.21\n\nrequire github.com/google/wire v0.1.0\n\nreplace github.com/google/wire => %s\n" % REPO)
    shutil.copy(os.path.join(REPO, "go.sum"), os.path.join(root, "go.sum"))
    for i, c in enumerate(cases):
        f = {"name": "front-%d" % i, "args": c["args"], "res": c["res"], "expect": "any", "body": None, "dot": False, "key": "front", "params": "", "decl": EXTRA_DECL}
        d = os.path.join(root, "f%d" % i)
        os.makedirs(d, exist_ok=True)
        for nm, t in formeng.render(f).items():
            open(os.path.join(d, nm), "w").write(t)

    def one(i):
        try:
            p = sh([tools["wire"], "gen", "./f%d" % i], cwd=root, env=GOENV, timeout=120, mem_gb=6)
            return i, p.returncode, p.stderr
        except subprocess.TimeoutExpired:
            return i, 124, "timeout"
    with ThreadPoolExecutor(max_workers=16) as ex:
        results = list(ex.map(one, range(len(cases))))
    terms, viol, dist, keep = [], [], {}, []
    for i, rc, err in results:
        c = cases[i]
        if "goroutine " in err or rc in (2, 124):
            viol.append(({"property": pid, "kind": "failing-input", "engine": "front", "broken": "wire crashed on a marker call", "input": {"args": c["args"]},
                          "impl": {"exit": rc, "stderr": err[:600]}, "oracle": ["wire panicked or hung on a type-correct marker call"], "seed": seed()}, True))
            continue
        if rc != 0 and re.search(r"wire: [^\n]*\.go:\d+:\d+: (undefined|cannot use|invalid|syntax error|declared and not used|missing|not enough|too many|cannot|.* redeclared)", err) and "inject " not in err and not any(re.search(p, err) for p, _ in CLASSES[c["kind"]]):
            dist["not-type-correct"] = dist.get("not-type-correct", 0) + 1
            continue
        cls = 0
        for pat, n in CLASSES[c["kind"]]:
            if re.search(pat, err):
                cls = n; break
        dist["%s:%d" % (c["kind"], cls)] = dist.get("%s:%d" % (c["kind"], cls), 0) + 1
        terms.append(c["term"].replace("@OBS@", str(cls))); keep.append((i, cls, err))
    mism = []
    for sh_i in range(0, len(terms), 300):
        f = os.path.join(wd, "FCases_%d.v" % (sh_i // 300))
        with open(f, "w") as fh:
            fh.write("From Coq Require Import List String.\nFrom Wire Require Import Sets Front Model FrontRules.\nImport ListNotations.\nOpen Scope string_scope.\n")
            fh.write("Definition cases : list fcase := [\n" + ";\n".join(terms[sh_i:sh_i + 300]) + "\n].\n")
            fh.write("Definition M := Eval vm_compute in fmismatches cases.\nPrint M.\n")
        rc, out, err = coqc(f)
        m = re.search(r"M\s*=\s*(\[.*?\])\s*:\s*list nat", out, re.S)
        if rc != 0 or not m:
            raise RuntimeError("coqc failed on %s: rc=%d\n%s\n%s" % (f, rc, out[-2000:], err[-3000:]))
        mism += [int(x) for x in re.findall(r"\d+", m.group(1))]
    byid = {i: (cls, err) for i, cls, err in keep}
    for i in mism[:8]:
        cls, err = byid.get(i, (None, ""))
        viol.append(({"property": pid, "kind": "no-failing-input-found", "engine": "front", "broken": "correspondence front: FrontRules vs wire gen on a marker call",
                      "input": {"args": cases[i]["args"], "model_case": cases[i]["term"]}, "impl": {"class": cls, "stderr": err[:600]}, "seed": seed()}, False))
    shutil.rmtree(root, ignore_errors=True)
    return {"name": "front", "evaluations": len(terms), "distinct_nontrivial": len({c["args"] for c in cases}), "samples": [{"args": cases[0]["args"], "term": cases[0]["term"]}], "traces": len(terms),
            "stats": {"classes": dist, "model_vs_impl_mismatches": len(mism)},
            "rule": "marker calls with arguments of known go/types shape (named / generic / anonymous / alias / defined-pointer / interface / non-struct pointees in many expression forms; "
                    "literal, raw, constant, variable and concatenated field names) through wire gen; class of the first front-end diagnostic (or acceptance) vs FrontRules.v (vm_compute)",
            "violations": viol, "known": []}
