"""Engine (C16): byte-identical output across repeats, checkout locations, invocation directory / pattern,
alone vs together with other packages, and module / GOPATH / GOPATH+vendor (nested) layouts."""
import hashlib
from common import *

NLIB = 7


def sources(mod):
    """A package with many imports, blank imports, values and injectors; sources parametrised by module path."""
    files = {}
    for i in range(NLIB):
        files["l%d/l.go" % i] = ("package l%d\n\nimport \"github.com/google/wire\"\n\ntype T struct{ N int }\n\nfunc New() (T, error) { return T{N: %d}, nil }\n\nvar Default = T{N: %d}\n\n"
                                 "// Vals holds the package's value: written in this file, not in the injector's\nvar Vals = wire.NewSet(wire.Value(Default))\n" % (i, i, i))
    for i in range(3):
        files["blank%d/b.go" % i] = "package blank%d\n\nvar X = %d\n" % (i, i)
    files["cfg/cfg.go"] = "package cfg\n\ntype Settings struct{ A int }\n\nfunc New() (Settings, error) { return Settings{A: 1}, nil }\n"
    imps = "".join('\t"%s/l%d"\n' % (mod, i) for i in range(NLIB))
    blanks = "".join('\t_ "%s/blank%d"\n' % (mod, i) for i in (2, 0, 1))
    inj = ["//go:build wireinject\n// +build wireinject\n\npackage app\n\nimport (\n" + blanks + imps + '\t"%s/cfg"\n\t"github.com/google/wire"\n)\n' % mod]
    for i in range(NLIB):
        inj.append("// Init%d builds the value of library %d.\n// It has a doc comment of two lines.\nfunc Init%d() (l%d.T, error) {\n\tpanic(wire.Build(l%d.New))\n}\n" % (i, i, i, i, i))
    # the values of one injector are written in eight different files (every other one comes from its library's set)
    vals = ", ".join(("wire.Value(l%d.Default)" if i % 2 else "l%d.Vals") % i for i in (4, 1, 6, 3, 0, 5, 2))
    fields = "".join("\tF%d l%d.T\n" % (i, i) for i in range(NLIB))
    inj.append("type All struct {\n" + fields + "}\n")
    inj.append('func InitAll() All {\n\tpanic(wire.Build(wire.Struct(new(All), "*"), %s))\n}\n' % vals)
    inj.append("// a value whose map element type names another package, used by two injectors\nvar handlers = wire.NewSet(wire.Value(map[string]*l3.T{\"a\": nil}))\n\n"
               "func InitHandlers() map[string]*l3.T {\n\tpanic(wire.Build(handlers))\n}\n\ntype H2 struct{ M map[string]*l3.T }\n\nfunc InitH2() H2 {\n\tpanic(wire.Build(handlers, wire.Struct(new(H2), \"*\")))\n}\n")
    inj.append("func InitCfg(a l0.T) (cfg.Settings, error) {\n\tpanic(wire.Build(cfg.New, wire.Value(error(nil)), wire.Value(7)))\n}\n".replace(", wire.Value(error(nil)), wire.Value(7)", ""))
    files["app/wire.go"] = "\n".join(inj)
    files["app/doc.go"] = "package app\n"
    # further injector files of the same package, each with declarations of its own that are copied to the output
    for j, nm in enumerate(["auth", "billing", "cache", "db", "email", "queue"]):
        files["app/wire_%s.go" % nm] = (
            "//go:build wireinject\n// +build wireinject\n\npackage app\n\nimport (\n\t\"%s/l%d\"\n\t\"github.com/google/wire\"\n)\n\n"
            "var %sSet = wire.NewSet(l%d.New)\n\nfunc %sHelper() int { return %d }\n\n"
            "func Init%s() (l%d.T, error) {\n\tpanic(wire.Build(%sSet))\n}\n" % (mod, j, nm, j, nm, j, nm.title(), j, nm))
    # two tiny packages for the header-file runs
    for t in ("t1", "t2"):
        files["%s/wire.go" % t] = ("//go:build wireinject\n// +build wireinject\n\npackage %s\n\nimport \"github.com/google/wire\"\n\n"
                                   "func Init() string {\n\tpanic(wire.Build(wire.Value(\"%s\")))\n}\n" % (t, t))
        files["%s/doc.go" % t] = "package %s\n" % t
    # a second package that imports cfg under a different name in its generated file (its own `cfg` identifier is taken)
    files["beta/wire.go"] = ("//go:build wireinject\n// +build wireinject\n\npackage beta\n\nimport (\n\tc \"%s/cfg\"\n\t\"%s/l1\"\n\t\"github.com/google/wire\"\n)\n\n"
                             "func InitS() (c.Settings, error) {\n\tpanic(wire.Build(c.New, l1.New, wrap))\n}\n" % (mod, mod))
    files["beta/b.go"] = "package beta\n\nimport (\n\tc \"%s/cfg\"\n\t\"%s/l1\"\n)\n\nvar cfg = 1\n\ntype W struct{ S c.Settings }\n\nfunc wrap(s c.Settings, t l1.T) (W, error) { return W{S: s}, nil }\n" % (mod, mod)
    files["beta/wire.go"] = ("//go:build wireinject\n// +build wireinject\n\npackage beta\n\nimport (\n\tc \"%s/cfg\"\n\t\"github.com/google/wire\"\n)\n\n"
                             "// InitS is documented.\nfunc InitS() (c.Settings, error) {\n\tpanic(wire.Build(c.New))\n}\n\n"
                             "// Limit is a copied declaration with a doc comment.\nconst Limit = 3 // and a trailing comment\n" % mod)
    files["beta/b.go"] = "package beta\n\nvar cfg = 1\n"
    return files


def sha(b):
    return hashlib.sha1(b).hexdigest()[:16]


def write_tree(root, files):
    for rel, t in files.items():
        p = os.path.join(root, rel)
        os.makedirs(os.path.dirname(p), exist_ok=True)
        open(p, "w").write(t)


def eng_determinism(pid, tier, wd, known, replay=None):
    tools = build_tools()
    mod = "example.com/d"
    viol = []
    outs = {}     # label -> {pkg: bytes}
    runs = 0

    def module_at(root):
        write_tree(root, sources(mod))
        open(os.path.join(root, "go.mod"), "w").write("module %s\n\ngo 1.21\n\nrequire github.com/google/wire v0.1.0\n\nreplace github.com/google/wire => %s\n" % (mod, REPO))
        shutil.copy(os.path.join(REPO, "go.sum"), os.path.join(root, "go.sum"))

    def collect(root, label, pk=("app", "beta")):
        d = {}
        for p in pk:
            f = os.path.join(root, p, "wire_gen.go")
            if os.path.exists(f):
                d[p] = open(f, "rb").read()
                os.remove(f)
        outs[label] = d

    def gen(root, args, cwd=None, env=None):
        nonlocal runs
        runs += 1
        p = sh([tools["wire"], "gen"] + args, cwd=cwd or root, env=env or GOENV, timeout=600)
        return p

    base = scratch("det-a")
    other = scratch("det-b-a-much-longer-directory-name")
    gp = scratch("det-gopath")
    try:
        module_at(base)
        nrep = 8 if tier == "quick" else 24
        for i in range(nrep):
            p = gen(base, ["./app", "./beta"])
            if p.returncode != 0:
                raise RuntimeError("determinism corpus does not generate: " + p.stderr[-1500:])
            collect(base, "repeat%d" % i)
        # alone vs together, pattern forms, working directory
        gen(base, ["./app"]); collect(base, "alone-app", ("app",))
        gen(base, ["./beta"]); collect(base, "alone-beta", ("beta",))
        gen(base, ["./beta", "./app"]); collect(base, "beta-first")
        gen(base, ["./..."]); collect(base, "dotdotdot")
        gen(base, [mod + "/app", mod + "/beta"]); collect(base, "import-path")
        gen(base, ["."], cwd=os.path.join(base, "app")); collect(base, "cwd-app", ("app",))
        gen(base, ["../beta"], cwd=os.path.join(base, "app")); collect(base, "cwd-rel", ("beta",))
        os.makedirs(os.path.join(base, "tools", "deep"), exist_ok=True)
        gen(base, ["../app", "../beta"], cwd=os.path.join(base, "tools")); collect(base, "cwd-sibling")
        gen(base, ["../../beta"], cwd=os.path.join(base, "tools", "deep")); collect(base, "cwd-sibling-deep", ("beta",))
        gen(base, [mod + "/app"], cwd=os.path.join(base, "tools")); collect(base, "cwd-sibling-import-path", ("app",))
        # a short header file, tiny packages: alone vs together
        open(os.path.join(base, "hdr.txt"), "w").write("// Copyright header.\n\n")
        hp = gen(base, ["-header_file", "hdr.txt", "./t1", "./t2"]); collect(base, "hdr-together", ("t1", "t2"))
        if set(outs["hdr-together"]) != {"t1", "t2"}:
            raise RuntimeError("header-file corpus does not generate: " + hp.stderr[-800:])
        gen(base, ["-header_file", "hdr.txt", "./t1"]); collect(base, "hdr-alone-t1", ("t1",))
        gen(base, ["-header_file", "hdr.txt", "./t2"]); collect(base, "hdr-alone-t2", ("t2",))
        gen(base, ["-header_file", "hdr.txt", "./t2", "./t1"]); collect(base, "hdr-reversed", ("t1", "t2"))
        gen(base, ["./..."]); collect(base, "dotdotdot-all", ("app", "beta", "t1", "t2"))
        gen(base, ["./t1"]); collect(base, "plain-alone-t1", ("t1",))
        gen(base, ["./t2"]); collect(base, "plain-alone-t2", ("t2",))
        # another checkout location
        module_at(other)
        gen(other, ["./app", "./beta"]); collect(other, "other-location")
        # GOPATH mode, flat and with (nested) vendoring
        genv = dict(GOENV, GOFLAGS="", GO111MODULE="off", GOPATH=gp)
        src = os.path.join(gp, "src")
        os.makedirs(os.path.join(src, "github.com/google"), exist_ok=True)
        os.symlink(REPO, os.path.join(src, "github.com/google/wire"))
        write_tree(os.path.join(src, mod), sources(mod))
        p = gen(os.path.join(src, mod), [mod + "/app", mod + "/beta"], env=genv)
        if p.returncode == 0:
            collect(os.path.join(src, mod), "gopath")
        # vendored: l0..l6, cfg and blank packages move under app's module vendor dir; l1 additionally keeps cfg in a nested vendor dir
        vroot = os.path.join(src, mod)
        vend = os.path.join(vroot, "vendor", mod)
        os.makedirs(vend, exist_ok=True)
        for d in ["l%d" % i for i in range(NLIB)] + ["cfg"] + ["blank%d" % i for i in range(3)]:
            shutil.move(os.path.join(vroot, d), os.path.join(vend, d))
        p = gen(vroot, [mod + "/app", mod + "/beta"], env=genv)
        if p.returncode == 0:
            collect(vroot, "gopath-vendor")
        # ... and with the wire marker package itself vendored (a copy of /repo/wire.go, removed with the scratch tree)
        wv = os.path.join(vroot, "vendor", "github.com", "google", "wire")
        os.makedirs(wv, exist_ok=True)
        shutil.copy(os.path.join(REPO, "wire.go"), os.path.join(wv, "wire.go"))
        p = gen(vroot, [mod + "/app", mod + "/beta"], env=genv)
        if p.returncode == 0:
            collect(vroot, "gopath-vendor-wire")
        shutil.rmtree(wv, ignore_errors=True)
        stats_layout = {"gopath": "gopath" in outs, "gopath-vendor": "gopath-vendor" in outs, "gopath-vendor-wire": "gopath-vendor-wire" in outs}
        # nested vendor: a vendored library with its own vendor directory whose package the generated code must name
        # (the dependency's path has an element that merely ends in "vendor")
        nroot = os.path.join(src, "example.com/n")
        nfiles = {
            "app/wire.go": "//go:build wireinject\n// +build wireinject\n\npackage app\n\nimport (\n\t\"example.com/lib\"\n\t\"github.com/google/wire\"\n)\n\nfunc Init() lib.L {\n\tpanic(wire.Build(lib.Set))\n}\n",
            "app/doc.go": "package app\n",
        }
        libfiles = {"lib.go": "package lib\n\nimport (\n\t\"example.com/govendor/dep\"\n\t\"github.com/google/wire\"\n)\n\ntype L struct{ D dep.D }\n\nfunc New(d dep.D) L { return L{D: d} }\n\nvar Set = wire.NewSet(New, wire.Value(dep.Default))\n"}
        depfiles = {"dep.go": "package dep\n\ntype D struct{ N int }\n\nvar Default = D{N: 3}\n"}
        layouts = {
            "flat": {"example.com/n/": nfiles, "example.com/lib/": libfiles, "example.com/govendor/dep/": depfiles},
            "vendor": {"example.com/n/": nfiles, "example.com/n/vendor/example.com/lib/": libfiles, "example.com/n/vendor/example.com/govendor/dep/": depfiles},
            # the workspace-level vendor directory ($GOPATH/src/vendor): the vendored path starts with "vendor/"
            "workspace-vendor": {"example.com/n/": nfiles, "vendor/example.com/lib/": libfiles, "vendor/example.com/govendor/dep/": depfiles},
            "nested-vendor": {"example.com/n/": nfiles, "example.com/n/vendor/example.com/lib/": libfiles, "example.com/n/vendor/example.com/lib/vendor/example.com/govendor/dep/": depfiles},
        }
        nested = {}
        for name, lay in layouts.items():
            g2 = scratch("det-gp-" + name)
            try:
                s2 = os.path.join(g2, "src")
                os.makedirs(os.path.join(s2, "github.com/google"), exist_ok=True)
                os.symlink(REPO, os.path.join(s2, "github.com/google/wire"))
                for prefix, fl in lay.items():
                    write_tree(os.path.join(s2, prefix), fl)
                e2 = dict(GOENV, GOFLAGS="", GO111MODULE="off", GOPATH=g2)
                p = gen(os.path.join(s2, "example.com/n"), ["example.com/n/app"], env=e2)
                f = os.path.join(s2, "example.com/n/app/wire_gen.go")
                if p.returncode == 0 and os.path.exists(f):
                    nested[name] = open(f, "rb").read()
                else:
                    nested[name] = None
                    stats_layout["nested:" + name] = p.stderr[-300:]
            finally:
                shutil.rmtree(g2, ignore_errors=True)
        # ---- oracle: everything equal to the first repeat
        ref = dict(outs["repeat0"])
        for label, d in outs.items():
            for p, b in d.items():
                if label.startswith("hdr-"):
                    want = outs["hdr-together"].get(p)
                elif p in ("t1", "t2"):
                    want = outs["dotdotdot-all"].get(p)
                else:
                    want = ref[p]
                if want is None or b != want:
                    viol.append(({"property": pid, "kind": "failing-input", "broken": "C16 oracle: output differs between runs/layouts",
                                  "input": {"variation": label, "package": p},
                                  "impl": {"reference": (want or b"<not generated>").decode(errors="replace")[-1500:], "variant": b.decode(errors="replace")[-1500:]},
                                  "oracle": ["wire_gen.go of package %s under '%s' differs from the first plain run" % (p, label)], "seed": seed()}, True))
        for label in ("hdr-alone-t1", "hdr-alone-t2"):
            for p, b in outs[label].items():
                if not b.startswith(b"// Copyright header.") or (b"package " + p.encode()) not in b:
                    viol.append(({"property": pid, "kind": "failing-input", "broken": "C16 oracle: header file", "input": {"variation": label, "package": p},
                                  "impl": b.decode(errors="replace")[-800:], "oracle": ["the output does not start with the header or is not this package's file"], "seed": seed()}, True))
        got = [v for v in nested.values() if v is not None]
        if got and any(v != got[0] for v in got):
            viol.append(({"property": pid, "kind": "failing-input", "broken": "C16 oracle: vendored layouts", "input": {"layouts": list(nested)},
                          "impl": {k: (v.decode(errors="replace")[-800:] if v else None) for k, v in nested.items()},
                          "oracle": ["the same sources give different wire_gen.go under flat / vendor / nested vendor GOPATH layouts"], "seed": seed()}, True))
        for label, b in list(nested.items()) + [(l, d.get("app")) for l, d in outs.items()]:
            if b and (re.search(rb'[/"]vendor/', b) or base.encode() in b or other.encode() in b or gp.encode() in b or b"/root/" in b or re.search(rb"20\d\d-\d\d-\d\d", b)):
                viol.append(({"property": pid, "kind": "failing-input", "broken": "C16 oracle: run-specific data in the output", "input": {"variation": label},
                              "impl": b.decode(errors="replace")[-1500:], "oracle": ["the generated file mentions a vendor path, an absolute path or a date"], "seed": seed()}, True))
        stats = {"wire_runs": runs, "variations": sorted(outs), "layouts": stats_layout, "nested_layouts_generated": [k for k, v in nested.items() if v is not None],
                 "app_bytes": len(ref.get("app", b"")), "imports_in_app": NLIB + 1, "blank_imports": 3, "values": NLIB, "injectors": NLIB + 2}
    finally:
        for d in (base, other, gp):
            shutil.rmtree(d, ignore_errors=True)
    return {"name": "determinism", "evaluations": runs, "distinct_nontrivial": len(outs) + len(nested), "samples": [{"variation": "repeat0", "sha": sha(ref.get("app", b""))}],
            "traces": runs, "stats": stats,
            "rule": "one package with %d imports, 3 blank imports, %d values and %d injectors plus a sibling importing a shared package under another name; generated repeatedly in fresh processes, "
                    "from another checkout location, by every pattern form, alone and together, in module / GOPATH / GOPATH+vendor / nested-vendor layouts; all outputs compared byte for byte" % (NLIB + 1, NLIB, NLIB + 2),
            "violations": viol, "known": []}
