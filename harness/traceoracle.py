"""Model-free reading of C02/C03/C04 on the runtime traces of compiled generated injectors."""
import re
import spec


def parse_run(lines):
    ev = []
    for l in lines:
        m = re.match(r"call (\w+)\((.*)\)=(#\d+)$", l)
        if m:
            ev.append(("call", m.group(1), m.group(2).split(";") if m.group(2) else [], m.group(3)))
            continue
        m = re.match(r"cleanup (\S+)$", l)
        if m:
            ev.append(("cleanup", m.group(1)))
            continue
        m = re.match(r"(result|error) (.*)$", l)
        if m:
            ev.append((m.group(1), m.group(2)))
            continue
        ev.append((l,))
    return ev


class Expect:
    """Expected identity of the value of each type in one run, from the input description alone."""

    def __init__(self, prog, render, events):
        self.p, self.r = prog, render
        self.direct, self.binds = spec.resolver(prog["tree"], prog["given"])
        self.calls = {}
        for e in events:
            if e[0] == "call":
                self.calls.setdefault(e[1], []).append(e)
        self.memo = {}

    def is_iface(self, t):
        return self.r.types[t // 2]["kind"] == "iface"

    def zero(self, t):
        if t % 2 or self.is_iface(t):
            return "nil"
        return "zero"

    def desc(self, t, depth=0):
        if t in self.memo:
            return self.memo[t]
        if depth > 60:
            return "?deep"
        d = self._desc(t, depth)
        self.memo[t] = d
        return d

    def _desc(self, t, depth):
        if t in self.binds and t not in self.direct:
            c = self.desc(self.binds[t]["conc"], depth + 1)
            return c[1:] if c.startswith("&") else c
        if t not in self.direct:
            return "?missing"
        k, it = self.direct[t]
        pre = "&" if (t % 2 and not self.is_iface(t)) else ""
        if k == "arg":
            return pre + "arg%d" % it
        if k == "val":
            return pre + "val%d" % it["id"]
        if k == "prov":
            if not it["struct"]:
                cs = self.calls.get("P%d" % it["id"], [])
                if len(cs) != 1:
                    return "?calls=%d" % len(cs)
                return pre + cs[0][3]
            td = self.r.types[it["outs"][0] // 2]
            sel = dict(zip(it["fields"], it["args"]))
            parts = []
            allzero = True
            for f in td["fields"]:
                if f["name"] == "_":          # blank fields are not part of the program's description of a value
                    continue
                if f["name"] in sel:
                    v = self.desc(sel[f["name"]], depth + 1)
                else:
                    v = self.zero(f["t"])
                if v != self.zero(f["t"]):
                    allzero = False      # e.g. an interface field holding a pointer to a zero struct is not zero
                parts.append("%s:%s" % (f["name"], v))
            body = "zero" if allzero else "T%d{%s}" % (it["outs"][0] // 2, ",".join(parts))
            return ("&" if t % 2 else "") + body
        if k == "field":
            par = self.desc(it["parent"], depth + 1)
            base = par[1:] if par.startswith("&") else par
            ft = it["outs"][0]
            want_ptr_to_field = len(it["outs"]) == 2 and t == it["outs"][1]
            pk, pit = self.direct.get(it["parent"], (None, None)) if it["parent"] not in self.binds or it["parent"] in self.direct else (None, None)
            if base.startswith("T") and "{" in base:
                m = re.search(r"(?:\{|,)%s:([^,}]*(?:\{[^}]*\})?)" % re.escape(it["name"]), base)
                fv = m.group(1) if m else "?nofield"
            elif base in ("zero", "nil") or base.startswith("val") or "." in base:
                fv = self.zero(ft)       # values and one-level leaves carry no populated fields
            else:
                fv = ("&" if ft % 2 else "") + base + "." + it["name"]
            if want_ptr_to_field:
                return "&" + fv
            return fv
        return "?kind"


def check_c02(prog, render, runs):
    """Every provider parameter / struct field / selector gets the value of the designated source of its type;
    each provider at most once and only if needed; the result is the value of the result type's source."""
    out = []
    if "" not in runs:
        return out
    ev = parse_run(runs[""])
    ex = Expect(prog, render, ev)
    needed, direct, binds = spec.needed(prog["tree"], prog["given"], prog["out"])
    provs = {}
    for s in spec.all_sets(prog["tree"]):
        for p in s["providers"]:
            provs["P%d" % p["id"]] = p
    seen = set()
    for e in ev:
        if e[0] != "call":
            continue
        name = e[1]
        if name in seen:
            out.append("provider %s was called twice in one injector call" % name)
        seen.add(name)
        p = provs.get(name)
        if p is None:
            continue
        if not (set(p["outs"]) & needed):
            out.append("provider %s ran although the result does not depend on it" % name)
        want = [ex.desc(a) for a in p["args"]]
        if any(w.startswith("?") for w in want):
            continue
        if want != e[2]:
            out.append("provider %s received %s, the designated sources produced %s" % (name, e[2], want))
    res = [e for e in ev if e[0] == "result"]
    if res:
        w = ex.desc(prog["out"])
        if not w.startswith("?") and res[0][1] != w:
            out.append("injector returned %s, the source of its result type produced %s" % (res[0][1], w))
    return out


def check_c03(prog, render, runs):
    out = []
    if "" not in runs:
        return out
    ok = parse_run(runs[""])
    okcalls = [e for e in ok if e[0] == "call"]
    provs = {}
    for s in spec.all_sets(prog["tree"]):
        for p in s["providers"]:
            provs["P%d" % p["id"]] = p
    t = prog["out"]
    zero = "nil" if (t % 2 or render.types[t // 2]["kind"] == "iface") else "zero"
    for f, lines in runs.items():
        if not f:
            continue
        names = [e[1] for e in okcalls]
        if f not in names:
            continue          # the failing provider is not part of this injector
        ev = parse_run(lines)
        k = names.index(f)
        calls = [e[1] for e in ev if e[0] == "call"]
        if calls != names[:k + 1]:
            out.append("fail=%s: providers called %s, expected exactly %s" % (f, calls, names[:k + 1]))
        want_cl = [n for n in reversed(names[:k]) if provs.get(n, {}).get("cleanup")]
        idx_res = next((i for i, e in enumerate(ev) if e[0] == "result"), len(ev))
        got_cl = [e[1] for e in ev[:idx_res] if e[0] == "cleanup"]
        if got_cl != want_cl:
            out.append("fail=%s: cleanups run before returning %s, expected %s" % (f, got_cl, want_cl))
        if any(e[0] == "cleanup" for e in ev[idx_res:]):
            out.append("fail=%s: a cleanup ran after the injector returned" % f)
        res = [e for e in ev if e[0] == "result"]
        err = [e for e in ev if e[0] == "error"]
        if res and res[0][1] != zero:
            out.append("fail=%s: result is %s, not the zero value" % (f, res[0][1]))
        if err and err[0][1] != "err:" + f:
            out.append("fail=%s: returned error %s, not the provider's error" % (f, err[0][1]))
        if prog["cleanup"] and ("cleanup-nil",) not in ev:
            out.append("fail=%s: the cleanup result is not nil" % f)
    # a failed call leaves no state: the success run after/before failures is the same sequence
    return out


def check_c04(prog, render, runs):
    out = []
    if "" not in runs or not prog["cleanup"]:
        return out
    ev = parse_run(runs[""])
    provs = {}
    for s in spec.all_sets(prog["tree"]):
        for p in s["providers"]:
            provs["P%d" % p["id"]] = p
    if ("cleanup-nil",) in ev:
        out.append("the injector succeeded but returned a nil cleanup function")
        return out
    if ("cleanup-invoke",) not in ev:
        return out
    i = ev.index(("cleanup-invoke",))
    if any(e[0] == "cleanup" for e in ev[:i]):
        out.append("a provider cleanup ran before the caller invoked the returned function")
    names = [e[1] for e in ev if e[0] == "call"]
    want = [n for n in reversed(names) if provs.get(n, {}).get("cleanup")]
    got = [e[1] for e in ev[i:] if e[0] == "cleanup"]
    if got != want:
        out.append("aggregated cleanup ran %s, expected %s" % (got, want))
    return out
