"""Shared plumbing: environment, tool builds from /repo's working tree, Coq runs, evidence, verdicts."""
import hashlib, json, os, re, shutil, subprocess, sys, tempfile, time

VERIF = os.path.dirname(os.path.dirname(os.path.abspath(__file__)))
REPO = os.environ.get("VERIF_REPO", "/repo")
COQ = os.path.join(VERIF, "coq")
WORK = os.path.join(VERIF, ".work")
SCRATCH_PARENT = os.environ.get("VERIF_SCRATCH", "/root/scratch")

GOENV = dict(os.environ, GOFLAGS="-mod=mod", GOPROXY="off", GOSUMDB="off", GOTOOLCHAIN="local",
             CGO_ENABLED="0")
GOENV.pop("GOPATH", None) if False else None


def _limit_memory(gb):
    def f():
        import resource
        resource.setrlimit(resource.RLIMIT_AS, (int(gb * 2 ** 30), int(gb * 2 ** 30)))
    return f


def sh(cmd, cwd=None, env=None, timeout=None, input=None, check=False, mem_gb=None):
    """mem_gb: address-space limit for the child (a tool under test that loops while allocating must not take the machine down)."""
    p = subprocess.run(cmd, cwd=cwd, env=env, timeout=timeout, input=input,
                       stdout=subprocess.PIPE, stderr=subprocess.PIPE, text=True,
                       preexec_fn=_limit_memory(mem_gb) if mem_gb else None)
    if check and p.returncode != 0:
        raise RuntimeError("command failed: %s\n%s\n%s" % (cmd, p.stdout[-2000:], p.stderr[-4000:]))
    return p


def seed():
    try:
        return int(os.environ.get("VERIF_SEED", "1"))
    except ValueError:
        return 1


def scratch(prefix="v"):
    os.makedirs(SCRATCH_PARENT, exist_ok=True)
    return tempfile.mkdtemp(prefix=prefix + "-", dir=SCRATCH_PARENT)


_built = {}


def build_tools():
    """Build wire and verifcmd from REPO's current working tree (hooks enabled by -tags verif).
    If the hook files are missing from the tree they are injected with -overlay from /verif/gohook."""
    if "wire" in _built:
        return _built
    bindir = os.path.join(WORK, "bin")
    os.makedirs(bindir, exist_ok=True)
    wire = os.path.join(bindir, "wire")
    vcmd = os.path.join(bindir, "verifcmd")
    p = sh(["go", "build", "-o", wire, "./cmd/wire"], cwd=REPO, env=GOENV, timeout=600)
    if p.returncode != 0:
        raise RuntimeError("go build ./cmd/wire failed:\n" + p.stderr[-4000:])
    args = ["go", "build", "-tags", "verif", "-o", vcmd]
    hook1 = os.path.join(REPO, "internal/wire/verif_hooks.go")
    hook2 = os.path.join(REPO, "internal/verifcmd/main.go")
    if not (os.path.exists(hook1) and os.path.exists(hook2)):
        ov = {"Replace": {hook1: os.path.join(VERIF, "gohook/verif_hooks.go"),
                          hook2: os.path.join(VERIF, "gohook/verifcmd_main.go")}}
        ovf = os.path.join(WORK, "overlay.json")
        json.dump(ov, open(ovf, "w"))
        args += ["-overlay", ovf]
    args += ["./internal/verifcmd"]
    p = sh(args, cwd=REPO, env=GOENV, timeout=600)
    if p.returncode != 0:
        raise RuntimeError("go build -tags verif ./internal/verifcmd failed:\n" + p.stderr[-4000:])
    _built.update(wire=wire, verifcmd=vcmd)
    return _built


def hook(requests, timeout=600, per_request=8.0, max_timeouts=4):
    """Send JSON requests to verifcmd, one per line; return list of responses.  A request that gets no
    answer within per_request seconds (the real code loops or exhausts memory) is answered
    {"timeout": true} and the command is restarted for the remaining requests."""
    import select, threading
    t = build_tools()
    out = []
    start = 0
    ntimeouts = 0
    while start < len(requests):
        if ntimeouts >= max_timeouts:
            out += [{"skipped": True, "panic": "not evaluated: the analysis already failed to answer %d requests" % ntimeouts}] * (len(requests) - start)
            break
        p = subprocess.Popen([t["verifcmd"]], stdin=subprocess.PIPE, stdout=subprocess.PIPE, stderr=subprocess.DEVNULL)
        batch = requests[start:]

        def feed(proc=p, reqs=batch):
            try:
                for r in reqs:
                    proc.stdin.write((json.dumps(r) + "\n").encode())
                proc.stdin.close()
            except (BrokenPipeError, ValueError, OSError):
                pass
        th = threading.Thread(target=feed, daemon=True)
        th.start()
        buf = b""
        got = 0
        dead = False
        fd = p.stdout.fileno()
        while got < len(batch):
            r, _, _ = select.select([fd], [], [], per_request)
            if not r:
                dead = True
                break
            chunk = os.read(fd, 1 << 20)
            if not chunk:
                dead = True
                break
            buf += chunk
            while b"\n" in buf:
                line, buf = buf.split(b"\n", 1)
                if line.strip():
                    out.append(json.loads(line)); got += 1
        try:
            p.kill()
        except OSError:
            pass
        p.wait()
        if dead and got < len(batch):
            out.append({"timeout": True, "panic": "no answer within %.0fs (non-termination or crash of the analysis)" % per_request})
            got += 1
            ntimeouts += 1
        start += got
    return out


# ---------------------------------------------------------------- Coq
def coq_build():
    """(Re)build the hand-written development; no-op when up to date."""
    if not os.path.exists(os.path.join(COQ, "Makefile")):
        sh(["coq_makefile", "-f", "_CoqProject", "-o", "Makefile"], cwd=COQ, check=True)
    p = sh(["timeout", "1500", "make", "-j16"], cwd=COQ, timeout=1600)
    return p.returncode == 0, (p.stdout + p.stderr)[-6000:]


def coqc(path, timeout=900):
    p = sh(["timeout", str(timeout), "coqc", "-Q", COQ, "Wire", path], cwd=os.path.dirname(path), timeout=timeout + 30)
    return p.returncode, p.stdout, p.stderr


def check_obligations(theorems, workdir):
    """Each named theorem must exist in the compiled development and depend on no axiom.
    Returns (n_ok, details)."""
    src = ["From Wire Require Import Properties."]
    for t in theorems:
        src.append('Goal True. idtac "@@BEGIN %s". exact I. Qed.' % t)
        src.append("Print Assumptions %s." % t)
        src.append('Goal True. idtac "@@END %s". exact I. Qed.' % t)
    f = os.path.join(workdir, "Obligations.v")
    open(f, "w").write("\n".join(src) + "\n")
    rc, out, err = coqc(f)
    details = {}
    for t in theorems:
        m = re.search(r"@@BEGIN %s\n(.*?)@@END %s" % (re.escape(t), re.escape(t)), out, re.S)
        if not m:
            details[t] = "missing (coqc rc=%d: %s)" % (rc, (err or out)[-300:].strip())
        else:
            body = m.group(1).strip()
            details[t] = "closed" if body.startswith("Closed under the global context") else "axioms: " + body[:300]
    n_ok = sum(1 for v in details.values() if v == "closed")
    return n_ok, details


def coq_str(s):
    return '"' + s.replace('"', '""') + '"%string'


def coq_list(items):
    return "[" + "; ".join(items) + "]"


def coq_bool(b):
    return "true" if b else "false"


# ---------------------------------------------------------------- verdicts and evidence
TRUSTED = [
    "Coq 8.16.1 kernel, coqc, the bytecode VM (vm_compute); no native_compute",
    "axioms: none (Print Assumptions: Closed under the global context for every listed theorem)",
    "hand-written model coq/Model.v etc. tied to /repo by the correspondence run (harness/*.py, verif hook internal/wire/verif_hooks.go)",
    "Go toolchain 1.23.5, go/types, go/packages (not modelled; their outputs are inputs of the model)",
]


def write_evidence(pid, tier, level, coverage, assumptions, wall, violations):
    ev = {"property_id": pid, "tier": tier, "seed": seed(), "level": level, "coverage": coverage,
          "assumptions": assumptions, "wall_s": round(wall, 2), "violations": violations}
    os.makedirs(os.path.join(VERIF, "evidence"), exist_ok=True)
    with open(os.path.join(VERIF, "evidence", pid + ".json"), "w") as f:
        json.dump(ev, f, indent=1, sort_keys=True)
        f.write("\n")


def write_replay(pid, payload):
    os.makedirs(os.path.join(VERIF, "replays"), exist_ok=True)
    blob = json.dumps(payload, sort_keys=True, indent=1)
    h = hashlib.sha1(blob.encode()).hexdigest()[:12]
    path = os.path.join(VERIF, "replays", "%s-%s.json" % (pid, h))
    open(path, "w").write(blob + "\n")
    return path


def load_known():
    p = os.path.join(VERIF, "known_findings.json")
    if not os.path.exists(p):
        return []
    return json.load(open(p))
