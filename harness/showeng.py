"""Engine (C19, show): `wire show` on generated programs against Show.v (the included-sets work-list and the grouping
DFS of cmd/wire/main.go:gather, evaluated by vm_compute) and against the property's wording (every provided type is
listed under exactly the outside types needed to obtain it)."""
import random
from concurrent.futures import ThreadPoolExecutor
from common import *
import synth, spec, prog, gencase

HEADER = ("From Coq Require Import List String.\nFrom Wire Require Import Sets Front Model Show.\n"
          "Import ListNotations.\nOpen Scope string_scope.\n")


def nset_term(s, top=True):
    name = "None" if (s.get("inline") or s["id"] == 0) else "(Some (%d, %d))" % (s["pkg"], s["id"])
    return "(NSet %d %s %s)" % (s["id"], name, coq_list([nset_term(i, False) for i in s["imports"]]))


def parse_show(text):
    """-> {set key string: (includes [strings], groups [(inputs [strings], outputs [strings])])}"""
    sets, cur, grp = {}, None, None
    for line in text.split("\n"):
        m = re.match(r'^("[^"]+"\.\w+)$', line)
        if m:
            cur = m.group(1); sets[cur] = ([], []); grp = None; continue
        if line.startswith("Injectors:") or not line.strip():
            cur = None if not line.strip() or line.startswith("Injectors:") else cur
            continue
        if cur is None:
            continue
        m = re.match(r'^\t("[^"]+"\.\w+)$', line)
        if m:
            sets[cur][0].append(m.group(1)); continue
        m = re.match(r"^\tOutputs given (.*):$", line)
        if m:
            ins = [] if m.group(1) == "no inputs" else m.group(1).split(", ")
            grp = (ins, []); sets[cur][1].append(grp); continue
        m = re.match(r"^\t\t(\S+)$", line)
        if m and grp is not None:
            grp[1].append(m.group(1))
    return sets


def eng_show(pid, tier, wd, known, replay=None):
    rng = random.Random(seed() * 15485863 + 3)
    tools = build_tools()
    n = 70 if tier == "quick" else 600
    progs = []
    if replay is not None and replay.get("engine") == "show" and replay.get("input", {}).get("prog"):
        rp = replay["input"]["prog"]
        for k in ("kinds", "extra_fields", "extra_impl", "type_pkg"):
            rp[k] = {int(a): b for a, b in (rp.get(k) or {}).items()}
        progs = [rp]
    while len(progs) < n and replay is None:
        c = prog.make_prog(rng, opts={"names_p": 0.0, "inline_p": 0.4, "dupset_p": 0.03, "maxk": 9})
        if prog.renderable(c):
            continue
        if any(x["id"] != 0 for x in spec.all_sets(c["tree"])) and (c["defect"].startswith("none") or rng.random() < 0.5):
            progs.append(c)
    if replay is None:
        mk = synth.mkprov
        for shape in range(3):
            s3 = synth.mkset(3, [], [mk(3, 4, [])]); s2 = synth.mkset(2, [s3], [mk(2, 2, [4])])
            anon = synth.mkset(5, [s2] if shape != 1 else [synth.mkset(6, [s2], [])], [mk(5, 6, [2])])
            s1 = synth.mkset(1, [anon] + ([synth.mkset(4, [], [mk(4, 8, [])])] if shape == 2 else []), [mk(1, 0, [6])])
            tree = synth.mkset(0, [s1], [])
            c = prog.make_prog(rng, base=((tree, [], 0), "none:named-below-anonymous"), opts={"names_p": 0.0, "inline_p": 0.0, "dupset_p": 0.0})
            for x in spec.all_sets(c["tree"]):
                x["pkg"] = 1 if x["id"] != 0 else 0
                for q in x["providers"]:
                    q["pkg"] = 1
                if x["id"] in (5, 6):
                    x["inline"] = True
            if not prog.renderable(c):
                progs.insert(0, c)
    root = os.path.join(wd, "show_mod")
    renders = prog.write_module(root, progs)

    def one(i):
        try:
            q = sh([tools["wire"], "show", "./c%d/..." % i], cwd=root, env=GOENV, timeout=60)
            return i, q.returncode, q.stdout, q.stderr
        except subprocess.TimeoutExpired:
            return i, 124, "", "timeout"
    with ThreadPoolExecutor(max_workers=16) as ex:
        res = list(ex.map(one, range(len(progs))))
    terms, meta, viol = [], [], []
    stats = {"sets": 0, "listed": 0, "absent": 0, "groups": 0, "with_includes": 0, "crashed": 0, "skipped_invalid_go": 0}
    for i, rc, out, err in res:
        p, r = progs[i], renders[i]
        if "goroutine " in err or rc in (2, 124):
            stats["crashed"] += 1
            viol.append(({"property": pid, "kind": "failing-input", "engine": "show", "broken": "wire show crashed", "input": {"prog": p}, "rendered_files": r.files(),
                          "impl": {"exit": rc, "stderr": err[:800]}, "oracle": ["wire show crashed or hung on a type-correct program"], "seed": seed()}, True))
            continue
        if re.search(r"wire: [^\n]*\.go:\d+:\d+: (undefined|cannot use|invalid|syntax error|declared and not used|.* redeclared|missing return|imported and not used)", err) and not out.strip():
            stats["skipped_invalid_go"] += 1
            continue
        shown = parse_show(out)
        pt = gencase.ptid_for(r)
        order = sorted([t for k in r.types for t in (2 * k, 2 * k + 1)], key=lambda t: ("*" if t % 2 else "") + r.libpath + "." + r.tn(t // 2))
        seen_ids = set()
        for s in spec.all_sets(p["tree"]):
            if s["id"] == 0 or s.get("inline") or s["id"] in seen_ids:
                continue
            seen_ids.add(s["id"])
            stats["sets"] += 1
            key = '"%s".S%d' % (r.libpath if s["pkg"] == 1 else r.apppath, s["id"])
            if key in shown:
                inc, grps = shown[key]
                try:
                    incs = []
                    for x in inc:
                        m = re.match(r'^"([^"]+)"\.S(\d+)$', x)
                        incs.append((1 if m.group(1) == r.libpath else 0, int(m.group(2))))
                    g2 = [([pt(x) for x in a], [pt(x) for x in b]) for a, b in grps]
                except Exception as e:
                    raise RuntimeError("cannot parse wire show output for %s: %s\n%s" % (key, e, out[:1500]))
                obs = "(ShSet %s %s)" % (coq_list(["(%d, %d)" % x for x in incs]), coq_list(["(%s, %s)" % (synth.r_nats(a), synth.r_nats(b)) for a, b in g2]))
                stats["listed"] += 1; stats["groups"] += len(g2); stats["with_includes"] += int(bool(incs))
                # ---- the property's wording, independently of the model
                why = []
                flat = {}
                for a, b in g2:
                    for t in b:
                        if t in flat:
                            why.append("type %d is listed under two groups" % t)
                        flat[t] = sorted(a)
                for t, ins in flat.items():
                    seen, direct, binds = spec.needed(s, [], t)
                    want = sorted(x for x in seen if x not in direct and x not in binds)
                    if want != ins:
                        why.append("type %d is listed under inputs %s; the types without a source it depends on are %s" % (t, ins, want))
                _, direct, binds = spec.needed(s, [], -1)
                provided = sorted(set(direct) | set(binds))
                if sorted(flat) != provided:
                    why.append("listed outputs %s, the set provides %s" % (sorted(flat), provided))
                if len({tuple(sorted(a)) for a, b in g2}) != len(g2):
                    why.append("two groups have the same inputs")
                wantinc = sorted({(x["pkg"], x["id"]) for x in spec.all_sets(s) if x["id"] != s["id"] and not x.get("inline")})
                if sorted(incs) != wantinc:
                    why.append("included sets listed %s, the sources include %s" % (sorted(incs), wantinc))
                if why and len(viol) < 8:
                    viol.append(({"property": pid, "kind": "failing-input", "engine": "show", "broken": "C19 oracle: wire show on a generated program", "input": {"prog": p, "set": s["id"]},
                                  "rendered_files": r.files(), "impl": {"show": out[-2500:]}, "oracle": why[:6], "seed": seed()}, True))
            else:
                obs = "ShAbsent"
                stats["absent"] += 1
            terms.append("(mkSCase %d %s %s %s (%d, %d) %s)" % (len(terms), synth.r_nats(order), gencase.r_set_pkg(s, r), nset_term(s), s["pkg"], s["id"], obs))
            meta.append((i, s["id"]))
    mism = []
    for sh_i in range(0, len(terms), 150):
        f = os.path.join(wd, "SCases_%d.v" % (sh_i // 150))
        with open(f, "w") as fh:
            fh.write(HEADER)
            fh.write("Definition cases : list scase := [\n" + ";\n".join(terms[sh_i:sh_i + 150]) + "\n].\n")
            fh.write("Definition M := Eval vm_compute in smismatches cases.\nPrint M.\n")
        rc, out, err = coqc(f)
        m = re.search(r"M\s*=\s*(\[.*?\])\s*:\s*list nat", out, re.S)
        if rc != 0 or not m:
            raise RuntimeError("coqc failed on %s: rc=%d\n%s\n%s" % (f, rc, out[-2000:], err[-3000:]))
        body = m.group(1).strip()[1:-1].strip()
        mism += [int(x) for x in re.findall(r"\d+", body)]
    have_input = {(json.dumps(v[0]["input"].get("prog"), sort_keys=True), v[0]["input"].get("set")) for v in viol}
    for j in mism[:6]:
        i, sid = meta[j]
        k = (json.dumps(progs[i], sort_keys=True), sid)
        if k in have_input:
            continue
        viol.append(({"property": pid, "kind": "no-failing-input-found", "engine": "show", "broken": "correspondence show: Show.show_set vs wire show",
                      "input": {"prog": progs[i], "set": sid}, "rendered_files": renders[i].files(), "impl": {"show": res[i][2][-2500:]}, "model_case": terms[j][:3000], "seed": seed()}, False))
    stats["model_vs_impl_mismatches"] = len(mism)
    shutil.rmtree(root, ignore_errors=True)
    return {"name": "show", "evaluations": stats["sets"], "distinct_nontrivial": stats["listed"], "samples": [{"case": terms[0][:600]}] if terms else [], "traces": len(progs),
            "stats": stats,
            "rule": "top-level provider-set variables of generated programs through `wire show`: the included named sets and the grouping of outputs by needed outside types, against "
                    "Show.show_set (vm_compute) and against the wording computed independently from the program",
            "violations": viol, "known": []}
