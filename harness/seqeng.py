"""Engine (C15/C01, file layout): packages of one to five files with random sequences of declarations (imports,
injectors, functions, methods, variables, constants, types; files with the wireinject tag and without, with and
without injectors) through `wire gen`; the sequence of section headers, injectors and copied declarations of
wire_gen.go is compared with Layout.layout (vm_compute), the package is compiled, and the property's wording (each
copyable declaration of an injector file exactly once, in source order, nothing else) is checked independently."""
import random
from concurrent.futures import ThreadPoolExecutor
from common import *

NAMES = ["a_inj.go", "wire.go", "inject.go", "m.go", "zz.go", "b.go", "wire_inj.go", "k_test_helper.go"]
TYPES = "package %s\n\ntype A struct{ N int }\n\nfunc NewA() A { return A{N: 1} }\n\ntype Base int\n"


def make_pkg(rng, pkg):
    """-> (files {name: text}, model [(name, [(kind, id)])] in file-name order)"""
    k = rng.choice([1, 1, 2, 2, 3, 4])
    names = rng.sample(NAMES, k)
    files, model = {"types.go": TYPES % pkg}, {"types.go": [("KOther", 9001), ("KOther", 9002), ("KOther", 9003)]}
    nid = [0]

    def fresh():
        nid[0] += 1
        return nid[0]
    any_inj = False
    for fn in names:
        tagged = rng.random() < 0.85
        n = rng.choice([0, 1, 2, 3, 4, 6])
        kinds = []
        for _ in range(n):
            kinds.append(rng.choice((["inj"] * 4 if tagged else []) + ["func", "var", "const", "type", "method", "func", "var"]))
        if tagged and rng.random() < 0.2:
            kinds = [x for x in kinds if x != "inj"]         # a tagged file without injectors: nothing of it is copied
        has_inj = "inj" in kinds
        any_inj = any_inj or has_inj
        body, decls = [], []
        if has_inj:
            i = fresh(); decls.append(("KImport", i)); body.append('import "github.com/google/wire"')
        if rng.random() < 0.3:
            i = fresh(); decls.append(("KImport", i)); body.append('import _ "embed"')
        for kd in kinds:
            i = fresh()
            if kd == "inj":
                decls.append(("KInjector", i))
                body.append("func Init%d() A {\n\t%s\n}" % (i, rng.choice(["wire.Build(NewA)\n\treturn A{}", "panic(wire.Build(NewA))"])))
            else:
                decls.append(("KOther", i))
                body.append({"func": "func helper%d() int { return %d }" % (i, i), "var": "var v%d = %d" % (i, i), "const": "const c%d = %d" % (i, i),
                             "type": "type T%d struct{ F int }" % i, "method": "func (Base) m%d() int { return %d }" % (i, i)}[kd])
        files[fn] = ("//go:build wireinject\n// +build wireinject\n\n" if tagged else "") + "package %s\n\n" % pkg + "\n\n".join(body) + "\n"
        model[fn] = decls
    order = sorted(model)
    return files, [(fn, model[fn]) for fn in order], any_inj


def observe(text, fid):
    items = []
    for line in text.split("\n"):
        m = re.match(r"^// Injectors from (\S+):$", line)
        if m:
            items.append("IInjHdr %d" % fid.get(m.group(1), 999)); continue
        m = re.match(r"^// (\S+\.go):$", line)
        if m:
            items.append("ICopyHdr %d" % fid.get(m.group(1), 999)); continue
        m = re.match(r"^func Init(\d+)\(", line)
        if m:
            items.append("IInj %s" % m.group(1)); continue
        m = (re.match(r"^func helper(\d+)\(", line) or re.match(r"^func \(Base\) m(\d+)\(", line) or re.match(r"^var v(\d+) ", line)
             or re.match(r"^const c(\d+) ", line) or re.match(r"^type T(\d+) ", line))
        if m:
            items.append("ICopy %s" % m.group(1)); continue
        if re.match(r"^(func|var|const|type) ", line):
            items.append("ICopy 99999")         # a top-level declaration the corpus did not write
    return items


def eng_seq(pid, tier, wd, known, replay=None):
    rng = random.Random(seed() * 7919 + 11)
    n = 48 if tier == "quick" else 400
    tools = build_tools()
    root = os.path.join(wd, "seq")
    os.makedirs(root, exist_ok=True)
    open(os.path.join(root, "go.mod"), "w").write("module example.com/q\n\ngo 1.21\n\nrequire github.com/google/wire v0.1.0\n\nreplace github.com/google/wire => %s\n" % REPO)
    shutil.copy(os.path.join(REPO, "go.sum"), os.path.join(root, "go.sum"))
    pk = []
    if replay is not None and replay.get("engine") == "seq" and replay.get("input", {}).get("files"):
        fl = replay["input"]["files"]
        pk = [(fl, [(a, [tuple(x) for x in b]) for a, b in replay["input"]["model"]], replay["input"]["any_inj"])]
    while len(pk) < n and replay is None:
        pk.append(make_pkg(rng, "p%d" % len(pk)))
    for i, (files, model, any_inj) in enumerate(pk):
        d = os.path.join(root, "p%d" % i)
        os.makedirs(d, exist_ok=True)
        for fn, t in files.items():
            open(os.path.join(d, fn), "w").write(re.sub(r"^package \w+$", "package p%d" % i, t, flags=re.M))

    def one(i):
        try:
            p = sh([tools["wire"], "gen", "./p%d" % i], cwd=root, env=GOENV, timeout=120, mem_gb=6)
            return i, p.returncode, p.stderr
        except subprocess.TimeoutExpired:
            return i, 124, "timeout"
    with ThreadPoolExecutor(max_workers=16) as ex:
        results = list(ex.map(one, range(len(pk))))
    b = sh(["go", "build", "./..."], cwd=root, env=GOENV, timeout=600)
    broken = set(int(x) for x in re.findall(r"^# example\.com/q/p(\d+)", b.stderr, re.M)) if b.returncode != 0 else set()
    viol, terms, stats = [], [], {"packages": len(pk), "files": 0, "declarations": 0, "copied": 0, "injectors": 0, "without_injectors": 0, "untouched_files_with_declarations": 0}
    for i, rc, err in results:
        files, model, any_inj = pk[i]
        inp = {"files": files, "model": model, "any_inj": any_inj}
        gen = os.path.join(root, "p%d" % i, "wire_gen.go")
        fid = {fn: j + 1 for j, (fn, _) in enumerate(model)}
        if rc != 0 or (any_inj and not os.path.exists(gen)) or i in broken:
            viol.append(({"property": pid, "kind": "failing-input", "engine": "seq", "broken": "wire gen on a package of valid declarations", "input": inp,
                          "impl": {"exit": rc, "stderr": err[:600], "build": b.stderr[:600] if i in broken else ""},
                          "oracle": ["wire gen failed, wrote nothing, or the package does not compile with the generated file"], "seed": seed()}, True))
            continue
        obs = observe(open(gen).read(), fid) if os.path.exists(gen) else []
        stats["files"] += len(model); stats["declarations"] += sum(len(d) for _, d in model)
        stats["injectors"] += sum(1 for x in obs if x.startswith("IInj ")); stats["copied"] += sum(1 for x in obs if x.startswith("ICopy "))
        stats["without_injectors"] += int(not any_inj)
        # the property's wording, independently of the model
        want_copy, want_inj = [], []
        for fn, decls in model:
            if any(k == "KInjector" for k, _ in decls):
                want_copy += [j for k, j in decls if k == "KOther"]
                want_inj += [j for k, j in decls if k == "KInjector"]
            elif any(k == "KOther" for k, _ in decls):
                stats["untouched_files_with_declarations"] += 1
        got_copy = [int(x.split()[1]) for x in obs if x.startswith("ICopy ")]
        got_inj = [int(x.split()[1]) for x in obs if x.startswith("IInj ")]
        why = []
        if got_copy != want_copy:
            why.append("copied declarations %s; the injector files hold, in order, %s" % (got_copy, want_copy))
        if got_inj != want_inj:
            why.append("generated injectors %s; the sources declare, in order, %s" % (got_inj, want_inj))
        if why:
            viol.append(({"property": pid, "kind": "failing-input", "engine": "seq", "broken": "C15/C01 oracle: declarations of the generated file", "input": inp,
                          "impl": {"generated": open(gen).read()[:3000] if os.path.exists(gen) else None}, "oracle": why, "seed": seed()}, True))
        terms.append("(%d, %s, %s)" % (i, coq_list(["(%d, %s)" % (fid[fn], coq_list(["mkDecl %s %d" % (k, j) for k, j in decls])) for fn, decls in model]), coq_list(obs)))
    mism = []
    if terms:
        f = os.path.join(wd, "LCases.v")
        with open(f, "w") as fh:
            fh.write("From Coq Require Import List.\nFrom Wire Require Import Layout.\nImport ListNotations.\n")
            fh.write("Definition cases : list (nat * list file * list item) := [\n" + ";\n".join(terms) + "\n].\n")
            fh.write("Definition M := Eval vm_compute in lmismatches cases.\nPrint M.\n")
        rc, out, err = coqc(f)
        m = re.search(r"M\s*=\s*(\[.*?\])\s*:\s*list nat", out, re.S)
        if rc != 0 or not m:
            raise RuntimeError("coqc failed on LCases.v: rc=%d\n%s\n%s" % (rc, out[-2000:], err[-3000:]))
        mism = [int(x) for x in re.findall(r"\d+", m.group(1))]
    flagged = {json.dumps(v[0]["input"]["files"], sort_keys=True) for v in viol}
    for i in mism[:6]:
        if json.dumps(pk[i][0], sort_keys=True) in flagged:
            continue
        viol.append(({"property": pid, "kind": "no-failing-input-found", "engine": "seq", "broken": "correspondence seq: Layout.layout vs the generated file",
                      "input": {"files": pk[i][0], "model": pk[i][1], "any_inj": pk[i][2]}, "seed": seed()}, False))
    stats["model_vs_impl_mismatches"] = len(mism)
    shutil.rmtree(root, ignore_errors=True)
    return {"name": "seq", "evaluations": stats["declarations"], "distinct_nontrivial": len(terms), "samples": [{"model": pk[0][1]}] if pk else [], "traces": len(terms), "stats": stats,
            "rule": "packages of one to five files with random declaration sequences (imports, injectors, functions, methods, variables, constants, types; files with and without the wireinject tag, "
                    "with and without injectors) through wire gen: the sequence of section headers, injectors and copied declarations of wire_gen.go against Layout.layout (vm_compute), "
                    "against the wording computed from the sources, and the package compiled",
            "violations": viol[:12], "known": []}
