// Package rt is the tracing runtime linked into generated test programs.
// It imports nothing, so loading and building stay fast.
package rt

var log []string
var failName string
var counter int

func itoa(n int) string {
	if n == 0 {
		return "0"
	}
	s := ""
	for n > 0 {
		s = string(rune('0'+n%10)) + s
		n /= 10
	}
	return s
}

// Reset starts a run in which the provider called failName (if any) fails.
func Reset(fail string) {
	log = log[:0]
	failName = fail
	counter = 0
}

// Call records a provider call and returns the identity of its result.
func Call(name string, args ...string) string {
	counter++
	id := "#" + itoa(counter)
	s := "call " + name + "("
	for i, a := range args {
		if i > 0 {
			s += ";"
		}
		s += a
	}
	log = append(log, s+")="+id)
	return id
}

// Fail reports whether the named provider must fail in this run.
func Fail(name string) bool { return name != "" && name == failName }

// Err is the error type returned by failing providers.
type Err struct{ Name string }

func (e *Err) Error() string { return "err:" + e.Name }

// ErrDesc describes an error value.
func ErrDesc(e error) string {
	if e == nil {
		return "nil"
	}
	return e.Error()
}

// Cleanup records the invocation of a provider's cleanup function.
func Cleanup(name string) { log = append(log, "cleanup "+name) }

// Note records a free-form event.
func Note(s string) { log = append(log, s) }

// Dump prints the run's log under a header and clears it.
func Dump(header string) {
	println("RUN " + header)
	for _, l := range log {
		println(l)
	}
	println("END")
	log = log[:0]
}

var addrs = map[interface{}]int{}

// Addr gives each distinct pointer a small number.
func Addr(p interface{}) string {
	n, ok := addrs[p]
	if !ok {
		n = len(addrs) + 1
		addrs[p] = n
	}
	return "@" + itoa(n)
}
