module verif.local/gotools

go 1.21
