// Readback parses generated wire_gen.go files and prints, as JSON, the structure the emission model
// predicts: imports, injector signatures and the statement list of every function body.
package main

import (
	"bytes"
	"encoding/json"
	"go/ast"
	"go/parser"
	"go/printer"
	"go/token"
	"os"
	"strings"
)

type Fn struct {
	Name    string   `json:"name"`
	Doc     []string `json:"doc"`
	Params  []string `json:"params"`  // "name type"
	Results []string `json:"results"` // types
	Stmts   []Stmt   `json:"stmts"`
}

type Stmt struct {
	Kind  string   `json:"kind"` // define | iferr | return | other
	Lhs   []string `json:"lhs,omitempty"`
	Rhs   string   `json:"rhs,omitempty"`
	Cond  string   `json:"cond,omitempty"`
	Body  []Stmt   `json:"body,omitempty"`
	Exprs []string `json:"exprs,omitempty"`
	Calls []string `json:"calls,omitempty"` // for expression statements / closure bodies
	Text  string   `json:"text,omitempty"`
}

type File struct {
	Path        string     `json:"path"`
	Error       string     `json:"error,omitempty"`
	Package     string     `json:"package"`
	Header      []string   `json:"header"`
	Imports     [][]string `json:"imports"` // [alias-or-empty, path]
	Funcs       []Fn       `json:"funcs"`
	Vars        [][]string `json:"vars"`  // [name, expr]
	Other       []string   `json:"other"` // other top-level declarations, printed
	SectionCmts []string   `json:"section_comments"`
	Seq         []string   `json:"seq"` // declaration order: F:<func>, V:<var>, O
}

var fset = token.NewFileSet()

func show(n ast.Node) string {
	var b bytes.Buffer
	printer.Fprint(&b, fset, n)
	return strings.Join(strings.Fields(b.String()), " ")
}

func stmts(list []ast.Stmt) []Stmt {
	var out []Stmt
	for _, s := range list {
		switch s := s.(type) {
		case *ast.AssignStmt:
			st := Stmt{Kind: "define"}
			if s.Tok != token.DEFINE {
				st.Kind = "assign"
			}
			for _, l := range s.Lhs {
				st.Lhs = append(st.Lhs, show(l))
			}
			var rs []string
			for _, r := range s.Rhs {
				rs = append(rs, show(r))
			}
			st.Rhs = strings.Join(rs, ", ")
			out = append(out, st)
		case *ast.IfStmt:
			st := Stmt{Kind: "if", Cond: show(s.Cond), Body: stmts(s.Body.List)}
			if s.Init != nil || s.Else != nil {
				st.Kind = "other"
				st.Text = show(s)
			}
			out = append(out, st)
		case *ast.ReturnStmt:
			st := Stmt{Kind: "return"}
			for _, r := range s.Results {
				if fl, ok := r.(*ast.FuncLit); ok {
					var calls []string
					okc := true
					for _, b := range fl.Body.List {
						es, isE := b.(*ast.ExprStmt)
						if !isE {
							okc = false
							break
						}
						calls = append(calls, show(es.X))
					}
					if okc && fl.Type.Params.NumFields() == 0 && fl.Type.Results == nil {
						st.Exprs = append(st.Exprs, "func(){"+strings.Join(calls, ";")+"}")
						continue
					}
				}
				st.Exprs = append(st.Exprs, show(r))
			}
			out = append(out, st)
		case *ast.ExprStmt:
			out = append(out, Stmt{Kind: "expr", Text: show(s.X)})
		default:
			out = append(out, Stmt{Kind: "other", Text: show(s)})
		}
	}
	return out
}

func main() {
	var files []File
	for _, path := range os.Args[1:] {
		f := File{Path: path}
		src, err := os.ReadFile(path)
		if err != nil {
			f.Error = err.Error()
			files = append(files, f)
			continue
		}
		af, err := parser.ParseFile(fset, path, src, parser.ParseComments)
		if err != nil {
			f.Error = err.Error()
			files = append(files, f)
			continue
		}
		f.Package = af.Name.Name
		for _, cg := range af.Comments {
			if cg.End() < af.Package {
				for _, c := range cg.List {
					f.Header = append(f.Header, c.Text)
				}
			} else {
				for _, c := range cg.List {
					if strings.HasPrefix(c.Text, "// Injectors from ") || (strings.HasPrefix(c.Text, "// ") && strings.HasSuffix(c.Text, ".go:")) {
						f.SectionCmts = append(f.SectionCmts, c.Text)
					}
				}
			}
		}
		for _, im := range af.Imports {
			alias := ""
			if im.Name != nil {
				alias = im.Name.Name
			}
			f.Imports = append(f.Imports, []string{alias, strings.Trim(im.Path.Value, "\"")})
		}
		for _, d := range af.Decls {
			switch d := d.(type) {
			case *ast.FuncDecl:
				fn := Fn{Name: d.Name.Name}
				if d.Doc != nil {
					for _, c := range d.Doc.List {
						fn.Doc = append(fn.Doc, c.Text)
					}
				}
				if d.Recv != nil {
					f.Other = append(f.Other, show(d))
					f.Seq = append(f.Seq, "O")
					continue
				}
				for _, p := range d.Type.Params.List {
					t := show(p.Type)
					if len(p.Names) == 0 {
						fn.Params = append(fn.Params, " "+t)
					}
					for _, n := range p.Names {
						fn.Params = append(fn.Params, n.Name+" "+t)
					}
				}
				if d.Type.Results != nil {
					for _, r := range d.Type.Results.List {
						k := len(r.Names)
						if k == 0 {
							k = 1
						}
						for i := 0; i < k; i++ {
							fn.Results = append(fn.Results, show(r.Type))
						}
					}
				}
				if d.Body != nil {
					fn.Stmts = stmts(d.Body.List)
				}
				f.Funcs = append(f.Funcs, fn)
				f.Seq = append(f.Seq, "F:"+fn.Name)
			case *ast.GenDecl:
				if d.Tok == token.IMPORT {
					continue
				}
				if d.Tok == token.VAR {
					allWire := true
					var vs [][]string
					for _, sp := range d.Specs {
						v := sp.(*ast.ValueSpec)
						if len(v.Names) != 1 || len(v.Values) != 1 || !strings.HasPrefix(v.Names[0].Name, "_wire") {
							allWire = false
							break
						}
						vs = append(vs, []string{v.Names[0].Name, show(v.Values[0])})
					}
					if allWire {
						f.Vars = append(f.Vars, vs...)
						for _, v := range vs {
							f.Seq = append(f.Seq, "V:"+v[0])
						}
						continue
					}
				}
				f.Other = append(f.Other, show(d))
				f.Seq = append(f.Seq, "O")
			}
		}
		files = append(files, f)
	}
	enc := json.NewEncoder(os.Stdout)
	enc.Encode(files)
}
