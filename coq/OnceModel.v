From Coq Require Import List Arith Lia Bool.
From Wire Require Import Sets Solve Used Model ModelThms Bridge ProcessWF Once.
Import ListNotations.

(* C02, "... and only if the result transitively depends on it", for every accepted build set: whatever the planner
   calls is reachable from the injector's result type; and no type is built twice. *)
Theorem accepted_calls_needed tyorder root args out pm s usedk :
  process_set tyorder args root = inl pm ->
  machine2 (core_pm pm) (List.length args) (solve_fuel pm) [out] (init_state args) [] = Some (s, usedk) ->
  forall c, In c (calls s) -> reach (core_pm pm) out (Solve.c_out c).
Proof.
  intros Hp Hm c Hc.
  assert (Hu : In (Solve.c_out c) usedk).
  { eapply machine2_calls_used; [exact Hm| |exact Hc]. intros c0 H0. destruct H0. }
  apply (accepted_used tyorder root args out pm s usedk Hp Hm) in Hu. tauto.
Qed.

Theorem accepted_calls_once tyorder root args out pm s usedk i j c c' :
  process_set tyorder args root = inl pm ->
  machine2 (core_pm pm) (List.length args) (solve_fuel pm) [out] (init_state args) [] = Some (s, usedk) ->
  nth_error (calls s) i = Some c -> nth_error (calls s) j = Some c' -> Solve.c_out c = Solve.c_out c' -> i = j.
Proof. intros _ Hm. eapply each_type_built_once; eauto. Qed.
