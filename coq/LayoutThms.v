From Coq Require Import List Arith Bool Lia.
From Wire Require Import Layout.
Import ListNotations.

(* "Exactly one generated implementation" (C01): the injector items of the generated file are pairwise distinct, and
   so is the whole file -- no header, injector or copied declaration is emitted twice. *)

Definition section (p : decl -> bool) (H I : nat -> item) (x : file) : list item :=
  match filter p (snd x) with [] => [] | l => H (fst x) :: map (fun d => I (d_id d)) l end.

Lemma inj_section_is x : inj_section x = section is_inj IInjHdr IInj x.
Proof. reflexivity. Qed.

Lemma copy_section_is x : copy_section x = section copyable ICopyHdr ICopy x.
Proof. reflexivity. Qed.

Section Gen.
Variables (p : decl -> bool) (H I : nat -> item).
Hypothesis H_inj : forall a b, H a = H b -> a = b.
Hypothesis I_inj : forall a b, I a = I b -> a = b.
Hypothesis HI : forall a b, H a <> I b.

Lemma in_section_I x id : In (I id) (section p H I x) -> exists d, In d (snd x) /\ d_id d = id.
Proof.
  unfold section. destruct (filter p (snd x)) as [|d0 l] eqn:E; [intros []|]. rewrite <- E.
  intros [Hh|Hi]; [exfalso; eapply HI; eauto|].
  apply in_map_iff in Hi. destruct Hi as [d [Ed Hd]]. apply I_inj in Ed. apply filter_In in Hd. exists d. tauto.
Qed.

Lemma in_section_H x f : In (H f) (section p H I x) -> f = fst x.
Proof.
  unfold section. destruct (filter p (snd x)) as [|d0 l] eqn:E; [intros []|]. rewrite <- E.
  intros [Hh|Hi]; [apply H_inj in Hh; auto|].
  apply in_map_iff in Hi. destruct Hi as [d [Ed _]]. exfalso. eapply HI; eauto.
Qed.

Lemma section_items x it : In it (section p H I x) -> it = H (fst x) \/ exists d, In d (snd x) /\ it = I (d_id d).
Proof.
  unfold section. destruct (filter p (snd x)) as [|d0 l] eqn:E; [intros []|]. rewrite <- E.
  intros [<-|Hi]; auto. apply in_map_iff in Hi. destruct Hi as [d [<- Hd]]. apply filter_In in Hd. right. exists d. tauto.
Qed.

Lemma NoDup_sub_filter (l : list decl) : NoDup (map d_id l) -> NoDup (map (fun d => I (d_id d)) (filter p l)).
Proof.
  induction l as [|d l IH]; cbn; intros Hn; [constructor|]. inversion Hn as [|? ? Hx Hr]; subst.
  destruct (p d); cbn; auto. constructor; auto.
  intros Hi. apply in_map_iff in Hi. destruct Hi as [e [Ee He]]. apply I_inj in Ee. apply filter_In in He.
  apply Hx. rewrite <- Ee. apply in_map. tauto.
Qed.

Lemma section_nodup x : NoDup (map d_id (snd x)) -> NoDup (section p H I x).
Proof.
  intros Hn. unfold section. destruct (filter p (snd x)) as [|d0 l] eqn:E; [constructor|]. rewrite <- E.
  constructor; [|apply NoDup_sub_filter; exact Hn].
  intros Hi. apply in_map_iff in Hi. destruct Hi as [d [Ed _]]. eapply HI; eauto.
Qed.

Theorem sections_once : forall l : list file,
  NoDup (map fst l) -> NoDup (map d_id (all_decls l)) -> NoDup (concat (map (section p H I) l)).
Proof.
  induction l as [|x r IH]; cbn [map concat]; intros Hf Hd; [constructor|].
  inversion Hf as [|? ? Hnx Hfr]; subst. unfold all_decls in Hd. cbn [map concat] in Hd. rewrite map_app in Hd.
  assert (Hd1 : NoDup (map d_id (snd x))).
  { clear - Hd. induction (map d_id (snd x)) as [|a l IHl]; [constructor|]. cbn in Hd. inversion Hd; subst.
    constructor; auto. intros Hin. apply H1. apply in_or_app. auto. }
  assert (Hd2 : NoDup (map d_id (all_decls r))).
  { clear - Hd. unfold all_decls. induction (map d_id (snd x)) as [|a l IHl]; auto. cbn in Hd. inversion Hd; auto. }
  assert (Hdis : forall i, In i (map d_id (snd x)) -> ~ In i (map d_id (all_decls r))).
  { clear - Hd. unfold all_decls. induction (map d_id (snd x)) as [|a l IHl]; [intros i []|]. cbn in Hd. inversion Hd; subst.
    intros i [->|Hi]; auto. intros Hin. apply H1. apply in_or_app. auto. }
  apply NoDup_app_intro; [apply section_nodup; exact Hd1|apply IH; auto|].
  intros it H1 H2. apply in_concat_map in H2. destruct H2 as [y [Hy H2]].
  apply section_items in H1. apply section_items in H2.
  destruct H1 as [->|[d [Hdx ->]]], H2 as [E|[e [Hey E]]].
  - apply H_inj in E. apply Hnx. rewrite E. apply in_map. exact Hy.
  - eapply HI; eauto.
  - symmetry in E. eapply HI; eauto.
  - apply I_inj in E. apply (Hdis (d_id d)); [apply in_map; exact Hdx|].
    rewrite E. apply in_map. apply in_concat_map. eauto.
Qed.
End Gen.

Theorem injectors_once fs : NoDup (map fst fs) -> NoDup (map d_id (all_decls fs)) ->
  NoDup (concat (map inj_section fs)).
Proof.
  intros Hf Hd. apply (sections_once is_inj IInjHdr IInj); auto.
  - intros a b E. injection E; auto.
  - intros a b E. injection E; auto.
  - intros a b E. discriminate.
Qed.

(* the whole file: nothing is emitted twice *)
Theorem layout_nodup fs : NoDup (map fst fs) -> NoDup (map d_id (all_decls fs)) -> NoDup (layout fs).
Proof.
  intros Hf Hd. rewrite layout_is_spec by exact Hf. unfold layout_spec.
  apply NoDup_app_intro; [apply injectors_once; auto|apply copied_once; auto|].
  intros it H1 H2. apply in_concat_map in H1. apply in_concat_map in H2.
  destruct H1 as [x [_ H1]]. destruct H2 as [y [_ H2]].
  rewrite inj_section_is in H1. rewrite copy_section_is in H2.
  apply section_items in H1. apply section_items in H2.
  destruct H1 as [->|[d [_ ->]]], H2 as [E|[e [_ E]]]; discriminate.
Qed.
