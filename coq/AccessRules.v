From Coq Require Import List Bool.
Import ListNotations.

(* wire.go:accessibleFrom -- may the injector's package (wantPkg) repeat a value expression written in another
   package?  ast.Inspect walks the expression in pre-order; the first offending node decides the message.
   What the walk looks at, per node:
     - an identifier denoting an imported package name: fine (the generated file re-imports it);
     - an identifier denoting an object without a package (universe, nil): fine;
     - an identifier denoting an object of package p:
         not exported and p <> wantPkg                                   -> "uses unexported identifier"
         declared in p's package scope, p <> wantPkg, p not importable    -> "is internal"        (fix f6837fa)
         declared in a scope that is neither nil nor p's package scope    -> "not declared in package scope"
       (fields and methods have no parent scope: only the first test applies to them);
     - an unkeyed composite literal of a struct type with a field that is unexported and belongs to a package other
       than wantPkg                                                       -> "sets unexported field" (fix 67c3c12);
       the walk goes on into the literal's elements. *)

Inductive where_declared := PkgScope | NoScope | LocalScope.

Inductive mention :=
| MPkgName
| MNoPkg
| MObj (foreign exported : bool) (decl : where_declared) (importable : bool)
| MUnkeyedLit (foreign_unexported_field : bool).

Inductive verdict := Ok | ErrUnexported | ErrInternal | ErrLocal | ErrUnkeyed.

Definition check1 (m : mention) : verdict :=
  match m with
  | MPkgName | MNoPkg => Ok
  | MObj foreign exported decl importable =>
    if negb exported && foreign then ErrUnexported
    else match decl with
         | PkgScope => if foreign && negb importable then ErrInternal else Ok
         | LocalScope => ErrLocal
         | NoScope => Ok
         end
  | MUnkeyedLit bad => if bad then ErrUnkeyed else Ok
  end.

(* the walk: first offending node *)
Fixpoint accessible_from (ms : list mention) : verdict :=
  match ms with
  | [] => Ok
  | m :: r => match check1 m with Ok => accessible_from r | e => e end
  end.

(* what an accessible mention is, in the property's words: the injector's package can name it *)
Definition nameable (m : mention) : Prop :=
  match m with
  | MPkgName | MNoPkg => True
  | MObj foreign exported decl importable =>
    (exported = true \/ foreign = false) /\ decl <> LocalScope /\ (decl = PkgScope -> foreign = true -> importable = true)
  | MUnkeyedLit bad => bad = false
  end.

Lemma check1_ok m : check1 m = Ok <-> nameable m.
Proof.
  destruct m as [| |foreign exported decl importable|bad]; cbn; try tauto.
  - destruct exported, foreign, decl, importable; cbn; split; try discriminate; try tauto; intros; try reflexivity;
      repeat split; auto; try discriminate; intuition discriminate.
  - destruct bad; split; intros; try discriminate; auto.
Qed.

(* accepted iff everything the expression mentions can be named from the injector's package *)
Theorem accessible_iff ms : accessible_from ms = Ok <-> Forall nameable ms.
Proof.
  induction ms as [|m r IH]; cbn; [split; auto|].
  destruct (check1 m) eqn:E.
  - rewrite IH. split; [intros H; constructor; auto; apply check1_ok; exact E|intros H; inversion H; auto].
  - split; [discriminate|intros H; inversion H as [|? ? Hm _]; subst; apply check1_ok in Hm; congruence].
  - split; [discriminate|intros H; inversion H as [|? ? Hm _]; subst; apply check1_ok in Hm; congruence].
  - split; [discriminate|intros H; inversion H as [|? ? Hm _]; subst; apply check1_ok in Hm; congruence].
  - split; [discriminate|intros H; inversion H as [|? ? Hm _]; subst; apply check1_ok in Hm; congruence].
Qed.

(* the reported class is that of the first mention that cannot be named *)
Theorem first_offender ms e : accessible_from ms = e -> e <> Ok ->
  exists a m b, ms = a ++ m :: b /\ Forall nameable a /\ check1 m = e.
Proof.
  revert e. induction ms as [|m r IH]; cbn; intros e H He; [congruence|].
  destruct (check1 m) eqn:E.
  - destruct (IH e H He) as (a & m' & b & -> & Ha & Hm). exists (m :: a), m', b. repeat split; auto.
    constructor; auto. apply check1_ok. exact E.
  - exists [], m, r. subst e. repeat split; auto.
  - exists [], m, r. subst e. repeat split; auto.
  - exists [], m, r. subst e. repeat split; auto.
  - exists [], m, r. subst e. repeat split; auto.
Qed.

(* ---- evaluation for the correspondence ---- *)
Definition verdict_eqb (a b : verdict) : bool :=
  match a, b with
  | Ok, Ok | ErrUnexported, ErrUnexported | ErrInternal, ErrInternal | ErrLocal, ErrLocal | ErrUnkeyed, ErrUnkeyed => true
  | _, _ => false
  end.

Definition amismatches (ks : list (nat * list mention * verdict)) : list nat :=
  flat_map (fun k => if verdict_eqb (accessible_from (snd (fst k))) (snd k) then [] else [fst (fst k)]) ks.
