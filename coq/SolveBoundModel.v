From Coq Require Import List Arith Lia Bool.
From Wire Require Import Sets Acyclic Solve Names Front Exec Model ModelThms Bridge ProcessWF SolveBound.
Import ListNotations.

(* C07 on the concrete model: for every provider map the analysis accepted, the planner's loop completes within the
   model's explicit bound solve_fuel = 4 + 2 (keys + dependency edges): it never runs out of fuel, and its running
   time does not depend on the number of paths through the graph. *)

Lemma wt_le_succ pm k : wt (core_pm pm) k <= 2 + List.length (succ_of pm k).
Proof.
  unfold wt, deg, core_pm, succ_of. destruct (look pm k) as [e|]; [|lia]. cbn [conc wh].
  destruct (negb (e_conc e =? k)); [lia|].
  destruct (e_what e) as [i|p|v|f]; cbn [core_what]; cbn; lia.
Qed.

Lemma Wmax_le_fuel pm : 2 + Wmax (core_pm pm) (keys pm) <= solve_fuel pm.
Proof.
  unfold Wmax, solve_fuel.
  assert (G : forall l : pmap entry,
            fold_right (fun k n => wt (core_pm pm) k + n) 0 (keys l) <=
            2 * List.length l + fold_right (fun kv n => List.length (succ_of pm (fst kv)) + n) 0 l).
  { induction l as [|[k e] r IH]; [cbn; lia|]. unfold keys in *. cbn [map fst fold_right List.length].
    pose proof (wt_le_succ pm k). lia. }
  specialize (G pm). lia.
Qed.

Section Concrete.
Variable tyorder : list nat.
Variable pm : pmap entry.
Variable args : list nat.
Hypothesis Hwf : wfb pm args = true.
Hypothesis Hver : verify tyorder pm = [].

Theorem solve_never_out_of_fuel out :
  exists s usedk, machine2 (core_pm pm) (List.length args) (solve_fuel pm) [out] (init_state args) [] = Some (s, usedk).
Proof.
  destruct (solve_steps_bounded (core_pm pm) (List.length args) (keys pm) (KEYS pm)
              (core_acyclic tyorder pm args Hwf Hver) args out (init_state args) eq_refl
              (init_args_indexed pm args Hwf)) as (s' & _ & Hm).
  pose proof (Wmax_le_fuel pm) as Hle.
  assert (Hm2 : machine (core_pm pm) (List.length args) (solve_fuel pm) [out] (init_state args) = Some s').
  { replace (solve_fuel pm) with ((solve_fuel pm - (2 + Wmax (core_pm pm) (keys pm))) + (2 + Wmax (core_pm pm) (keys pm))) by lia.
    apply machine_more'. exact Hm. }
  pose proof (machine2_fst (core_pm pm) (List.length args) (solve_fuel pm) [out] (init_state args) []) as Hf.
  rewrite Hm2 in Hf.
  destruct (machine2 (core_pm pm) (List.length args) (solve_fuel pm) [out] (init_state args) []) as [[s u]|]; [|discriminate].
  exists s, u. reflexivity.
Qed.
End Concrete.

(* for every set the analysis accepts *)
Theorem accepted_solve_never_out_of_fuel tyorder args s pm out :
  process_set tyorder args s = inl pm ->
  exists st usedk, machine2 (core_pm pm) (List.length args) (solve_fuel pm) [out] (init_state args) [] = Some (st, usedk).
Proof.
  intros H. pose proof (process_set_wfb tyorder args s pm H) as Hw.
  pose proof (process_set_verify tyorder args s pm H) as Hv.
  exact (solve_never_out_of_fuel tyorder pm args Hw Hv out).
Qed.
