From Coq Require Import List Arith Lia Bool.
From Wire Require Import Exec.
Import ListNotations.

(* Corollaries of Exec.C03_failure / Exec.C04_success in the words of the properties: exactly once, dependents
   first, nothing after the failure, never the failing provider's own cleanup. *)

(* steps whose arguments are results of earlier steps (what the planner produces: Solve's Good invariant) *)
Fixpoint well_ordered (earlier : list nat) (plan : list pstep) : Prop :=
  match plan with
  | [] => True
  | s :: r => (forall a, In a (p_args s) -> In a earlier) /\ well_ordered (p_id s :: earlier) r
  end.

Definition before {A} (x y : A) (l : list A) : Prop := exists l1 l2 l3, l = l1 ++ x :: l2 ++ y :: l3.

Lemma cleanup_owners_app p q : cleanup_owners (p ++ q) = cleanup_owners p ++ cleanup_owners q.
Proof. unfold cleanup_owners. rewrite filter_app, map_app. reflexivity. Qed.

Lemma cleanup_owners_in plan x :
  In x (cleanup_owners plan) <-> exists s, In s plan /\ p_cleanup s = true /\ p_id s = x.
Proof.
  unfold cleanup_owners. rewrite in_map_iff. split.
  - intros [s [E H]]. apply filter_In in H. destruct H as [H1 H2]. exists s. auto.
  - intros [s [H1 [H2 E]]]. exists s. split; auto. apply filter_In. auto.
Qed.

Lemma cleanup_owners_nodup plan : NoDup (map p_id plan) -> NoDup (cleanup_owners plan).
Proof.
  unfold cleanup_owners. induction plan as [|s r IH]; cbn; intros H; [constructor|].
  inversion H as [|? ? Hn Hr]; subst. destruct (p_cleanup s); cbn; auto.
  constructor; auto. intros Hin. apply Hn. apply in_map_iff in Hin. destruct Hin as [t [E Ht]].
  apply filter_In in Ht. apply in_map_iff. exists t. tauto.
Qed.

Lemma NoDup_map_inj {A B} (f : A -> B) l : NoDup l -> (forall x y, f x = f y -> x = y) -> NoDup (map f l).
Proof.
  induction 1 as [|x l Hn Hd IH]; cbn; intros Hi; constructor; auto.
  intros H. apply in_map_iff in H. destruct H as [y [E Hy]]. apply Hi in E. subst. auto.
Qed.

Lemma NoDup_app_disj {A} (l1 l2 : list A) x : NoDup (l1 ++ l2) -> In x l1 -> In x l2 -> False.
Proof.
  induction l1 as [|y r IH]; cbn; intros Hnd H1 H2; [destruct H1|].
  inversion Hnd as [|? ? Hn Hr]; subst. destruct H1 as [->|H1]; [apply Hn, in_or_app; auto|eauto].
Qed.

Lemma NoDup_app_l {A} (l1 l2 : list A) : NoDup (l1 ++ l2) -> NoDup l1.
Proof.
  induction l1 as [|y r IH]; cbn; intros Hnd; [constructor|].
  inversion Hnd as [|? ? Hn Hr]; subst. constructor; auto. intros H. apply Hn, in_or_app. auto.
Qed.

(* the position of a later step in the plan: split the plan at two steps *)
Lemma split_two (plan : list pstep) a b :
  before a b plan -> exists p1 p2 p3, plan = p1 ++ a :: p2 ++ b :: p3.
Proof. intros H. exact H. Qed.

(* --------------------------------------------------------------- C04 *)
Section Success.
Variable fails : nat -> bool.
Variables (plan pre : list pstep).
Hypothesis Hok : split_fail fails plan = (pre, None).
Hypothesis Hids : NoDup (map p_id plan).

Let cleanup_trace := snd (run_code fails (emit plan true)).

Lemma cleanup_trace_eq : cleanup_trace = map ECleanup (rev (cleanup_owners plan)).
Proof. unfold cleanup_trace. rewrite (C04_success fails plan pre Hok). reflexivity. Qed.

(* every cleanup-returning provider's cleanup is invoked, nothing else is *)
Theorem cleanup_runs_iff x :
  In (ECleanup x) cleanup_trace <-> exists s, In s plan /\ p_cleanup s = true /\ p_id s = x.
Proof.
  rewrite cleanup_trace_eq, <- cleanup_owners_in. rewrite in_map_iff. split.
  - intros [y [E H]]. injection E as ->. apply in_rev. exact H.
  - intros H. exists x. split; auto. apply in_rev in H. exact H.
Qed.

(* ... exactly once *)
Theorem cleanup_runs_once : NoDup cleanup_trace.
Proof.
  rewrite cleanup_trace_eq. apply NoDup_map_inj; [|intros x y E; injection E; auto].
  apply NoDup_rev. apply cleanup_owners_nodup. exact Hids.
Qed.

(* ... later providers first *)
Theorem cleanup_reverse_order a b :
  before a b plan -> p_cleanup a = true -> p_cleanup b = true ->
  before (ECleanup (p_id b)) (ECleanup (p_id a)) cleanup_trace.
Proof.
  intros [p1 [p2 [p3 E]]] Ha Hb. rewrite cleanup_trace_eq, E.
  replace (p1 ++ a :: p2 ++ b :: p3) with (p1 ++ [a] ++ p2 ++ [b] ++ p3) by reflexivity.
  rewrite !cleanup_owners_app. unfold cleanup_owners at 2 4. cbn [filter map]. rewrite Ha, Hb. cbn [map].
  rewrite !rev_app_distr. cbn [rev app]. rewrite !map_app. cbn [map].
  exists (map ECleanup (rev (cleanup_owners p3))), (map ECleanup (rev (cleanup_owners p2))), (map ECleanup (rev (cleanup_owners p1))).
  rewrite <- !app_assoc. reflexivity.
Qed.

(* no provider cleanup runs during the call itself *)
Theorem no_cleanup_before_return x : ~ In (ECleanup x) (fst (run_code fails (emit plan true))).
Proof.
  rewrite (C04_success fails plan pre Hok). cbn [fst]. intros H. apply in_app_or in H. destruct H as [H|[H|[]]]; [|discriminate].
  apply in_map_iff in H. destruct H as [y [E _]]. discriminate.
Qed.
End Success.

(* a provider's cleanup runs before the cleanup of anything it was built from *)
Lemma well_ordered_arg_earlier : forall plan earlier b a,
  well_ordered earlier plan -> In b plan -> In a (p_args b) ->
  In a earlier \/ exists s, before s b plan /\ p_id s = a.
Proof.
  induction plan as [|s r IH]; intros earlier b a Hw Hb Ha; [destruct Hb|].
  cbn in Hw. destruct Hw as [Hs Hr]. destruct Hb as [->|Hb].
  - left. auto.
  - destruct (IH _ _ _ Hr Hb Ha) as [[E|H]|[t [[l1 [l2 [l3 E]]] Et]]].
    + right. exists s. split; auto. apply in_split in Hb. destruct Hb as [l2 [l3 E2]].
      exists [], l2, l3. cbn. rewrite E2. reflexivity.
    + left. exact H.
    + right. exists t. split; auto. exists (s :: l1), l2, l3. cbn. rewrite E. reflexivity.
Qed.

Theorem cleanup_dependents_first fails plan pre b a :
  split_fail fails plan = (pre, None) -> well_ordered [] plan ->
  In b plan -> p_cleanup b = true -> In a (p_args b) ->
  forall s, In s plan -> p_id s = a -> p_cleanup s = true -> NoDup (map p_id plan) ->
  before (ECleanup (p_id b)) (ECleanup a) (snd (run_code fails (emit plan true))).
Proof.
  intros Hok Hw Hb Hcb Ha s Hs Es Hcs Hnd.
  destruct (well_ordered_arg_earlier _ _ _ _ Hw Hb Ha) as [[]|[t [Hbef Et]]].
  assert (t = s).
  { destruct Hbef as [l1 [l2 [l3 E]]]. assert (Ht : In t plan) by (rewrite E; apply in_or_app; right; left; reflexivity).
    clear - Hnd Ht Hs Et Es. rewrite <- Es in Et. clear Es. induction plan as [|x r IH]; [destruct Ht|].
    cbn in Hnd. inversion Hnd as [|? ? Hn Hr]; subst.
    destruct Ht as [->|Ht], Hs as [E|Hs]; auto.
    - exfalso. apply Hn. rewrite Et. apply in_map. exact Hs.
    - subst x. exfalso. apply Hn. rewrite <- Et. apply in_map. exact Ht. }
  subst t. rewrite <- Es. apply (cleanup_reverse_order fails plan pre Hok s b); auto.
Qed.

(* --------------------------------------------------------------- C03 *)
Section Failure.
Variable fails : nat -> bool.
Variables (plan pre : list pstep) (s : pstep) (sigc : bool).
Hypothesis Hf : split_fail fails plan = (pre, Some s).
Hypothesis Hids : NoDup (map p_id plan).

Let trace := fst (run_code fails (emit plan sigc)).

Lemma trace_eq : trace = map ECall (map p_id pre) ++ [ECall (p_id s)]
                          ++ map ECleanup (rev (cleanup_owners pre)) ++ [EReturnErr (p_id s)].
Proof. unfold trace. rewrite (C03_failure fails plan sigc pre s Hf). reflexivity. Qed.

Lemma split_fail_shape : forall pl pr f, split_fail fails pl = (pr, Some f) -> exists post, pl = pr ++ f :: post.
Proof.
  induction pl as [|x r IH]; cbn; intros pr f H; [discriminate|].
  destruct (p_err x && fails (p_id x)).
  - injection H as <- <-. exists r. reflexivity.
  - destruct (split_fail fails r) as [pre' f'] eqn:E. injection H as <- ->.
    destruct (IH _ _ eq_refl) as [post Ep]. exists post. cbn. rewrite Ep. reflexivity.
Qed.

(* no provider after the failing one is called *)
Theorem nothing_called_after_failure x :
  In (ECall x) trace <-> In x (map p_id pre) \/ x = p_id s.
Proof.
  rewrite trace_eq. rewrite !in_app_iff. split.
  - intros [H|[[H|[]]|[H|[H|[]]]]].
    + apply in_map_iff in H. destruct H as [y [E Hy]]. injection E as ->. auto.
    + injection H as ->. auto.
    + apply in_map_iff in H. destruct H as [y [E _]]. discriminate.
    + discriminate.
  - intros [H| ->]; [left; apply in_map; exact H|right; left; left; reflexivity].
Qed.

Theorem later_providers_not_called post x :
  plan = pre ++ s :: post -> In x (map p_id post) -> ~ In (ECall x) trace.
Proof.
  intros E Hx H. apply nothing_called_after_failure in H. rewrite E in Hids.
  rewrite map_app in Hids. cbn in Hids. apply NoDup_remove in Hids. destruct Hids as [Hnd Hn].
  destruct H as [H| ->].
  - eapply NoDup_app_disj; eauto.
  - apply Hn. apply in_or_app. auto.
Qed.

(* the failing provider's own cleanup is never invoked; the cleanups invoked are exactly those of the providers that had succeeded *)
Theorem unwound_iff x :
  In (ECleanup x) trace <-> exists t, In t pre /\ p_cleanup t = true /\ p_id t = x.
Proof.
  rewrite trace_eq, <- cleanup_owners_in. rewrite !in_app_iff. split.
  - intros [H|[[H|[]]|[H|[H|[]]]]]; try discriminate.
    + apply in_map_iff in H. destruct H as [y [E _]]. discriminate.
    + apply in_map_iff in H. destruct H as [y [E Hy]]. injection E as ->. apply in_rev. exact Hy.
  - intros H. right. right. left. apply in_map. apply in_rev in H. exact H.
Qed.

Theorem own_cleanup_never_runs : ~ In (ECleanup (p_id s)) trace.
Proof.
  intros H. apply unwound_iff in H. destruct H as [t [Ht [_ E]]].
  destruct (split_fail_shape _ _ _ Hf) as [post Ep]. rewrite Ep in Hids. rewrite map_app in Hids. cbn in Hids.
  apply NoDup_remove_2 in Hids. apply Hids. apply in_or_app. left. rewrite <- E. apply in_map. exact Ht.
Qed.

Theorem unwound_once : NoDup (filter (fun e => match e with ECleanup _ => true | _ => false end) trace).
Proof.
  rewrite trace_eq. rewrite !filter_app. cbn [filter].
  assert (E1 : forall l, filter (fun e => match e with ECleanup _ => true | _ => false end) (map ECall l) = []).
  { induction l; cbn; auto. }
  assert (E2 : forall l, filter (fun e => match e with ECleanup _ => true | _ => false end) (map ECleanup l) = map ECleanup l).
  { induction l; cbn; congruence. }
  rewrite E1, E2. cbn. rewrite app_nil_r.
  apply NoDup_map_inj; [|intros x y E; injection E; auto]. apply NoDup_rev. apply cleanup_owners_nodup.
  destruct (split_fail_shape _ _ _ Hf) as [post Ep]. rewrite Ep, map_app in Hids. apply NoDup_app_l in Hids. exact Hids.
Qed.
End Failure.

(* the hypotheses are satisfiable: three providers, the middle one failing / none failing *)
Example failure_instance :
  let plan := [Build_pstep 1 [] true false; Build_pstep 2 [1] true true; Build_pstep 3 [2] true false] in
  split_fail (Nat.eqb 2) plan = ([Build_pstep 1 [] true false], Some (Build_pstep 2 [1] true true)) /\
  NoDup (map p_id plan) /\ well_ordered [] plan.
Proof.
  cbn. split; [reflexivity|]. split.
  - repeat constructor; cbn; intuition discriminate.
  - cbn. intuition.
Qed.
