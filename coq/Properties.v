From Coq Require Import List Arith Bool String.
From Wire Require Import Sets Acyclic Solve Names Front Exec Model Emit Cli CopyAst ModelThms NamesThms Bridge ProcessWF Perm PermModel EmitThms Regroup RegroupModel SolveBound SolveBoundModel.
From Wire Require Show ShowBound FrontRules InjBody.
From Wire Require ChainRefuted CacheKey AccessRules Paths Layout LayoutThms Once OnceModel ExecThms Rename Imports.
Import ListNotations.

(* The property theorems.  This file contains nothing but statements closed by [exact lemma] and the
   Print Assumptions beneath each. *)

(* ------------------------------------------------------------------ C07 *)
(* verifyAcyclic (as the trail-stack machine the Go code runs) accepts a provider map iff its dependency
   relation -- provider parameters, struct fields, field -> parent, interface key -> parameters of the
   bound concrete provider -- has no cycle, for every root order that lists all keys, whether or not any
   injector reaches the cyclic part (Model.process_set runs it on the map of every set of the closure). *)
Theorem C07_cycles_detected : forall tyorder pm,
  verify tyorder pm <> [SFuel] ->
  (verify tyorder pm = [] <-> ~ exists u, path (succ_of pm) u u).
Proof. exact verify_acyclic_iff. Qed.
Print Assumptions C07_cycles_detected.

Theorem C07_only_cycle_errors : forall tyorder pm e,
  In e (verify tyorder pm) -> e = SFuel \/ exists l, e = SCycle l.
Proof. exact verify_only_cycles. Qed.
Print Assumptions C07_only_cycle_errors.

(* the loop terminates on every finite graph, cyclic or not *)
Theorem C07_terminates : forall succ U,
  (forall u v, In u U -> In v (succ u) -> In v U) ->
  forall roots, incl roots U -> (forall u, succ u <> [] -> In u roots) ->
  exists fuel0, forall fuel, fuel0 <= fuel -> exists v cycles, mrootsL succ fuel roots [] [] = Some (v, cycles).
Proof. exact mrootsL_terminates. Qed.
Print Assumptions C07_terminates.

(* the explicit-stack loop computes exactly what the recursive DFS computes *)
Theorem C07_machine_refines_dfs : forall succ f, Acyclic.P succ f.
Proof. exact Acyclic.sim. Qed.
Print Assumptions C07_machine_refines_dfs.

(* ------------------------------------------------------------------ C05 *)
(* Never picks: if processNewSet (nested sets first, then buildProviderMap's three phases with early returns,
   then the cycle check) accepts, then the flattened closure -- injector parameters, everything every nested
   set provides (a set reached twice counts twice), both output types of struct providers and pointer-form
   fields, values, bindings -- lists every provided type exactly once, and the map's keys are that list. *)
Theorem C05_never_picks : forall tyorder args s pm,
  process_set tyorder args s = inl pm ->
  keys pm = Sets.provided (to_core args s) /\ NoDup (Sets.provided (to_core args s)) /\ verify tyorder pm = [].
Proof. exact process_set_one_source. Qed.
Print Assumptions C05_never_picks.

Theorem C05_closure_spelled_out : forall args id imports provs sprovs vals flds binds,
  Sets.provided (to_core args (RSet id imports provs sprovs vals flds binds)) =
  map fst (arg_entries 0 args) ++ flat_map (fun x => Sets.provided (to_core [] x)) imports ++
  map fst (direct_entries (all_provs provs sprovs) vals flds) ++ map bd_iface binds.
Proof. exact provided_to_core. Qed.
Print Assumptions C05_closure_spelled_out.

(* every conflict one phase reports names a key that really occurs twice *)
Theorem C05_conflict_is_real : forall (A : Type) (ip bp : nat -> A -> A) (es : list (nat * A)) (pm pm' : pmap A) errs errs',
  insert_all es pm errs = (pm', errs') ->
  forall e, In e errs' -> In e errs \/ exists k, e = SMulti k /\ In k (map fst es) /\
     (In k (keys pm) \/ exists l1 l2 l3, map fst es = l1 ++ k :: l2 ++ k :: l3).
Proof. exact insert_all_err_named. Qed.
Print Assumptions C05_conflict_is_real.

(* ------------------------------------------------------------------ C11 (set level) *)
Theorem C11_colocated : forall tyorder args id imports provs sprovs vals flds binds pm,
  process_set tyorder args (RSet id imports provs sprovs vals flds binds) = inl pm ->
  forall b, In b binds -> In (bd_conc b) (keys pm).
Proof. exact process_set_colocated. Qed.
Print Assumptions C11_colocated.

(* ------------------------------------------------------------------ C10 (one phase) *)
(* a phase of buildProviderMap accepts a permuted entry list iff it accepts the original, with the same map *)
Theorem C10_phase_order_independent : forall (A : Type) (ip bp : nat -> A -> A) (es es' : list (nat * A)) (pm : pmap A),
  Permutation.Permutation es es' -> NoDup (keys pm) ->
  forall pm1, insert_all es pm [] = (pm1, []) ->
  exists pm2, insert_all es' pm [] = (pm2, []) /\ map_eq A pm1 pm2.
Proof. exact insert_all_perm. Qed.
Print Assumptions C10_phase_order_independent.

(* C10 (whole analysis): listing the items of the injector's set -- providers, struct providers, values, field
   selections, imported sets -- in another order yields an accepted analysis iff the original does, with the same
   lookups in the provider map and the very same planned call list.  (Permutation is symmetric, so rejection is
   preserved as well.) *)
Theorem C10_analysis_order_independent :
  forall tyorder args out sc se id imports imports' provs provs' sprovs sprovs' vals vals' flds flds' binds pm cs,
  Permutation.Permutation imports imports' -> Permutation.Permutation provs provs' ->
  Permutation.Permutation sprovs sprovs' -> Permutation.Permutation vals vals' -> Permutation.Permutation flds flds' ->
  analyze tyorder (RSet id imports provs sprovs vals flds binds) args out sc se = ROk pm cs ->
  exists pm', analyze tyorder (RSet id imports' provs' sprovs' vals' flds' binds) args out sc se = ROk pm' cs /\
              (forall t, look pm t = look pm' t).
Proof. exact analyze_perm. Qed.
Print Assumptions C10_analysis_order_independent.

(* C10 (planner): solve is a function of the map's lookups, not of its insertion order *)
Theorem C10_solve_depends_on_lookups_only : forall pm pm' : pmap entry,
  (forall t, look pm t = look pm' t) -> Permutation.Permutation pm pm' ->
  forall root args out, solve pm root args out = solve pm' root args out.
Proof. exact solve_map_eq. Qed.
Print Assumptions C10_solve_depends_on_lookups_only.

(* ------------------------------------------------------------------ C14 (file level) *)
(* whatever injectors a file holds: import aliases and value-variable names are pairwise distinct and none
   is a name of the package scope *)
Theorem C14_file_names_distinct : forall (E : env) (js : list (injector * list valinfo * list call)),
  GInv E (inject_all E js (mkG [] [])).
Proof. exact file_names_distinct. Qed.
Print Assumptions C14_file_names_distinct.

(* the two-pass design: the pass whose text is kept allocates no alias, and its parameter, local, cleanup and
   error names are pairwise distinct and differ from every alias, value variable and package-scope name *)
Theorem C14_emitted_pass_names_fresh : forall (E : env) inj cs g,
  let g2 := snd (inject_pass E inj cs g) in
  let ig := pass_ig E inj cs g2 in
  names_ok ig /\ locals_fresh E ig g2 /\ ~ In (ig_err ig) (file_names E g2) /\ snd (inject_pass E inj cs g2) = g2.
Proof. exact emitted_pass_names_fresh. Qed.
Print Assumptions C14_emitted_pass_names_fresh.

(* ------------------------------------------------------------------ C19 (show) *)
(* the grouping `wire show` prints: whenever gather's loop finishes, every provided type sits in exactly one group,
   the group's inputs are exactly the outside types needed to obtain it, and two types share a group iff they need
   the same outside types *)
Theorem C19_show_groups_by_needed_inputs : forall (deps : nat -> list nat) (is_input : nat -> bool) fuel outputs s,
  Show.grun deps is_input fuel Show.gs0 [] outputs = Some s ->
  (forall t, In t outputs -> is_input t = false ->
     exists i ins outs, Show.ivget (Show.iv s) t = Some (Some i) /\ nth_error (Show.groups s) i = Some (ins, outs) /\ In t outs /\
                        NoDup ins /\ forall x, In x ins <-> Show.needs deps is_input t x) /\
  (forall t t' i j, Show.ivget (Show.iv s) t = Some (Some i) -> Show.ivget (Show.iv s) t' = Some (Some j) ->
     (i = j <-> forall x, Show.needs deps is_input t x <-> Show.needs deps is_input t' x)) /\
  (forall i ins outs t, nth_error (Show.groups s) i = Some (ins, outs) -> In t outs -> Show.ivget (Show.iv s) t = Some (Some i)).
Proof. exact Show.gather_groups_correct. Qed.
Print Assumptions C19_show_groups_by_needed_inputs.

(* the included-sets list: exactly the names of the sets reachable through Imports, the shown set excepted *)
Theorem C19_show_lists_included_sets : forall fuel key root res, Show.coherent root ->
  Show.imports_run fuel key [root] [] [] = Some res ->
  forall n, In n res <-> (Show.name_eqb n key = false /\ exists d, Show.reach root d /\ Show.ns_name d = Some n).
Proof. exact Show.show_imports_exact. Qed.
Print Assumptions C19_show_lists_included_sets.

(* C10 (grouping): a nested provider set listed in wire.Build / wire.NewSet can be dissolved into the set that lists
   it -- its nested sets, providers, struct providers, values, field selections and bindings become the listing
   set's own.  Whenever the nested program is accepted, so is the regrouped one, every type resolves to the same
   provider / value / field / argument (entries agree in everything but the record of where they were listed), and
   the planner's run and the decorated calls are identical.  Repeating the step dissolves any nesting, and with
   C10_analysis_order_independent the position of the nested set among the arguments does not matter. *)
Theorem C10_regrouping_preserves_analysis :
  forall tyorder args id cid cimps cprovs csprovs cvals cflds cbinds imports provs sprovs vals flds binds pm,
  process_set tyorder args (RSet id (RSet cid cimps cprovs csprovs cvals cflds cbinds :: imports) provs sprovs vals flds binds) = inl pm ->
  exists pm', process_set tyorder args (RSet id (cimps ++ imports) (cprovs ++ provs) (csprovs ++ sprovs) (cvals ++ vals) (cflds ++ flds) (cbinds ++ binds)) = inl pm' /\
    (forall t, option_map ecore (look pm t) = option_map ecore (look pm' t)) /\
    forall out,
      machine2 (core_pm pm) (List.length args) (solve_fuel pm) [out] (init_state args) [] =
      machine2 (core_pm pm') (List.length args) (solve_fuel pm') [out] (init_state args) [] /\
      forall c, decorate pm c = decorate pm' c.
Proof.
  intros. destruct (process_set_regroup _ _ _ _ _ _ _ _ _ _ _ _ _ _ _ _ _ H) as (pm' & H1 & C & L & N1 & N2).
  exists pm'. split; [exact H1|]. split; [exact C|]. intros out. apply regroup_same_plan; auto.
Qed.
Print Assumptions C10_regrouping_preserves_analysis.

(* ------------------------------------------------------------------ C15 (renaming pass of rewritePkgRefs) *)
(* for every copied declaration whose identifier occurrences agree per object: the pass never makes two identifiers
   coincide that did not coincide in the source (equal outputs: same object, or same source name and both left
   alone), renames each object consistently, gives renamed objects names outside the file scope and outside the
   node, and leaves every other identifier as written *)
Theorem C15_renaming_never_captures : forall (scope : list string) (xs0 : list Rename.occ),
  (forall x y o, In x xs0 -> In y xs0 -> Rename.o_obj x = Some o -> Rename.o_obj y = Some o ->
     Rename.o_name x = Rename.o_name y /\ Rename.o_local x = Rename.o_local y) ->
  let used := map Rename.o_name xs0 in
  let ps := snd (Rename.rpass scope used [] xs0) in
  map fst ps = xs0 /\
  (forall p q, In p ps -> In q ps -> snd p = snd q ->
     (exists o, Rename.o_obj (fst p) = Some o /\ Rename.o_obj (fst q) = Some o) \/
     (Rename.o_name (fst p) = Rename.o_name (fst q) /\ snd p = Rename.o_name (fst p) /\ snd q = Rename.o_name (fst q))) /\
  (forall p q o, In p ps -> In q ps -> Rename.o_obj (fst p) = Some o -> Rename.o_obj (fst q) = Some o -> snd p = snd q) /\
  (forall p, In p ps -> snd p = Rename.o_name (fst p) \/
     (~ In (snd p) scope /\ ~ In (snd p) used /\ Rename.wants scope (fst p) = true)).
Proof. intros scope xs0 H. exact (Rename.rename_no_capture scope xs0 H). Qed.
Print Assumptions C15_renaming_never_captures.

(* C07 (planner): for every set the analysis accepts and every requested type, the loop of analyze.go:solve completes
   within solve_fuel pm = 4 + 2 * (number of keys + number of dependency edges) iterations -- linear in the size of
   the provider map, whatever the number of paths through it (Solve.solve_sim carried with the weight of the
   index as potential: SolveBound.solve_sim_bounded) *)
Theorem C07_planner_linear_bound : forall tyorder args s pm out,
  process_set tyorder args s = inl pm ->
  exists st usedk,
    machine2 (core_pm pm) (List.length args) (solve_fuel pm) [out] (init_state args) [] = Some (st, usedk).
Proof. exact accepted_solve_never_out_of_fuel. Qed.
Print Assumptions C07_planner_linear_bound.

(* the included-sets work-list finishes on every set (each iteration removes one unit of the total size of the
   trees on the list, whether the popped set was visited or not) *)
Theorem C19_show_included_sets_terminates : forall key root,
  exists res, Show.imports_run (2 * Show.nsize root + 2) key [root] [] [] = Some res.
Proof. exact Show.show_imports_terminates. Qed.
Print Assumptions C19_show_included_sets_terminates.

(* the grouping loop of `wire show` completes, within the model's linear bound, on every provider map whose
   dependency graph is acyclic (it is step for step the planner's loop on a derived map: ShowBound.sim_step) *)
Theorem C19_show_groups_terminate : forall tyorder (pm : pmap entry), NoDup (keys pm) -> verify tyorder pm = [] ->
  exists g, Show.show_groups pm (keys pm) = Some g.
Proof. exact ShowBound.show_groups_terminates. Qed.
Print Assumptions C19_show_groups_terminate.

(* ------------------------------------------------------------------ C12 / C11 / C13 (front end) *)
(* wire.FieldsOf: whatever is accepted names declared, unprevented fields exactly as written, one per name in order,
   and a pointer to the field is provided exactly when the first argument is a pointer to a pointer to the struct *)
Theorem C12_fieldsof_accepts : forall t lits sel, FrontRules.front_fieldsof t lits = FrontRules.FROk sel ->
  exists fs ptr, FrontRules.fields_struct t = Some (fs, ptr) /\ lits <> [] /\ List.length sel = List.length lits /\
    Forall2 (fun l (fp : sfield * bool) => In (fst fp) fs /\ quote (sf_name (fst fp)) = l /\
                                             is_prevented (sf_tag (fst fp)) = false /\ snd fp = ptr) lits sel.
Proof. exact FrontRules.fieldsof_accepts. Qed.
Print Assumptions C12_fieldsof_accepts.

Theorem C12_fieldsof_pointer_iff : forall t fs ptr, FrontRules.fields_struct t = Some (fs, ptr) ->
  (ptr = true <-> exists e e2, t = FrontRules.GPtr e /\ FrontRules.underlying e = FrontRules.UPtr e2 /\
                               FrontRules.underlying e2 = FrontRules.UStruct fs).
Proof. exact FrontRules.fieldsof_pointer_iff. Qed.
Print Assumptions C12_fieldsof_pointer_iff.

Theorem C12_struct_needs_named_struct : forall t lits pid pkg name tptr p,
  FrontRules.front_struct t lits pid pkg name tptr = FrontRules.SROk p ->
  exists n u fs, t = FrontRules.GPtr (FrontRules.GNamed n false u) /\ u = FrontRules.UStruct fs /\
                 struct_provider (mkSProv pid pkg name n tptr fs lits) = inl p.
Proof. exact FrontRules.struct_accepts. Qed.
Print Assumptions C12_struct_needs_named_struct.

Theorem C11_bind_accepts : forall it ct identical implements,
  FrontRules.front_bind it ct identical implements = FrontRules.BROk <->
  (exists i c, it = FrontRules.GPtr i /\ FrontRules.is_iface i = true /\ ct = FrontRules.GPtr c /\ identical = false /\ implements = true).
Proof. exact FrontRules.bind_accepts. Qed.
Print Assumptions C11_bind_accepts.

Theorem C13_ifacevalue_accepts : forall it vt implements,
  FrontRules.front_ifacevalue it vt implements = FrontRules.IVOk <->
  (exists i, it = FrontRules.GPtr i /\ FrontRules.is_iface i = true /\ vt <> FrontRules.GUntypedNil /\ implements = true).
Proof. exact FrontRules.ifacevalue_accepts. Qed.
Print Assumptions C13_ifacevalue_accepts.

(* ------------------------------------------------------------------ C20 / C01 (injector templates) *)
(* findInjectorBuild takes a function for an injector template exactly when its body is, up to empty statements, one
   wire.Build call (possibly as the argument of panic) followed by nothing but returns; the "invalid injector"
   diagnostic is only raised for bodies that do call wire.Build *)
Theorem C20_injector_template_iff : forall l,
  InjBody.find_build l = InjBody.FBBuild <->
  exists a s b, l = a ++ s :: b /\ InjBody.blanks a /\ InjBody.is_build s = true /\ InjBody.clean b.
Proof. exact InjBody.find_build_iff. Qed.
Print Assumptions C20_injector_template_iff.

Theorem C20_invalid_injector_calls_build : forall l,
  InjBody.find_build l = InjBody.FBInvalid -> existsb InjBody.is_build l = true.
Proof. exact InjBody.invalid_has_build. Qed.
Print Assumptions C20_invalid_injector_calls_build.

(* ------------------------------------------------------------------ C09 *)
Theorem C09_results : forall rs c e, func_output rs = FoOk c e <-> legal_results rs c e.
Proof. exact func_output_spec. Qed.
Print Assumptions C09_results.

Theorem C09_rejects : forall rs,
  (forall c e, func_output rs <> FoOk c e) <->
  (rs = [] \/ 4 <= List.length rs \/
   (exists a b, rs = [a; b] /\ is_error b = false /\ is_cleanup b = false) \/
   (exists a b c, rs = [a; b; c] /\ (is_cleanup b = false \/ is_error c = false))).
Proof. exact func_output_rejects. Qed.
Print Assumptions C09_rejects.

Theorem C09_identical_types_rejected : forall l, first_dup l [] = None <-> NoDup l.
Proof. exact dup_check_iff. Qed.
Print Assumptions C09_identical_types_rejected.

(* ------------------------------------------------------------------ C03 / C04 *)
(* for every plan and every failure oracle: calls up to the first failing step, then the cleanups of the earlier
   cleanup-returning steps in reverse, then that step's error; nothing later runs, its own cleanup never runs *)
Theorem C03_failure : forall fails plan sigc pre s,
  split_fail fails plan = (pre, Some s) ->
  run_code fails (Exec.emit plan sigc) =
    (map ECall (map p_id pre) ++ [ECall (p_id s)]
       ++ map ECleanup (rev (cleanup_owners pre)) ++ [EReturnErr (p_id s)], []).
Proof. exact Exec.C03_failure. Qed.
Print Assumptions C03_failure.

Theorem C04_success : forall fails plan pre,
  split_fail fails plan = (pre, None) ->
  run_code fails (Exec.emit plan true) =
    (map ECall (map p_id plan) ++ [EReturnOk], map ECleanup (rev (cleanup_owners plan))).
Proof. exact Exec.C04_success. Qed.
Print Assumptions C04_success.

(* C03 in the property's words (provider ids pairwise distinct, as the planner's calls are): no provider after the
   failing one is called; the cleanups invoked are exactly those of the providers that had succeeded, once each; the
   failing provider's own cleanup is never invoked *)
Theorem C03_nothing_called_after_failure : forall fails plan pre s sigc,
  split_fail fails plan = (pre, Some s) -> NoDup (map p_id plan) ->
  forall post x, plan = pre ++ s :: post -> In x (map p_id post) ->
  ~ In (ECall x) (fst (run_code fails (Exec.emit plan sigc))).
Proof. exact ExecThms.later_providers_not_called. Qed.
Print Assumptions C03_nothing_called_after_failure.

Theorem C03_unwinds_exactly_the_succeeded : forall fails plan pre s sigc,
  split_fail fails plan = (pre, Some s) ->
  forall x, In (ECleanup x) (fst (run_code fails (Exec.emit plan sigc))) <->
            (exists t, In t pre /\ p_cleanup t = true /\ p_id t = x).
Proof. exact ExecThms.unwound_iff. Qed.
Print Assumptions C03_unwinds_exactly_the_succeeded.

Theorem C03_unwinds_once : forall fails plan pre s sigc,
  split_fail fails plan = (pre, Some s) -> NoDup (map p_id plan) ->
  NoDup (filter (fun e => match e with ECleanup _ => true | _ => false end) (fst (run_code fails (Exec.emit plan sigc)))).
Proof. exact ExecThms.unwound_once. Qed.
Print Assumptions C03_unwinds_once.

Theorem C03_own_cleanup_never_runs : forall fails plan pre s sigc,
  split_fail fails plan = (pre, Some s) -> NoDup (map p_id plan) ->
  ~ In (ECleanup (p_id s)) (fst (run_code fails (Exec.emit plan sigc))).
Proof. exact ExecThms.own_cleanup_never_runs. Qed.
Print Assumptions C03_own_cleanup_never_runs.

(* C04 in the property's words: the returned function invokes the cleanup of every cleanup-returning provider, of
   nothing else, once each; a provider's cleanup runs before the cleanup of anything it was built from; no cleanup
   runs before the caller invokes the returned function *)
Theorem C04_releases_everything : forall fails plan pre,
  split_fail fails plan = (pre, None) ->
  forall x, In (ECleanup x) (snd (run_code fails (Exec.emit plan true))) <->
            (exists s, In s plan /\ p_cleanup s = true /\ p_id s = x).
Proof. exact ExecThms.cleanup_runs_iff. Qed.
Print Assumptions C04_releases_everything.

Theorem C04_releases_once : forall fails plan pre,
  split_fail fails plan = (pre, None) -> NoDup (map p_id plan) ->
  NoDup (snd (run_code fails (Exec.emit plan true))).
Proof. exact ExecThms.cleanup_runs_once. Qed.
Print Assumptions C04_releases_once.

Theorem C04_dependents_released_first : forall fails plan pre b a,
  split_fail fails plan = (pre, None) -> ExecThms.well_ordered [] plan ->
  In b plan -> p_cleanup b = true -> In a (p_args b) ->
  forall s, In s plan -> p_id s = a -> p_cleanup s = true -> NoDup (map p_id plan) ->
  ExecThms.before (ECleanup (p_id b)) (ECleanup a) (snd (run_code fails (Exec.emit plan true))).
Proof. exact ExecThms.cleanup_dependents_first. Qed.
Print Assumptions C04_dependents_released_first.

Theorem C04_nothing_released_early : forall fails plan pre,
  split_fail fails plan = (pre, None) ->
  forall x, ~ In (ECleanup x) (fst (run_code fails (Exec.emit plan true))).
Proof. exact ExecThms.no_cleanup_before_return. Qed.
Print Assumptions C04_nothing_released_early.

(* ------------------------------------------------------------------ C14 *)
(* disambiguate terminates (fuel |bad|+1 suffices for any finite collision set) and returns a name that is
   no keyword and does not collide *)
Theorem C14_disambiguate_fresh : forall (is_kw collides : String.string -> bool) (bad : list String.string),
  (forall s, ok is_kw collides s = false -> In s bad) ->
  forall name, exists r, disambiguate is_kw collides (S (List.length bad)) name = Some r /\
                         is_kw r = false /\ collides r = false.
Proof. exact disambiguate_fresh. Qed.
Print Assumptions C14_disambiguate_fresh.

(* ------------------------------------------------------------------ C01 (partial) *)
(* injectPass emits exactly one function header per template: the template's name, one parameter per template
   parameter (in order), and the result list out[, func()][, error] *)
Theorem C01_one_implementation : forall E inj cs g,
  exists params results body g',
    inject_pass E inj cs g = (String.append "SIG "%string (String.append (i_name inj) (String.append "("%string (String.append (join ", "%string params) (String.append ") -> "%string (join ", "%string results))))) :: body, g') /\
    List.length params = List.length (i_params inj) /\
    List.length results = 1 + (if i_cleanup inj then 1 else 0) + (if i_err inj then 1 else 0).
Proof. exact inject_pass_header. Qed.
Print Assumptions C01_one_implementation.

(* ------------------------------------------------------------------ C17 *)
Theorem C17_gen_exit : forall load_err outs f,
  fst (gen_cmd load_err outs f) = 0 <-> load_err = false /\ forall o, In o outs -> pr_errs o = false.
Proof. exact gen_exit_zero_iff. Qed.
Print Assumptions C17_gen_exit.

Theorem C17_gen_footprint : forall load_err outs f p,
  fs_get (snd (gen_cmd load_err outs f)) p = fs_get f p \/
  exists o c, In o outs /\ pr_out o = p /\ pr_content o = Some c /\ fs_get (snd (gen_cmd load_err outs f)) p = Some c.
Proof. exact gen_footprint. Qed.
Print Assumptions C17_gen_footprint.

Theorem C17_failed_package_untouched : forall load_err outs f o,
  well_formed outs -> In o outs -> pr_errs o = true ->
  (forall o', In o' outs -> pr_out o' = pr_out o -> pr_content o' = None) ->
  fs_get (snd (gen_cmd load_err outs f)) (pr_out o) = fs_get f (pr_out o).
Proof. exact gen_failed_untouched. Qed.
Print Assumptions C17_failed_package_untouched.

Theorem C17_failure_does_not_block_others : forall load_err outs f o c,
  load_err = false -> NoDup (map pr_out outs) -> In o outs -> pr_content o = Some c ->
  fs_get (snd (gen_cmd load_err outs f)) (pr_out o) = Some c.
Proof. exact gen_writes_others. Qed.
Print Assumptions C17_failure_does_not_block_others.

Theorem C17_diff_readonly : forall h l outs f, snd (diff_cmd h l outs f) = f.
Proof. exact diff_readonly. Qed.
Print Assumptions C17_diff_readonly.

Theorem C17_diff_exit : forall h l outs f,
  fst (diff_cmd h l outs f) =
  if h || l || existsb pr_errs outs then 2
  else if existsb (fun o => match pr_content o with
                            | None => false
                            | Some c => negb (match fs_get f (pr_out o) with Some c' => Nat.eqb c c' | None => false end)
                            end) outs then 1 else 0.
Proof. exact diff_exit. Qed.
Print Assumptions C17_diff_exit.

(* ------------------------------------------------------------------ C18 *)
Theorem C18_history_independent : forall (content_of : nat -> option nat) ops s0,
  let s := hrun content_of ops s0 in
  forall c, content_of (h_variant s) = Some c ->
    let s1 := fst (hstep content_of s OGen) in
    snd (hstep content_of s OGen) = 0 /\
    h_out s1 = h_out (fst (hstep content_of (mkH (h_variant s) None) OGen)) /\
    fst (hstep content_of s1 OGen) = s1 /\
    snd (hstep content_of s1 ODiff) = 0.
Proof. exact history_independent. Qed.
Print Assumptions C18_history_independent.

Theorem C18_failed_gen_untouched : forall (content_of : nat -> option nat) s,
  content_of (h_variant s) = None -> fst (hstep content_of s OGen) = s.
Proof. exact history_failed_gen_untouched. Qed.
Print Assumptions C18_failed_gen_untouched.

(* ------------------------------------------------------------------ C19 *)
(* check (parse.go:Load) accepts an injector exactly when gen does, and reports the same diagnostics.
   (Before fix 42a06b2 Load omitted gen.inject's signature / visibility checks; the model then carried the
   omission and this statement was refuted by a one-provider witness, see known_findings.json.) *)
Theorem C19_check_iff_gen : forall tyorder root args out sc se,
  load_analyze tyorder root args out sc se = analyze tyorder root args out sc se.
Proof. exact load_vs_gen. Qed.
Print Assumptions C19_check_iff_gen.

(* ------------------------------------------------------------------ C12 *)
Theorem C12_check_field_sound : forall lit fields f,
  check_field lit fields = CfOk f ->
  In f fields /\ quote (sf_name f) = lit /\ is_prevented (sf_tag f) = false /\ is_blank f = false.
Proof. exact check_field_sound. Qed.
Print Assumptions C12_check_field_sound.

Theorem C12_star_selects_unprevented : forall fields f,
  In f (star_fields fields) <-> In f fields /\ is_prevented (sf_tag f) = false /\ is_blank f = false.
Proof. exact star_fields_spec. Qed.
Print Assumptions C12_star_selects_unprevented.

Theorem C12_struct_provider_outputs : forall s p,
  struct_provider s = inl p ->
  pv_outs p = [sp_t s; sp_tptr s] /\ pv_struct p = true /\ pv_cleanup p = false /\ pv_err p = false /\
  NoDup (pv_args p) /\
  exists fs, pv_args p = map sf_type fs /\ pv_fields p = map sf_name fs /\
             Forall (fun f => In f (sp_fields s) /\ is_prevented (sf_tag f) = false) fs /\
             (all_fields (sp_lits s) = true -> fs = star_fields (sp_fields s)).
Proof. exact struct_provider_spec. Qed.
Print Assumptions C12_struct_provider_outputs.

(* ------------------------------------------------------------------ C13 *)
(* processValue's whitelist walk accepts an expression iff evaluating it calls no function or method and
   receives from no channel (and contains no node kind outside the list), for expressions of any size *)
Theorem C13_whitelist_sound : forall e, value_ok e = true -> effect_free e.
Proof. exact value_ok_effect_free. Qed.
Print Assumptions C13_whitelist_sound.
Theorem C13_whitelist_complete : forall e, effect_free e -> value_ok e = true.
Proof. exact value_ok_complete. Qed.
Print Assumptions C13_whitelist_complete.

(* identifiers the injector's package cannot access, internal packages: importableFrom is the go command's rule *)
Theorem C13_internal_package_rule : forall p from,
  Paths.importable p from = true <->
  ~ In "internal"%string p \/
  exists a b r, p = a ++ "internal"%string :: b /\ ~ In "internal"%string b /\ a <> [] /\ from = a ++ r.
Proof. exact Paths.importable_spec. Qed.
Print Assumptions C13_internal_package_rule.

(* accessibleFrom accepts a value expression for the injector's package iff that package can name everything the
   expression mentions (exported or its own, not function-local, not in an internal package it cannot import, no
   unkeyed literal setting another package's unexported field); otherwise the first such mention decides the message *)
Theorem C13_accessible_iff_nameable : forall ms,
  AccessRules.accessible_from ms = AccessRules.Ok <-> Forall AccessRules.nameable ms.
Proof. exact AccessRules.accessible_iff. Qed.
Print Assumptions C13_accessible_iff_nameable.

(* ------------------------------------------------------------------ C15 *)
(* a copy driven by a table that covers every child field of every node kind is the identity, on every tree
   (the table of the real copyAST is regenerated by reflection on every run and shown complete by the table
   theorem copy_table_complete); a field missing from the table is lost on some tree *)
Theorem C15_copy_identity : forall tbl t, covered tbl t -> copy tbl t = t.
Proof. exact copy_id. Qed.
Print Assumptions C15_copy_identity.
Theorem C15_missing_field_is_lost : forall tbl k f, memb f (tbl k) = false ->
  copy tbl (Node k [] [(f, [Node 0 [] []])]) <> Node k [] [(f, [Node 0 [] []])].
Proof. exact copy_loses. Qed.
Print Assumptions C15_missing_field_is_lost.

(* ------------------------------------------------------------------ C15 / C01 (layout of the generated file) *)
(* generateInjectors + copyNonInjectorDecls, as loops with their "first of this file" tests, produce: per file with
   injectors a header and its injectors in order, then per such file a header and its other declarations in order *)
Theorem C15_layout_is_sections : forall fs, NoDup (map fst fs) -> Layout.layout fs = Layout.layout_spec fs.
Proof. exact Layout.layout_is_spec. Qed.
Print Assumptions C15_layout_is_sections.

(* a declaration is copied iff it is a non-injector, non-import declaration of a file that has an injector *)
Theorem C15_copied_iff : forall fs id, NoDup (map fst fs) ->
  (In (Layout.ICopy id) (Layout.layout fs) <->
   exists x d, In x fs /\ Layout.has_inj x = true /\ In d (snd x) /\ Layout.copyable d = true /\ Layout.d_id d = id).
Proof. exact Layout.copied_iff. Qed.
Print Assumptions C15_copied_iff.

(* ... exactly once *)
Theorem C15_copied_once : forall fs, NoDup (map fst fs) -> NoDup (map Layout.d_id (Layout.all_decls fs)) ->
  NoDup (List.concat (map Layout.copy_section (filter Layout.has_inj fs))).
Proof. exact Layout.copied_once. Qed.
Print Assumptions C15_copied_once.

(* ... in source order *)
Theorem C15_copied_in_source_order : forall x l1 d1 l2 d2 l3,
  snd x = l1 ++ d1 :: l2 ++ d2 :: l3 -> Layout.copyable d1 = true -> Layout.copyable d2 = true ->
  exists a b c, Layout.copy_section x = a ++ Layout.ICopy (Layout.d_id d1) :: b ++ Layout.ICopy (Layout.d_id d2) :: c.
Proof. exact Layout.copied_in_source_order. Qed.
Print Assumptions C15_copied_in_source_order.

(* every injector template has an implementation, nothing else has *)
Theorem C01_injector_emitted_iff : forall fs id, NoDup (map fst fs) ->
  (In (Layout.IInj id) (Layout.layout fs) <->
   exists x d, In x fs /\ In d (snd x) /\ Layout.is_inj d = true /\ Layout.d_id d = id).
Proof. exact Layout.injector_emitted_iff. Qed.
Print Assumptions C01_injector_emitted_iff.

(* ... exactly one: no injector is emitted twice, and nothing in the file is *)
Theorem C01_injectors_emitted_once : forall fs, NoDup (map fst fs) -> NoDup (map Layout.d_id (Layout.all_decls fs)) ->
  NoDup (List.concat (map Layout.inj_section fs)).
Proof. exact LayoutThms.injectors_once. Qed.
Print Assumptions C01_injectors_emitted_once.

Theorem C15_nothing_emitted_twice : forall fs, NoDup (map fst fs) -> NoDup (map Layout.d_id (Layout.all_decls fs)) ->
  NoDup (Layout.layout fs).
Proof. exact LayoutThms.layout_nodup. Qed.
Print Assumptions C15_nothing_emitted_twice.

(* ------------------------------------------------------------------ C16 *)
(* the collision predicates range over Go maps (imports, value variables); whatever order the map is iterated
   in, the disambiguated name is the same *)
Theorem C16_collision_order_independent : forall bad bad' name,
  Permutation.Permutation bad bad' -> disamb_in bad name = disamb_in bad' name.
Proof. exact disamb_in_perm. Qed.
Print Assumptions C16_collision_order_independent.

(* the import block of the generated file is the sorted list of g.imports' entries: whatever order the map is visited
   in (Go randomises it), the block is the same *)
Theorem C16_import_block_order_independent : forall visited visited' : list Imports.entry,
  NoDup (map fst visited) -> Permutation.Permutation visited visited' ->
  Imports.import_block visited = Imports.import_block visited'.
Proof. exact Imports.import_block_order_independent. Qed.
Print Assumptions C16_import_block_order_independent.

(* vendored import paths are written in their canonical form: what qualifyImport files a path under is the path after
   its last vendor directory -- a suffix without any vendor directory left; stripping is idempotent *)
Theorem C16_vendor_prefix_stripped : forall a s,
  s <> [] -> ~ Paths.has_vendor_dir s -> Paths.unvendor (a ++ "vendor"%string :: s) = s.
Proof. exact Paths.unvendor_vendored. Qed.
Print Assumptions C16_vendor_prefix_stripped.

Theorem C16_unvendored_path_is_clean : forall p,
  ~ Paths.has_vendor_dir (Paths.unvendor p) /\ (exists a, p = a ++ Paths.unvendor p) /\
  Paths.unvendor (Paths.unvendor p) = Paths.unvendor p.
Proof. intro p. split; [apply Paths.unvendor_clean|split; [apply Paths.unvendor_suffix|apply Paths.unvendor_idem]]. Qed.
Print Assumptions C16_unvendored_path_is_clean.

(* ------------------------------------------------------------------ C02 / C06 on the concrete planner *)
(* Hypotheses: wfb pm args = true is the boolean well-formedness certificate that the correspondence run
   evaluates on the provider map of every accepted case (each entry's concrete type is its own key with the same
   dependencies; parameters sit at their types; keys and parameter types pairwise distinct); verify = [] is the
   cycle check's own verdict (Model.process_set only returns maps that passed it). *)
Theorem C02_wiring : forall tyorder pm root args out,
  wfb pm args = true -> verify tyorder pm = [] ->
  forall cs, solve pm root args out = inl cs ->
  exists s i v, cs = map (decorate pm) (calls s) /\
    lookup (index s) out = Some (Slot i) /\
    nth_error (exec_calls (env0 (List.length args)) (calls s)) i = Some v /\
    val (core_pm pm) out v.
Proof. exact solve_wiring. Qed.
Print Assumptions C02_wiring.

(* the explicit-stack loop computes what the recursive planner computes, for whatever fuel completes it *)
Theorem C02_machine_refines_visit : forall pm given f, Solve.P pm given f.
Proof. exact solve_sim. Qed.
Print Assumptions C02_machine_refines_visit.

Theorem C06_missing : forall tyorder pm args out,
  wfb pm args = true -> verify tyorder pm = [] ->
  forall s usedk, machine2 (core_pm pm) (List.length args) (solve_fuel pm) [out] (init_state args) [] = Some (s, usedk) ->
  (forall t, In t (errs s) <-> reach (core_pm pm) out t /\ core_pm pm t = None) /\ NoDup (errs s).
Proof. exact solve_missing. Qed.
Print Assumptions C06_missing.

Theorem C06_rejected_names_missing : forall tyorder pm root args out,
  wfb pm args = true -> verify tyorder pm = [] ->
  forall ds, solve pm root args out = inr ds ->
  ds = [DFuel] \/
  (exists l, ds = map DNoProvider l /\ l <> [] /\ NoDup l /\ forall t, In t l <-> reach (core_pm pm) out t /\ core_pm pm t = None) \/
  (forall t, reach (core_pm pm) out t -> core_pm pm t <> None).
Proof. exact solve_rejects_missing. Qed.
Print Assumptions C06_rejected_names_missing.

Theorem C06_accepted_is_complete : forall tyorder pm root args out,
  wfb pm args = true -> verify tyorder pm = [] ->
  forall cs, solve pm root args out = inl cs -> forall t, reach (core_pm pm) out t -> core_pm pm t <> None.
Proof. exact solve_accepts_complete. Qed.
Print Assumptions C06_accepted_is_complete.

(* under acyclicity the planner terminates: fuel |keys|+2 suffices for the recursive form, and the loop reaches
   the same state *)
Theorem C07_solve_terminates : forall pm given (keys : list nat),
  (forall t pv, pm t = Some pv -> In t keys) -> forall gtypes : list nat, given = List.length gtypes ->
  acyclic pm -> forall out s0, args_indexed pm s0 ->
  exists s' k, visit pm given (List.length keys + 2) out s0 = Some s' /\
               forall fuel, machine pm given (k + fuel) [out] s0 = machine pm given fuel [] s'.
Proof. exact solve_terminates. Qed.
Print Assumptions C07_solve_terminates.

(* the planner's dependency relation (alias edges included) is acyclic whenever the cycle check accepted *)
Theorem C07_checker_graph_covers_planner_graph : forall pm args,
  wfb pm args = true -> (~ exists u, path (succ_of pm) u u) -> acyclic (core_pm pm).
Proof. exact acyclic_core. Qed.
Print Assumptions C07_checker_graph_covers_planner_graph.

(* ------------------------------------------------------------------ C08 *)
(* verifyArgsUsed reports exactly the direct items (nested sets, providers incl. struct providers, values,
   bindings, field providers) whose source is absent from solve's used list *)
Theorem C08_unused_reported_exactly : forall id imports provs sprovs vals flds binds used d,
  In d (verify_args_used (RSet id imports provs sprovs vals flds binds) used) <->
  (exists s, In s imports /\ used_in used (SImport (rset_id s)) = false /\ d = DUnusedSet (rset_id s)) \/
  (exists p, In p (all_provs provs sprovs) /\ used_in used (SProv (pv_id p)) = false /\ d = DUnusedProv (pv_id p)) \/
  (exists v, In v vals /\ used_in used (SVal (vl_id v)) = false /\ d = DUnusedVal (vl_id v)) \/
  (exists b, In b binds /\ used_in used (SBind (bd_id b)) = false /\ d = DUnusedBind (bd_id b)) \/
  (exists f, In f flds /\ used_in used (SField (fd_id f)) = false /\ d = DUnusedField (fd_id f)).
Proof. exact verify_args_used_spec. Qed.
Print Assumptions C08_unused_reported_exactly.

(* whatever is called is in the used list (so it is never reported unused), and everything in the used list
   has a source in the set *)
Theorem C08_called_is_used : forall pmc given fuel stk s u s' u',
  machine2 pmc given fuel stk s u = Some (s', u') ->
  (forall c, In c (calls s) -> In (Solve.c_out c) u) -> forall c, In c (calls s') -> In (Solve.c_out c) u'.
Proof. exact machine2_calls_used. Qed.
Print Assumptions C08_called_is_used.

Theorem C08_used_have_source : forall pmc given fuel stk s u s' u',
  machine2 pmc given fuel stk s u = Some (s', u') ->
  (forall x, In x u -> pmc x <> None) -> forall x, In x u' -> pmc x <> None.
Proof. exact machine2_used_have_source. Qed.
Print Assumptions C08_used_have_source.

(* ------------------------------------------------------------------ C11 (shared instance) *)
(* the value of an interface key is, by specification, the value of the concrete type it is bound to:
   no second construction *)
Theorem C11_shared_instance : forall pm t pv v,
  pm t = Some pv -> conc pv <> t -> val pm (conc pv) v -> val pm t v.
Proof. exact val_alias. Qed.
Print Assumptions C11_shared_instance.

(* ------------------------------------------------------------------ C14 (pairwise distinct names) *)
(* in every generated injector the parameter names, local names and cleanup names are pairwise distinct, none
   of them is the error variable, and the error variable is outside the file scope (package scope, universe,
   import names, value variables) known when the pass starts -- for every call list, every parameter list
   (named, blank, missing) and every file scope *)
Theorem C14_names_distinct : forall E inj (cs : list call) g,
  exists ig, names_ok ig /\ List.length (ig_params ig) = List.length (i_params inj) /\
             ig_err ig = disamb_in (file_names E g) "err"%string /\ ~ In (ig_err ig) (file_names E g).
Proof. exact inject_pass_names_distinct. Qed.
Print Assumptions C14_names_distinct.

Theorem C14_invented_names_fresh : forall bad names d tr,
  ~ In (tvn_in bad names d tr) bad /\ is_keyword (tvn_in bad names d tr) = false.
Proof. exact tvn_in_fresh. Qed.
Print Assumptions C14_invented_names_fresh.

(* ------------------------------------------------------------------ C05 (reported) *)
(* conversely: when the parameters, what the accepted nested sets provide, and the set's own providers / values /
   fields do not have pairwise distinct types, buildProviderMap fails with a multiple-bindings error *)
Theorem C05_conflict_is_reported : forall (A : Type) (ip bp : nat -> A -> A) (a : list (nat * A))
    (ms : list (nat * pmap A)) (d : list (nat * A)) b,
  ~ NoDup (map fst a ++ List.concat (map (fun im => keys (snd im)) ms) ++ map fst d) ->
  exists es k, build1 ip bp a ms d b = inr es /\ In (SMulti k) es.
Proof. exact build1_reports. Qed.
Print Assumptions C05_conflict_is_reported.

(* ------------------------------------------------------------------ C02 / C06 / C07 for every accepted program *)
(* No certificate, no side condition: whenever processNewSet accepts the build set (process_set = inl pm) ... *)
Theorem C02_wiring_accepted : forall tyorder root args out pm cs,
  process_set tyorder args root = inl pm -> solve pm root args out = inl cs ->
  exists s i v, cs = map (decorate pm) (calls s) /\
    lookup (index s) out = Some (Slot i) /\
    nth_error (exec_calls (env0 (List.length args)) (calls s)) i = Some v /\
    val (core_pm pm) out v.
Proof. exact accepted_wiring. Qed.
Print Assumptions C02_wiring_accepted.

(* C02, "each provider function is called at most once per injector call": whatever the graph, the stack and the
   fuel, the planner never emits two calls for one type; a provider function that sits at one key of the map is
   therefore called at most once (a struct provider sits at two keys, S and *S, and is instantiated once for each
   form that is needed) *)
Theorem C02_each_type_built_once : forall pmc given fuel stk s u s' u' i j c c',
  machine2 pmc given fuel stk s u = Some (s', u') -> calls s = [] ->
  nth_error (calls s') i = Some c -> nth_error (calls s') j = Some c' -> Solve.c_out c = Solve.c_out c' -> i = j.
Proof. exact Once.each_type_built_once. Qed.
Print Assumptions C02_each_type_built_once.

Theorem C02_provider_called_at_most_once : forall pmc given fuel stk s u s' u' i j c c' pid,
  (forall t t' pv pv' a a', pmc t = Some pv -> conc pv = t -> wh pv = WProv a pid ->
                            pmc t' = Some pv' -> conc pv' = t' -> wh pv' = WProv a' pid -> t = t') ->
  machine2 pmc given fuel stk s u = Some (s', u') -> calls s = [] ->
  nth_error (calls s') i = Some c -> nth_error (calls s') j = Some c' ->
  Solve.c_kind c = CProv pid -> Solve.c_kind c' = CProv pid -> i = j.
Proof. exact Once.provider_at_most_once. Qed.
Print Assumptions C02_provider_called_at_most_once.

(* ... and, for every accepted build set, only what the result transitively depends on is called *)
Theorem C02_called_only_if_needed : forall tyorder root args out pm s usedk,
  process_set tyorder args root = inl pm ->
  machine2 (core_pm pm) (List.length args) (solve_fuel pm) [out] (init_state args) [] = Some (s, usedk) ->
  forall c, In c (calls s) -> reach (core_pm pm) out (Solve.c_out c).
Proof. exact OnceModel.accepted_calls_needed. Qed.
Print Assumptions C02_called_only_if_needed.

Theorem C06_missing_accepted : forall tyorder root args out pm s usedk,
  process_set tyorder args root = inl pm ->
  machine2 (core_pm pm) (List.length args) (solve_fuel pm) [out] (init_state args) [] = Some (s, usedk) ->
  (forall t, In t (errs s) <-> reach (core_pm pm) out t /\ core_pm pm t = None) /\ NoDup (errs s).
Proof. exact accepted_missing. Qed.
Print Assumptions C06_missing_accepted.

(* the object cache is transparent: whatever was looked up before, a package-level object gets its own result and
   anything else is refused (one package-level object per name per package is Go's; the premise fails if the key is
   the package name instead of its path) *)
Theorem C06_object_cache_transparent : forall (analyse : CacheKey.obj -> nat),
  (forall o o', CacheKey.o_pkg_level o = true -> CacheKey.o_pkg_level o' = true -> CacheKey.key o = CacheKey.key o' -> o = o') ->
  forall os c, CacheKey.Inv analyse c ->
  CacheKey.gets analyse c os = map (fun o => if CacheKey.o_pkg_level o then Some (analyse o) else None) os.
Proof. exact CacheKey.gets_transparent. Qed.
Print Assumptions C06_object_cache_transparent.

Theorem C06_rejected_names_missing_accepted : forall tyorder root args out pm ds,
  process_set tyorder args root = inl pm -> solve pm root args out = inr ds ->
  ds = [DFuel] \/
  (exists l, ds = map DNoProvider l /\ l <> [] /\ NoDup l /\ forall t, In t l <-> reach (core_pm pm) out t /\ core_pm pm t = None) \/
  (forall t, reach (core_pm pm) out t -> core_pm pm t <> None).
Proof. exact accepted_rejects_missing. Qed.
Print Assumptions C06_rejected_names_missing_accepted.

Theorem C06_accepted_is_complete_accepted : forall tyorder root args out pm cs,
  process_set tyorder args root = inl pm -> solve pm root args out = inl cs ->
  forall t, reach (core_pm pm) out t -> core_pm pm t <> None.
Proof. exact accepted_complete. Qed.
Print Assumptions C06_accepted_is_complete_accepted.

(* every provider map processNewSet accepts satisfies the well-formedness checker, and its planner graph is acyclic *)
Theorem C05_accepted_maps_well_formed : forall tyorder args root pm,
  process_set tyorder args root = inl pm -> wfb pm args = true.
Proof. exact process_set_wfb. Qed.
Print Assumptions C05_accepted_maps_well_formed.

Theorem C07_accepted_sets_acyclic_for_planner : forall tyorder root args pm,
  process_set tyorder args root = inl pm -> acyclic (core_pm pm).
Proof. exact accepted_acyclic. Qed.
Print Assumptions C07_accepted_sets_acyclic_for_planner.

(* ------------------------------------------------------------------ C08 (exact) *)
(* For every accepted set and every run of the planner: the used list consists exactly of the types the result
   transitively needs (alias edges followed) that have a source in the set and are not injector parameters.
   With C08_unused_reported_exactly: a direct item is reported unused iff no such type has it as its source. *)
Theorem C08_used_exactly : forall tyorder root args out pm s usedk,
  process_set tyorder args root = inl pm ->
  machine2 (core_pm pm) (List.length args) (solve_fuel pm) [out] (init_state args) [] = Some (s, usedk) ->
  forall x, In x usedk <-> (reach (core_pm pm) out x /\ core_pm pm x <> None /\ ~ In x args).
Proof. exact accepted_used. Qed.
Print Assumptions C08_used_exactly.

(* ------------------------------------------------------------------ C07 (explicit bound) *)
(* the cycle-check loop completes within 2 + (sum of the successor counts of the keys) iterations per root,
   whatever the graph: deep chains and lattices with exponentially many paths cost no more than their edges *)
Theorem C07_linear_bound : forall (succ : nat -> list nat) (ks : list nat),
  NoDup ks -> (forall u, succ u <> [] -> In u ks) ->
  forall roots fuel, 1 + pot succ ks [] < fuel ->
  exists v cycles, mrootsL succ fuel roots [] [] = Some (v, cycles).
Proof. exact mrootsL_bound. Qed.
Print Assumptions C07_linear_bound.

(* hence the model's own fuel always suffices and the verdict is unconditional on every duplicate-free map *)
Theorem C07_cycles_detected_total : forall tyorder pm, NoDup (keys pm) ->
  (verify tyorder pm = [] <-> ~ exists u, path (succ_of pm) u u).
Proof. exact verify_acyclic_iff_total. Qed.
Print Assumptions C07_cycles_detected_total.

(* ------------------------------------------------------------------ recorded findings, as refutations *)
(* C10's order independence does not extend to bindings, in the model as in the code: a binding chain is accepted in
   one order of the two wire.Bind calls and refused in the other (known finding
   bind-chain:acceptance-depends-on-argument-order) *)
Theorem C10_binding_order_refuted :
  exists bs bs', Permutation.Permutation bs bs' /\
    ChainRefuted.accepted (analyze [1; 2; 4] (ChainRefuted.set_in_order bs) [] 2 false false) = true /\
    ChainRefuted.accepted (analyze [1; 2; 4] (ChainRefuted.set_in_order bs') [] 2 false false) = false.
Proof. exact ChainRefuted.C10_binding_order_refuted. Qed.
Print Assumptions C10_binding_order_refuted.

(* ... and, listed directly in wire.Build, the binding the chain goes through is reported unused (known finding
   bind-chain:contributing-binding-reported-unused) *)
Theorem C08_chain_binding_reported_unused_refuted :
  analyze [1; 2; 4] (RSet 0 [] [ChainRefuted.pC] [] [] [] [ChainRefuted.bBC; ChainRefuted.bAB]) [] 2 false false
  = RErr StSolve [DUnusedBind 1].
Proof. exact ChainRefuted.C08_chain_binding_reported_unused. Qed.
Print Assumptions C08_chain_binding_reported_unused_refuted.
