From Coq Require Import List Arith Bool.
From Wire Require Import Sets Acyclic Solve Model ModelThms.
Import ListNotations.

(* The property theorems.  This file contains nothing but statements closed by [exact lemma] and the
   Print Assumptions beneath each. *)

(* ------------------------------------------------------------------ C07 *)
(* verifyAcyclic (as the trail-stack machine the Go code runs) accepts a provider map iff its dependency
   relation -- provider parameters, struct fields, field -> parent, interface key -> parameters of the
   bound concrete provider -- has no cycle, for every root order that lists all keys, whether or not any
   injector reaches the cyclic part (Model.process_set runs it on the map of every set of the closure). *)
Theorem C07_cycles_detected : forall tyorder pm,
  incl (keys pm) tyorder -> verify tyorder pm <> [SFuel] ->
  (verify tyorder pm = [] <-> ~ exists u, path (succ_of pm) u u).
Proof. exact verify_acyclic_iff. Qed.
Print Assumptions C07_cycles_detected.

Theorem C07_only_cycle_errors : forall tyorder pm e,
  In e (verify tyorder pm) -> e = SFuel \/ exists l, e = SCycle l.
Proof. exact verify_only_cycles. Qed.
Print Assumptions C07_only_cycle_errors.

(* the loop terminates on every finite graph, cyclic or not *)
Theorem C07_terminates : forall succ U,
  (forall u v, In u U -> In v (succ u) -> In v U) ->
  forall roots, incl roots U -> (forall u, succ u <> [] -> In u roots) ->
  exists fuel0, forall fuel, fuel0 <= fuel -> exists v cycles, mrootsL succ fuel roots [] [] = Some (v, cycles).
Proof. exact mrootsL_terminates. Qed.
Print Assumptions C07_terminates.

(* the explicit-stack loop computes exactly what the recursive DFS computes *)
Theorem C07_machine_refines_dfs : forall succ f, Acyclic.P succ f.
Proof. exact Acyclic.sim. Qed.
Print Assumptions C07_machine_refines_dfs.
