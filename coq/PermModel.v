From Coq Require Import List Arith Lia Bool Permutation.
From Wire Require Import Sets Perm Acyclic Solve Names Front Exec Model ModelThms Bridge ProcessWF.
Import ListNotations.

(* C10 (wiring): the planner's result is a function of the finite map (its lookups), not of the order in which
   buildProviderMap happened to insert the entries. *)

Lemma step_ext (f g : nat -> option provided) given : (forall t, f t = g t) ->
  forall t stk s, step f given t stk s = step g given t stk s.
Proof. intros H t stk s. unfold step. rewrite (H t). reflexivity. Qed.

Lemma machine2_ext (f g : nat -> option provided) given : (forall t, f t = g t) ->
  forall fuel stk s u, machine2 f given fuel stk s u = machine2 g given fuel stk s u.
Proof.
  intros H. induction fuel as [|n IH]; intros stk s u; cbn [machine2]; auto.
  destruct stk as [|t stk']; auto. rewrite (step_ext f g given H).
  destruct (step g given t stk' s) as [stk2 s2]. unfold marks. rewrite (H t). apply IH.
Qed.

Section PM.
Variables pm pm' : pmap entry.
Hypothesis Heq : forall t, look pm t = look pm' t.
Hypothesis Hperm : Permutation pm pm'.

Lemma succ_of_eq t : succ_of pm t = succ_of pm' t.
Proof. unfold succ_of. rewrite (Heq t). reflexivity. Qed.

Lemma core_pm_eq t : core_pm pm t = core_pm pm' t.
Proof. unfold core_pm. rewrite (Heq t). reflexivity. Qed.

Lemma sum_perm (f : nat * entry -> nat) (l l' : list (nat * entry)) : Permutation l l' ->
  fold_right (fun kv n => f kv + n) 0 l = fold_right (fun kv n => f kv + n) 0 l'.
Proof. induction 1; cbn; lia. Qed.

Lemma solve_fuel_eq : solve_fuel pm = solve_fuel pm'.
Proof.
  unfold solve_fuel. rewrite (Permutation_length Hperm). f_equal. f_equal. f_equal.
  rewrite (sum_perm (fun kv => List.length (succ_of pm (fst kv))) pm pm' Hperm).
  assert (G : forall l : list (nat * entry),
            fold_right (fun kv n => List.length (succ_of pm (fst kv)) + n) 0 l =
            fold_right (fun kv n => List.length (succ_of pm' (fst kv)) + n) 0 l).
  { induction l as [|kv r IH]; cbn; auto. rewrite succ_of_eq, IH. reflexivity. }
  apply G.
Qed.

Theorem solve_map_eq root args out : solve pm root args out = solve pm' root args out.
Proof.
  unfold solve. rewrite solve_fuel_eq. rewrite (machine2_ext (core_pm pm) (core_pm pm') _ core_pm_eq).
  destruct (machine2 (core_pm pm') (List.length args) (solve_fuel pm') [out] (init_state args) []) as [[s usedk]|]; auto.
  destruct (errs s); auto.
  assert (Hsrc : flat_map (src_of pm) usedk = flat_map (src_of pm') usedk).
  { induction usedk as [|x r IH]; cbn; auto. unfold src_of at 1 3. rewrite (Heq x), IH. reflexivity. }
  rewrite Hsrc. destruct (verify_args_used root _); auto. f_equal.
  apply map_ext. intros c. unfold decorate. rewrite (Heq (Solve.c_out c)). reflexivity.
Qed.
End PM.

(* ---------------- one level of a set, permuted ---------------- *)
Lemma process_list_perm {A} (imp bind : nat -> A -> A) verify (imps imps' : list (pset A)) :
  Permutation imps imps' -> forall ms es, process_list A imp bind verify imps = (ms, es) ->
  exists ms' es', process_list A imp bind verify imps' = (ms', es') /\ Permutation ms ms' /\ Permutation es es'.
Proof.
  induction 1 as [|x l l' HP IH|x y l|l1 l2 l3 _ IH1 _ IH2]; intros ms es H.
  - cbn in H. inversion H; subst. exists [], []. cbn. auto.
  - cbn [process_list] in *. destruct (process_list A imp bind verify l) as [ms0 es0] eqn:E0.
    destruct (IH _ _ eq_refl) as (ms1 & es1 & E1 & P1 & P2). rewrite E1.
    destruct (process imp bind verify x) as [m|e]; injection H as <- <-.
    + exists ((set_id x, m) :: ms1), es1. auto.
    + exists ms1, (e ++ es1). split; auto. split; auto. apply Permutation_app_head. exact P2.
  - cbn [process_list] in *. destruct (process_list A imp bind verify l) as [ms0 es0].
    destruct (process imp bind verify x) as [mx|ex]; destruct (process imp bind verify y) as [my|ey]; injection H as <- <-.
    + exists ((set_id x, mx) :: (set_id y, my) :: ms0), es0. split; auto. split; [apply perm_swap|apply Permutation_refl].
    + exists ((set_id x, mx) :: ms0), (ey ++ es0). auto.
    + exists ((set_id y, my) :: ms0), (ex ++ es0). auto.
    + exists ms0, (ex ++ ey ++ es0). split; auto. split; auto.
      rewrite !app_assoc. apply Permutation_app_tail. apply Permutation_app_comm.
  - destruct (IH1 _ _ H) as (ms2 & es2 & E2 & P1 & P2).
    destruct (IH2 _ _ E2) as (ms3 & es3 & E3 & Q1 & Q2).
    exists ms3, es3. split; auto. split; eapply Permutation_trans; eauto.
Qed.

Lemma path_ext (f g : nat -> list nat) : (forall u, f u = g u) -> forall a b, path f a b -> path g a b.
Proof.
  intros H a b Hp. induction Hp as [u v He|u v w He _ IH].
  - apply path1. unfold edge in *. rewrite <- H. exact He.
  - eapply pathS; [|exact IH]. unfold edge in *. rewrite <- H. exact He.
Qed.

Lemma flat_map_nil_perm {X Y} (f : X -> list Y) l l' : Permutation l l' -> flat_map f l = [] -> flat_map f l' = [].
Proof.
  intros HP H. pose proof (flat_map_perm f l l' HP) as P. rewrite H in P. apply Permutation_nil in P. exact P.
Qed.

Theorem process_set_perm tyorder args id imports imports' provs provs' sprovs sprovs' vals vals' flds flds' binds pm :
  Permutation imports imports' -> Permutation provs provs' -> Permutation sprovs sprovs' ->
  Permutation vals vals' -> Permutation flds flds' ->
  process_set tyorder args (RSet id imports provs sprovs vals flds binds) = inl pm ->
  exists pm', process_set tyorder args (RSet id imports' provs' sprovs' vals' flds' binds) = inl pm' /\
              (forall t, look pm t = look pm' t) /\ Permutation pm pm'.
Proof.
  intros Pi Pp Ps Pv Pf. unfold process_set. cbn [to_core]. rewrite (to_core_imports imports), (to_core_imports imports').
  rewrite !(process_unfold entry imp_payload bind_payload (verify tyorder)).
  destruct (process_list entry imp_payload bind_payload (verify tyorder) (map (to_core []) imports)) as [ms es] eqn:El.
  destruct (process_list_perm imp_payload bind_payload (verify tyorder) _ _ (Permutation_map (to_core []) Pi) ms es El)
    as (ms' & es' & El' & Pms & Pes).
  rewrite El'.
  destruct (es ++ (flat_map func_provider_errs provs ++ flat_map sprov_errs sprovs)) as [|e0 r0] eqn:Ee; [|discriminate].
  apply app_eq_nil in Ee. destruct Ee as [-> Ee]. apply app_eq_nil in Ee. destruct Ee as [Ee1 Ee2].
  apply Permutation_nil in Pes. subst es'.
  rewrite (flat_map_nil_perm func_provider_errs provs provs' Pp Ee1).
  rewrite (flat_map_nil_perm sprov_errs sprovs sprovs' Ps Ee2). cbn [app].
  destruct (build1 imp_payload bind_payload (arg_entries 0 args) ms (direct_entries (all_provs provs sprovs) vals flds) (map bind_triple binds)) as [pm0|e] eqn:Eb; [|discriminate].
  destruct (verify tyorder pm0) eqn:Ev; [|discriminate]. intros H; inversion H; subst pm0.
  assert (Pd : Permutation (direct_entries (all_provs provs sprovs) vals flds) (direct_entries (all_provs provs' sprovs') vals' flds')).
  { unfold direct_entries, all_provs. apply Permutation_app; [|apply Permutation_app].
    - apply flat_map_perm. apply Permutation_app; [exact Pp|apply flat_map_perm; exact Ps].
    - apply Permutation_map. exact Pv.
    - apply flat_map_perm. exact Pf. }
  destruct (build1_perm_entries entry imp_payload bind_payload _ ms ms' _ _ _ pm Pms Pd Eb) as (pm' & Eb' & Meq & Pperm).
  rewrite Eb'.
  assert (Hnd : NoDup (keys pm)) by (destruct (build1_keys entry imp_payload bind_payload _ _ _ _ _ Eb); auto).
  assert (Hnd' : NoDup (keys pm')) by (destruct (build1_keys entry imp_payload bind_payload _ _ _ _ _ Eb'); auto).
  assert (Hv' : verify tyorder pm' = []).
  { apply (verify_acyclic_iff_total tyorder pm' Hnd'). intros [u Hp].
    apply (proj1 (verify_acyclic_iff_total tyorder pm Hnd) Ev). exists u.
    apply (path_ext (succ_of pm') (succ_of pm)); [|exact Hp].
    intros x. symmetry. apply succ_of_eq. exact Meq. }
  rewrite Hv'. exists pm'. auto.
Qed.

(* ---------------- the whole analysis of an injector, permuted ---------------- *)
Lemma filter_map_perm {X Y} (p : X -> bool) (f : X -> Y) l l' :
  Permutation l l' -> Permutation (map f (filter p l)) (map f (filter p l')).
Proof.
  induction 1 as [|x l l' _ IH|x y l|l1 l2 l3 _ IH1 _ IH2]; cbn.
  - constructor.
  - destruct (p x); cbn; auto.
  - destruct (p x), (p y); cbn; auto using Permutation_refl. apply perm_swap.
  - eapply Permutation_trans; eauto.
Qed.

Lemma verify_args_used_perm id imports imports' provs provs' sprovs sprovs' vals vals' flds flds' binds used :
  Permutation imports imports' -> Permutation provs provs' -> Permutation sprovs sprovs' ->
  Permutation vals vals' -> Permutation flds flds' ->
  Permutation (verify_args_used (RSet id imports provs sprovs vals flds binds) used)
              (verify_args_used (RSet id imports' provs' sprovs' vals' flds' binds) used).
Proof.
  intros Pi Pp Ps Pv Pf. unfold verify_args_used.
  repeat apply Permutation_app; try apply filter_map_perm; auto.
  unfold all_provs. apply Permutation_app; auto. apply flat_map_perm. exact Ps.
Qed.

Theorem analyze_perm tyorder args out sc se id imports imports' provs provs' sprovs sprovs' vals vals' flds flds' binds pm cs :
  Permutation imports imports' -> Permutation provs provs' -> Permutation sprovs sprovs' ->
  Permutation vals vals' -> Permutation flds flds' ->
  analyze tyorder (RSet id imports provs sprovs vals flds binds) args out sc se = ROk pm cs ->
  exists pm', analyze tyorder (RSet id imports' provs' sprovs' vals' flds' binds) args out sc se = ROk pm' cs /\
              (forall t, look pm t = look pm' t).
Proof.
  intros Pi Pp Ps Pv Pf. unfold analyze.
  destruct (process_set tyorder args (RSet id imports provs sprovs vals flds binds)) as [pm0|es] eqn:Ep; [|discriminate].
  destruct (process_set_perm tyorder args id imports imports' provs provs' sprovs sprovs' vals vals' flds flds' binds pm0
              Pi Pp Ps Pv Pf Ep) as (pm' & Ep' & Meq & Pperm).
  rewrite Ep'.
  destruct (solve pm0 (RSet id imports provs sprovs vals flds binds) args out) as [cs0|ds] eqn:Es; [|discriminate].
  assert (Es' : solve pm' (RSet id imports' provs' sprovs' vals' flds' binds) args out = inl cs0).
  { revert Es. unfold solve.
    rewrite (solve_fuel_eq pm0 pm' Meq Pperm).
    rewrite (machine2_ext (core_pm pm0) (core_pm pm') _ (core_pm_eq pm0 pm' Meq)).
    destruct (machine2 (core_pm pm') (List.length args) (solve_fuel pm') [out] (init_state args) []) as [[s usedk]|]; [|discriminate].
    destruct (errs s); [|discriminate].
    assert (Hsrc : flat_map (src_of pm0) usedk = flat_map (src_of pm') usedk).
    { clear -Meq. induction usedk as [|x r IH]; cbn; auto. unfold src_of at 1 3. rewrite (Meq x), IH. reflexivity. }
    rewrite Hsrc.
    pose proof (verify_args_used_perm id imports imports' provs provs' sprovs sprovs' vals vals' flds flds' binds
                  (flat_map (src_of pm') usedk) Pi Pp Ps Pv Pf) as PV.
    destruct (verify_args_used (RSet id imports provs sprovs vals flds binds) _) as [|d0 dr]; [|discriminate].
    apply Permutation_nil in PV. rewrite PV. intros H; injection H as <-. f_equal.
    apply map_ext. intros c. unfold decorate. rewrite (Meq (Solve.c_out c)). reflexivity. }
  rewrite Es'.
  destruct (inject_checks sc se cs0); [|discriminate]. intros H; injection H as <- <-.
  exists pm'. auto.
Qed.
