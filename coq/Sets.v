From Coq Require Import List Arith Lia Bool Permutation ListDec.
Import ListNotations.

(* analyze.go:buildProviderMap over nested provider sets (parse.go:processNewSet recursion).
   Types are nat ids.  What a key maps to (ProvidedType + providerSetSrc) is an abstract payload A;
   the concrete model instantiates it (Model.v). *)

Inductive serr :=
| SMulti (t : nat)                 (* "multiple bindings for t" *)
| SBindMissing (i c : nat)         (* wire.Bind of concrete c to interface i, no provider for c *)
| SCycle (l : list nat)            (* "cycle for ...", as produced by verifyAcyclic *)
| SFuel                            (* the model's loop bound was exhausted (never a verdict) *)
| SItem (code : nat) (t : nat).     (* a front-end error of one direct item (class code, type or item id) *)

Section Sets.
Variable A : Type.

Inductive pset :=
| PSet (sid : nat)
       (args : list (nat * A))            (* injector parameters (root only): type, payload *)
       (imports : list pset)              (* nested sets, in argument order *)
       (ierrs : list serr)                (* front-end errors of this level's own items *)
       (direct : list (nat * A))          (* providers' outs, then values, then fields' outs: type, payload *)
       (binds : list (nat * nat * nat)).  (* (interface, concrete, binding id) *)

Variable imp_payload : nat -> A -> A.     (* payload as seen through an import of set sid *)
Variable bind_payload : nat -> A -> A.    (* payload of an interface key bound (binding id) to a concrete entry *)

(* strong induction principle for the nested type *)
Section Ind.
Variable P : pset -> Prop.
Hypothesis H : forall sid a imps ie d b, Forall P imps -> P (PSet sid a imps ie d b).
Fixpoint pset_ind' (s : pset) : P s :=
  match s with
  | PSet sid a imps ie d b =>
    H sid a imps ie d b
      ((fix go (l : list pset) : Forall P l :=
          match l with
          | [] => Forall_nil P
          | x :: r => Forall_cons x (pset_ind' x) (go r)
          end) imps)
  end.
End Ind.

Definition pmap := list (nat * A).

Fixpoint look (pm : pmap) (t : nat) : option A :=
  match pm with
  | [] => None
  | (k, c) :: r => if Nat.eqb k t then Some c else look r t
  end.

Definition keys (pm : pmap) : list nat := map fst pm.

Lemma look_None_keys pm t : look pm t = None <-> ~ In t (keys pm).
Proof.
  induction pm as [|[k c] r IH]; simpl; [tauto|].
  destruct (k =? t) eqn:E.
  - apply Nat.eqb_eq in E. subst. split; [discriminate|intros Hn; exfalso; apply Hn; auto].
  - apply Nat.eqb_neq in E. rewrite IH. tauto.
Qed.

(* insert entries one by one; a present key is a conflict (reported, entry skipped) *)
Fixpoint insert_all (es : list (nat * A)) (pm : pmap) (errs : list serr) : pmap * list serr :=
  match es with
  | [] => (pm, errs)
  | (k, c) :: r =>
    match look pm k with
    | Some _ => insert_all r pm (errs ++ [SMulti k])
    | None => insert_all r (pm ++ [(k, c)]) errs
    end
  end.

(* bindings: after everything else; conflict if the interface is present, error if the concrete is absent *)
Fixpoint insert_binds (bs : list (nat * nat * nat)) (pm : pmap) (errs : list serr) : pmap * list serr :=
  match bs with
  | [] => (pm, errs)
  | (i, c, b) :: r =>
    match look pm i with
    | Some _ => insert_binds r pm (errs ++ [SMulti i])
    | None =>
      match look pm c with
      | None => insert_binds r pm (errs ++ [SBindMissing i c])
      | Some cc => insert_binds r (pm ++ [(i, bind_payload b cc)]) errs
      end
    end
  end.

Definition imp_entries (im : nat * pmap) : list (nat * A) :=
  map (fun kv => (fst kv, imp_payload (fst im) (snd kv))) (snd im).

(* one level, given the already-built maps of the imports (with their set ids) *)
Definition build1 (args : list (nat * A)) (imps : list (nat * pmap)) (direct : list (nat * A))
                  (binds : list (nat * nat * nat)) : pmap + list serr :=
  let '(pm1, e1) := insert_all (args ++ flat_map imp_entries imps) [] [] in
  match e1 with
  | _ :: _ => inr e1
  | [] =>
    let '(pm2, e2) := insert_all direct pm1 [] in
    match e2 with
    | _ :: _ => inr e2
    | [] =>
      let '(pm3, e3) := insert_binds binds pm2 [] in
      match e3 with _ :: _ => inr e3 | [] => inl pm3 end
    end
  end.

Variable verify : pmap -> list serr.     (* verifyAcyclic on the finished map *)

Definition set_id (s : pset) : nat := match s with PSet sid _ _ _ _ _ => sid end.

(* processNewSet: nested sets first (errors of all failing ones are collected), then this level,
   then the cycle check *)
Fixpoint process (s : pset) : pmap + list serr :=
  match s with
  | PSet sid a imps ie d b =>
    match (fix go (l : list pset) : list (nat * pmap) * list serr :=
             match l with
             | [] => ([], [])
             | x :: r =>
               let '(ms, es) := go r in
               match process x with
               | inl m => ((set_id x, m) :: ms, es)
               | inr e => (ms, e ++ es)
               end
             end) imps with
    | (ms, es) =>
      match es ++ ie with
      | [] =>
        match build1 a ms d b with
        | inr e => inr e
        | inl pm => match verify pm with [] => inl pm | e => inr e end
        end
      | e => inr e
      end
    end
  end.

Fixpoint process_list (l : list pset) : list (nat * pmap) * list serr :=
  match l with
  | [] => ([], [])
  | x :: r =>
    let '(ms, es) := process_list r in
    match process x with
    | inl m => ((set_id x, m) :: ms, es)
    | inr e => (ms, e ++ es)
    end
  end.

Lemma process_unfold sid a imps ie d b :
  process (PSet sid a imps ie d b) =
  match process_list imps with
  | (ms, es) =>
    match es ++ ie with
    | [] =>
      match build1 a ms d b with
      | inr e => inr e
      | inl pm => match verify pm with [] => inl pm | e => inr e end
      end
    | e => inr e
    end
  end.
Proof.
  cbn [process].
  match goal with |- match ?X with _ => _ end = _ => assert (HA : X = process_list imps) end.
  { induction imps as [|x r IH]; cbn [process_list]; auto; rewrite IH; reflexivity. }
  rewrite HA. reflexivity.
Qed.

(* ---- specification: the flattened list of provided types (with multiplicity) ---- *)
Fixpoint provided (s : pset) : list nat :=
  match s with
  | PSet sid a imps ie d b =>
    map fst a ++ flat_map provided imps ++ map fst d ++ map (fun x => fst (fst x)) b
  end.

(* ---- lemmas about insertion ---- *)
Lemma keys_app pm pm' : keys (pm ++ pm') = keys pm ++ keys pm'.
Proof. unfold keys. apply map_app. Qed.

Lemma insert_all_errs_mono es : forall pm errs pm' errs',
  insert_all es pm errs = (pm', errs') -> exists l, errs' = errs ++ l.
Proof.
  induction es as [|[k c] r IH]; intros pm errs pm' errs' H; cbn [insert_all] in H.
  - inversion H; subst. exists []. rewrite app_nil_r; auto.
  - destruct (look pm k).
    + apply IH in H. destruct H as [l ->]. exists ([SMulti k] ++ l). rewrite app_assoc. auto.
    + eapply IH; eauto.
Qed.

Lemma NoDup_snoc (l : list nat) k : NoDup l -> ~ In k l -> NoDup (l ++ [k]).
Proof.
  induction l as [|x l IH]; intros Hnd Hn; cbn.
  - constructor; auto; constructor.
  - inversion Hnd; subst. constructor.
    + intros Hi. apply in_app_or in Hi. destruct Hi as [Hi|[->|[]]]; auto. apply Hn; simpl; auto.
    + apply IH; auto. intros Hi. apply Hn; simpl; auto.
Qed.

(* no error => the inserted keys were pairwise distinct and new, and the result's keys are old ++ new *)
Lemma insert_all_ok es : forall pm pm',
  NoDup (keys pm) -> insert_all es pm [] = (pm', []) ->
  keys pm' = keys pm ++ map fst es /\ NoDup (keys pm').
Proof.
  induction es as [|[k c] r IH]; intros pm pm' Hnd H; cbn [insert_all] in H.
  - inversion H; subst. cbn [map]. rewrite app_nil_r. auto.
  - destruct (look pm k) eqn:E.
    + apply insert_all_errs_mono in H. destruct H as [l Hl]. destruct l; discriminate.
    + apply look_None_keys in E.
      destruct (IH (pm ++ [(k, c)]) pm') as [H1 H2]; auto.
      { rewrite keys_app. cbn. apply NoDup_snoc; auto. }
      split; auto. rewrite H1, keys_app. cbn. rewrite <- app_assoc. reflexivity.
Qed.

(* an error is a real conflict *)
Lemma insert_all_err es : forall pm pm' errs e l,
  insert_all es pm errs = (pm', errs ++ e :: l) -> ~ NoDup (keys pm ++ map fst es).
Proof.
  induction es as [|[k c] r IH]; intros pm pm' errs e l H; cbn [insert_all] in H.
  - inversion H. exfalso. assert (length errs = length (errs ++ e :: l)) by congruence.
    rewrite app_length in H0. simpl in H0. lia.
  - destruct (look pm k) eqn:E.
    + intros Hnd. assert (In k (keys pm)).
      { destruct (in_dec Nat.eq_dec k (keys pm)) as [Hin|Hnin]; auto. apply look_None_keys in Hnin. congruence. }
      cbn [map fst] in Hnd. apply NoDup_remove_2 in Hnd. apply Hnd. apply in_or_app; auto.
    + intros Hnd. eapply (IH (pm ++ [(k, c)])); eauto.
      rewrite keys_app. cbn. rewrite <- app_assoc. exact Hnd.
Qed.

(* every reported conflict names a key that really occurs twice *)
Lemma insert_all_err_named es : forall pm pm' errs errs',
  insert_all es pm errs = (pm', errs') ->
  forall e, In e errs' -> In e errs \/ exists k, e = SMulti k /\ In k (map fst es) /\
     (In k (keys pm) \/ exists l1 l2 l3, map fst es = l1 ++ k :: l2 ++ k :: l3).
Proof.
  induction es as [|[k c] r IH]; intros pm pm' errs errs' H e He; cbn [insert_all] in H.
  - inversion H; subst. auto.
  - destruct (look pm k) eqn:E.
    + destruct (IH _ _ _ _ H e He) as [Hin|(k' & -> & Hk' & Hd)].
      * apply in_app_or in Hin. destruct Hin as [Hin|[<-|[]]]; auto.
        right. exists k. split; auto. split; [simpl; auto|]. left.
        destruct (in_dec Nat.eq_dec k (keys pm)) as [Hi|Hn]; auto. apply look_None_keys in Hn. congruence.
      * right. exists k'. split; auto. split; [simpl; auto|].
        destruct Hd as [Hd|(l1 & l2 & l3 & Hd)]; auto.
        right. exists (k :: l1), l2, l3. cbn [map fst]. rewrite Hd. reflexivity.
    + destruct (IH _ _ _ _ H e He) as [Hin|(k' & -> & Hk' & Hd)]; auto.
      right. exists k'. split; auto. split; [simpl; auto|].
      destruct Hd as [Hd|(l1 & l2 & l3 & Hd)].
      * rewrite keys_app in Hd. apply in_app_or in Hd. destruct Hd as [Hd|[<-|[]]]; auto.
        right. apply in_split in Hk'. destruct Hk' as (l2 & l3 & Hs).
        exists [], l2, l3. cbn [map fst app]. rewrite Hs. reflexivity.
      * right. exists (k :: l1), l2, l3. cbn [map fst]. rewrite Hd. reflexivity.
Qed.

Lemma insert_binds_errs_mono bs : forall pm errs pm' errs',
  insert_binds bs pm errs = (pm', errs') -> exists l, errs' = errs ++ l.
Proof.
  induction bs as [|[[i c] b] r IH]; intros pm errs pm' errs' H; cbn [insert_binds] in H.
  - inversion H; subst. exists []. rewrite app_nil_r; auto.
  - destruct (look pm i).
    + apply IH in H. destruct H as [l ->]. exists ([SMulti i] ++ l). rewrite app_assoc. auto.
    + destruct (look pm c).
      * eapply IH; eauto.
      * apply IH in H. destruct H as [l ->]. exists ([SBindMissing i c] ++ l). rewrite app_assoc. auto.
Qed.

Definition bkey (x : nat * nat * nat) : nat := fst (fst x).

Lemma insert_binds_ok bs : forall pm pm',
  NoDup (keys pm) -> insert_binds bs pm [] = (pm', []) ->
  keys pm' = keys pm ++ map bkey bs /\ NoDup (keys pm').
Proof.
  induction bs as [|[[i c] b] r IH]; intros pm pm' Hnd H; cbn [insert_binds] in H.
  - inversion H; subst. cbn [map]. rewrite app_nil_r. auto.
  - destruct (look pm i) eqn:E.
    + apply insert_binds_errs_mono in H. destruct H as [l Hl]. destruct l; discriminate.
    + destruct (look pm c) eqn:Ec.
      * apply look_None_keys in E.
        destruct (IH (pm ++ [(i, bind_payload b a)]) pm') as [H1 H2]; auto.
        { rewrite keys_app. cbn. apply NoDup_snoc; auto. }
        split; auto. rewrite H1, keys_app. cbn. rewrite <- app_assoc. reflexivity.
      * apply insert_binds_errs_mono in H. destruct H as [l Hl]. destruct l; discriminate.
Qed.

(* a binding is only inserted when its concrete type is a key of the map built so far
   (C11: co-location) *)
Lemma insert_binds_colocated bs : forall pm pm',
  insert_binds bs pm [] = (pm', []) ->
  forall i c b, In (i, c, b) bs -> In c (keys pm').
Proof.
  induction bs as [|[[i c] b] r IH]; intros pm pm' H i0 c0 b0 Hin; [destruct Hin|].
  cbn [insert_binds] in H.
  destruct (look pm i) eqn:E.
  { apply insert_binds_errs_mono in H. destruct H as [l Hl]. destruct l; discriminate. }
  destruct (look pm c) eqn:Ec.
  2:{ apply insert_binds_errs_mono in H. destruct H as [l Hl]. destruct l; discriminate. }
  assert (Hmono : forall bs' pmA pmB, insert_binds bs' pmA [] = (pmB, []) -> incl (keys pmA) (keys pmB)).
  { clear. induction bs' as [|[[i c] b] r IH]; intros pmA pmB H; cbn [insert_binds] in H.
    - inversion H; subst. apply incl_refl.
    - destruct (look pmA i).
      { apply insert_binds_errs_mono in H. destruct H as [l Hl]. destruct l; discriminate. }
      destruct (look pmA c).
      2:{ apply insert_binds_errs_mono in H. destruct H as [l Hl]. destruct l; discriminate. }
      apply IH in H. intros x Hx. apply H. rewrite keys_app. apply in_or_app; auto. }
  destruct Hin as [Heq|Hin].
  - inversion Heq; subst. apply (Hmono _ _ _ H). rewrite keys_app. apply in_or_app. left.
    destruct (in_dec Nat.eq_dec c0 (keys pm)) as [Hi|Hn]; auto. apply look_None_keys in Hn. congruence.
  - eapply IH; eauto.
Qed.

Lemma map_fst_imp_entries im : map fst (imp_entries im) = keys (snd im).
Proof. unfold imp_entries, keys. rewrite map_map. cbn. reflexivity. Qed.

Lemma map_fst_flat_imp (ms : list (nat * pmap)) :
  map fst (flat_map imp_entries ms) = concat (map (fun im => keys (snd im)) ms).
Proof.
  induction ms as [|m r IH]; cbn; auto. rewrite map_app, IH, map_fst_imp_entries. reflexivity.
Qed.

Theorem build1_keys a ms d b pm :
  build1 a ms d b = inl pm ->
  keys pm = map fst a ++ concat (map (fun im => keys (snd im)) ms) ++ map fst d ++ map bkey b /\ NoDup (keys pm).
Proof.
  unfold build1.
  destruct (insert_all (a ++ flat_map imp_entries ms) [] []) as [pm1 e1] eqn:E1.
  destruct e1; [|discriminate].
  destruct (insert_all d pm1 []) as [pm2 e2] eqn:E2.
  destruct e2; [|discriminate].
  destruct (insert_binds b pm2 []) as [pm3 e3] eqn:E3.
  destruct e3; [|discriminate]. intros H; inversion H; subst.
  apply insert_all_ok in E1; [|constructor]. destruct E1 as [K1 N1].
  apply insert_all_ok in E2; auto. destruct E2 as [K2 N2].
  apply insert_binds_ok in E3; auto. destruct E3 as [K3 N3].
  split; auto. rewrite K3, K2, K1. cbn [keys map app].
  rewrite map_app, map_fst_flat_imp. rewrite <- !app_assoc. reflexivity.
Qed.

Theorem build1_colocated a ms d b pm :
  build1 a ms d b = inl pm -> forall i c bid, In (i, c, bid) b -> In c (keys pm).
Proof.
  unfold build1.
  destruct (insert_all (a ++ flat_map imp_entries ms) [] []) as [pm1 e1] eqn:E1.
  destruct e1; [|discriminate].
  destruct (insert_all d pm1 []) as [pm2 e2] eqn:E2.
  destruct e2; [|discriminate].
  destruct (insert_binds b pm2 []) as [pm3 e3] eqn:E3.
  destruct e3; [|discriminate]. intros H; inversion H; subst.
  intros i c bid Hin. eapply insert_binds_colocated; eauto.
Qed.

Lemma process_list_ok imps ms :
  process_list imps = (ms, []) ->
  Forall2 (fun x m => process x = inl (snd m) /\ fst m = set_id x) imps ms.
Proof.
  revert ms. induction imps as [|x r IH]; intros ms H; cbn [process_list] in H.
  - inversion H. constructor.
  - destruct (process_list r) as [ms' es'] eqn:Er.
    destruct (process x) as [m|e] eqn:Ex.
    + inversion H; subst. constructor; auto.
    + inversion H; subst. destruct e; [|discriminate].
      (* an inr with no errors: cannot be excluded in general, but then ms = ms' drops x *)
      exfalso.
      (* process never returns inr [] *)
      clear -Ex. destruct x as [sid a imps ie d b]. rewrite process_unfold in Ex.
      destruct (process_list imps) as [ms0 es0]. destruct (es0 ++ ie) as [|e0 es1].
      * destruct (build1 a ms0 d b) as [pm|e] eqn:Eb.
        -- destruct (verify pm); discriminate.
        -- unfold build1 in Eb.
           destruct (insert_all (a ++ flat_map imp_entries ms0) [] []) as [pm1 [|x1 e1]]; [|inversion Eb; subst; discriminate].
           destruct (insert_all d pm1 []) as [pm2 [|x2 e2]]; [|inversion Eb; subst; discriminate].
           destruct (insert_binds b pm2 []) as [pm3 [|x3 e3]]; [discriminate|inversion Eb; subst; discriminate].
      * discriminate.
Qed.

(* C05 "never picks": an accepted set has exactly one source per provided type, over the whole closure *)
Theorem process_one_source : forall s pm, process s = inl pm ->
  keys pm = provided s /\ NoDup (provided s) /\ verify pm = [].
Proof.
  induction s as [sid a imps ie d b IH] using pset_ind'. intros pm H.
  rewrite process_unfold in H.
  destruct (process_list imps) as [ms es] eqn:El.
  destruct (es ++ ie) as [|e0 es1] eqn:Ee; [|discriminate].
  apply app_eq_nil in Ee. destruct Ee as [-> _].
  destruct (build1 a ms d b) as [pm0|e] eqn:Eb; [|discriminate].
  destruct (verify pm0) eqn:Ev; [|discriminate]. inversion H; subst pm0.
  apply process_list_ok in El.
  assert (Hk : concat (map (fun im => keys (snd im)) ms) = flat_map provided imps).
  { clear -IH El. induction El as [|x m r ms' [Hx _] Hr IHr]; cbn; auto.
    inversion IH; subst. destruct (H1 _ Hx) as [-> _]. rewrite IHr; auto. }
  apply build1_keys in Eb. destruct Eb as [K N]. rewrite Hk in K.
  cbn [provided]. unfold bkey in K. rewrite <- K. auto.
Qed.

(* C11: in an accepted set every binding's concrete type is a key of that set's own map *)
Theorem process_colocated sid a imps ie d b pm :
  process (PSet sid a imps ie d b) = inl pm -> forall i c bid, In (i, c, bid) b -> In c (keys pm).
Proof.
  intros H. rewrite process_unfold in H.
  destruct (process_list imps) as [ms es] eqn:El.
  destruct (es ++ ie) as [|e0 es1] eqn:Ee; [|discriminate].
  destruct (build1 a ms d b) as [pm0|e] eqn:Eb; [|discriminate].
  destruct (verify pm0) eqn:Ev; [|discriminate]. inversion H; subst pm0.
  eapply build1_colocated; eauto.
Qed.

(* ---------- C10: order independence of a phase ---------- *)
Definition map_eq (pm pm' : pmap) : Prop := forall t, look pm t = look pm' t.

Lemma look_app pm pm' t : look (pm ++ pm') t = match look pm t with Some c => Some c | None => look pm' t end.
Proof.
  induction pm as [|[k c] r IH]; cbn [app look]; auto. destruct (k =? t); auto.
Qed.

(* characterisation of a successful phase: old map, then the new entries *)
Lemma insert_all_look es : forall pm pm',
  insert_all es pm [] = (pm', []) -> forall t, look pm' t = look (pm ++ es) t.
Proof.
  induction es as [|[k c] r IH]; intros pm pm' H t; cbn [insert_all] in H.
  - inversion H; subst. rewrite app_nil_r. reflexivity.
  - destruct (look pm k) eqn:E.
    + apply insert_all_errs_mono in H. destruct H as [l Hl]. destruct l; discriminate.
    + rewrite (IH _ _ H t). rewrite <- app_assoc. reflexivity.
Qed.

(* success is equivalent to: all keys (old and new) pairwise distinct *)
Lemma insert_all_succeeds es : forall pm,
  NoDup (keys pm) -> NoDup (keys pm ++ map fst es) -> exists pm', insert_all es pm [] = (pm', []).
Proof.
  induction es as [|[k c] r IH]; intros pm Hnd Hall; cbn [insert_all].
  - eauto.
  - cbn [map fst] in Hall.
    assert (Hk : ~ In k (keys pm)).
    { intros Hin. apply NoDup_remove_2 in Hall. apply Hall. apply in_or_app; auto. }
    apply look_None_keys in Hk. rewrite Hk. apply IH.
    + rewrite keys_app. cbn. apply NoDup_snoc; auto. apply look_None_keys; auto.
    + rewrite keys_app. cbn. rewrite <- app_assoc. exact Hall.
Qed.

Lemma look_NoDup_perm : forall (l l' : pmap), Permutation l l' -> NoDup (keys l) -> forall t, look l t = look l' t.
Proof.
  intros l l' HP. induction HP as [|[k c] l l' HP IH|[k1 c1] [k2 c2] l|l1 l2 l3 HP1 IH1 HP2 IH2]; intros Hnd t.
  - reflexivity.
  - cbn [look]. destruct (k =? t); auto. apply IH. cbn in Hnd. inversion Hnd; auto.
  - cbn [look]. destruct (k2 =? t) eqn:E2; destruct (k1 =? t) eqn:E1; auto.
    apply Nat.eqb_eq in E1, E2. subst. cbn in Hnd. inversion Hnd as [|? ? Hn _]. exfalso. apply Hn. simpl; auto.
  - rewrite IH1; auto. apply IH2. unfold keys in *. eapply Permutation_NoDup; [apply Permutation_map; exact HP1|exact Hnd].
Qed.

Theorem insert_all_perm es es' pm :
  Permutation es es' -> NoDup (keys pm) ->
  (forall pm1, insert_all es pm [] = (pm1, []) ->
     exists pm2, insert_all es' pm [] = (pm2, []) /\ map_eq pm1 pm2).
Proof.
  intros HP Hnd pm1 H1.
  destruct (insert_all_ok _ _ _ Hnd H1) as [K1 N1].
  assert (Hall' : NoDup (keys pm ++ map fst es')).
  { rewrite K1 in N1. eapply Permutation_NoDup; [|exact N1].
    apply Permutation_app_head. apply Permutation_map. exact HP. }
  destruct (insert_all_succeeds es' pm Hnd Hall') as [pm2 H2].
  exists pm2. split; auto. intros t.
  rewrite (insert_all_look _ _ _ H1 t), (insert_all_look _ _ _ H2 t).
  apply look_NoDup_perm.
  - apply Permutation_app_head. exact HP.
  - rewrite keys_app. unfold keys at 2. rewrite <- K1. exact N1.
Qed.

(* completeness of conflict reporting: a phase whose keys (old and new) are not pairwise distinct reports a
   multiple-bindings error *)
Lemma insert_all_reports es : forall pm pm' errs errs',
  NoDup (keys pm) -> ~ NoDup (keys pm ++ map fst es) ->
  insert_all es pm errs = (pm', errs') -> exists k, In (SMulti k) errs'.
Proof.
  induction es as [|[k c] r IH]; intros pm pm' errs errs' Hnd Hdup H; cbn [insert_all] in H.
  - exfalso. apply Hdup. cbn. rewrite app_nil_r. exact Hnd.
  - destruct (look pm k) eqn:E.
    + apply insert_all_errs_mono in H. destruct H as [l ->]. exists k.
      apply in_or_app. left. apply in_or_app. right. left. reflexivity.
    + apply look_None_keys in E. eapply (IH (pm ++ [(k, c)])); eauto.
      * rewrite keys_app. cbn. apply NoDup_snoc; auto.
      * rewrite keys_app. cbn. rewrite <- app_assoc. exact Hdup.
Qed.

(* C05 "reported": if the injector parameters, everything the (individually accepted) nested sets provide and
   the set's own providers / values / fields do not have pairwise distinct types, buildProviderMap fails and
   its error list contains a multiple-bindings error *)
Theorem build1_reports a ms d b :
  ~ NoDup (map fst a ++ concat (map (fun im => keys (snd im)) ms) ++ map fst d) ->
  exists es k, build1 a ms d b = inr es /\ In (SMulti k) es.
Proof.
  intros Hdup. unfold build1.
  destruct (insert_all (a ++ flat_map imp_entries ms) [] []) as [pm1 e1] eqn:E1.
  assert (K0 : map fst (a ++ flat_map imp_entries ms) = map fst a ++ concat (map (fun im => keys (snd im)) ms)).
  { rewrite map_app, map_fst_flat_imp. reflexivity. }
  destruct e1 as [|x1 r1].
  - apply insert_all_ok in E1; [|constructor]. destruct E1 as [K1 N1]. cbn [keys map app] in K1.
    destruct (insert_all d pm1 []) as [pm2 e2] eqn:E2.
    assert (Hd2 : ~ NoDup (keys pm1 ++ map fst d)).
    { rewrite K1, K0. rewrite <- app_assoc. exact Hdup. }
    destruct (insert_all_reports _ _ _ _ _ N1 Hd2 E2) as [k Hk].
    destruct e2 as [|x2 r2]; [destruct Hk|]. exists (x2 :: r2), k. auto.
  - destruct (ListDec.NoDup_dec Nat.eq_dec (map fst (a ++ flat_map imp_entries ms))) as [Hn|Hn].
    + (* phase 1 keys are distinct, so it cannot have reported anything *)
      exfalso. destruct (insert_all_succeeds (a ++ flat_map imp_entries ms) []) as [pm' Hs]; [constructor|exact Hn|].
      rewrite Hs in E1. discriminate.
    + destruct (insert_all_reports _ [] _ _ _ ltac:(constructor) Hn E1) as [k Hk].
      exists (x1 :: r1), k. auto.
Qed.

End Sets.

Arguments PSet {A}.
Arguments process {A}.
Arguments look {A}.
Arguments keys {A}.
Arguments provided {A}.
Arguments build1 {A}.
Arguments insert_all {A}.
Arguments insert_binds {A}.
Arguments set_id {A}.
