From Coq Require Import List Arith Bool String Ascii Lia.
From Wire Require Import Names.
Import ListNotations.
Local Open Scope list_scope.

(* parse.go front-end rules that are decided on small finite descriptions:
   funcOutput (result-list classification), isPrevented (struct tag lookup), checkField / allFields
   (field-name matching), duplicate parameter / field types. *)

(* ------------------------------------------------------------------ funcOutput *)
(* what a result position can be, up to what funcOutput can tell apart *)
Inductive rkind :=
| RVal          (* any type that is neither error nor func() *)
| RError        (* identical to the predeclared error *)
| RCleanup      (* identical to func() *)
| RNamedFunc    (* a named type whose underlying type is func() *)
| ROtherFunc    (* another function type *)
| RNamedErr     (* a named interface embedding error *)
| RFuncErr.     (* func() error *)

Definition is_error (k : rkind) : bool := match k with RError => true | _ => false end.
Definition is_cleanup (k : rkind) : bool := match k with RCleanup => true | _ => false end.

Inductive fo_result :=
| FoOk (cleanup err : bool)
| FoNoReturn | FoSecond | FoSecondOf3 | FoThird | FoTooMany.

Definition func_output (rs : list rkind) : fo_result :=
  match rs with
  | [] => FoNoReturn
  | [_] => FoOk false false
  | [_; b] => if is_error b then FoOk false true
              else if is_cleanup b then FoOk true false else FoSecond
  | [_; b; c] => if negb (is_cleanup b) then FoSecondOf3
                 else if negb (is_error c) then FoThird else FoOk true true
  | _ => FoTooMany
  end.

(* the documented rule *)
Inductive legal_results : list rkind -> bool -> bool -> Prop :=
| legal1 t : legal_results [t] false false
| legal_err t : legal_results [t; RError] false true
| legal_cl t : legal_results [t; RCleanup] true false
| legal_cl_err t : legal_results [t; RCleanup; RError] true true.

Theorem func_output_spec : forall rs c e, func_output rs = FoOk c e <-> legal_results rs c e.
Proof.
  intros rs c e. split.
  - destruct rs as [|a [|b [|c0 [|d r]]]]; cbn; try discriminate.
    + intros H; inversion H; constructor.
    + destruct b; cbn; intros H; inversion H; constructor.
    + destruct b; cbn; try discriminate. destruct c0; cbn; intros H; inversion H; constructor.
  - intros H; inversion H; reflexivity.
Qed.

(* rejected shapes, spelled out: no result, more than three, a second result that is neither error nor
   func(), a three-result form whose second/third are not func() and error *)
Theorem func_output_rejects : forall rs,
  (forall c e, func_output rs <> FoOk c e) <->
  (rs = [] \/ 4 <= List.length rs \/
   (exists a b, rs = [a; b] /\ is_error b = false /\ is_cleanup b = false) \/
   (exists a b c, rs = [a; b; c] /\ (is_cleanup b = false \/ is_error c = false))).
Proof.
  intros rs. split.
  - intros H. destruct rs as [|a [|b [|c0 [|d r]]]].
    + auto.
    + exfalso. apply (H false false). reflexivity.
    + right. right. left. exists a, b. split; auto.
      destruct b; cbn; auto; exfalso; [apply (H false true)|apply (H true false)]; reflexivity.
    + right. right. right. exists a, b, c0. split; auto.
      destruct b; cbn; auto. destruct c0; cbn; auto. exfalso. apply (H true true). reflexivity.
    + right. left. cbn. lia.
  - intros [->|[Hl|[(a & b & -> & H1 & H2)|(a & b & c0 & -> & H)]]] c e.
    + discriminate.
    + destruct rs as [|a [|b [|c0 [|d r]]]]; cbn in Hl; try lia. discriminate.
    + cbn. rewrite H1, H2. discriminate.
    + cbn. destruct H as [H|H].
      * rewrite H. discriminate.
      * destruct (is_cleanup b); cbn; [rewrite H|]; discriminate.
Qed.

Definition rkind_eqb (a b : rkind) : bool :=
  match a, b with
  | RVal, RVal | RError, RError | RCleanup, RCleanup | RNamedFunc, RNamedFunc
  | ROtherFunc, ROtherFunc | RNamedErr, RNamedErr | RFuncErr, RFuncErr => true
  | _, _ => false
  end.

Definition fo_eqb (a b : fo_result) : bool :=
  match a, b with
  | FoOk c e, FoOk c' e' => Bool.eqb c c' && Bool.eqb e e'
  | FoNoReturn, FoNoReturn | FoSecond, FoSecond | FoSecondOf3, FoSecondOf3
  | FoThird, FoThird | FoTooMany, FoTooMany => true
  | _, _ => false
  end.

(* ------------------------------------------------------------------ duplicate parameter / field types *)
Fixpoint first_dup (l : list nat) (seen : list nat) : option nat :=
  match l with
  | [] => None
  | x :: r => if existsb (Nat.eqb x) seen then Some x else first_dup r (seen ++ [x])
  end.

Lemma first_dup_none l : forall seen, first_dup l seen = None -> NoDup seen -> NoDup (seen ++ l).
Proof.
  induction l as [|x r IH]; intros seen H Hnd; cbn in *.
  - rewrite app_nil_r. auto.
  - destruct (existsb (Nat.eqb x) seen) eqn:E; [discriminate|].
    replace (seen ++ x :: r) with ((seen ++ [x]) ++ r) by (rewrite <- app_assoc; reflexivity).
    apply IH; auto.
    assert (~ In x seen).
    { intros Hi. assert (existsb (Nat.eqb x) seen = true); [|congruence].
      apply existsb_exists. exists x. split; auto. apply Nat.eqb_refl. }
    clear -Hnd H0. induction seen as [|y s IHs]; cbn.
    + constructor; auto; constructor.
    + inversion Hnd; subst. constructor.
      * intros Hi. apply in_app_or in Hi. destruct Hi as [Hi|[->|[]]]; auto. apply H0; cbn; auto.
      * apply IHs; auto. intros Hi. apply H0; cbn; auto.
Qed.

Lemma first_dup_some l : forall seen x, first_dup l seen = Some x -> In x l /\ ~ NoDup (seen ++ l).
Proof.
  induction l as [|y r IH]; intros seen x H; cbn in *; [discriminate|].
  destruct (existsb (Nat.eqb y) seen) eqn:E.
  - inversion H; subst. split; auto.
    apply existsb_exists in E. destruct E as (z & Hz & Ez). apply Nat.eqb_eq in Ez. subst z.
    intros Hnd. apply NoDup_remove_2 in Hnd. apply Hnd. apply in_or_app; auto.
  - destruct (IH _ _ H) as [Hi Hn]. split; auto.
    rewrite <- app_assoc in Hn. exact Hn.
Qed.

(* processFuncProvider / processStructProvider accept a parameter (field) list iff its types are pairwise distinct *)
Theorem dup_check_iff l : first_dup l [] = None <-> NoDup l.
Proof.
  split.
  - intros H. apply (first_dup_none l [] H). constructor.
  - intros Hnd. destruct (first_dup l []) eqn:E; auto.
    apply first_dup_some in E. destruct E as [_ E]. contradiction.
Qed.

Local Open Scope string_scope.

(* ------------------------------------------------------------------ struct tags: reflect.StructTag.Get *)
Definition sp := " "%char.
Definition colon := ":"%char.
Definition dq := """"%char.
Definition bsl := "\"%char.

Definition is_ctl (c : ascii) : bool := let n := nat_of_ascii c in Nat.ltb n 32 || Nat.eqb n 127.

Fixpoint skip_spaces (s : string) : string :=
  match s with String c r => if Ascii.eqb c sp then skip_spaces r else s | EmptyString => s end.

(* scan the key: up to ':' ; stops (None) at space, quote or control *)
Fixpoint scan_key (s : string) (acc : string) : option (string * string) :=
  match s with
  | EmptyString => None
  | String c r =>
    if Ascii.eqb c colon then Some (acc, r)
    else if Ascii.eqb c sp || Ascii.eqb c dq || is_ctl c then None
    else scan_key r (acc ++ String c EmptyString)
  end.

(* scan a quoted string starting after the opening quote; returns (raw contents, rest after closing quote) *)
Fixpoint scan_quoted (s : string) (acc : string) : option (string * string) :=
  match s with
  | EmptyString => None
  | String c r =>
    if Ascii.eqb c dq then Some (acc, r)
    else if Ascii.eqb c bsl then
      match r with
      | String c2 r2 => scan_quoted r2 (acc ++ String c (String c2 EmptyString))
      | EmptyString => None
      end
    else scan_quoted r (acc ++ String c EmptyString)
  end.

Fixpoint has_backslash (s : string) : bool :=
  match s with String c r => Ascii.eqb c bsl || has_backslash r | EmptyString => false end.

(* StructTag.Lookup for values without escapes (a value with a backslash is reported as not found:
   the model is only used on tags the generator writes, which contain none) *)
Fixpoint tag_lookup (fuel : nat) (tag key : string) : option string :=
  match fuel with
  | 0 => None
  | S f =>
    let t := skip_spaces tag in
    match t with
    | EmptyString => None
    | _ =>
      match scan_key t EmptyString with
      | None => None
      | Some (name, rest) =>
        if String.eqb name EmptyString then None else
        match rest with
        | String c r =>
          if negb (Ascii.eqb c dq) then None else
          match scan_quoted r EmptyString with
          | None => None
          | Some (val, rest') =>
            if String.eqb name key then (if has_backslash val then None else Some val)
            else tag_lookup f rest' key
          end
        | EmptyString => None
        end
      end
    end
  end.

(* parse.go:isPrevented *)
Definition is_prevented (tag : string) : bool :=
  match tag_lookup (S (String.length tag)) tag "wire" with
  | Some v => String.eqb v "-"
  | None => false
  end.

Example prevented_examples :
  map is_prevented ["wire:""-"""; ""; "json:""x"" wire:""-"""; "firewire:""-"""; "wire:""-,x"""; "wire:"" -"""; "json:""wire:-"""; "wire:""-"" json:""y"""]
  = [true; false; true; false; false; false; false; true].
Proof. vm_compute. reflexivity. Qed.

(* ------------------------------------------------------------------ checkField / allFields *)
Definition fold_char (c : ascii) : ascii := to_lower c.

Fixpoint eq_fold (a b : string) : bool :=
  match a, b with
  | EmptyString, EmptyString => true
  | String x r, String y s => Ascii.eqb (fold_char x) (fold_char y) && eq_fold r s
  | _, _ => false
  end.

(* strconv.Quote on an ASCII identifier *)
Definition quote (s : string) : string := String dq (s ++ String dq EmptyString).

Record sfield := mkSF { sf_name : string; sf_type : nat; sf_tag : string }.

Inductive cf_result := CfOk (f : sfield) | CfPrevented | CfNotField.

(* lit is the source text of the basic literal naming the field; the comparison is exact since fix 'match
   wire.Struct and wire.FieldsOf field names exactly' (it was strings.EqualFold before) *)
(* blank fields can be neither set nor read: both selections skip them (fix 5dad1de; before it "*" selected them
   and "_" named the first of them, and the output did not compile) *)
Definition is_blank (f : sfield) : bool := String.eqb (sf_name f) "_".

Fixpoint check_field (lit : string) (fields : list sfield) : cf_result :=
  match fields with
  | [] => CfNotField
  | f :: r => if is_blank f then check_field lit r
              else if String.eqb (quote (sf_name f)) lit
              then (if is_prevented (sf_tag f) then CfPrevented else CfOk f)
              else check_field lit r
  end.

(* allFields: exactly one name argument, a basic literal equal (up to case folding) to "*" in double quotes *)
Definition all_fields (lits : list string) : bool :=
  match lits with [l] => eq_fold (quote "*") l | _ => false end.

Definition star_fields (fields : list sfield) : list sfield :=
  filter (fun f => negb (is_prevented (sf_tag f)) && negb (is_blank f)) fields.

(* ------------------------------------------------------------------ processValue's whitelist walk *)
(* node kinds of go/ast as processValue tells them apart *)
Inductive vkind :=
| KGood        (* ArrayType BasicLit BinaryExpr ChanType CompositeLit FuncType Ident IndexExpr InterfaceType
                  KeyValueExpr MapType ParenExpr SelectorExpr SliceExpr StarExpr StructType TypeAssertExpr,
                  and UnaryExpr other than a receive *)
| KConv        (* CallExpr whose callee denotes a type, or that the type checker folded to a constant *)
| KCall        (* any other CallExpr: function, method, builtin, call through a function-typed variable *)
| KRecv        (* UnaryExpr with operator <- *)
| KOther.      (* FuncLit, IndexListExpr, Ellipsis, FieldList/Field under a literal struct/func/interface type, ... *)

Inductive vexpr := VN (k : vkind) (children : list vexpr).

(* ast.Inspect visits in pre-order; a bad node clears the shared flag (which nothing sets again) and prunes its
   subtree: the expression is accepted iff every node is acceptable *)
Fixpoint value_ok (e : vexpr) : bool :=
  match e with
  | VN k cs =>
    match k with
    | KGood | KConv => (fix all (l : list vexpr) : bool := match l with [] => true | x :: r => value_ok x && all r end) cs
    | _ => false
    end
  end.

(* evaluating the expression calls no function or method and receives from no channel *)
Inductive effect_free : vexpr -> Prop :=
| ef_node k cs : (k = KGood \/ k = KConv) -> Forall effect_free cs -> effect_free (VN k cs).

Section VInd.
Variable P : vexpr -> Prop.
Hypothesis H : forall k cs, Forall P cs -> P (VN k cs).
Fixpoint vexpr_ind' (e : vexpr) : P e :=
  match e with
  | VN k cs => H k cs ((fix go (l : list vexpr) : Forall P l :=
                          match l with [] => Forall_nil P | x :: r => Forall_cons x (vexpr_ind' x) (go r) end) cs)
  end.
End VInd.

Theorem value_ok_effect_free : forall e, value_ok e = true -> effect_free e.
Proof.
  induction e as [k cs IH] using vexpr_ind'. cbn [value_ok].
  destruct k; try discriminate; intros Hall; constructor; auto.
  - clear -IH Hall. induction cs as [|x r IHr]; constructor; inversion IH; subst;
      apply andb_true_iff in Hall; destruct Hall; auto.
  - clear -IH Hall. induction cs as [|x r IHr]; constructor; inversion IH; subst;
      apply andb_true_iff in Hall; destruct Hall; auto.
Qed.

Theorem value_ok_complete : forall e, effect_free e -> value_ok e = true.
Proof.
  induction e as [k cs IH] using vexpr_ind'. intros Hef. inversion Hef as [k' cs' Hk Hcs]; subst. cbn [value_ok].
  assert (Hall : (fix all (l : list vexpr) : bool := match l with [] => true | x :: r => value_ok x && all r end) cs = true).
  { clear -IH Hcs. induction cs as [|x r IHr]; auto.
    inversion IH as [|? ? Hx Hr]; subst. inversion Hcs as [|? ? Ex Er]; subst.
    rewrite (Hx Ex). cbn. apply IHr; auto. }
  destruct Hk as [-> | ->]; exact Hall.
Qed.
