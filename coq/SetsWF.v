From Coq Require Import List Arith Lia Bool Permutation.
From Wire Require Import Sets.
Import ListNotations.

(* Well-formedness of every provider map that processNewSet accepts: each entry's concrete type is itself a key of
   the map, whose entry has that same concrete type and is related (same provider/value/field/argument) to the
   entry it was copied from.  Generic in the payload, like Sets.v. *)

Section WF.
Variable A : Type.
Variable imp bind : nat -> A -> A.
Variable verify : pmap A -> list serr.
Variable conc : A -> nat.
Variable R : A -> A -> Prop.

Hypothesis R_refl : forall x, R x x.
Hypothesis R_imp : forall s x y, R x y -> R (imp s x) (imp s y).
Hypothesis R_bind : forall b x y, R y x -> R y (bind b x).
Hypothesis conc_imp : forall s e, conc (imp s e) = conc e.
Hypothesis conc_bind : forall b e, conc (bind b e) = conc e.

Definition WFA (pm : pmap A) : Prop :=
  forall t e, look pm t = Some e -> exists e', look pm (conc e) = Some e' /\ conc e' = conc e /\ R e' e.

Definition selfish (es : list (nat * A)) : Prop := forall k e, In (k, e) es -> conc e = k.

Fixpoint self_set (s : pset A) : Prop :=
  match s with
  | PSet _ a imps _ d _ =>
    selfish a /\ selfish d /\
    (fix all (l : list (pset A)) : Prop := match l with [] => True | x :: r => self_set x /\ all r end) imps
  end.

Lemma look_app_l (pm q : pmap A) t e : look pm t = Some e -> look (pm ++ q) t = Some e.
Proof. intros H. rewrite (look_app A). rewrite H. reflexivity. Qed.

Lemma look_In_gen : forall (l : pmap A) t e, look l t = Some e -> In (t, e) l.
Proof.
  induction l as [|[k c] r IH]; cbn [look]; intros t e H; [discriminate|].
  destruct (k =? t) eqn:E.
  - apply Nat.eqb_eq in E. inversion H; subst. left; reflexivity.
  - right. auto.
Qed.

Lemma NoDup_In_look : forall (l : pmap A) t e, NoDup (keys l) -> In (t, e) l -> look l t = Some e.
Proof.
  induction l as [|[k c] r IH]; intros t e Hnd Hin; [destruct Hin|].
  cbn [keys map fst] in Hnd. inversion Hnd as [|? ? Hn Hnd']; subst. cbn [look].
  destruct Hin as [Heq|Hin].
  - inversion Heq; subst. rewrite Nat.eqb_refl. reflexivity.
  - destruct (k =? t) eqn:E.
    + apply Nat.eqb_eq in E. subst. exfalso. apply Hn. change (In t (keys r)). unfold keys.
      apply in_map_iff. exists (t, e). auto.
    + apply IH; auto.
Qed.

(* a successful phase is just an append *)
Lemma insert_all_eq : forall (es : list (nat * A)) pm pm',
  insert_all es pm [] = (pm', []) -> pm' = pm ++ es.
Proof.
  induction es as [|[k c] r IH]; intros pm pm' H; cbn [insert_all] in H.
  - inversion H. rewrite app_nil_r. reflexivity.
  - destruct (look pm k) eqn:E.
    + apply (insert_all_errs_mono A) in H. destruct H as [l Hl]. destruct l; discriminate.
    + apply IH in H. rewrite H, <- app_assoc. reflexivity.
Qed.

(* bindings keep the invariant, one at a time *)
Lemma insert_binds_WFA : forall bs pm pm',
  WFA pm -> insert_binds bind bs pm [] = (pm', []) -> WFA pm'.
Proof.
  induction bs as [|[[i c] b] r IH]; intros pm pm' Hwf H; cbn [insert_binds] in H.
  - inversion H; subst. exact Hwf.
  - destruct (look pm i) eqn:Ei.
    { apply (insert_binds_errs_mono A bind) in H. destruct H as [l Hl]. destruct l; discriminate. }
    destruct (look pm c) as [cc|] eqn:Ec.
    2:{ apply (insert_binds_errs_mono A bind) in H. destruct H as [l Hl]. destruct l; discriminate. }
    apply IH in H; auto.
    intros t e Hl. rewrite (look_app A) in Hl. destruct (look pm t) as [e0|] eqn:Et.
    + inversion Hl; subst e0. destruct (Hwf t e Et) as (e' & A1 & A2 & A3).
      exists e'. split; [apply look_app_l; exact A1|auto].
    + cbn [look] in Hl. destruct (i =? t) eqn:E; [|discriminate]. inversion Hl; subst e.
      destruct (Hwf c cc Ec) as (e' & A1 & A2 & A3).
      exists e'. rewrite conc_bind. split; [apply look_app_l; exact A1|]. split; auto.
Qed.

(* what the first two phases produce: the concatenation, with pairwise distinct keys *)
Lemma concat_WFA (a d : list (nat * A)) (ms : list (nat * pmap A)) :
  selfish a -> selfish d ->
  Forall (fun m => WFA (snd m) /\ NoDup (keys (snd m))) ms ->
  NoDup (keys ((a ++ flat_map (imp_entries A imp) ms) ++ d)) ->
  WFA ((a ++ flat_map (imp_entries A imp) ms) ++ d).
Proof.
  intros Ha Hd Hms Hnd t e Hl.
  set (L := (a ++ flat_map (imp_entries A imp) ms) ++ d) in *.
  apply look_In_gen in Hl. unfold L in Hl.
  apply in_app_or in Hl. destruct Hl as [Hl|Hl]; [apply in_app_or in Hl; destruct Hl as [Hl|Hl]|].
  - exists e. rewrite (Ha t e Hl). split; [|auto]. apply NoDup_In_look; auto.
    unfold L. apply in_or_app. left. apply in_or_app. left. exact Hl.
  - apply in_flat_map in Hl. destruct Hl as ([sid m] & Hm & Hin).
    unfold imp_entries in Hin. cbn [fst snd] in Hin. apply in_map_iff in Hin.
    destruct Hin as ([k e0] & Heq & Hin0). cbn [fst snd] in Heq. inversion Heq; subst t e.
    rewrite Forall_forall in Hms. destruct (Hms _ Hm) as [Hwm Hndm]. cbn [snd] in *.
    destruct (Hwm k e0 (NoDup_In_look _ _ _ Hndm Hin0)) as (e0' & B1 & B2 & B3).
    exists (imp sid e0'). rewrite !conc_imp. split; [|split; auto].
    apply NoDup_In_look; auto. unfold L. apply in_or_app. left. apply in_or_app. right.
    apply in_flat_map. exists (sid, m). split; auto. unfold imp_entries. cbn [fst snd].
    apply in_map_iff. exists (conc e0, e0'). split; auto. apply look_In_gen. exact B1.
  - exists e. rewrite (Hd t e Hl). split; [|auto]. apply NoDup_In_look; auto.
    unfold L. apply in_or_app. right. exact Hl.
Qed.

Lemma build1_WFA a ms d b pm :
  selfish a -> selfish d ->
  Forall (fun m => WFA (snd m) /\ NoDup (keys (snd m))) ms ->
  build1 imp bind a ms d b = inl pm -> WFA pm.
Proof.
  intros Ha Hd Hms. unfold build1.
  destruct (insert_all (a ++ flat_map (imp_entries A imp) ms) [] []) as [pm1 e1] eqn:E1.
  destruct e1; [|discriminate].
  destruct (insert_all d pm1 []) as [pm2 e2] eqn:E2.
  destruct e2; [|discriminate].
  destruct (insert_binds bind b pm2 []) as [pm3 e3] eqn:E3.
  destruct e3; [|discriminate]. intros H; inversion H; subst pm3.
  assert (N0 : NoDup (keys (@nil (nat * A)))) by constructor.
  pose proof (insert_all_ok A imp bind _ _ _ N0 E1) as [_ N1].
  pose proof (insert_all_ok A imp bind _ _ _ N1 E2) as [_ N2].
  apply insert_all_eq in E1. apply insert_all_eq in E2. cbn [app] in E1. subst pm1 pm2.
  eapply insert_binds_WFA; [|exact E3].
  apply concat_WFA; auto.
Qed.

Lemma self_set_imports sid a imps ie d b x :
  self_set (PSet sid a imps ie d b) -> In x imps -> self_set x.
Proof.
  cbn [self_set]. intros (_ & _ & H) Hin. induction imps as [|y r IH]; [destruct Hin|].
  destruct H as [Hy Hr]. destruct Hin as [<-|Hin]; auto.
Qed.

(* every accepted set, at any nesting depth, has a well-formed map *)
Theorem process_WFA : forall s pm, self_set s -> process imp bind verify s = inl pm -> WFA pm /\ NoDup (keys pm).
Proof.
  induction s as [sid a imps ie d b IH] using (pset_ind' A). intros pm Hself H.
  pose proof (process_one_source A imp bind verify _ _ H) as (K & N & _).
  split; [|rewrite K; exact N].
  rewrite (process_unfold A imp bind verify) in H.
  destruct (process_list A imp bind verify imps) as [ms es] eqn:El.
  destruct (es ++ ie) as [|e0 es1] eqn:Ee; [|discriminate].
  apply app_eq_nil in Ee. destruct Ee as [-> _].
  destruct (build1 imp bind a ms d b) as [pm0|e] eqn:Eb; [|discriminate].
  destruct (verify pm0) eqn:Ev; [|discriminate]. inversion H; subst pm0.
  apply (process_list_ok A imp bind verify) in El.
  assert (Hms : Forall (fun m => WFA (snd m) /\ NoDup (keys (snd m))) ms).
  { clear -IH El Hself. assert (Hs : forall x, In x imps -> self_set x) by (intros x Hx; eapply self_set_imports; eauto).
    clear Hself. induction El as [|x m r ms' [Hx _] Hr IHr]; constructor.
    - inversion IH; subst. apply H1; auto. apply Hs. left; reflexivity.
    - inversion IH; subst. apply IHr; auto. intros y Hy. apply Hs. right; exact Hy. }
  destruct Hself as (Ha & Hd & _).
  exact (build1_WFA a ms d b pm Ha Hd Hms Eb).
Qed.

(* ---------------- a payload predicate that every source satisfies holds of every entry ---------------- *)
Variable Q : A -> Prop.
Hypothesis Q_imp : forall s x, Q x -> Q (imp s x).
Hypothesis Q_bind : forall b x, Q x -> Q (bind b x).

Definition allQ (es : list (nat * A)) : Prop := forall k e, In (k, e) es -> Q e.

Fixpoint Q_set (s : pset A) : Prop :=
  match s with
  | PSet _ a imps _ d _ =>
    allQ a /\ allQ d /\
    (fix all (l : list (pset A)) : Prop := match l with [] => True | x :: r => Q_set x /\ all r end) imps
  end.

Lemma insert_binds_allQ : forall bs pm pm',
  allQ pm -> insert_binds bind bs pm [] = (pm', []) -> allQ pm'.
Proof.
  induction bs as [|[[i c] b] r IH]; intros pm pm' HQ H; cbn [insert_binds] in H.
  - inversion H; subst. exact HQ.
  - destruct (look pm i) eqn:Ei.
    { apply (insert_binds_errs_mono A bind) in H. destruct H as [l Hl]. destruct l; discriminate. }
    destruct (look pm c) as [cc|] eqn:Ec.
    2:{ apply (insert_binds_errs_mono A bind) in H. destruct H as [l Hl]. destruct l; discriminate. }
    apply IH in H; auto. intros k e Hin. apply in_app_or in Hin. destruct Hin as [Hin|[Heq|[]]].
    + eapply HQ; eauto.
    + inversion Heq; subst. apply Q_bind. apply (HQ c cc). apply look_In_gen. exact Ec.
Qed.

(* bindings only append *)
Lemma insert_binds_prefix : forall bs (pm pm' : pmap A),
  insert_binds bind bs pm [] = (pm', []) -> exists x, pm' = pm ++ x.
Proof.
  induction bs as [|[[i c] b] r IH]; intros pm pm' H; cbn [insert_binds] in H.
  - inversion H; subst. exists []. rewrite app_nil_r. reflexivity.
  - destruct (look pm i) eqn:Ei.
    { apply (insert_binds_errs_mono A bind) in H. destruct H as [l Hl]. destruct l; discriminate. }
    destruct (look pm c) as [cc|] eqn:Ec.
    2:{ apply (insert_binds_errs_mono A bind) in H. destruct H as [l Hl]. destruct l; discriminate. }
    apply IH in H. destruct H as [x ->]. exists ((i, bind b cc) :: x). rewrite <- app_assoc. reflexivity.
Qed.

(* an entry appended by the binding phase has an interface key that differs from its concrete type *)
Lemma insert_binds_new_entries : forall bs (pm pm' : pmap A),
  WFA pm -> insert_binds bind bs pm [] = (pm', []) ->
  forall k e, In (k, e) pm' -> In (k, e) pm \/ conc e <> k.
Proof.
  induction bs as [|[[i c] b] r IH]; intros pm pm' Hwf H k e Hin; cbn [insert_binds] in H.
  - inversion H; subst. auto.
  - destruct (look pm i) eqn:Ei.
    { apply (insert_binds_errs_mono A bind) in H. destruct H as [l Hl]. destruct l; discriminate. }
    destruct (look pm c) as [cc|] eqn:Ec.
    2:{ apply (insert_binds_errs_mono A bind) in H. destruct H as [l Hl]. destruct l; discriminate. }
    assert (Hwf1 : WFA (pm ++ [(i, bind b cc)])).
    { pose proof (insert_binds_WFA [(i, c, b)] pm (pm ++ [(i, bind b cc)]) Hwf) as HH. apply HH.
      cbn [insert_binds]. rewrite Ei, Ec. reflexivity. }
    destruct (IH _ _ Hwf1 H k e Hin) as [Hin1|Hne]; auto.
    apply in_app_or in Hin1. destruct Hin1 as [Hin1|[Heq|[]]]; auto.
    inversion Heq; subst. right. rewrite conc_bind.
    destruct (Hwf c cc Ec) as (e' & A1 & _ & _). intros Heq2. rewrite Heq2 in A1. congruence.
Qed.

Lemma Q_set_imports sid a imps ie d b x :
  Q_set (PSet sid a imps ie d b) -> In x imps -> Q_set x.
Proof.
  cbn [Q_set]. intros (_ & _ & H) Hin. induction imps as [|y r IH]; [destruct Hin|].
  destruct H as [Hy Hr]. destruct Hin as [<-|Hin]; auto.
Qed.

Theorem process_allQ : forall s pm, Q_set s -> process imp bind verify s = inl pm -> allQ pm.
Proof.
  induction s as [sid a imps ie d b IH] using (pset_ind' A). intros pm HQ H.
  rewrite (process_unfold A imp bind verify) in H.
  destruct (process_list A imp bind verify imps) as [ms es] eqn:El.
  destruct (es ++ ie) as [|e0 es1] eqn:Ee; [|discriminate].
  apply app_eq_nil in Ee. destruct Ee as [-> _].
  destruct (build1 imp bind a ms d b) as [pm0|e] eqn:Eb; [|discriminate].
  destruct (verify pm0) eqn:Ev; [|discriminate]. inversion H; subst pm0.
  apply (process_list_ok A imp bind verify) in El.
  assert (Hms : Forall (fun m => allQ (snd m)) ms).
  { clear -IH El HQ. assert (Hs : forall x, In x imps -> Q_set x) by (intros x Hx; eapply Q_set_imports; eauto).
    clear HQ. induction El as [|x m r ms' [Hx _] Hr IHr]; constructor.
    - inversion IH; subst. apply H1; auto. apply Hs. left; reflexivity.
    - inversion IH; subst. apply IHr; auto. intros y Hy. apply Hs. right; exact Hy. }
  destruct HQ as (Ha & Hd & _).
  unfold build1 in Eb.
  destruct (insert_all (a ++ flat_map (imp_entries A imp) ms) [] []) as [pm1 e1] eqn:E1.
  destruct e1; [|discriminate].
  destruct (insert_all d pm1 []) as [pm2 e2] eqn:E2.
  destruct e2; [|discriminate].
  destruct (insert_binds bind b pm2 []) as [pm3 e3] eqn:E3.
  destruct e3; [|discriminate]. inversion Eb; subst pm3.
  apply insert_all_eq in E1. apply insert_all_eq in E2. cbn [app] in E1. subst pm1 pm2.
  eapply insert_binds_allQ; [|exact E3].
  intros k e Hin. apply in_app_or in Hin. destruct Hin as [Hin|Hin]; [|eapply Hd; eauto].
  apply in_app_or in Hin. destruct Hin as [Hin|Hin]; [eapply Ha; eauto|].
  apply in_flat_map in Hin. destruct Hin as ([sid0 m] & Hm & Hin).
  unfold imp_entries in Hin. cbn [fst snd] in Hin. apply in_map_iff in Hin.
  destruct Hin as ([k0 e0] & Heq & Hin0). cbn [fst snd] in Heq. inversion Heq; subst.
  apply Q_imp. rewrite Forall_forall in Hms. apply (Hms _ Hm k e0). exact Hin0.
Qed.

(* the shape of an accepted root map: parameters and imported entries, own sources, then entries whose key is an
   interface bound to another key *)
Theorem process_shape sid a imps ie d b pm :
  self_set (PSet sid a imps ie d b) -> process imp bind verify (PSet sid a imps ie d b) = inl pm ->
  exists ms x, Forall2 (fun s m => process imp bind verify s = inl (snd m) /\ fst m = set_id s) imps ms /\
    pm = ((a ++ flat_map (imp_entries A imp) ms) ++ d) ++ x /\ (forall k e, In (k, e) x -> conc e <> k).
Proof.
  intros Hself H.
  pose proof H as H0.
  rewrite (process_unfold A imp bind verify) in H.
  destruct (process_list A imp bind verify imps) as [ms es] eqn:El.
  destruct (es ++ ie) as [|e0 es1] eqn:Ee; [|discriminate].
  apply app_eq_nil in Ee. destruct Ee as [-> _].
  destruct (build1 imp bind a ms d b) as [pm0|e] eqn:Eb; [|discriminate].
  destruct (verify pm0) eqn:Ev; [|discriminate]. inversion H; subst pm0.
  pose proof (process_list_ok A imp bind verify _ _ El) as Hl.
  exists ms.
  assert (Hms : Forall (fun m => WFA (snd m) /\ NoDup (keys (snd m))) ms).
  { assert (Hs : forall x, In x imps -> self_set x) by (intros x Hx; eapply self_set_imports; eauto).
    clear -Hl Hs R_refl R_imp R_bind conc_imp conc_bind.
    induction Hl as [|x m r ms' [Hx _] Hr IHr]; constructor.
    - apply (process_WFA x (snd m)); auto. apply Hs. left; reflexivity.
    - apply IHr. intros y Hy. apply Hs. right; exact Hy. }
  destruct Hself as (Ha & Hd & _).
  unfold build1 in Eb.
  destruct (insert_all (a ++ flat_map (imp_entries A imp) ms) [] []) as [pm1 e1] eqn:E1.
  destruct e1; [|discriminate].
  destruct (insert_all d pm1 []) as [pm2 e2] eqn:E2.
  destruct e2; [|discriminate].
  destruct (insert_binds bind b pm2 []) as [pm3 e3] eqn:E3.
  destruct e3; [|discriminate]. inversion Eb; subst pm3.
  assert (N0 : NoDup (keys (@nil (nat * A)))) by constructor.
  pose proof (insert_all_ok A imp bind _ _ _ N0 E1) as [_ N1].
  pose proof (insert_all_ok A imp bind _ _ _ N1 E2) as [_ N2].
  apply insert_all_eq in E1. apply insert_all_eq in E2. cbn [app] in E1. subst pm1 pm2.
  assert (Hw2 : WFA ((a ++ flat_map (imp_entries A imp) ms) ++ d)) by (apply concat_WFA; auto).
  destruct (insert_binds_prefix _ _ _ E3) as [x Hx]. exists x. split; [exact Hl|]. split; [exact Hx|].
  intros k e Hin.
  destruct (insert_binds_new_entries _ _ _ Hw2 E3 k e) as [Hold|Hne]; auto.
  { rewrite Hx. apply in_or_app. right. exact Hin. }
  (* an entry of x cannot also be in the prefix: keys are pairwise distinct *)
  exfalso.
  pose proof (process_one_source A imp bind verify _ _ H0) as (K & N & _).
  rewrite Hx in K. rewrite <- K in N. rewrite keys_app in N.
  clear -N Hold Hin.
  assert (In k (keys ((a ++ flat_map (imp_entries A imp) ms) ++ d))) by (unfold keys; apply in_map_iff; exists (k, e); auto).
  assert (In k (keys x)) by (unfold keys; apply in_map_iff; exists (k, e); auto).
  revert N H H0. generalize (keys ((a ++ flat_map (imp_entries A imp) ms) ++ d)) as l1. generalize (keys x) as l2.
  intros l2 l1 N H1 H2. induction l1 as [|y r IH]; [destruct H1|].
  cbn in N. inversion N; subst. destruct H1 as [->|H1].
  - apply H3. apply in_or_app. right. exact H2.
  - apply IH; auto.
Qed.

End WF.
