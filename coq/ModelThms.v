From Coq Require Import List Arith Bool Lia String.
From Wire Require Import Sets Acyclic Solve Names Front Exec Model Emit.
Import ListNotations.

(* Bridging lemmas: the concrete model (Model.v) is defined through the proved cores, so their
   theorems apply to it. *)

Lemma look_Some_keys {A} (pm : pmap A) t e : look pm t = Some e -> In t (keys pm).
Proof.
  induction pm as [|[k c] r IH]; cbn [look keys map fst]; [discriminate|].
  destruct (k =? t) eqn:E.
  - intros _. left. apply Nat.eqb_eq. exact E.
  - intros H. right. apply IH. exact H.
Qed.

(* ---------------- verifyAcyclic ---------------- *)
Definition U_of (pm : pmap entry) : list nat := keys pm ++ flat_map (succ_of pm) (keys pm).

Lemma succ_key pm u : succ_of pm u <> [] -> In u (keys pm).
Proof.
  unfold succ_of. destruct (look pm u) as [e|] eqn:E; [|intros H; exfalso; apply H; reflexivity].
  intros _. eapply look_Some_keys; eauto.
Qed.

Lemma U_closed pm : forall u v, In u (U_of pm) -> In v (succ_of pm u) -> In v (U_of pm).
Proof.
  intros u v _ Hv. unfold U_of. apply in_or_app. right. apply in_flat_map. exists u. split; auto.
  apply succ_key. intros E. rewrite E in Hv. destruct Hv.
Qed.

Lemma roots_incl tyorder pm : incl (roots_of tyorder pm) (U_of pm).
Proof.
  intros x Hx. unfold roots_of in Hx. unfold U_of. apply in_or_app. left.
  apply in_app_or in Hx. destruct Hx as [Hx|Hx]; apply filter_In in Hx; destruct Hx as [H1 H2]; auto.
  apply existsb_exists in H2. destruct H2 as (y & Hy & E). apply Nat.eqb_eq in E. subst. exact Hy.
Qed.

Lemma roots_cover tyorder pm :
  forall u, succ_of pm u <> [] -> In u (roots_of tyorder pm).
Proof.
  intros u Hs. apply succ_key in Hs. unfold roots_of. apply in_or_app.
  destruct (existsb (Nat.eqb u) tyorder) eqn:E.
  - left. apply existsb_exists in E. destruct E as (y & Hy & E). apply Nat.eqb_eq in E. subst y.
    apply filter_In. split; auto. apply existsb_exists. exists u. split; auto. apply Nat.eqb_refl.
  - right. apply filter_In. split; auto. rewrite E. reflexivity.
Qed.

Lemma verify_cases tyorder pm :
  (exists v cycles, mrootsL (succ_of pm) (acyc_fuel pm) (roots_of tyorder pm) [] [] = Some (v, cycles)
                    /\ verify tyorder pm = map SCycle cycles) \/
  verify tyorder pm = [SFuel].
Proof.
  unfold verify. destruct (mrootsL _ _ _ _ _) as [[v c]|]; eauto.
Qed.

(* C07: the cycle check accepts exactly the acyclic maps, for every root order listing all keys *)
Theorem verify_acyclic_iff tyorder pm :
  verify tyorder pm <> [SFuel] ->
  (verify tyorder pm = [] <-> ~ exists u, path (succ_of pm) u u).
Proof.
  intros Hf. destruct (verify_cases tyorder pm) as [(v & cycles & Hm & Hv)|]; [|contradiction].
  rewrite Hv.
  rewrite <- (mrootsL_verdict (succ_of pm) (U_of pm) (U_closed pm) _ _ _ _
               (roots_incl tyorder pm) (roots_cover tyorder pm) Hm).
  destruct cycles; cbn; split; intros; try discriminate; auto.
Qed.

(* every reported cycle error is a cycle error, never another class *)
Lemma verify_only_cycles tyorder pm e : In e (verify tyorder pm) -> e = SFuel \/ exists l, e = SCycle l.
Proof.
  destruct (verify_cases tyorder pm) as [(v & cycles & Hm & Hv)|Hv]; rewrite Hv; intros Hin.
  - apply in_map_iff in Hin. destruct Hin as (l & <- & _). eauto.
  - destruct Hin as [<-|[]]; auto.
Qed.

(* ---------------- provider sets ---------------- *)
(* C05: an accepted set (any nesting) has exactly one source per provided type *)
Theorem process_set_one_source tyorder args s pm :
  process_set tyorder args s = inl pm ->
  keys pm = Sets.provided (to_core args s) /\ NoDup (Sets.provided (to_core args s)) /\ verify tyorder pm = [].
Proof. unfold process_set. apply process_one_source. Qed.

(* what the flattened closure provides, spelled out on the concrete set *)
Lemma provided_to_core args id imports provs sprovs vals flds binds :
  Sets.provided (to_core args (RSet id imports provs sprovs vals flds binds)) =
  map fst (arg_entries 0 args) ++ flat_map (fun x => Sets.provided (to_core [] x)) imports ++
  map fst (direct_entries (all_provs provs sprovs) vals flds) ++ map bd_iface binds.
Proof.
  cbn [to_core Sets.provided]. f_equal. f_equal.
  - induction imports as [|x r IH]; cbn; auto. rewrite IH. reflexivity.
  - f_equal. rewrite map_map. apply map_ext. intros b. reflexivity.
Qed.

Lemma arg_entries_keys : forall args i, map fst (arg_entries i args) = args.
Proof. induction args as [|t r IH]; intros i; cbn; auto. rewrite IH. reflexivity. Qed.

(* C11: every binding of an accepted set has its concrete type among the keys of that same set's map *)
Theorem process_set_colocated tyorder args id imports provs sprovs vals flds binds pm :
  process_set tyorder args (RSet id imports provs sprovs vals flds binds) = inl pm ->
  forall b, In b binds -> In (bd_conc b) (keys pm).
Proof.
  unfold process_set. cbn [to_core]. intros H b Hb.
  apply (process_colocated _ _ _ _ _ _ _ _ _ _ _ H (bd_iface b) (bd_conc b) (bd_id b)).
  apply in_map_iff. exists b. split; auto.
Qed.

(* an accepted set has no front-end item error and all of its imports are accepted *)
Theorem process_set_items_ok tyorder args id imports provs sprovs vals flds binds pm :
  process_set tyorder args (RSet id imports provs sprovs vals flds binds) = inl pm ->
  flat_map func_provider_errs provs ++ flat_map sprov_errs sprovs = [].
Proof.
  unfold process_set. cbn [to_core]. intros H. rewrite process_unfold in H.
  destruct (process_list _ _ _ _ _) as [ms es].
  destruct (es ++ _) as [|e0 es1] eqn:Ee; [|discriminate].
  apply app_eq_nil in Ee. tauto.
Qed.

(* ---------------- emission ---------------- *)
(* C01: one generated function per template, carrying the template's name; its parameter list has one entry
   per template parameter *)
Lemma emit_params_length E : forall ps v ig g acc out ig' g',
  emit_params E ps v ig g acc = (out, ig', g') ->
  List.length out = List.length acc + List.length ps /\ List.length (ig_params ig') = List.length (ig_params ig) + List.length ps.
Proof.
  induction ps as [|[n t] r IH]; intros v ig g acc out ig' g' H; cbn [emit_params] in H.
  - inversion H; subst. cbn. lia.
  - destruct r as [|p2 r2].
    + destruct v as [el|].
      * destruct (type_string E tdepth g el) as [s g1]. inversion H; subst. unfold snoc. cbn.
        rewrite !app_length. cbn. lia.
      * destruct (type_string E tdepth g t) as [s g1]. cbn [emit_params] in H. inversion H; subst.
        unfold snoc. cbn. rewrite !app_length. cbn. lia.
    + assert (Hgen : forall X Y, (let '(s, g1) := type_string E tdepth g t in
               emit_params E (p2 :: r2) v X g1 (snoc acc (Y s))) = (out, ig', g') ->
               exists s g1, emit_params E (p2 :: r2) v X g1 (snoc acc (Y s)) = (out, ig', g')).
      { intros X Y H0. destruct (type_string E tdepth g t) as [s g1]. eauto. }
      destruct v as [el|].
      * apply Hgen in H. destruct H as (s & g1 & H). apply IH in H. unfold snoc in H. cbn in H.
        rewrite !app_length in H. cbn in H. cbn. lia.
      * apply Hgen in H. destruct H as (s & g1 & H). apply IH in H. unfold snoc in H. cbn in H.
        rewrite !app_length in H. cbn in H. cbn. lia.
Qed.

Theorem inject_pass_header E inj cs g :
  exists params results body g',
    inject_pass E inj cs g = (String.append "SIG " (String.append (i_name inj) (String.append "(" (String.append (join ", " params) (String.append ") -> " (join ", " results))))) :: body, g') /\
    List.length params = List.length (i_params inj) /\
    List.length results = 1 + (if i_cleanup inj then 1 else 0) + (if i_err inj then 1 else 0).
Proof.
  unfold inject_pass.
  destruct (emit_params E (i_params inj) (i_variadic inj) _ g []) as [[ps ig1] g1] eqn:Ep.
  destruct (type_string E tdepth g1 (i_out inj)) as [outs g2].
  destruct (emit_calls E inj cs _ ig1 g2 []) as [[body ig2] g3].
  apply emit_params_length in Ep. destruct Ep as [Hl _]. cbn in Hl.
  eexists ps, _, _, _. split; [reflexivity|]. split; auto.
  unfold lapp. destruct (i_cleanup inj), (i_err inj); reflexivity.
Qed.

(* ---------------- check vs gen (C19) ---------------- *)
(* the two drivers decide every injector identically, with the same diagnostics *)
Theorem load_vs_gen tyorder root args out sc se :
  load_analyze tyorder root args out sc se = analyze tyorder root args out sc se.
Proof. reflexivity. Qed.

(* ---------------- struct providers (C12) ---------------- *)
Lemma check_field_sound lit fields f :
  check_field lit fields = CfOk f ->
  In f fields /\ quote (sf_name f) = lit /\ is_prevented (sf_tag f) = false /\ is_blank f = false.
Proof.
  induction fields as [|x r IH]; cbn [check_field]; [discriminate|].
  destruct (is_blank x) eqn:B.
  - intros H. destruct (IH H) as (A & B' & C & D). cbn; auto.
  - destruct (String.eqb (quote (sf_name x)) lit) eqn:E.
    + destruct (is_prevented (sf_tag x)) eqn:P; [discriminate|]. intros H; inversion H; subst. cbn.
      apply String.eqb_eq in E. auto.
    + intros H. destruct (IH H) as (A & B' & C & D). cbn; auto.
Qed.

Lemma star_fields_spec fields f :
  In f (star_fields fields) <-> In f fields /\ is_prevented (sf_tag f) = false /\ is_blank f = false.
Proof.
  unfold star_fields. rewrite filter_In, andb_true_iff, !negb_true_iff. tauto.
Qed.

Lemma select_fields_sound : forall lits fields id fs,
  select_fields lits fields id = inl fs ->
  List.length fs = List.length lits /\ Forall (fun f => In f fields /\ is_prevented (sf_tag f) = false) fs.
Proof.
  induction lits as [|l r IH]; intros fields id fs H; cbn [select_fields] in H.
  - inversion H; subst. split; auto.
  - destruct (check_field l fields) as [f| |] eqn:E; try discriminate.
    destruct (select_fields r fields id) as [fs'|e] eqn:E2; [|discriminate]. inversion H; subst.
    destruct (IH _ _ _ E2) as [L F]. apply check_field_sound in E. destruct E as (A & _ & C & _).
    split; [cbn; congruence|]. constructor; auto.
Qed.

(* an accepted wire.Struct provides exactly S and *S, depends on exactly the selected fields (each a declared,
   un-prevented field of S, pairwise distinct types), and mentions no other field *)
Theorem struct_provider_spec s p :
  struct_provider s = inl p ->
  pv_outs p = [sp_t s; sp_tptr s] /\ pv_struct p = true /\ pv_cleanup p = false /\ pv_err p = false /\
  NoDup (pv_args p) /\
  exists fs, pv_args p = map sf_type fs /\ pv_fields p = map sf_name fs /\
             Forall (fun f => In f (sp_fields s) /\ is_prevented (sf_tag f) = false) fs /\
             (all_fields (sp_lits s) = true -> fs = star_fields (sp_fields s)).
Proof.
  unfold struct_provider.
  destruct (all_fields (sp_lits s)) eqn:A.
  - destruct (first_dup (map sf_type (star_fields (sp_fields s))) []) eqn:D; [discriminate|].
    intros H; inversion H; subst; cbn. repeat split; auto.
    + apply dup_check_iff; auto.
    + exists (star_fields (sp_fields s)). repeat split; auto.
      apply Forall_forall. intros f Hf. apply star_fields_spec in Hf. tauto.
  - destruct (select_fields (sp_lits s) (sp_fields s) (sp_id s)) as [fs|e] eqn:S; [|discriminate].
    destruct (first_dup (map sf_type fs) []) eqn:D; [discriminate|].
    intros H; inversion H; subst; cbn. repeat split; auto.
    + apply dup_check_iff; auto.
    + exists fs. repeat split; auto.
      * apply select_fields_sound in S. tauto.
      * discriminate.
Qed.

(* ---------------- determinism (C16): Go map iteration order is immaterial ---------------- *)
(* gen.nameInFileScope / nameInInjector range over Go maps (imports, values); the model passes the names as a
   list, and every use is existential: any iteration order gives the same answer *)
Lemma coll_perm l l' s : Permutation.Permutation l l' -> coll l s = coll l' s.
Proof.
  intros HP. unfold coll.
  destruct (existsb (String.eqb s) l) eqn:E.
  - symmetry. apply existsb_exists in E. destruct E as (x & Hx & Ex).
    apply existsb_exists. exists x. split; auto. eapply Permutation.Permutation_in; eauto.
  - symmetry. destruct (existsb (String.eqb s) l') eqn:E'; auto.
    apply existsb_exists in E'. destruct E' as (x & Hx & Ex).
    assert (existsb (String.eqb s) l = true); [|congruence].
    apply existsb_exists. exists x. split; auto. eapply Permutation.Permutation_in; [apply Permutation.Permutation_sym; eauto|auto].
Qed.

Lemma loop_ext (c c' : string -> bool) : (forall s, c s = c' s) ->
  forall fuel n base, loop is_keyword c fuel n base = loop is_keyword c' fuel n base.
Proof.
  intros H. induction fuel as [|f IH]; intros n base; cbn [loop]; [reflexivity|].
  unfold ok. rewrite H. rewrite IH. reflexivity.
Qed.

Lemma disambiguate_ext (c c' : string -> bool) : (forall s, c s = c' s) ->
  forall fuel name, disambiguate is_keyword c fuel name = disambiguate is_keyword c' fuel name.
Proof.
  intros H fuel name. unfold disambiguate, ok. rewrite H.
  rewrite (loop_ext c c' H). reflexivity.
Qed.

Theorem disamb_in_perm bad bad' name :
  Permutation.Permutation bad bad' -> disamb_in bad name = disamb_in bad' name.
Proof.
  intros HP. unfold disamb_in, disamb.
  rewrite (Permutation.Permutation_length HP).
  rewrite (disambiguate_ext (coll bad) (coll bad') (fun s => coll_perm _ _ s HP)). reflexivity.
Qed.

(* ---------------- the cycle check never runs out of the model's fuel ---------------- *)
Lemma pot_keys pm0 (pm : pmap entry) :
  pot (succ_of pm0) (keys pm) [] = fold_right (fun kv n => List.length (succ_of pm0 (fst kv)) + n) 0 pm.
Proof. induction pm as [|[k c] r IH]; cbn; auto. Qed.

Theorem verify_never_out_of_fuel tyorder pm : NoDup (keys pm) -> verify tyorder pm <> [SFuel].
Proof.
  intros Hnd. unfold verify.
  destruct (mrootsL_bound (succ_of pm) (keys pm) Hnd (succ_key pm) (roots_of tyorder pm) (acyc_fuel pm)) as (v & c & H).
  { unfold acyc_fuel. rewrite pot_keys. lia. }
  rewrite H. intros Heq. destruct c; discriminate.
Qed.

(* C07 with the explicit bound: on every duplicate-free map the check completes within
   3 + |keys| + (sum of successor counts) iterations per root and accepts exactly the acyclic maps *)
Theorem verify_acyclic_iff_total tyorder pm : NoDup (keys pm) ->
  (verify tyorder pm = [] <-> ~ exists u, path (succ_of pm) u u).
Proof. intros Hnd. apply verify_acyclic_iff. apply verify_never_out_of_fuel. exact Hnd. Qed.
