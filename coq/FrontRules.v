From Coq Require Import List Arith Bool String.
From Wire Require Import Sets Front Model ModelThms.
Import ListNotations.
Local Open Scope string_scope.

(* parse.go: what the marker calls wire.Struct, wire.FieldsOf, wire.Bind and wire.InterfaceValue accept, as decision
   rules over the go/types shape of their arguments (processStructProvider, processFieldsOf, processBind,
   processInterfaceValue).  Types are described only as far as the rules look. *)

Inductive gty :=
| GNamed (id : nat) (generic : bool) (u : gund)     (* a defined type (id: its type number); generic: an instantiated generic type *)
| GPtr (t : gty)
| GStruct (fs : list sfield)                         (* a struct type literal *)
| GIface                                             (* an interface type literal *)
| GUntypedNil
| GOther
with gund :=
| UStruct (fs : list sfield) | UIface | UPtr (t : gty) | UOther.

Definition underlying (t : gty) : gund :=
  match t with
  | GNamed _ _ u => u
  | GPtr e => UPtr e
  | GStruct fs => UStruct fs
  | GIface => UIface
  | GUntypedNil => UOther
  | GOther => UOther
  end.

Definition is_iface (t : gty) : bool := match underlying t with UIface => true | _ => false end.

(* ------------------------------------------------------------------ wire.Struct *)
Inductive struct_res :=
| SROk (p : provider)
| SRFirstArg                      (* "first argument to Struct must be a pointer to a named struct" *)
| SRItem (e : serr).              (* not a field / prevented / two fields of one type *)

Definition front_struct (t : gty) (lits : list string) (pid pkg : nat) (name : string) (tptr : nat) : struct_res :=
  match t with
  | GPtr e =>
    match underlying e with
    | UStruct fs =>
      match e with
      | GNamed n false _ =>
        match struct_provider (mkSProv pid pkg name n tptr fs lits) with
        | inl p => SROk p
        | inr err => SRItem err
        end
      | _ => SRFirstArg
      end
    | _ => SRFirstArg
    end
  | _ => SRFirstArg
  end.

(* ------------------------------------------------------------------ wire.FieldsOf *)
Inductive fields_res :=
| FROk (fs : list (sfield * bool))     (* selected field, and whether a pointer to it is provided as well *)
| FRNoNames                            (* "call to FieldsOf must specify fields to be extracted" *)
| FRFirstArg                           (* "first argument to FieldsOf must be a pointer to a struct or a pointer to a pointer to a struct" *)
| FRTooMany                            (* "fields number exceeds the number available in the struct" *)
| FRNotField (lit : string)
| FRPrevented (lit : string).

Definition fields_struct (t : gty) : option (list sfield * bool) :=
  match t with
  | GPtr e =>
    match underlying e with
    | UPtr e2 => match underlying e2 with UStruct fs => Some (fs, true) | _ => None end
    | UStruct fs => Some (fs, false)
    | _ => None
    end
  | _ => None
  end.

Fixpoint select_lits (lits : list string) (fs : list sfield) (ptr : bool) : fields_res :=
  match lits with
  | [] => FROk []
  | l :: r =>
    match check_field l fs with
    | CfNotField => FRNotField l
    | CfPrevented => FRPrevented l
    | CfOk f => match select_lits r fs ptr with FROk sel => FROk ((f, ptr) :: sel) | e => e end
    end
  end.

Definition front_fieldsof (t : gty) (lits : list string) : fields_res :=
  match lits with
  | [] => FRNoNames
  | _ =>
    match fields_struct t with
    | None => FRFirstArg
    | Some (fs, ptr) => if Nat.ltb (List.length fs) (List.length lits) then FRTooMany else select_lits lits fs ptr
    end
  end.

(* ------------------------------------------------------------------ wire.Bind (the documented, pointer-stripping form) *)
Inductive bind_res :=
| BROk                                 (* binds the interface to the pointee of the second argument *)
| BRFirstArg                           (* "first argument to Bind must be a pointer to an interface type" *)
| BRSecondArg                          (* "second argument to Bind must be a pointer or a pointer to a pointer" *)
| BRSelf                               (* "cannot bind interface to itself" *)
| BRNotImpl.                           (* "... does not implement ..." *)

(* identical / implements are go/types' relations on the two pointee types, supplied by the caller *)
Definition front_bind (it ct : gty) (identical implements : bool) : bind_res :=
  match it with
  | GPtr i =>
    if is_iface i then
      match ct with
      | GPtr _ => if identical then BRSelf else if implements then BROk else BRNotImpl
      | _ => BRSecondArg
      end
    else BRFirstArg
  | _ => BRFirstArg
  end.

(* ------------------------------------------------------------------ wire.InterfaceValue *)
Inductive ival_res := IVOk | IVFirstArg | IVNil | IVNotImpl.

Definition front_ifacevalue (it vt : gty) (implements : bool) : ival_res :=
  match it with
  | GPtr i =>
    if is_iface i then
      match vt with
      | GUntypedNil => IVNil
      | _ => if implements then IVOk else IVNotImpl
      end
    else IVFirstArg
  | _ => IVFirstArg
  end.

(* ------------------------------------------------------------------ field-name arguments that are not string literals *)
(* checkField wants an *ast.BasicLit; a constant, a variable or a concatenation is refused ("must be a string with the
   field name") when its turn comes, i.e. after the names before it have been looked up *)
Inductive lit := LStr (text : string) | LExpr.

Fixpoint texts_of (l : list lit) : option (list string) :=
  match l with
  | [] => Some []
  | LStr s :: r => match texts_of r with Some ts => Some (s :: ts) | None => None end
  | LExpr :: _ => None
  end.

Fixpoint texts_before (l : list lit) : list string :=
  match l with LStr s :: r => s :: texts_before r | _ => [] end.

Inductive struct_res2 := S2 (r : struct_res) | S2NotLit.
Inductive fields_res2 := F2 (r : fields_res) | F2NotLit.

Definition first_arg_struct (t : gty) : option (nat * list sfield) :=
  match t with
  | GPtr (GNamed n false (UStruct fs)) => Some (n, fs)
  | _ => None
  end.

Definition front_struct2 (t : gty) (lits : list lit) (pid pkg : nat) (name : string) (tptr : nat) : struct_res2 :=
  match texts_of lits with
  | Some ts => S2 (front_struct t ts pid pkg name tptr)
  | None =>
    match first_arg_struct t with
    | None => S2 SRFirstArg
    | Some (n, fs) =>
      match select_fields (texts_before lits) fs pid with
      | inr e => S2 (SRItem e)
      | inl _ => S2NotLit
      end
    end
  end.

Definition front_fieldsof2 (t : gty) (lits : list lit) : fields_res2 :=
  match texts_of lits with
  | Some ts => F2 (front_fieldsof t ts)
  | None =>
    match fields_struct t with
    | None => F2 FRFirstArg
    | Some (fs, ptr) =>
      if Nat.ltb (List.length fs) (List.length lits) then F2 FRTooMany
      else match select_lits (texts_before lits) fs ptr with
           | FROk _ => F2NotLit
           | e => F2 e
           end
    end
  end.

Lemma front_struct2_ok t lits pid pkg name tptr p :
  front_struct2 t lits pid pkg name tptr = S2 (SROk p) ->
  exists ts, texts_of lits = Some ts /\ front_struct t ts pid pkg name tptr = SROk p.
Proof.
  unfold front_struct2. destruct (texts_of lits) as [ts|].
  - intros H. injection H as H. eauto.
  - destruct (first_arg_struct t) as [[n fs]|]; [|discriminate].
    destruct (select_fields (texts_before lits) fs pid); discriminate.
Qed.

Lemma front_fieldsof2_ok t lits sel :
  front_fieldsof2 t lits = F2 (FROk sel) ->
  exists ts, texts_of lits = Some ts /\ front_fieldsof t ts = FROk sel.
Proof.
  unfold front_fieldsof2. destruct (texts_of lits) as [ts|].
  - intros H. injection H as H. eauto.
  - destruct (fields_struct t) as [[fs ptr]|]; [|discriminate].
    destruct (Nat.ltb (List.length fs) (List.length lits)); [discriminate|].
    destruct (select_lits (texts_before lits) fs ptr); discriminate.
Qed.

(* ------------------------------------------------------------------ what the rules guarantee (C12, C11) *)

(* FieldsOf: whatever is accepted names declared, unprevented fields exactly as written, one per name and in order;
   a pointer to the field is provided exactly when the argument is a pointer to a pointer to the struct (directly or
   through a defined pointer type) *)
Lemma select_lits_spec ptr fs : forall lits sel, select_lits lits fs ptr = FROk sel ->
  List.length sel = List.length lits /\
  Forall2 (fun l (fp : sfield * bool) => In (fst fp) fs /\ quote (sf_name (fst fp)) = l /\
                                           is_prevented (sf_tag (fst fp)) = false /\ snd fp = ptr) lits sel.
Proof.
  induction lits as [|l r IH]; intros sel H; cbn [select_lits] in H.
  - injection H as <-. split; [reflexivity|constructor].
  - destruct (check_field l fs) as [f| |] eqn:Ec; try discriminate.
    destruct (select_lits r fs ptr) as [sel0| | | | |] eqn:Er; try discriminate. injection H as <-.
    destruct (IH sel0 eq_refl) as [L F]. split; [cbn; congruence|]. constructor; auto.
    destruct (check_field_sound l fs f Ec) as (A & B & C & _). cbn [fst snd]. auto.
Qed.

Theorem fieldsof_accepts t lits sel : front_fieldsof t lits = FROk sel ->
  exists fs ptr, fields_struct t = Some (fs, ptr) /\ lits <> [] /\ List.length sel = List.length lits /\
    Forall2 (fun l (fp : sfield * bool) => In (fst fp) fs /\ quote (sf_name (fst fp)) = l /\
                                             is_prevented (sf_tag (fst fp)) = false /\ snd fp = ptr) lits sel.
Proof.
  unfold front_fieldsof. destruct lits as [|l0 r0] eqn:El; [discriminate|]. rewrite <- El.
  destruct (fields_struct t) as [[fs ptr]|]; [|discriminate].
  destruct (Nat.ltb (List.length fs) (List.length lits)); [discriminate|]. intros H.
  exists fs, ptr. destruct (select_lits_spec ptr fs lits sel H) as [L F].
  split; auto. split; [rewrite El; discriminate|]. split; auto.
Qed.

Theorem fieldsof_pointer_iff t fs ptr : fields_struct t = Some (fs, ptr) ->
  (ptr = true <-> exists e e2, t = GPtr e /\ underlying e = UPtr e2 /\ underlying e2 = UStruct fs).
Proof.
  unfold fields_struct. destruct t as [n g u|e|sf| | |]; try discriminate.
  destruct (underlying e) as [fs0| |e2|] eqn:Eu; try discriminate.
  - intros H. injection H as <- <-. split; [discriminate|]. intros (e0 & e2 & E & U & _). injection E as <-. congruence.
  - destruct (underlying e2) as [fs0| | |] eqn:Eu2; try discriminate. intros H. injection H as <- <-.
    split; auto. intros _. exists e, e2. auto.
Qed.

(* Struct: acceptance needs a pointer to a named, non-generic struct type; then Model.struct_provider decides *)
Theorem struct_accepts t lits pid pkg name tptr p : front_struct t lits pid pkg name tptr = SROk p ->
  exists n u fs, t = GPtr (GNamed n false u) /\ u = UStruct fs /\
                 struct_provider (mkSProv pid pkg name n tptr fs lits) = inl p.
Proof.
  unfold front_struct. destruct t as [n g u|e|sf| | |]; try discriminate.
  destruct (underlying e) as [fs| | |] eqn:Eu; try discriminate.
  destruct e as [n g u|e'|sf| | |]; try discriminate. destruct g; try discriminate.
  cbn in Eu. subst u.
  destruct (struct_provider (mkSProv pid pkg name n tptr fs lits)) as [q|err] eqn:Es; try discriminate.
  intros H. injection H as <-. exists n, (UStruct fs), fs. auto.
Qed.

(* Bind: accepted exactly for a pointer to an interface type and a pointer to a different type implementing it *)
Theorem bind_accepts it ct identical implements :
  front_bind it ct identical implements = BROk <->
  (exists i c, it = GPtr i /\ is_iface i = true /\ ct = GPtr c /\ identical = false /\ implements = true).
Proof.
  unfold front_bind. split.
  - destruct it as [n g u|i|sf| | |]; try discriminate. destruct (is_iface i) eqn:Ei; try discriminate.
    destruct ct as [n g u|c|sf| | |]; try discriminate. destruct identical; try discriminate.
    destruct implements; try discriminate. intros _. exists i, c. auto.
  - intros (i & c & -> & Ei & -> & -> & ->). rewrite Ei. reflexivity.
Qed.

(* InterfaceValue: never an untyped nil, never a value that does not implement the interface *)
Theorem ifacevalue_accepts it vt implements :
  front_ifacevalue it vt implements = IVOk <->
  (exists i, it = GPtr i /\ is_iface i = true /\ vt <> GUntypedNil /\ implements = true).
Proof.
  unfold front_ifacevalue. split.
  - destruct it as [n g u|i|sf| | |]; try discriminate. destruct (is_iface i) eqn:Ei; try discriminate.
    destruct vt; try discriminate; destruct implements; try discriminate; intros _; exists i; repeat split; auto; discriminate.
  - intros (i & -> & Ei & Hn & ->). rewrite Ei. destruct vt; auto. congruence.
Qed.

(* ------------------------------------------------------------------ evaluation for the correspondence *)
(* outcome classes as the harness reads them off wire's first diagnostic *)
Definition struct_class (r : struct_res) : nat :=
  match r with SROk _ => 0 | SRFirstArg => 1 | SRItem (SItem c _) => 10 + c | SRItem _ => 9 end.
Definition fields_class (r : fields_res) : nat :=
  match r with FROk _ => 0 | FRNoNames => 2 | FRFirstArg => 1 | FRTooMany => 3 | FRNotField _ => 13 | FRPrevented _ => 14 end.
Definition bind_class (r : bind_res) : nat :=
  match r with BROk => 0 | BRFirstArg => 1 | BRSecondArg => 4 | BRSelf => 5 | BRNotImpl => 6 end.
Definition ival_class (r : ival_res) : nat :=
  match r with IVOk => 0 | IVFirstArg => 1 | IVNil => 7 | IVNotImpl => 6 end.

Definition struct_class2 (r : struct_res2) : nat := match r with S2 x => struct_class x | S2NotLit => 8 end.
Definition fields_class2 (r : fields_res2) : nat := match r with F2 x => fields_class x | F2NotLit => 8 end.

Inductive fcase :=
| FcStruct (id : nat) (t : gty) (lits : list lit) (obs : nat)
| FcFields (id : nat) (t : gty) (lits : list lit) (obs : nat)
| FcBind (id : nat) (it ct : gty) (identical implements : bool) (obs : nat)
| FcIVal (id : nat) (it vt : gty) (implements : bool) (obs : nat).

Definition fcase_bad (k : fcase) : list nat :=
  match k with
  | FcStruct id t lits obs => if Nat.eqb (struct_class2 (front_struct2 t lits 0 1 "S" 1)) obs then [] else [id]
  | FcFields id t lits obs => if Nat.eqb (fields_class2 (front_fieldsof2 t lits)) obs then [] else [id]
  | FcBind id it ct i m obs => if Nat.eqb (bind_class (front_bind it ct i m)) obs then [] else [id]
  | FcIVal id it vt m obs => if Nat.eqb (ival_class (front_ifacevalue it vt m)) obs then [] else [id]
  end.

Definition fmismatches (ks : list fcase) : list nat := flat_map fcase_bad ks.
