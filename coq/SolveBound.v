From Coq Require Import List Arith Lia Bool Relations Operators_Properties.
From Wire Require Import Solve.
Import ListNotations.

(* C07, the planner: on an acyclic map the loop of analyze.go:solve makes at most
   1 + (sum over the types it indexes of 1 + number of their dependencies) iterations -- independent of the number
   of paths through the graph.  The bound is carried through the simulation of the stack machine by the
   recursive visit (Solve.solve_sim), with the weight of the index as potential. *)

Section Bound.
Variable pm : nat -> option provided.
Variable given : nat.

Notation step := (step pm given).
Notation machine := (machine pm given).
Notation visit := (visit pm given).
Notation visit_list := (visit_list pm given).
Notation dep := (dep pm).

(* number of dependencies the loop may push for t *)
Definition deg (t : nat) : nat :=
  match pm t with
  | None => 0
  | Some pv =>
    if negb (Nat.eqb (conc pv) t) then 1
    else match wh pv with WProv args _ => length args | WField _ _ => 1 | _ => 0 end
  end.

Definition wt (t : nat) : nat := match pm t with None => 0 | Some _ => 1 + deg t end.

(* potential: the weight of the keys indexed so far *)
Variable keys : list nat.
Hypothesis keys_ok : forall t pv, pm t = Some pv -> In t keys.

Fixpoint Phi_l (ks : list nat) (s : st) : nat :=
  match ks with [] => 0 | k :: r => (if indexed s k then wt k else 0) + Phi_l r s end.
Definition Ws (s : st) : nat := Phi_l keys s.

Lemma wt_some t pv : pm t = Some pv -> wt t = 1 + deg t.
Proof. unfold wt. intros ->. reflexivity. Qed.

Lemma indexed_cons_same ix t v s : index s = (t, v) :: ix -> indexed s t = true.
Proof. unfold indexed. intros ->. cbn. rewrite Nat.eqb_refl. reflexivity. Qed.

Lemma indexed_cons_other ix t v s0 s a : index s = (t, v) :: ix -> index s0 = ix -> a <> t -> indexed s a = indexed s0 a.
Proof.
  unfold indexed. intros -> -> Hne. cbn. destruct (Nat.eqb t a) eqn:E; auto. apply Nat.eqb_eq in E. congruence.
Qed.

Lemma Phi_l_new ks : forall s0 s t v, index s = (t, v) :: index s0 -> indexed s0 t = false ->
  Phi_l ks s0 <= Phi_l ks s /\ (In t ks -> wt t + Phi_l ks s0 <= Phi_l ks s).
Proof.
  induction ks as [|k r IH]; intros s0 s t v Hi Hn; cbn [Phi_l]; [split; [lia|intros []]|].
  destruct (IH s0 s t v Hi Hn) as [M A].
  destruct (Nat.eq_dec k t) as [->|Hne].
  - rewrite (indexed_cons_same _ _ _ _ Hi), Hn. split; [lia|]. intros _. lia.
  - rewrite (indexed_cons_other _ _ _ s0 s k Hi eq_refl Hne). split; [lia|]. intros [E|Hin]; [congruence|]. specialize (A Hin). lia.
Qed.

Lemma Ws_new s0 s t v pv : index s = (t, v) :: index s0 -> indexed s0 t = false -> pm t = Some pv -> wt t + Ws s0 <= Ws s.
Proof. intros Hi Hn Hp. unfold Ws. apply (Phi_l_new keys s0 s t v Hi Hn). eapply keys_ok; eauto. Qed.

Lemma Ws_new_mono s0 s t v : index s = (t, v) :: index s0 -> indexed s0 t = false -> Ws s0 <= Ws s.
Proof. intros Hi Hn. unfold Ws. apply (Phi_l_new keys s0 s t v Hi Hn). Qed.

Lemma Ws_set_idx s t v pv : indexed s t = false -> pm t = Some pv -> wt t + Ws s <= Ws (set_idx s t v).
Proof. intros. eapply Ws_new; eauto. reflexivity. Qed.
Lemma Ws_add_err s t : indexed s t = false -> Ws s <= Ws (add_err s t).
Proof. intros. eapply Ws_new_mono; eauto. reflexivity. Qed.
Lemma Ws_add_call s t k l pv : indexed s t = false -> pm t = Some pv -> wt t + Ws s <= Ws (add_call given s t k l).
Proof. intros. eapply Ws_new; eauto. reflexivity. Qed.
Lemma Ws_finish s t k args s' pv : indexed s t = false -> pm t = Some pv -> finish given s t k args = Some s' -> wt t + Ws s <= Ws s'.
Proof.
  unfold finish. intros Hn Hp. destruct (arg_slots s args) as [[l|]|]; intros H; inversion H; subst.
  - eapply Ws_add_call; eauto. - eapply Ws_set_idx; eauto.
Qed.

(* ---- visiting a type only indexes types reachable from it *)
Lemma indexed_cons_inv ix cs es t v a :
  indexed {| index := (t, v) :: ix; calls := cs; errs := es |} a = true ->
  a = t \/ indexed {| index := ix; calls := cs; errs := es |} a = true.
Proof.
  unfold indexed. cbn [index lookup]. destruct (Nat.eqb t a) eqn:E; auto.
  apply Nat.eqb_eq in E. auto.
Qed.

Lemma indexed_only_index s s' a : index s = index s' -> indexed s a = indexed s' a.
Proof. unfold indexed. intros ->. reflexivity. Qed.

Lemma indexed_new s t v a : indexed (set_idx s t v) a = true -> a = t \/ indexed s a = true.
Proof.
  unfold indexed, set_idx. cbn [index lookup]. destruct (Nat.eqb t a) eqn:E; auto.
  apply Nat.eqb_eq in E. auto.
Qed.
Lemma indexed_new_err s t a : indexed (add_err s t) a = true -> a = t \/ indexed s a = true.
Proof.
  unfold indexed, add_err. cbn [index lookup]. destruct (Nat.eqb t a) eqn:E; auto.
  apply Nat.eqb_eq in E. auto.
Qed.
Lemma indexed_new_call s t k l a : indexed (add_call given s t k l) a = true -> a = t \/ indexed s a = true.
Proof.
  unfold indexed, add_call. cbn [index lookup]. destruct (Nat.eqb t a) eqn:E; auto.
  apply Nat.eqb_eq in E. auto.
Qed.
Lemma indexed_new_finish s t k args s' a : finish given s t k args = Some s' -> indexed s' a = true -> a = t \/ indexed s a = true.
Proof.
  unfold finish. destruct (arg_slots s args) as [[l|]|]; intros H; inversion H; subst.
  - apply indexed_new_call. - apply indexed_new.
Qed.

Lemma visit_reach : forall f a s s', visit f a s = Some s' ->
  forall x, indexed s' x = true -> indexed s x = true \/ clos_refl_trans nat dep a x.
Proof.
  induction f as [|f IH]; intros a s s' H x Hx; [discriminate|].
  assert (IHl : forall l s0 s1, visit_list f l s0 = Some s1 -> forall y, indexed s1 y = true ->
                  indexed s0 y = true \/ exists b, In b l /\ clos_refl_trans nat dep b y).
  { induction l as [|b r IHr]; intros s0 s1 Hl y Hy; cbn [Solve.visit_list] in Hl.
    - inversion Hl; subst. auto.
    - destruct (visit f b s0) as [s2|] eqn:Eb; [|discriminate].
      destruct (IHr _ _ Hl y Hy) as [H2|(c & Hc & Hr)].
      + destruct (IH _ _ _ Eb y H2) as [?|Hr]; auto. right. exists b. split; [left; reflexivity|exact Hr].
      + right. exists c. split; [right; exact Hc|exact Hr]. }
  rewrite visit_unfold in H.
  destruct (indexed s a) eqn:Ea; [inversion H; subst; auto|].
  destruct (pm a) as [pv|] eqn:Ep.
  2:{ inversion H; subst. apply indexed_new_err in Hx. destruct Hx as [->|?]; auto. right. apply rt_refl. }
  destruct (negb (conc pv =? a)) eqn:Ec.
  - destruct (visit f (conc pv) s) as [s1|] eqn:E; [|discriminate].
    assert (Hd : dep a (conc pv)).
    { apply dep_alias; auto. intros Heq. rewrite Heq, Nat.eqb_refl in Ec. discriminate. }
    assert (Hfrom : forall y, indexed s1 y = true -> indexed s y = true \/ clos_refl_trans nat dep a y).
    { intros y Hy. destruct (IH _ _ _ E y Hy) as [?|Hr]; auto. right. eapply rt_trans; [apply rt_step; exact Hd|exact Hr]. }
    destruct (indexed s1 a); [inversion H; subst; auto|].
    destruct (lookup (index s1) (conc pv)); [|discriminate]. inversion H; subst.
    apply indexed_new in Hx. destruct Hx as [->|Hx]; [right; apply rt_refl|auto].
  - apply negb_false_iff in Ec. apply Nat.eqb_eq in Ec.
    destruct (wh pv) as [i|args pid|vid|parent fid] eqn:Ew.
    + inversion H; subst. auto.
    + destruct (visit_list f args s) as [s1|] eqn:E; [|discriminate].
      assert (Hfrom : forall y, indexed s1 y = true -> indexed s y = true \/ clos_refl_trans nat dep a y).
      { intros y Hy. destruct (IHl _ _ _ E y Hy) as [?|(b & Hb & Hr)]; auto. right.
        eapply rt_trans; [apply rt_step; eapply dep_prov; eauto|exact Hr]. }
      destruct (indexed s1 a); [inversion H; subst; auto|].
      destruct (indexed_new_finish _ _ _ _ _ x H Hx) as [->|Hx']; [right; apply rt_refl|auto].
    + inversion H; subst. apply indexed_new_call in Hx. destruct Hx as [->|?]; auto. right. apply rt_refl.
    + destruct (visit f parent s) as [s1|] eqn:E; [|discriminate].
      assert (Hfrom : forall y, indexed s1 y = true -> indexed s y = true \/ clos_refl_trans nat dep a y).
      { intros y Hy. destruct (IH _ _ _ E y Hy) as [?|Hr]; auto. right.
        eapply rt_trans; [apply rt_step; eapply dep_field; eauto|exact Hr]. }
      destruct (indexed s1 a); [inversion H; subst; auto|].
      destruct (indexed_new_finish _ _ _ _ _ x H Hx) as [->|Hx']; [right; apply rt_refl|auto].
Qed.

Lemma visit_list_reach f : forall l s0 s1, visit_list f l s0 = Some s1 -> forall y, indexed s1 y = true ->
  indexed s0 y = true \/ exists b, In b l /\ clos_refl_trans nat dep b y.
Proof.
  induction l as [|b r IHr]; intros s0 s1 Hl y Hy; cbn [Solve.visit_list] in Hl.
  - inversion Hl; subst. auto.
  - destruct (visit f b s0) as [s2|] eqn:Eb; [|discriminate].
    destruct (IHr _ _ Hl y Hy) as [H2|(c & Hc & Hr)].
    + destruct (visit_reach _ _ _ _ Eb y H2) as [?|Hr]; auto. right. exists b. split; [left; reflexivity|exact Hr].
    + right. exists c. split; [right; exact Hc|exact Hr].
Qed.

Hypothesis Hac : acyclic pm.

Lemma no_back t b : dep t b -> ~ clos_refl_trans nat dep b t.
Proof.
  intros Hd Hr. apply (Hac b). eapply clos_rt_t; [exact Hr|apply t_step; exact Hd].
Qed.

(* ---- the bounded simulation *)
Definition Pb (f : nat) : Prop :=
  forall t s s', visit f t s = Some s' ->
    forall stk, exists k, k + Ws s <= 1 + Ws s' /\ forall fuel, machine (k + fuel) (t :: stk) s = machine fuel stk s'.
Definition Qb (f : nat) : Prop :=
  forall l s s', visit_list f l s = Some s' ->
    forall stk, exists k, k + Ws s <= length l + Ws s' /\ forall fuel, machine (k + fuel) (l ++ stk) s = machine fuel stk s'.

Lemma Pb_Qb f : Pb f -> Qb f.
Proof.
  intros HP l. induction l as [|a r IH]; intros s s' H stk; cbn [Solve.visit_list] in H.
  - inversion H; subst. exists 0. split; [cbn; lia|intros; reflexivity].
  - destruct (visit f a s) as [s1|] eqn:E; [|discriminate].
    destruct (HP _ _ _ E (r ++ stk)) as (k1 & B1 & H1). destruct (IH _ _ H stk) as (k2 & B2 & H2).
    exists (k1 + k2). split; [cbn [length]; lia|]. intros fuel. rewrite <- Nat.add_assoc. cbn [app]. rewrite H1. apply H2.
Qed.

Lemma unvisited_length s args : length (unvisited s args) <= length args.
Proof. unfold unvisited. induction args as [|a r IH]; cbn; [lia|]. destruct (negb (indexed s a)); cbn; lia. Qed.

Lemma Qb_Pb f : Pb f -> Qb f -> Pb (S f).
Proof.
  intros HP HQ t s s' H stk. rewrite visit_unfold in H.
  destruct (indexed s t) eqn:Et.
  { inversion H; subst. exists 1. split; [lia|]. intros fuel. cbn [Nat.add]. rewrite step1. unfold Solve.step. rewrite Et. reflexivity. }
  destruct (pm t) as [pv|] eqn:Ep.
  2:{ inversion H; subst. exists 1. split; [pose proof (Ws_add_err s t Et); lia|]. intros fuel. cbn [Nat.add]. rewrite step1. unfold Solve.step. rewrite Et, Ep. reflexivity. }
  assert (Hdeg := eq_refl (deg t)). unfold deg at 1 in Hdeg. rewrite Ep in Hdeg.
  destruct (negb (conc pv =? t)) eqn:Ec.
  - (* alias *)
    destruct (visit f (conc pv) s) as [s1|] eqn:E; [|discriminate].
    assert (Hd : dep t (conc pv)).
    { apply dep_alias; auto. intros Heq. rewrite Heq, Nat.eqb_refl in Ec. discriminate. }
    assert (Et1 : indexed s1 t = false).
    { destruct (indexed s1 t) eqn:X; auto. destruct (visit_reach _ _ _ _ E t X) as [Y|Y]; [congruence|].
      exfalso. exact (no_back t _ Hd Y). }
    rewrite Et1 in H.
    destruct (lookup (index s) (conc pv)) as [i0|] eqn:El.
    + assert (Hi : indexed s (conc pv) = true) by (unfold indexed; rewrite El; auto).
      destruct (visit_some_pos _ _ _ _ _ _ E) as [f' ->]. rewrite (visit_noop pm given f' _ s Hi) in E.
      inversion E; subst s1. rewrite El in H. inversion H; subst.
      exists 1. split; [pose proof (Ws_set_idx s t i0 pv Et Ep); rewrite (wt_some t pv Ep) in *; lia|]. intros fuel. cbn [Nat.add]. rewrite step1. unfold Solve.step. rewrite Et, Ep, Ec, El. reflexivity.
    + destruct (HP _ _ _ E (t :: stk)) as (k1 & B1 & H1).
      destruct (lookup (index s1) (conc pv)) as [i|] eqn:El1; [|discriminate]. inversion H; subst.
      exists (S (k1 + 1)). split; [pose proof (Ws_set_idx s1 t i pv Et1 Ep); rewrite (wt_some t pv Ep), <- Hdeg in *; lia|].
      intros fuel. cbn [Nat.add]. rewrite step1. unfold Solve.step at 1. rewrite Et, Ep, Ec, El.
      rewrite <- Nat.add_assoc. rewrite H1. cbn [Nat.add]. rewrite step1. unfold Solve.step.
      rewrite Et1, Ep, Ec, El1. reflexivity.
  - pose proof Ec as Ec'. apply negb_false_iff in Ec'. apply Nat.eqb_eq in Ec'.
    destruct (wh pv) as [i|args pid|vid|parent fid] eqn:Ew.
    + inversion H; subst. exists 1. split; [lia|]. intros fuel. cbn [Nat.add]. rewrite step1. unfold Solve.step.
      rewrite Et, Ep, Ec, Ew. reflexivity.
    + (* provider *)
      destruct (visit_list f args s) as [s1|] eqn:E; [|discriminate].
      assert (Et1 : indexed s1 t = false).
      { destruct (indexed s1 t) eqn:X; auto. destruct (visit_list_reach _ _ _ _ E t X) as [Y|(b & Hb & Y)]; [congruence|].
        exfalso. apply (no_back t b); auto. eapply dep_prov; eauto. }
      rewrite Et1 in H.
      destruct (unvisited s args) as [|u0 ur] eqn:Eu.
      * assert (s1 = s) by (eapply visit_list_noop; eauto). subst s1.
        exists 1. split; [pose proof (Ws_finish s t _ _ _ pv Et Ep H); rewrite (wt_some t pv Ep) in *; lia|]. intros fuel. cbn [Nat.add]. rewrite step1. unfold Solve.step.
        rewrite Et, Ep, Ec, Ew, Eu, H. reflexivity.
      * assert (E' : visit_list f (unvisited s args) s = Some s1)
          by (eapply visit_list_unvisited; eauto using ext_refl).
        pose proof (unvisited_length s args) as Hlen. rewrite Eu in E', Hlen.
        destruct (HQ _ _ _ E' (t :: stk)) as (k1 & B1 & H1).
        exists (S (k1 + 1)). split; [pose proof (Ws_finish s1 t _ _ _ pv Et1 Ep H); rewrite (wt_some t pv Ep), <- Hdeg in *; cbn [length] in *; lia|].
        intros fuel. cbn [Nat.add]. rewrite step1. unfold Solve.step at 1.
        rewrite Et, Ep, Ec, Ew, Eu. rewrite <- Nat.add_assoc. rewrite H1.
        cbn [Nat.add]. rewrite step1. unfold Solve.step.
        rewrite Et1, Ep, Ec, Ew. rewrite (finish_all_indexed _ _ _ _ _ _ H). rewrite H. reflexivity.
    + injection H as <-. exists 1. split; [pose proof (Ws_add_call s t (CVal vid) [] pv Et Ep); rewrite (wt_some t pv Ep) in *; lia|]. intros fuel. cbn [Nat.add]. rewrite step1. unfold Solve.step.
      rewrite Et, Ep, Ec, Ew. reflexivity.
    + (* field *)
      destruct (visit f parent s) as [s1|] eqn:E; [|discriminate].
      assert (Et1 : indexed s1 t = false).
      { destruct (indexed s1 t) eqn:X; auto. destruct (visit_reach _ _ _ _ E t X) as [Y|Y]; [congruence|].
        exfalso. apply (no_back t parent); auto. eapply dep_field; eauto. }
      rewrite Et1 in H.
      destruct (lookup (index s) parent) as [i0|] eqn:El.
      * assert (Hi : indexed s parent = true) by (unfold indexed; rewrite El; auto).
        destruct (visit_some_pos _ _ _ _ _ _ E) as [f' ->]. rewrite (visit_noop pm given f' _ s Hi) in E.
        inversion E; subst s1.
        exists 1. split; [pose proof (Ws_finish s t _ _ _ pv Et Ep H); rewrite (wt_some t pv Ep) in *; lia|]. intros fuel. cbn [Nat.add]. rewrite step1. unfold Solve.step.
        rewrite Et, Ep, Ec, Ew, El, H. reflexivity.
      * destruct (HP _ _ _ E (t :: stk)) as (k1 & B1 & H1).
        exists (S (k1 + 1)). split; [pose proof (Ws_finish s1 t _ _ _ pv Et1 Ep H); rewrite (wt_some t pv Ep), <- Hdeg in *; lia|].
        intros fuel. cbn [Nat.add]. rewrite step1. unfold Solve.step at 1.
        rewrite Et, Ep, Ec, Ew, El. rewrite <- Nat.add_assoc. rewrite H1.
        cbn [Nat.add]. rewrite step1. unfold Solve.step.
        rewrite Et1, Ep, Ec, Ew.
        assert (Hu := finish_all_indexed _ _ _ _ _ _ H). cbn [unvisited filter] in Hu.
        unfold indexed in Hu. destruct (lookup (index s1) parent); [|discriminate].
        rewrite H. reflexivity.
Qed.

Theorem solve_sim_bounded f : Pb f.
Proof.
  induction f as [|f IH].
  - intros t s s' H; discriminate.
  - apply Qb_Pb; [exact IH|apply Pb_Qb; exact IH].
Qed.

Lemma machine_more' f : forall stk s r, machine f stk s = Some r -> forall k, machine (k + f) stk s = Some r.
Proof.
  induction f as [|f IH]; intros stk s r H k; [discriminate|].
  replace (k + S f) with (S (k + f)) by lia.
  destruct stk as [|t stk'].
  - cbn [Solve.machine] in *. exact H.
  - rewrite step1 in H. rewrite step1. destruct (step t stk' s) as [stk2 s2]. apply IH; auto.
Qed.

Definition Wmax : nat := fold_right (fun k n => wt k + n) 0 keys.

Lemma Phi_l_le ks s : Phi_l ks s <= fold_right (fun k n => wt k + n) 0 ks.
Proof. induction ks as [|k r IH]; cbn; [lia|]. destruct (indexed s k); lia. Qed.

Lemma Ws_le_Wmax s : Ws s <= Wmax.
Proof. apply Phi_l_le. Qed.

(* the loop finishes within 2 + (sum over the keys of 1 + number of dependencies) iterations *)
Theorem solve_steps_bounded (gtypes : list nat) out s0 :
  given = length gtypes -> args_indexed pm s0 ->
  exists s', visit (length keys + 2) out s0 = Some s' /\ machine (2 + Wmax) [out] s0 = Some s'.
Proof.
  intros Hg Ha.
  destruct (solve_terminates pm given keys keys_ok gtypes Hg Hac out s0 Ha) as (s' & _ & Hv & _).
  destruct (solve_sim_bounded _ _ _ _ Hv []) as (k & B & Hk).
  exists s'. split; auto.
  pose proof (Hk 1) as H1. cbn [Solve.machine] in H1.
  pose proof (Ws_le_Wmax s') as Hle.
  assert (Hk1 : k <= 1 + Wmax) by (unfold Ws in *; lia).
  replace (2 + Wmax) with ((1 + Wmax - k) + (k + 1)) by (clear -Hk1; lia).
  apply machine_more'. exact H1.
Qed.
End Bound.
