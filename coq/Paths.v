From Coq Require Import List Bool String Arith.
Import ListNotations.
Local Open Scope string_scope.
Local Open Scope list_scope.

(* Import paths as lists of elements ("example.com/app/vendor/x" = ["example.com"; "app"; "vendor"; "x"]).

   wire.go:qualifyImport / parse.go:isWireImport strip a vendor prefix:
       if i := strings.LastIndex("/"+path, "/vendor/"); i != -1 { path = path[i+len("vendor/"):] }
   i.e. everything up to and including the last element "vendor" that is followed by at least one more element.
   (Before fix e95ed3a the search was for the substring "vendor/" followed by a boundary test on the last match
   only, which an element merely ending in "vendor" defeats.)

   wire.go:importableFrom is the go command's rule for internal packages:
       s := "/" + path + "/";  i := strings.LastIndex(s, "/internal/");  no match: importable;
       parent := the elements before that element;  none: not importable (standard library);
       otherwise importable iff from == parent or from starts with parent + "/". *)

Definition path := list string.

Fixpoint after_last_vendor (p : path) : option path :=
  match p with
  | [] => None
  | e :: r =>
    match after_last_vendor r with
    | Some s => Some s
    | None => if String.eqb e "vendor" then match r with [] => None | _ => Some r end else None
    end
  end.

Definition unvendor (p : path) : path :=
  match after_last_vendor p with Some s => s | None => p end.

Definition is_wire_import (p : path) : bool :=
  match unvendor p with
  | [a; b; c] => String.eqb a "github.com" && String.eqb b "google" && String.eqb c "wire"
  | _ => false
  end.

Fixpoint before_last_internal (p : path) : option path :=
  match p with
  | [] => None
  | e :: r =>
    match before_last_internal r with
    | Some a => Some (e :: a)
    | None => if String.eqb e "internal" then Some [] else None
    end
  end.

Fixpoint is_prefix (a b : path) : bool :=
  match a, b with
  | [], _ => true
  | x :: r, y :: s => String.eqb x y && is_prefix r s
  | _ :: _, [] => false
  end.

Definition importable (p from : path) : bool :=
  match before_last_internal p with
  | None => true
  | Some [] => false
  | Some parent => is_prefix parent from
  end.

(* ---------------------------------------------------------------- unvendor *)
(* an element "vendor" followed by something *)
Definition has_vendor_dir (p : path) : Prop := exists a b, p = a ++ "vendor" :: b /\ b <> [].

Lemma after_last_vendor_some p s :
  after_last_vendor p = Some s -> s <> [] /\ (exists a, p = a ++ "vendor" :: s) /\ ~ has_vendor_dir s.
Proof.
  revert s. induction p as [|e r IH]; intros s H; cbn in H; [discriminate|].
  destruct (after_last_vendor r) as [s'|] eqn:E.
  - injection H as <-. destruct (IH _ eq_refl) as (A & (a & B) & C). repeat split; auto.
    exists (e :: a). cbn. rewrite B. reflexivity.
  - destruct (String.eqb e "vendor") eqn:Ee; [|discriminate]. destruct r as [|x r']; [discriminate|].
    injection H as <-. apply String.eqb_eq in Ee. subst e. repeat split; [discriminate|exists []; reflexivity|].
    intros (a & b & Hab & Hb). clear IH.
    (* r has a vendor dir, so after_last_vendor r would not be None *)
    assert (Hn : forall q, (exists a b, q = a ++ "vendor" :: b /\ b <> []) -> after_last_vendor q <> None).
    { clear. induction q as [|y q IHq]; intros (a & b & Hq & Hb).
      - destruct a; discriminate.
      - cbn. destruct a as [|z a]; cbn in Hq; injection Hq as -> ->.
        + destruct (after_last_vendor b); [discriminate|]. cbn. destruct b; [congruence|discriminate].
        + assert (after_last_vendor (a ++ "vendor" :: b) <> None) by (apply IHq; eauto).
          destruct (after_last_vendor (a ++ "vendor" :: b)); [discriminate|congruence]. }
    apply (Hn (x :: r')); eauto.
Qed.

Lemma after_last_vendor_none p : after_last_vendor p = None -> ~ has_vendor_dir p.
Proof.
  induction p as [|e r IH]; intros H (a & b & Hp & Hb).
  - destruct a; discriminate.
  - cbn in H. destruct (after_last_vendor r) eqn:E; [discriminate|].
    destruct a as [|z a]; cbn in Hp; injection Hp as -> ->.
    + cbn in H. destruct b; [congruence|discriminate].
    + apply (IH eq_refl). exists a, b. auto.
Qed.

(* what is left has no vendor directory, and is a suffix of the path *)
Theorem unvendor_clean p : ~ has_vendor_dir (unvendor p).
Proof.
  unfold unvendor. destruct (after_last_vendor p) as [s|] eqn:E.
  - apply after_last_vendor_some in E. tauto.
  - apply after_last_vendor_none. exact E.
Qed.

Theorem unvendor_suffix p : exists a, p = a ++ unvendor p.
Proof.
  unfold unvendor. destruct (after_last_vendor p) as [s|] eqn:E.
  - apply after_last_vendor_some in E. destruct E as (_ & (a & B) & _). exists (a ++ ["vendor"]).
    rewrite <- app_assoc. exact B.
  - exists []. reflexivity.
Qed.

(* a path without a vendor directory is left alone; stripping is idempotent *)
Theorem unvendor_id p : ~ has_vendor_dir p -> unvendor p = p.
Proof.
  intros H. unfold unvendor. destruct (after_last_vendor p) as [s|] eqn:E; auto.
  apply after_last_vendor_some in E. destruct E as (A & (a & B) & _). exfalso. apply H. exists a, s. auto.
Qed.

Theorem unvendor_idem p : unvendor (unvendor p) = unvendor p.
Proof. apply unvendor_id. apply unvendor_clean. Qed.

(* the canonical path of anything vendored below any number of vendor directories *)
Theorem unvendor_vendored a s : s <> [] -> ~ has_vendor_dir s -> unvendor (a ++ "vendor" :: s) = s.
Proof.
  intros Hs Hc. unfold unvendor.
  assert (H : after_last_vendor (a ++ "vendor" :: s) = Some s).
  { induction a as [|e a IH]; cbn.
    - destruct (after_last_vendor s) as [t|] eqn:E.
      + apply after_last_vendor_some in E. destruct E as (A & (b & B) & _). exfalso. apply Hc. exists b, t. auto.
      + destruct s; [congruence|reflexivity].
    - rewrite IH. reflexivity. }
  rewrite H. reflexivity.
Qed.

(* the witness of the defect repaired by e95ed3a is handled *)
Example govendor :
  unvendor ["example.com"; "n"; "vendor"; "example.com"; "govendor"; "dep"] = ["example.com"; "govendor"; "dep"]
  /\ unvendor ["vendor"; "example.com"; "lib"] = ["example.com"; "lib"]
  /\ unvendor ["example.com"; "govendor"; "dep"] = ["example.com"; "govendor"; "dep"]
  /\ unvendor ["a"; "vendor"] = ["a"; "vendor"].
Proof. repeat split. Qed.

(* ---------------------------------------------------------------- internal packages *)
Lemma before_last_internal_some p a :
  before_last_internal p = Some a -> exists b, p = a ++ "internal" :: b /\ ~ In "internal" b.
Proof.
  revert a. induction p as [|e r IH]; intros a H; cbn in H; [discriminate|].
  destruct (before_last_internal r) as [a'|] eqn:E.
  - injection H as <-. destruct (IH _ eq_refl) as (b & B & C). exists b. cbn. rewrite B. auto.
  - destruct (String.eqb e "internal") eqn:Ee; [|discriminate]. injection H as <-. apply String.eqb_eq in Ee. subst e.
    exists r. split; auto. clear IH. revert E. induction r as [|y r IHr]; cbn; auto.
    destruct (before_last_internal r); [discriminate|]. destruct (String.eqb y "internal") eqn:Ey; [discriminate|].
    intros _ [H|H]; [subst y; discriminate|]. apply IHr; auto.
Qed.

Lemma before_last_internal_none p : before_last_internal p = None -> ~ In "internal" p.
Proof.
  induction p as [|e r IH]; cbn; auto. destruct (before_last_internal r); [discriminate|].
  destruct (String.eqb e "internal") eqn:Ee; [discriminate|]. intros _ [H|H]; [subst e; discriminate|]. apply IH; auto.
Qed.

Lemma is_prefix_spec a b : is_prefix a b = true <-> exists r, b = a ++ r.
Proof.
  revert b. induction a as [|x a IH]; intros b; cbn.
  - split; eauto.
  - destruct b as [|y b]; [split; [discriminate|intros [r H]; discriminate]|].
    rewrite andb_true_iff, String.eqb_eq, IH. split.
    + intros [-> [r ->]]. eauto.
    + intros [r H]. injection H as -> ->. eauto.
Qed.

(* the go command's rule: a path with an element "internal" may only be imported from the tree rooted at the parent
   of (the last such) element *)
Theorem importable_spec p from :
  importable p from = true <->
  ~ In "internal" p \/
  exists a b r, p = a ++ "internal" :: b /\ ~ In "internal" b /\ a <> [] /\ from = a ++ r.
Proof.
  unfold importable. destruct (before_last_internal p) as [a|] eqn:E.
  - destruct (before_last_internal_some _ _ E) as (b & B & C). split.
    + intros H. right. destruct a as [|x a]; [discriminate|]. apply is_prefix_spec in H. destruct H as [r ->].
      exists (x :: a), b, r. repeat split; auto. discriminate.
    + intros [H|(a' & b' & r & B' & C' & D' & ->)].
      * exfalso. apply H. rewrite B. apply in_or_app. right. left. reflexivity.
      * assert (a' = a).
        { clear - B B' C C'. subst p. revert a' B'. induction a as [|x a IH]; intros [|y a'] H; cbn in H; auto.
          - injection H as <- H. exfalso. apply C. rewrite H. apply in_or_app. right. left. reflexivity.
          - injection H as -> H. exfalso. apply C'. rewrite <- H. apply in_or_app. right. left. reflexivity.
          - injection H as -> H. f_equal. apply IH. exact H. }
        subst a'. destruct a as [|x a]; [congruence|]. apply is_prefix_spec. eauto.
  - split; auto. intros _. left. apply before_last_internal_none. exact E.
Qed.

Example internal_examples :
  importable ["example.com"; "d"; "bar"; "internal"; "secret"] ["example.com"; "d"; "bar"; "sub"] = true
  /\ importable ["example.com"; "d"; "bar"; "internal"; "secret"] ["example.com"; "d"; "bar"] = true
  /\ importable ["example.com"; "d"; "bar"; "internal"; "secret"] ["example.com"; "d"; "app"] = false
  /\ importable ["example.com"; "d"; "bar"; "internal"; "secret"] ["example.com"; "d"; "barx"] = false
  /\ importable ["internal"; "cpu"] ["example.com"; "d"] = false
  /\ importable ["example.com"; "internals"; "x"] ["other"] = true
  /\ importable ["a"; "internal"] ["a"; "b"] = true
  (* a sibling whose name merely starts like the parent's, and the parent itself (seeded changes C01-r9m1, C10-r9m2) *)
  /\ importable ["example.com"; "demo"; "store"; "internal"; "engine"] ["example.com"; "demo"; "storefront"] = false
  /\ importable ["example.com"; "demo"; "internal"; "deps"] ["example.com"; "demo"] = true.
Proof. repeat split. Qed.

(* ---------------------------------------------------------------- evaluation for the correspondence *)
Fixpoint path_eqb (a b : path) : bool :=
  match a, b with
  | [], [] => true
  | x :: r, y :: s => String.eqb x y && path_eqb r s
  | _, _ => false
  end.

(* (id, path, from, observed unvendored path, observed importable, observed isWireImport) *)
Definition pcase := (nat * path * path * path * bool * bool)%type.

Definition pmismatches (ks : list pcase) : list nat :=
  flat_map (fun k : pcase =>
    let '(i, p, from, u, imp, w) := k in
    if path_eqb (unvendor p) u && Bool.eqb (importable p from) imp && Bool.eqb (is_wire_import p) w then [] else [i]) ks.
