From Coq Require Import List Arith Lia Bool Permutation.
From Wire Require Import Sets SetsWF Perm Acyclic Solve Names Front Exec Model ModelThms Bridge ProcessWF PermModel Regroup.
Import ListNotations.

(* C10 (grouping) on the concrete model: a nested provider set listed in wire.Build / wire.NewSet can be dissolved
   into the listing set -- the analysis accepts the regrouped program whenever it accepted the nested one, every
   type resolves to the same provider / value / field / argument, and the planner makes the very same run. *)

Definition ecore (e : entry) : nat * what := (e_conc e, e_what e).

Lemma ecore_imp s e : ecore (imp_payload s e) = ecore e.
Proof. reflexivity. Qed.
Lemma ecore_bind b e : ecore (bind_payload b e) = ecore e.
Proof. reflexivity. Qed.

Notation ceqm := (ceq entry (nat * what) ecore).

Lemma ceqm_look pm pm' t : ceqm pm pm' ->
  match look pm t, look pm' t with
  | Some e, Some e' => e_conc e = e_conc e' /\ e_what e = e_what e'
  | None, None => True
  | _, _ => False
  end.
Proof.
  intros H. specialize (H t). destruct (look pm t) as [e|], (look pm' t) as [e'|]; cbn in H; try discriminate; auto.
  injection H as H1 H2. auto.
Qed.

Lemma ceqm_succ pm pm' : ceqm pm pm' -> forall t, succ_of pm t = succ_of pm' t.
Proof.
  intros H t. unfold succ_of. pose proof (ceqm_look pm pm' t H) as L.
  destruct (look pm t) as [e|], (look pm' t) as [e'|]; try contradiction; auto.
  destruct L as [_ ->]. reflexivity.
Qed.

Lemma ceqm_core_pm pm pm' : ceqm pm pm' -> forall t, core_pm pm t = core_pm pm' t.
Proof.
  intros H t. unfold core_pm. pose proof (ceqm_look pm pm' t H) as L.
  destruct (look pm t) as [e|], (look pm' t) as [e'|]; try contradiction; auto.
  destruct L as [-> ->]. reflexivity.
Qed.

Lemma ceqm_keys pm pm' : ceqm pm pm' -> forall t, In t (keys pm) <-> In t (keys pm').
Proof.
  intros H t. pose proof (ceqm_look pm pm' t H) as L.
  destruct (look pm t) as [e|] eqn:E1, (look pm' t) as [e'|] eqn:E2; try contradiction.
  - split; intros _.
    + destruct (in_dec Nat.eq_dec t (keys pm')) as [?|Hn]; auto. apply (look_None_keys entry imp_payload bind_payload) in Hn. congruence.
    + destruct (in_dec Nat.eq_dec t (keys pm)) as [?|Hn]; auto. apply (look_None_keys entry imp_payload bind_payload) in Hn. congruence.
  - apply (look_None_keys entry imp_payload bind_payload) in E1, E2. tauto.
Qed.

Lemma verify_ceqm tyorder pm pm' : NoDup (keys pm) -> NoDup (keys pm') -> ceqm pm pm' ->
  verify tyorder pm = [] -> verify tyorder pm' = [].
Proof.
  intros N1 N2 H Hv. apply (verify_acyclic_iff_total tyorder pm' N2). intros [u Hp].
  apply (proj1 (verify_acyclic_iff_total tyorder pm N1) Hv). exists u.
  apply (path_ext (succ_of pm') (succ_of pm)); [|exact Hp]. intros x. symmetry. apply ceqm_succ. exact H.
Qed.

Lemma sum_keys_perm (f : nat -> nat) (l l' : list nat) : Permutation l l' ->
  fold_right (fun k n => f k + n) 0 l = fold_right (fun k n => f k + n) 0 l'.
Proof. induction 1; cbn; lia. Qed.

Lemma sum_over_keys (pm : pmap entry) (f : nat -> nat) :
  fold_right (fun kv n => f (fst kv) + n) 0 pm = fold_right (fun k n => f k + n) 0 (keys pm).
Proof. induction pm as [|[k e] r IH]; cbn; auto. Qed.

Lemma solve_fuel_ceqm pm pm' : NoDup (keys pm) -> NoDup (keys pm') -> ceqm pm pm' -> length pm = length pm' ->
  solve_fuel pm = solve_fuel pm'.
Proof.
  intros N1 N2 H L. unfold solve_fuel. rewrite L. f_equal. f_equal. f_equal.
  rewrite (sum_over_keys pm (fun k => List.length (succ_of pm k))), (sum_over_keys pm' (fun k => List.length (succ_of pm' k))).
  assert (P : Permutation (keys pm) (keys pm')).
  { apply NoDup_Permutation; auto. apply ceqm_keys. exact H. }
  rewrite (sum_keys_perm _ _ _ P).
  clear -H. induction (keys pm') as [|k r IH]; cbn; auto. rewrite (ceqm_succ pm pm' H k), IH. reflexivity.
Qed.

Lemma interleave {X} (a b c d : list X) : Permutation ((a ++ b) ++ (c ++ d)) ((a ++ c) ++ (b ++ d)).
Proof. rewrite <- !app_assoc. apply Permutation_app_head. rewrite !app_assoc. apply Permutation_app_tail. apply Permutation_app_comm. Qed.

(* direct items regrouped: the flattened set lists the same entries, in another order *)
Lemma direct_entries_regroup cp csp cv cf p sp v f :
  Permutation (direct_entries (all_provs cp csp) cv cf ++ direct_entries (all_provs p sp) v f)
              (direct_entries (all_provs (cp ++ p) (csp ++ sp)) (cv ++ v) (cf ++ f)).
Proof.
  unfold direct_entries, all_provs. rewrite !flat_map_app, !map_app.
  set (A1 := flat_map prov_entries cp). set (A2 := flat_map prov_entries (flat_map sprov_oks csp)).
  set (A3 := map val_entry cv). set (A4 := flat_map field_entries cf).
  set (B1 := flat_map prov_entries p). set (B2 := flat_map prov_entries (flat_map sprov_oks sp)).
  set (B3 := map val_entry v). set (B4 := flat_map field_entries f).
  eapply Permutation_trans; [apply (interleave (A1 ++ A2) (A3 ++ A4) (B1 ++ B2) (B3 ++ B4))|].
  apply Permutation_app; [apply interleave|].
  change (Permutation ((A3 ++ A4) ++ B3 ++ B4) ((A3 ++ B3) ++ A4 ++ B4)). apply interleave.
Qed.

(* one accepted level re-listed: same imports, permuted direct items, same bindings *)
Lemma process_direct_perm tyorder sid a imps ie ie' d d' b pm :
  Permutation d d' -> ie' = [] ->
  process imp_payload bind_payload (verify tyorder) (PSet sid a imps ie d b) = inl pm ->
  exists pm', process imp_payload bind_payload (verify tyorder) (PSet sid a imps ie' d' b) = inl pm' /\
              (forall t, look pm t = look pm' t) /\ Permutation pm pm'.
Proof.
  intros Pd -> H. rewrite process_unfold in *.
  destruct (process_list entry imp_payload bind_payload (verify tyorder) imps) as [ms es].
  destruct (es ++ ie) as [|e0 r0] eqn:Ee; [|discriminate].
  apply app_eq_nil in Ee. destruct Ee as [-> ->]. cbn [app].
  destruct (build1 imp_payload bind_payload a ms d b) as [pm0|e] eqn:Eb; [|discriminate].
  destruct (verify tyorder pm0) eqn:Ev; [|discriminate]. injection H as <-.
  destruct (build1_perm_entries entry imp_payload bind_payload a ms ms d d' b pm0 (Permutation_refl _) Pd Eb) as (pm' & Eb' & Meq & Pperm).
  rewrite Eb'.
  assert (N1 : NoDup (keys pm0)) by (destruct (build1_keys entry imp_payload bind_payload _ _ _ _ _ Eb); auto).
  assert (N2 : NoDup (keys pm')) by (destruct (build1_keys entry imp_payload bind_payload _ _ _ _ _ Eb'); auto).
  rewrite (verify_ceqm tyorder pm0 pm' N1 N2); auto.
  - exists pm'. auto.
  - intros t. rewrite (Meq t). reflexivity.
Qed.

(* C10: dissolving the first nested set of a wire.Build / wire.NewSet call *)
Theorem process_set_regroup tyorder args id cid cimps cprovs csprovs cvals cflds cbinds imports provs sprovs vals flds binds pm :
  process_set tyorder args (RSet id (RSet cid cimps cprovs csprovs cvals cflds cbinds :: imports) provs sprovs vals flds binds) = inl pm ->
  exists pm', process_set tyorder args (RSet id (cimps ++ imports) (cprovs ++ provs) (csprovs ++ sprovs) (cvals ++ vals) (cflds ++ flds) (cbinds ++ binds)) = inl pm' /\
              ceqm pm pm' /\ length pm = length pm' /\ NoDup (keys pm) /\ NoDup (keys pm').
Proof.
  unfold process_set. cbn [to_core]. rewrite (to_core_imports (cimps ++ imports)), (to_core_imports imports), (to_core_imports cimps).
  intros H.
  assert (Hnd : NoDup (keys pm)).
  { destruct (process_one_source entry imp_payload bind_payload (verify tyorder) _ _ H) as (K & N & _). rewrite K. exact N. }
  (* the child's and the parent's item errors are empty *)
  pose proof H as H0. rewrite process_unfold in H0.
  destruct (process_list entry imp_payload bind_payload (verify tyorder) _) as [ms0 es0] eqn:El0.
  destruct (es0 ++ (flat_map func_provider_errs provs ++ flat_map sprov_errs sprovs)) as [|e0 r0] eqn:Ee0; [|discriminate].
  apply app_eq_nil in Ee0. destruct Ee0 as [-> Ee0]. apply app_eq_nil in Ee0. destruct Ee0 as [Ep Es]. clear H0.
  destruct (process_list_cons_ok entry imp_payload bind_payload (verify tyorder) _ _ _ El0) as (pmc & ms' & Hc & _ & _).
  rewrite process_unfold in Hc.
  destruct (process_list entry imp_payload bind_payload (verify tyorder) (map (to_core []) cimps)) as [cms ces].
  destruct (ces ++ (flat_map func_provider_errs cprovs ++ flat_map sprov_errs csprovs)) as [|e1 r1] eqn:Ee1; [|discriminate].
  apply app_eq_nil in Ee1. destruct Ee1 as [_ Ee1]. apply app_eq_nil in Ee1. destruct Ee1 as [Ecp Ecs]. clear Hc.
  (* generic dissolution, then the permutation of the direct items *)
  destruct (process_flatten entry (nat * what) imp_payload bind_payload (verify tyorder) ecore ecore_imp ecore_bind
              (verify_ceqm tyorder) _ _ _ _ _ _ _ _ _ _ _ _ H) as (pm1 & H1 & C1 & L1).
  destruct (process_direct_perm tyorder id (arg_entries 0 args) (map (to_core []) cimps ++ map (to_core []) imports)
              ((flat_map func_provider_errs cprovs ++ flat_map sprov_errs csprovs) ++ flat_map func_provider_errs provs ++ flat_map sprov_errs sprovs)
              (flat_map func_provider_errs (cprovs ++ provs) ++ flat_map sprov_errs (csprovs ++ sprovs))
              _ _ (map bind_triple cbinds ++ map bind_triple binds) pm1
              (direct_entries_regroup cprovs csprovs cvals cflds provs sprovs vals flds)) as (pm2 & H2 & M2 & P2).
  { rewrite !flat_map_app, Ep, Es, Ecp, Ecs. reflexivity. }
  { exact H1. }
  exists pm2. rewrite map_app, map_app. split; [exact H2|].
  assert (Hnd2 : NoDup (keys pm2)).
  { destruct (process_one_source entry imp_payload bind_payload (verify tyorder) _ _ H2) as (K & N & _). rewrite K. exact N. }
  split; [|split; [|split; auto]].
  - intros t. rewrite (C1 t), (M2 t). reflexivity.
  - rewrite L1. apply Permutation_length. exact P2.
Qed.

(* ... and the planner cannot tell the difference *)
Theorem regroup_same_plan pm pm' args out :
  ceqm pm pm' -> length pm = length pm' -> NoDup (keys pm) -> NoDup (keys pm') ->
  machine2 (core_pm pm) (List.length args) (solve_fuel pm) [out] (init_state args) [] =
  machine2 (core_pm pm') (List.length args) (solve_fuel pm') [out] (init_state args) [] /\
  forall c, decorate pm c = decorate pm' c.
Proof.
  intros H L N1 N2. split.
  - rewrite (solve_fuel_ceqm pm pm' N1 N2 H L). apply machine2_ext. apply ceqm_core_pm. exact H.
  - intros c. unfold decorate. pose proof (ceqm_look pm pm' (Solve.c_out c) H) as Lk.
    destruct (look pm (Solve.c_out c)) as [e|], (look pm' (Solve.c_out c)) as [e'|]; try contradiction; auto.
    destruct Lk as [_ ->]. reflexivity.
Qed.
