From Coq Require Import List Arith Bool Lia Relations.
From Wire Require Import Sets Acyclic Solve Names Front Exec Model ModelThms.
Import ListNotations.

(* From the abstract planning theorems (Solve.v, over an abstract provider map) to the concrete model
   (Model.solve over the map buildProviderMap produced): the well-formedness facts the abstract theorems
   assume are decided by a boolean checker (wfb) that the correspondence run evaluates on every accepted case;
   acyclicity of the planner's dependency relation is derived from the cycle check's verdict. *)

Section Bridge.
Variable pm : pmap entry.
Variable args : list nat.

Definition rep (t : nat) : nat := match look pm t with Some e => e_conc e | None => t end.

(* every entry's concrete type is itself a key whose entry is its own concrete type and has the same
   dependencies (interface keys carry a copy of the concrete entry) *)
Definition wf_entry (kv : nat * entry) : bool :=
  match look pm (e_conc (snd kv)) with
  | Some e' => Nat.eqb (e_conc e') (e_conc (snd kv)) &&
               list_eqb Nat.eqb (succ_of pm (e_conc (snd kv))) (succ_of pm (fst kv))
  | None => false
  end.

Fixpoint args_okb (i : nat) (l : list nat) : bool :=
  match l with
  | [] => true
  | t :: r =>
    match look pm t with
    | Some e => Nat.eqb (e_conc e) t && (match e_what e with WhArg j => Nat.eqb j i | _ => false end) && args_okb (S i) r
    | None => false
    end
  end.

Fixpoint nodupb (l : list nat) : bool :=
  match l with [] => true | x :: r => negb (existsb (Nat.eqb x) r) && nodupb r end.

(* an entry that is an injector parameter sits at that parameter's type *)
Definition argentry_okb (kv : nat * entry) : bool :=
  match e_what (snd kv) with
  | WhArg i => negb (Nat.eqb (e_conc (snd kv)) (fst kv)) || nth_eqb args i (fst kv)
  | _ => true
  end.

Definition wfb : bool :=
  forallb wf_entry pm && args_okb 0 args && nodupb args && nodupb (keys pm) && forallb argentry_okb pm.

Lemma list_eqb_nat_eq : forall l l', list_eqb Nat.eqb l l' = true -> l = l'.
Proof.
  induction l as [|x r IH]; destruct l' as [|y s]; cbn; try discriminate; auto.
  intros H. apply andb_true_iff in H. destruct H as [H1 H2]. apply Nat.eqb_eq in H1. subst. f_equal. auto.
Qed.

Lemma nodupb_sound : forall l, nodupb l = true -> NoDup l.
Proof.
  induction l as [|x r IH]; cbn; intros H; constructor.
  - apply andb_true_iff in H. destruct H as [H _]. intros Hin.
    assert (existsb (Nat.eqb x) r = true); [|rewrite H0 in H; discriminate].
    apply existsb_exists. exists x. split; auto. apply Nat.eqb_refl.
  - apply andb_true_iff in H. destruct H as [_ H]. auto.
Qed.

Lemma look_In : forall (l : pmap entry) t e, look l t = Some e -> In (t, e) l.
Proof.
  induction l as [|[k c] r IH]; cbn [look]; intros t e H; [discriminate|].
  destruct (k =? t) eqn:E.
  - apply Nat.eqb_eq in E. inversion H; subst. left; reflexivity.
  - right. auto.
Qed.

Hypothesis Hwf : wfb = true.

Lemma wf_parts : forallb wf_entry pm = true /\ args_okb 0 args = true /\ NoDup args /\ NoDup (keys pm) /\
  forallb argentry_okb pm = true.
Proof.
  pose proof Hwf as H. unfold wfb in H.
  apply andb_true_iff in H. destruct H as [H H5].
  apply andb_true_iff in H. destruct H as [H H4].
  apply andb_true_iff in H. destruct H as [H H3].
  apply andb_true_iff in H. destruct H as [H1 H2].
  split; [exact H1|]. split; [exact H2|]. split; [apply nodupb_sound; exact H3|].
  split; [apply nodupb_sound; exact H4|exact H5].
Qed.

Lemma WF : forall t e, look pm t = Some e ->
  exists e', look pm (e_conc e) = Some e' /\ e_conc e' = e_conc e /\ succ_of pm (e_conc e) = succ_of pm t.
Proof.
  intros t e H. destruct wf_parts as [Hf _]. rewrite forallb_forall in Hf.
  specialize (Hf (t, e) (look_In _ _ _ H)). unfold wf_entry in Hf. cbn [fst snd] in Hf.
  destruct (look pm (e_conc e)) as [e'|]; [|discriminate].
  apply andb_true_iff in Hf. destruct Hf as [H1 H2]. apply Nat.eqb_eq in H1. apply list_eqb_nat_eq in H2.
  exists e'. auto.
Qed.

Lemma args_ok_nth : forall l i0 i t, args_okb i0 l = true -> nth_error l i = Some t ->
  exists e, look pm t = Some e /\ e_conc e = t /\ e_what e = WhArg (i0 + i).
Proof.
  induction l as [|x r IH]; intros i0 i t H Hn; [destruct i; discriminate|].
  cbn [args_okb] in H. destruct (look pm x) as [e|] eqn:E; [|discriminate].
  apply andb_true_iff in H. destruct H as [H H3]. apply andb_true_iff in H. destruct H as [H1 H2].
  destruct i as [|i]; cbn in Hn.
  - inversion Hn; subst. exists e. apply Nat.eqb_eq in H1. split; auto. split; auto.
    destruct (e_what e); try discriminate. apply Nat.eqb_eq in H2. subst. rewrite Nat.add_0_r. reflexivity.
  - destruct (IH (S i0) i t H3 Hn) as (e' & A & B & C). exists e'. split; auto. split; auto.
    rewrite C. f_equal. lia.
Qed.

Lemma ARGS : forall i t, nth_error args i = Some t ->
  exists pv, core_pm pm t = Some pv /\ conc pv = t /\ wh pv = WArg i.
Proof.
  intros i t H. destruct wf_parts as (_ & Ha & _ & _ & _).
  destruct (args_ok_nth args 0 i t Ha H) as (e & A & B & C).
  unfold core_pm. rewrite A. eexists. split; [reflexivity|]. cbn. rewrite C. cbn. auto.
Qed.

Lemma KEYS : forall t pv, core_pm pm t = Some pv -> In t (keys pm).
Proof.
  unfold core_pm. intros t pv H. destruct (look pm t) as [e|] eqn:E; [|discriminate].
  eapply look_Some_keys; eauto.
Qed.

(* ---------------- the planner's dependency relation has a cycle only if the cycle check's graph has one *)
Notation edge := (Acyclic.edge (succ_of pm)).
Notation path := (Acyclic.path (succ_of pm)).

Lemma succ_rep t : succ_of pm (rep t) = succ_of pm t.
Proof.
  unfold rep. destruct (look pm t) as [e|] eqn:E; auto.
  destruct (WF t e E) as (e' & _ & _ & H). exact H.
Qed.

Lemma dep_cases t u : dep (core_pm pm) t u ->
  (u = rep t /\ rep u = u /\ t <> u) \/ (rep t = t /\ edge t u).
Proof.
  intros H. destruct H as [t pv Hp Hc|t pv al pid a Hp Hc Hw Ha|t pv parent fid Hp Hc Hw];
    unfold core_pm in Hp; destruct (look pm t) as [e|] eqn:E; try discriminate; injection Hp as <-; cbn in *.
  - left. unfold rep. rewrite E. split; auto.
    destruct (WF t e E) as (e' & A & B & _). rewrite A. auto.
  - right. unfold rep. rewrite E. split; auto. unfold Acyclic.edge, succ_of. rewrite E.
    destruct (e_what e); cbn in Hw; try discriminate. injection Hw as <- _. exact Ha.
  - right. unfold rep. rewrite E. split; auto. unfold Acyclic.edge, succ_of. rewrite E.
    destruct (e_what e); cbn in Hw; try discriminate. injection Hw as <- _. left; reflexivity.
Qed.

(* x reaches z in the planner's relation => x reaches z in the checker's graph, up to an alias hop at the end *)
Definition Q (x z : nat) : Prop :=
  path x z \/ (z = rep x /\ x <> z) \/ (exists w, path x w /\ z = rep w /\ w <> z).

Lemma path_first x z : path x z -> exists w, edge x w /\ (w = z \/ path w z).
Proof. intros H. inversion H; subst; eauto. Qed.

Lemma path_from_rep x z : path (rep x) z -> path x z.
Proof.
  intros H. destruct (path_first _ _ H) as (w & He & Hw).
  assert (He' : edge x w). { unfold Acyclic.edge in *. rewrite <- succ_rep. exact He. }
  destruct Hw as [->|Hp]; [apply path1; auto|eapply pathS; eauto].
Qed.

Lemma dep_Q x y z : dep (core_pm pm) x y -> Q y z -> Q x z.
Proof.
  intros Hd HQ. destruct (dep_cases _ _ Hd) as [(Hy & Hr & Hn)|(Hr & He)].
  - (* alias hop x -> y = rep x *)
    subst y. destruct HQ as [Hp|[(Hz & Hne)|(w & Hp & Hz & Hne)]].
    + left. apply path_from_rep. exact Hp.
    + exfalso. apply Hne. rewrite Hz. symmetry. exact Hr.
    + right. right. exists w. split; auto. apply path_from_rep. exact Hp.
  - destruct HQ as [Hp|[(Hz & Hne)|(w & Hp & Hz & Hne)]].
    + left. eapply pathS; eauto.
    + right. right. exists y. split; [apply path1; auto|auto].
    + right. right. exists w. split; auto. eapply pathS; eauto.
Qed.

Lemma trans_Q x z : clos_trans_1n nat (dep (core_pm pm)) x z -> Q x z.
Proof.
  induction 1 as [x y Hd|x y z Hd _ IH].
  - destruct (dep_cases _ _ Hd) as [(Hy & Hr & Hn)|(Hr & He)].
    + right. left. auto.
    + left. apply path1. auto.
  - eapply dep_Q; eauto.
Qed.

Theorem acyclic_core : (~ exists u, path u u) -> acyclic (core_pm pm).
Proof.
  intros Hno t Hc. apply clos_trans_t1n in Hc. apply trans_Q in Hc.
  destruct Hc as [Hp|[(Hz & Hne)|(w & Hp & Hz & Hne)]].
  - apply Hno. eauto.
  - apply Hne. reflexivity.
  - (* t reaches w, t = rep w: w has t's successors, so the first hop closes a cycle *)
    destruct (path_first _ _ Hp) as (w1 & He & Hw).
    assert (Hew : edge w w1). { unfold Acyclic.edge in *. rewrite <- succ_rep. rewrite <- Hz. exact He. }
    apply Hno. destruct Hw as [->|Hp'].
    + exists w. apply path1. exact Hew.
    + exists w1. eapply Acyclic.path_trans; [exact Hp'|apply path1; exact Hew].
Qed.

End Bridge.


(* ---------------- the concrete planner ---------------- *)
Lemma visit_indexes pm given f : forall t s s',
  args_indexed pm s -> visit pm given f t s = Some s' -> indexed s' t = true.
Proof.
  intros t s s' Ha H. destruct f as [|f]; [discriminate|]. rewrite visit_unfold in H.
  destruct (indexed s t) eqn:Ei; [inversion H; subst; exact Ei|].
  destruct (pm t) as [pv|] eqn:Ep; [|inversion H; subst; apply add_err_indexed].
  destruct (negb (conc pv =? t)) eqn:Ec.
  - destruct (visit pm given f (conc pv) s) as [s1|]; [|discriminate].
    destruct (indexed s1 t) eqn:E1; [inversion H; subst; exact E1|].
    destruct (lookup (index s1) (conc pv)); [|discriminate]. inversion H; subst. apply set_idx_indexed.
  - apply negb_false_iff in Ec. apply Nat.eqb_eq in Ec.
    destruct (wh pv) as [i|al pid|vid|parent fid] eqn:Ew.
    + exfalso. rewrite (Ha t pv i Ep Ec Ew) in Ei. discriminate.
    + destruct (visit_list pm given f al s) as [s1|]; [|discriminate].
      destruct (indexed s1 t) eqn:E1; [inversion H; subst; exact E1|]. eapply finish_indexed; eauto.
    + inversion H; subst. apply add_call_indexed.
    + destruct (visit pm given f parent s) as [s1|]; [|discriminate].
      destruct (indexed s1 t) eqn:E1; [inversion H; subst; exact E1|]. eapply finish_indexed; eauto.
Qed.

Lemma lookup_combine_some : forall (l : list nat) (vs : list idx) t,
  In t l -> List.length l = List.length vs -> lookup (combine l vs) t <> None.
Proof.
  induction l as [|x r IH]; intros vs t Hin Hl; [destruct Hin|].
  destruct vs as [|v vs]; [discriminate|]. cbn [combine lookup].
  destruct (x =? t) eqn:E; [discriminate|].
  apply IH; [|cbn in Hl; lia]. destruct Hin as [->|Hin]; auto. rewrite Nat.eqb_refl in E. discriminate.
Qed.

Section Concrete.
Variable tyorder : list nat.
Variable pm : pmap entry.
Variable root : rset.
Variable args : list nat.
Variable out : nat.

Hypothesis Hwf : wfb pm args = true.
Hypothesis Hver : verify tyorder pm = [].

Lemma core_acyclic : acyclic (core_pm pm).
Proof.
  apply (acyclic_core pm args Hwf).
  apply (verify_acyclic_iff tyorder pm); [rewrite Hver; discriminate|exact Hver].
Qed.

Lemma init_is_s_init : init_state args = s_init (List.length args) args.
Proof. reflexivity. Qed.

Lemma init_args_indexed : args_indexed (core_pm pm) (init_state args).
Proof.
  intros t pv i Hp Hc Hw. unfold core_pm in Hp. destruct (look pm t) as [e|] eqn:E; [|discriminate].
  injection Hp as <-. cbn in Hc, Hw.
  destruct (wf_parts pm args Hwf) as (_ & _ & _ & _ & Hf). rewrite forallb_forall in Hf.
  specialize (Hf (t, e) (look_In pm t e E)). unfold argentry_okb in Hf. cbn [fst snd] in Hf.
  destruct (e_what e) as [j| | |]; cbn in Hw; try discriminate. injection Hw as ->.
  rewrite Hc, Nat.eqb_refl in Hf. cbn in Hf. unfold nth_eqb in Hf.
  destruct (nth_error args i) as [x|] eqn:En; [|discriminate]. apply Nat.eqb_eq in Hf. subst x.
  unfold indexed, init_state. cbn [index].
  destruct (lookup (combine args (map Slot (seq 0 (List.length args)))) t) eqn:El; auto.
  exfalso. revert El. apply lookup_combine_some.
  - eapply nth_error_In; eauto.
  - rewrite map_length, seq_length. reflexivity.
Qed.

(* whatever fuel the model's loop was given: if it completed, its final state is the recursive planner's *)
Theorem solve_is_visit s usedk fuel :
  machine2 (core_pm pm) (List.length args) fuel [out] (init_state args) [] = Some (s, usedk) ->
  visit (core_pm pm) (List.length args) (List.length (keys pm) + 2) out (init_state args) = Some s.
Proof.
  intros Hm.
  pose proof (machine2_fst (core_pm pm) (List.length args) fuel [out] (init_state args) []) as Hf.
  rewrite Hm in Hf. cbn in Hf. symmetry in Hf.
  exact (machine_visit (core_pm pm) (List.length args) (keys pm) (KEYS pm) args eq_refl core_acyclic
                       out (init_state args) fuel s init_args_indexed Hf).
Qed.

Lemma solve_inl cs : solve pm root args out = inl cs ->
  exists s usedk, machine2 (core_pm pm) (List.length args) (solve_fuel pm) [out] (init_state args) [] = Some (s, usedk) /\
                  errs s = [] /\ verify_args_used root (flat_map (src_of pm) usedk) = [] /\
                  cs = map (decorate pm) (calls s).
Proof.
  unfold solve. destruct (machine2 _ _ _ _ _ _) as [[s usedk]|]; [|discriminate].
  destruct (errs s) eqn:Ee; [|discriminate].
  destruct (verify_args_used root _) eqn:Eu; [|discriminate].
  intros H; inversion H; subst. exists s, usedk. auto.
Qed.

(* C02 (planning): when solve accepts, the slot it designates for the result holds, after executing the planned
   calls over symbolic values, a value v with [val out v] -- the value the provider map alone specifies for the
   result type: parameters by position, each provider applied to the values of its parameter types, values,
   fields of the parent's value, interface keys by the concrete type's value *)
Theorem solve_wiring cs : solve pm root args out = inl cs ->
  exists s i v, cs = map (decorate pm) (calls s) /\
    lookup (index s) out = Some (Slot i) /\
    nth_error (exec_calls (env0 (List.length args)) (calls s)) i = Some v /\
    val (core_pm pm) out v.
Proof.
  intros H. destruct (solve_inl cs H) as (s & usedk & Hm & He & _ & Hcs).
  pose proof (solve_is_visit _ _ _ Hm) as Hv.
  pose proof (visit_indexes _ _ _ _ _ _ init_args_indexed Hv) as Hi.
  rewrite init_is_s_init in Hv.
  destruct (C06_missing (core_pm pm) (List.length args) args (ARGS pm args Hwf) _ out s Hv Hi) as (_ & _ & Hslot).
  destruct (Hslot He) as [i Hl].
  destruct (wf_parts pm args Hwf) as (_ & _ & Hnd & _).
  destruct (C02_wiring (core_pm pm) (List.length args) args eq_refl (ARGS pm args Hwf) Hnd _ out s i Hv Hl) as (v & Hn & Hval).
  exists s, i, v. auto.
Qed.

(* C06: the NoProvider diagnostics are exactly the source-less types the result transitively needs, each once;
   solve accepts only if there is none *)
Theorem solve_missing s usedk :
  machine2 (core_pm pm) (List.length args) (solve_fuel pm) [out] (init_state args) [] = Some (s, usedk) ->
  (forall t, In t (errs s) <-> reach (core_pm pm) out t /\ core_pm pm t = None) /\ NoDup (errs s).
Proof.
  intros Hm. pose proof (solve_is_visit _ _ _ Hm) as Hv.
  pose proof (visit_indexes _ _ _ _ _ _ init_args_indexed Hv) as Hi.
  rewrite init_is_s_init in Hv.
  destruct (C06_missing (core_pm pm) (List.length args) args (ARGS pm args Hwf) _ out s Hv Hi) as (A & B & _).
  auto.
Qed.

Theorem solve_rejects_missing ds : solve pm root args out = inr ds ->
  ds = [DFuel] \/
  (exists l, ds = map DNoProvider l /\ l <> [] /\ NoDup l /\ forall t, In t l <-> reach (core_pm pm) out t /\ core_pm pm t = None) \/
  (forall t, reach (core_pm pm) out t -> core_pm pm t <> None).
Proof.
  unfold solve. destruct (machine2 _ _ _ _ _ _) as [[s usedk]|] eqn:Hm; [|intros H; inversion H; auto].
  destruct (solve_missing s usedk Hm) as [A B].
  destruct (errs s) as [|e l] eqn:Ee.
  - intros _. right. right. intros t Hr Hn. destruct (proj2 (A t) (conj Hr Hn)).
  - intros H; inversion H; subst. right. left. exists (e :: l).
    split; [reflexivity|]. split; [discriminate|]. split; [exact B|exact A].
Qed.

Theorem solve_accepts_complete cs : solve pm root args out = inl cs ->
  forall t, reach (core_pm pm) out t -> core_pm pm t <> None.
Proof.
  intros H t Hr Hn. destruct (solve_inl cs H) as (s & usedk & Hm & He & _ & _).
  destruct (solve_missing s usedk Hm) as [A _]. rewrite He in A. destruct (proj2 (A t) (conj Hr Hn)).
Qed.

End Concrete.

(* ---------------- the `used` list and verifyArgsUsed (C08) ---------------- *)
Section Used.
Variable pmc : nat -> option provided.
Variable given : nat.

(* every key in the used list has a source in the set *)
Lemma machine2_used_have_source : forall fuel stk s u s' u',
  machine2 pmc given fuel stk s u = Some (s', u') ->
  (forall x, In x u -> pmc x <> None) -> forall x, In x u' -> pmc x <> None.
Proof.
  induction fuel as [|f IH]; intros stk s u s' u' H Hu; [discriminate|].
  cbn [machine2] in H. destruct stk as [|t stk'].
  - inversion H; subst. exact Hu.
  - destruct (step pmc given t stk' s) as [stk2 s2]. eapply IH; eauto.
    intros x Hx. unfold marks in Hx. destruct (indexed s t); [auto|].
    destruct (pmc t) eqn:E; [|auto]. apply in_app_or in Hx. destruct Hx as [Hx|[<-|[]]]; auto. congruence.
Qed.

(* a step appends at most one call, and only for the frame it popped un-indexed with a source *)
Lemma step_calls t stk s stk2 s2 : step pmc given t stk s = (stk2, s2) ->
  calls s2 = calls s \/
  (exists c, calls s2 = calls s ++ [c] /\ Solve.c_out c = t /\ indexed s t = false /\ pmc t <> None).
Proof.
  unfold step. destruct (indexed s t) eqn:Ei; [intros H; inversion H; auto|].
  destruct (pmc t) as [pv|] eqn:Ep; [|intros H; inversion H; auto].
  assert (Hfin : forall k al s', finish given s t k al = Some s' ->
            calls s' = calls s \/ exists c, calls s' = calls s ++ [c] /\ Solve.c_out c = t /\ false = false /\ Some pv <> None).
  { intros k al s' Hf. unfold finish in Hf. destruct (arg_slots s al) as [[l|]|]; inversion Hf; subst; cbn; auto.
    right. eexists. split; [reflexivity|]. cbn. repeat split; auto. discriminate. }
  destruct (negb (conc pv =? t)).
  - destruct (lookup (index s) (conc pv)); intros H; inversion H; auto.
  - destruct (wh pv) as [i|al pid|vid|parent fid].
    + intros H; inversion H; auto.
    + destruct (unvisited s al).
      * destruct (finish given s t (CProv pid) al) as [s'|] eqn:Ef; intros H; inversion H; subst; auto.
        destruct (Hfin _ _ _ Ef) as [A|(c & A & B & _ & D)]; auto. right. exists c. auto.
      * intros H; inversion H; auto.
    + intros H; inversion H; subst. right. eexists. split; [reflexivity|]. cbn. repeat split; auto. discriminate.
    + destruct (lookup (index s) parent).
      * destruct (finish given s t (CField fid) [parent]) as [s'|] eqn:Ef; intros H; inversion H; subst; auto.
        destruct (Hfin _ _ _ Ef) as [A|(c & A & B & _ & D)]; auto. right. exists c. auto.
      * intros H; inversion H; auto.
Qed.

(* every planned call's output type is in the used list: what is called is never reported unused *)
Theorem machine2_calls_used : forall fuel stk s u s' u',
  machine2 pmc given fuel stk s u = Some (s', u') ->
  (forall c, In c (calls s) -> In (Solve.c_out c) u) -> forall c, In c (calls s') -> In (Solve.c_out c) u'.
Proof.
  induction fuel as [|f IH]; intros stk s u s' u' H Hu; [discriminate|].
  cbn [machine2] in H. destruct stk as [|t stk'].
  - inversion H; subst. exact Hu.
  - destruct (step pmc given t stk' s) as [stk2 s2] eqn:Es. eapply IH; eauto.
    intros c Hc. destruct (step_calls _ _ _ _ _ Es) as [A|(c0 & A & B & C & D)].
    + rewrite A in Hc. apply Hu in Hc. unfold marks. destruct (indexed s t); auto.
      destruct (pmc t); auto. apply in_or_app; auto.
    + rewrite A in Hc. apply in_app_or in Hc. unfold marks. rewrite C.
      destruct (pmc t) eqn:E; [|congruence].
      destruct Hc as [Hc|[<-|[]]]; apply in_or_app; [left; auto|right; rewrite B; left; reflexivity].
Qed.
End Used.

(* verifyArgsUsed reports exactly the direct items whose source is not in the used list *)
Lemma verify_args_used_spec id imports provs sprovs vals flds binds used d :
  In d (verify_args_used (RSet id imports provs sprovs vals flds binds) used) <->
  (exists s, In s imports /\ used_in used (SImport (rset_id s)) = false /\ d = DUnusedSet (rset_id s)) \/
  (exists p, In p (all_provs provs sprovs) /\ used_in used (SProv (pv_id p)) = false /\ d = DUnusedProv (pv_id p)) \/
  (exists v, In v vals /\ used_in used (SVal (vl_id v)) = false /\ d = DUnusedVal (vl_id v)) \/
  (exists b, In b binds /\ used_in used (SBind (bd_id b)) = false /\ d = DUnusedBind (bd_id b)) \/
  (exists f, In f flds /\ used_in used (SField (fd_id f)) = false /\ d = DUnusedField (fd_id f)).
Proof.
  cbn [verify_args_used]. rewrite !in_app_iff, !in_map_iff.
  assert (F : forall {A} (P : A -> bool) (l : list A) x, In x (filter (fun y => negb (P y)) l) <-> In x l /\ P x = false).
  { intros A P l x. rewrite filter_In. destruct (P x); cbn; intuition discriminate. }
  split.
  - intros [(s & <- & Hs)|[(p & <- & Hp)|[(v & <- & Hv)|[(b & <- & Hb)|(f & <- & Hf)]]]].
    + apply F in Hs. left. exists s. tauto.
    + apply F in Hp. right; left. exists p. tauto.
    + apply F in Hv. right; right; left. exists v. tauto.
    + apply F in Hb. right; right; right; left. exists b. tauto.
    + apply F in Hf. right; right; right; right. exists f. tauto.
  - intros [(s & A & B & ->)|[(p & A & B & ->)|[(v & A & B & ->)|[(b & A & B & ->)|(f & A & B & ->)]]]].
    + left. exists s. split; auto. apply F. auto.
    + right; left. exists p. split; auto. apply F. auto.
    + right; right; left. exists v. split; auto. apply F. auto.
    + right; right; right; left. exists b. split; auto. apply F. auto.
    + right; right; right; right. exists f. split; auto. apply F. auto.
Qed.
