From Coq Require Import List Arith Bool Lia.
Import ListNotations.

(* parse.go: findInjectorBuild -- which function bodies are injector templates.  A body is read as a list of
   statement kinds; the loop counts expression statements, remembers the last wire.Build call it saw (directly or as
   the argument of panic), gives up at a return that precedes every expression statement, and flags everything that
   is not an expression statement, an empty statement or a return. *)
Inductive stmt :=
| SBuild            (* wire.Build(...) *)
| SPanicBuild       (* panic(wire.Build(...)) *)
| SPanicOther       (* panic(x), x not a wire.Build call *)
| SCallOther        (* any other call as a statement *)
| SExprNonCall      (* an expression statement that is not a call, e.g. <-ch *)
| SEmpty
| SReturn
| SOther.           (* assignment, declaration, if, for, ... *)

Inductive fb := FBNone | FBInvalid | FBBuild.

Definition is_expr (s : stmt) : bool :=
  match s with SBuild | SPanicBuild | SPanicOther | SCallOther | SExprNonCall => true | _ => false end.
Definition is_build (s : stmt) : bool := match s with SBuild | SPanicBuild => true | _ => false end.

Fixpoint scan (l : list stmt) (n : nat) (invalid found : bool) : option (bool * bool) :=
  match l with
  | [] => Some (invalid, found)
  | s :: r =>
    if is_expr s then scan r (S n) (invalid || Nat.leb 1 n) (found || is_build s)
    else match s with
         | SEmpty => scan r n invalid found
         | SReturn => if Nat.eqb n 0 then None else scan r n invalid found
         | _ => scan r n true found
         end
  end.

Definition find_build (l : list stmt) : fb :=
  match scan l 0 false false with
  | None => FBNone
  | Some (inv, found) => if found then (if inv then FBInvalid else FBBuild) else FBNone
  end.

Definition clean (l : list stmt) : Prop := Forall (fun x => x = SEmpty \/ x = SReturn) l.
Definition blanks (l : list stmt) : Prop := Forall (fun x => x = SEmpty) l.

Lemma scan_invalid_sticks : forall l n found r, scan l n true found = Some r -> fst r = true.
Proof.
  induction l as [|s t IH]; intros n found r H; cbn [scan] in H.
  - injection H as <-. reflexivity.
  - destruct (is_expr s); [cbn [orb] in H; eapply IH; eauto|].
    destruct s; try (eapply IH; eauto; fail). destruct (Nat.eqb n 0); [discriminate|eapply IH; eauto].
Qed.

(* once an expression statement has been seen, only empty statements and returns may follow *)
Lemma scan_after_first : forall l n inv found fd, 1 <= n -> scan l n inv found = Some (false, fd) ->
  inv = false /\ clean l /\ fd = found.
Proof.
  induction l as [|s t IH]; intros n inv found fd Hn H; cbn [scan] in H.
  - injection H as -> ->. repeat split; constructor.
  - destruct (is_expr s) eqn:Ee.
    + assert (L : Nat.leb 1 n = true) by (apply Nat.leb_le; exact Hn). rewrite L, orb_true_r in H.
      apply scan_invalid_sticks in H. discriminate.
    + destruct s; try discriminate Ee.
      * destruct (IH _ _ _ _ Hn H) as (A & B & C). repeat split; auto. constructor; auto.
      * destruct (Nat.eqb n 0) eqn:E0; [apply Nat.eqb_eq in E0; lia|].
        destruct (IH _ _ _ _ Hn H) as (A & B & C). repeat split; auto. constructor; auto.
      * apply scan_invalid_sticks in H. discriminate.
Qed.

Lemma scan_clean : forall l n inv found, 1 <= n -> clean l -> scan l n inv found = Some (inv, found).
Proof.
  induction l as [|s t IH]; intros n inv found Hn Hc; cbn [scan]; [reflexivity|].
  inversion Hc as [|x y [->| ->] Ht]; subst; cbn [is_expr].
  - apply IH; auto.
  - destruct (Nat.eqb n 0) eqn:E0; [apply Nat.eqb_eq in E0; lia|]. apply IH; auto.
Qed.

Lemma scan_blanks : forall a l n inv found, blanks a -> scan (a ++ l) n inv found = scan l n inv found.
Proof.
  induction a as [|s t IH]; intros l n inv found Hb; cbn [app]; [reflexivity|].
  inversion Hb as [|x y -> Ht]; subst. cbn [scan is_expr]. apply IH; auto.
Qed.

(* C20 / C01: a function is taken for an injector template exactly when its body is, up to empty statements, one
   wire.Build call (possibly as the argument of panic) followed by nothing but returns *)
Theorem find_build_iff l :
  find_build l = FBBuild <->
  exists a s b, l = a ++ s :: b /\ blanks a /\ is_build s = true /\ clean b.
Proof.
  unfold find_build. split.
  - destruct (scan l 0 false false) as [[inv fd]|] eqn:E; [|discriminate].
    destruct fd; [|discriminate]. destruct inv; [discriminate|]. intros _.
    revert E. induction l as [|s t IH]; intros E; cbn [scan] in E; [discriminate|].
    destruct (is_expr s) eqn:Ee.
    + cbn [orb Nat.leb] in E. destruct (scan_after_first t 1 false (is_build s) true (le_n 1) E) as (_ & Hc & Hb).
      exists [], s, t. repeat split; auto. constructor.
    + destruct s; try discriminate Ee.
      * destruct (IH E) as (a & s & b & -> & Ha & Hs & Hb). exists (SEmpty :: a), s, b. repeat split; auto. constructor; auto.
      * cbn in E. discriminate.
      * apply scan_invalid_sticks in E. discriminate.
  - intros (a & s & b & -> & Ha & Hs & Hb). rewrite (scan_blanks a _ 0 false false Ha).
    cbn [scan]. assert (Ee : is_expr s = true) by (destruct s; try discriminate; reflexivity). rewrite Ee.
    cbn [orb Nat.leb]. rewrite Hs. rewrite (scan_clean b 1 false true (le_n 1) Hb). reflexivity.
Qed.

(* the "invalid injector" diagnostic is only raised for a body that does call wire.Build *)
Lemma scan_found : forall l n inv found r, scan l n inv found = Some r -> snd r = true ->
  found = true \/ existsb is_build l = true.
Proof.
  induction l as [|s t IH]; intros n inv found r H Hs; cbn [scan] in H.
  - injection H as <-. auto.
  - cbn [existsb]. destruct (is_expr s) eqn:Ee.
    + destruct (IH _ _ _ _ H Hs) as [Hf|He]; [|right; rewrite He; apply orb_true_r].
      apply orb_true_iff in Hf. destruct Hf as [?|Hb]; auto. right. rewrite Hb. reflexivity.
    + assert (Hb : is_build s = false) by (destruct s; try discriminate; reflexivity). rewrite Hb. cbn [orb].
      destruct s; try discriminate Ee; try (eapply IH; eauto; fail).
      destruct (Nat.eqb n 0); [discriminate|eapply IH; eauto].
Qed.

Theorem invalid_has_build l : find_build l = FBInvalid -> existsb is_build l = true.
Proof.
  unfold find_build. destruct (scan l 0 false false) as [[inv fd]|] eqn:E; [|discriminate].
  destruct fd; [|discriminate]. intros _. destruct (scan_found l 0 false false _ E eq_refl); [discriminate|auto].
Qed.

(* ---- evaluation for the correspondence *)
Definition fb_class (r : fb) : nat := match r with FBNone => 0 | FBInvalid => 1 | FBBuild => 2 end.
Definition bmismatches (ks : list (nat * list stmt * nat)) : list nat :=
  flat_map (fun k => if Nat.eqb (fb_class (find_build (snd (fst k)))) (snd k) then [] else [fst (fst k)]) ks.
