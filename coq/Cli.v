From Coq Require Import List Arith Bool Lia.
Import ListNotations.

(* cmd/wire/main.go: gen / diff / check over the per-package results of wire.Generate and an abstract file
   system; and the history machine of C18.  Contents are abstract ids (the bytes are whatever Generate
   produced); paths are ids of output files. *)

Record pkgres := mkPkg {
  pr_out : nat;                 (* id of <dir>/<prefix>wire_gen.go *)
  pr_errs : bool;               (* Generate reported errors for the package *)
  pr_content : option nat }.    (* non-empty generated content *)

Definition fs := list (nat * nat).      (* path id -> content id; later entries are older *)

Fixpoint fs_get (f : fs) (p : nat) : option nat :=
  match f with [] => None | (q, c) :: r => if Nat.eqb q p then Some c else fs_get r p end.
Definition fs_put (f : fs) (p c : nat) : fs := (p, c) :: f.

(* genCmd.Execute: (exit status, file system afterwards) *)
Fixpoint gen_loop (outs : list pkgres) (f : fs) (success : bool) : bool * fs :=
  match outs with
  | [] => (success, f)
  | o :: r =>
    let success1 := if pr_errs o then false else success in
    match pr_content o with
    | None => gen_loop r f success1
    | Some c => gen_loop r (fs_put f (pr_out o) c) success1      (* Commit: whole-file replace *)
    end
  end.

Definition gen_cmd (load_err : bool) (outs : list pkgres) (f : fs) : nat * fs :=
  if load_err then (1, f) else
  let '(ok, f') := gen_loop outs f true in ((if ok then 0 else 1), f').

(* diffCmd.Execute *)
Fixpoint diff_loop (outs : list pkgres) (f : fs) (success had_diff : bool) : bool * bool :=
  match outs with
  | [] => (success, had_diff)
  | o :: r =>
    let success1 := if pr_errs o then false else success in
    match pr_content o with
    | None => diff_loop r f success1 had_diff
    | Some c =>
      let same := match fs_get f (pr_out o) with Some c' => Nat.eqb c c' | None => false end in
      diff_loop r f success1 (if same then had_diff else true)
    end
  end.

Definition diff_cmd (header_unreadable load_err : bool) (outs : list pkgres) (f : fs) : nat * fs :=
  if header_unreadable then (2, f) else
  if load_err then (2, f) else
  let '(ok, d) := diff_loop outs f true false in
  ((if negb ok then 2 else if d then 1 else 0), f).

Definition check_cmd (load_errs : bool) (f : fs) : nat * fs := ((if load_errs then 1 else 0), f).

(* Generate's invariant: a package with errors has no content (wire.go:Generate `continue`s before framing) *)
Definition well_formed (outs : list pkgres) : Prop :=
  forall o, In o outs -> pr_errs o = true -> pr_content o = None.

Lemma gen_loop_success : forall outs f s, fst (gen_loop outs f s) = s && forallb (fun o => negb (pr_errs o)) outs.
Proof.
  induction outs as [|o r IH]; intros f s; cbn [gen_loop forallb].
  - rewrite andb_true_r. reflexivity.
  - destruct (pr_content o); rewrite IH; destruct (pr_errs o), s; reflexivity.
Qed.

(* C17: gen exits 0 exactly when loading succeeded and no package produced an error *)
Theorem gen_exit_zero_iff load_err outs f :
  fst (gen_cmd load_err outs f) = 0 <-> load_err = false /\ forall o, In o outs -> pr_errs o = false.
Proof.
  unfold gen_cmd. destruct load_err; cbn.
  - split; [discriminate|intros [H _]; discriminate].
  - pose proof (gen_loop_success outs f true) as H. destruct (gen_loop outs f true) as [ok f']. cbn in *. subst ok.
    destruct (forallb _ outs) eqn:E; cbn.
    + split; auto. intros _. split; auto. rewrite forallb_forall in E. intros o Ho. apply E in Ho.
      destruct (pr_errs o); auto; discriminate.
    + split; [discriminate|]. intros [_ H]. exfalso.
      assert (forallb (fun o => negb (pr_errs o)) outs = true); [|congruence].
      apply forallb_forall. intros o Ho. rewrite (H o Ho). reflexivity.
Qed.

(* C17 footprint: a path's content after gen is either untouched, or the content of a package that has
   non-empty content for exactly that output path *)
Lemma gen_loop_footprint : forall outs f s p,
  fs_get (snd (gen_loop outs f s)) p = fs_get f p \/
  exists o c, In o outs /\ pr_out o = p /\ pr_content o = Some c /\ fs_get (snd (gen_loop outs f s)) p = Some c.
Proof.
  induction outs as [|o r IH]; intros f s p; cbn [gen_loop]; auto.
  destruct (pr_content o) as [c|] eqn:Ec.
  - destruct (IH (fs_put f (pr_out o) c) (if pr_errs o then false else s) p) as [H|(o' & c' & Hi & Hp & Hc & Hg)].
    + destruct (pr_out o =? p) eqn:E.
      * right. exists o, c. split; [left; reflexivity|]. split; [apply Nat.eqb_eq; exact E|]. split; [exact Ec|].
        rewrite H. unfold fs_put. cbn [fs_get]. rewrite E. reflexivity.
      * left. rewrite H. unfold fs_put. cbn [fs_get]. rewrite E. reflexivity.
    + right. exists o', c'. split; [right; auto|]. auto.
  - destruct (IH f (if pr_errs o then false else s) p) as [H|(o' & c' & Hi & Hp & Hc & Hg)]; auto.
    right. exists o', c'. split; [right; auto|]. auto.
Qed.

Theorem gen_footprint load_err outs f p :
  fs_get (snd (gen_cmd load_err outs f)) p = fs_get f p \/
  exists o c, In o outs /\ pr_out o = p /\ pr_content o = Some c /\ fs_get (snd (gen_cmd load_err outs f)) p = Some c.
Proof.
  unfold gen_cmd. destruct load_err; cbn; auto.
  pose proof (gen_loop_footprint outs f true p) as H.
  destruct (gen_loop outs f true) as [ok f']. cbn in *. exact H.
Qed.

(* a package whose analysis failed leaves its file untouched (no other package writes there) *)
Theorem gen_failed_untouched load_err outs f o :
  well_formed outs -> In o outs -> pr_errs o = true ->
  (forall o', In o' outs -> pr_out o' = pr_out o -> pr_content o' = None) ->
  fs_get (snd (gen_cmd load_err outs f)) (pr_out o) = fs_get f (pr_out o).
Proof.
  intros Hwf Hin He Huniq.
  destruct (gen_footprint load_err outs f (pr_out o)) as [H|(o' & c & Hi & Hp & Hc & _)]; auto.
  rewrite (Huniq o' Hi Hp) in Hc. discriminate.
Qed.

(* a failing package does not prevent the output of the others: every package with content gets it written
   (output paths pairwise distinct) *)
Lemma gen_loop_writes : forall outs f s o c,
  NoDup (map pr_out outs) -> In o outs -> pr_content o = Some c ->
  fs_get (snd (gen_loop outs f s)) (pr_out o) = Some c.
Proof.
  induction outs as [|x r IH]; intros f s o c Hnd Hin Hc; [destruct Hin|].
  cbn [map] in Hnd. inversion Hnd as [|? ? Hnot Hnd']; subst. cbn [gen_loop].
  destruct Hin as [->|Hin].
  - rewrite Hc.
    destruct (gen_loop_footprint r (fs_put f (pr_out o) c) (if pr_errs o then false else s) (pr_out o)) as [H|(o' & c' & Hi & Hp & _)].
    + rewrite H. cbn. rewrite Nat.eqb_refl. reflexivity.
    + exfalso. apply Hnot. rewrite <- Hp. apply in_map. exact Hi.
  - destruct (pr_content x); apply IH; auto.
Qed.

Theorem gen_writes_others load_err outs f o c :
  load_err = false -> NoDup (map pr_out outs) -> In o outs -> pr_content o = Some c ->
  fs_get (snd (gen_cmd load_err outs f)) (pr_out o) = Some c.
Proof.
  intros -> Hnd Hin Hc. unfold gen_cmd.
  pose proof (gen_loop_writes outs f true o c Hnd Hin Hc) as H.
  destruct (gen_loop outs f true) as [ok f']. exact H.
Qed.

(* diff, check never modify the tree *)
Theorem diff_readonly h l outs f : snd (diff_cmd h l outs f) = f.
Proof. unfold diff_cmd. destruct h, l; cbn; auto. destruct (diff_loop outs f true false). reflexivity. Qed.
Theorem check_readonly l f : snd (check_cmd l f) = f.
Proof. reflexivity. Qed.

Lemma diff_loop_spec : forall outs f s d,
  diff_loop outs f s d =
  (s && forallb (fun o => negb (pr_errs o)) outs,
   d || existsb (fun o => match pr_content o with
                          | None => false
                          | Some c => negb (match fs_get f (pr_out o) with Some c' => Nat.eqb c c' | None => false end)
                          end) outs).
Proof.
  induction outs as [|o r IH]; intros f s d; cbn [diff_loop forallb existsb].
  - rewrite andb_true_r, orb_false_r. reflexivity.
  - destruct (pr_content o) as [c|]; rewrite IH.
    + destruct (pr_errs o), s, d, (match fs_get f (pr_out o) with Some c' => c =? c' | None => false end); reflexivity.
    + destruct (pr_errs o), s, d; reflexivity.
Qed.

(* diff: 0 iff every produced content equals the file; 1 if some differs or is absent and nothing failed;
   2 if generation failed or the header file is unusable *)
Theorem diff_exit h l outs f :
  fst (diff_cmd h l outs f) =
  if h || l || existsb pr_errs outs then 2
  else if existsb (fun o => match pr_content o with
                            | None => false
                            | Some c => negb (match fs_get f (pr_out o) with Some c' => Nat.eqb c c' | None => false end)
                            end) outs then 1 else 0.
Proof.
  unfold diff_cmd. destruct h; cbn; auto. destruct l; cbn; auto.
  rewrite diff_loop_spec. cbn.
  assert (H : forallb (fun o => negb (pr_errs o)) outs = negb (existsb pr_errs outs)).
  { induction outs as [|o r IH]; cbn; auto. rewrite IH. destruct (pr_errs o); reflexivity. }
  rewrite H. destruct (existsb pr_errs outs); cbn; reflexivity.
Qed.

(* ------------------------------------------------------------------ C18: histories *)
Section History.
(* the assumption the tie tests: what Generate produces is a function of the current sources only
   (files constrained !wireinject are invisible under -tags=wireinject): variant -> content, None = rejected *)
Variable content_of : nat -> option nat.

Record hstate := mkH { h_variant : nat; h_out : option nat }.

Inductive hop := OSwitch (v : nat) | OGen | ODiff | OCheck | ODelete | OReplace (c : nat).

Definition hstep (s : hstate) (o : hop) : hstate * nat :=
  match o with
  | OSwitch v => (mkH v (h_out s), 0)
  | OGen => match content_of (h_variant s) with
            | Some c => (mkH (h_variant s) (Some c), 0)
            | None => (s, 1)
            end
  | ODiff => match content_of (h_variant s) with
             | None => (s, 2)
             | Some c => (s, match h_out s with
                             | Some c' => if Nat.eqb c c' then 0 else 1
                             | None => 1
                             end)
             end
  | OCheck => (s, match content_of (h_variant s) with Some _ => 0 | None => 1 end)
  | ODelete => (mkH (h_variant s) None, 0)
  | OReplace c => (mkH (h_variant s) (Some c), 0)
  end.

Definition hrun (ops : list hop) (s : hstate) : hstate := fold_left (fun s o => fst (hstep s o)) ops s.

(* after ANY history, a successful gen leaves exactly what a fresh checkout of the current sources gets,
   running it again changes nothing, and diff right afterwards reports no difference *)
Theorem history_independent ops s0 :
  let s := hrun ops s0 in
  forall c, content_of (h_variant s) = Some c ->
    let s1 := fst (hstep s OGen) in
    snd (hstep s OGen) = 0 /\
    h_out s1 = h_out (fst (hstep (mkH (h_variant s) None) OGen)) /\
    fst (hstep s1 OGen) = s1 /\
    snd (hstep s1 ODiff) = 0.
Proof.
  intros s c Hc. cbn. rewrite Hc. cbn. rewrite Hc. cbn. rewrite Nat.eqb_refl. auto.
Qed.

(* a failed gen leaves the file alone; diff, check never touch it *)
Theorem history_failed_gen_untouched s : content_of (h_variant s) = None -> fst (hstep s OGen) = s.
Proof. intros H. cbn. rewrite H. reflexivity. Qed.
Theorem history_readonly s o : (o = ODiff \/ o = OCheck) -> fst (hstep s o) = s.
Proof. intros [->| ->]; cbn; destruct (content_of (h_variant s)); reflexivity. Qed.
End History.

(* ------------------------------------------------------------------ histories, evaluated for the correspondence *)
Fixpoint htrace (content_of : nat -> option nat) (ops : list hop) (s : hstate) : list (nat * option nat) :=
  match ops with
  | [] => []
  | o :: r => let '(s', ex) := hstep content_of s o in (ex, h_out s') :: htrace content_of r s'
  end.

Fixpoint content_assoc (l : list (nat * option nat)) (v : nat) : option nat :=
  match l with [] => None | (k, c) :: r => if Nat.eqb k v then c else content_assoc r v end.

(* a history: what a fresh checkout gets per source variant, the starting variant, the operations, and the observed
   (exit status, content of the output file) after every operation *)
Record hcase := mkHCase { hk_id : nat; hk_contents : list (nat * option nat); hk_start : nat; hk_ops : list hop;
                          hk_obs : list (nat * option nat) }.

Definition step_eqb (a b : nat * option nat) : bool :=
  Nat.eqb (fst a) (fst b) &&
  match snd a, snd b with Some x, Some y => Nat.eqb x y | None, None => true | _, _ => false end.

Fixpoint steps_eqb (a b : list (nat * option nat)) : bool :=
  match a, b with [], [] => true | x :: r, y :: q => step_eqb x y && steps_eqb r q | _, _ => false end.

Definition hmismatches (ks : list hcase) : list nat :=
  map hk_id (filter (fun k => negb (steps_eqb (htrace (content_assoc (hk_contents k)) (hk_ops k) (mkH (hk_start k) None)) (hk_obs k))) ks).

(* ------------------------------------------------------------------ harness side *)
Definition cli_case := (nat * bool * bool * list pkgres * fs)%type.   (* cmd: 0 gen,1 diff ; header_unreadable; load_err *)
Definition run_cli (k : nat * bool * bool * list pkgres * fs) : nat * list (nat * option nat) :=
  let '(cmd, h, l, outs, f) := k in
  let '(ex, f') := if Nat.eqb cmd 0 then gen_cmd (h || l) outs f else diff_cmd h l outs f in
  (ex, map (fun o => (pr_out o, fs_get f' (pr_out o))) outs).
