From Coq Require Import List Arith Bool.
Import ListNotations.

(* copyast.go: copyAST as a generic first-order tree copy driven by a per-node-kind table of the child
   fields it carries over.  The table itself is regenerated from the real function on every run (probe);
   the theorem here is the unbounded part: with a complete table the copy is the identity on every tree. *)

Inductive tree := Node (kind : nat) (vals : list nat) (kids : list (nat * list tree)).

Section Copy.
Variable tbl : nat -> list nat.       (* node kind -> child fields that are copied *)

Definition memb (x : nat) (l : list nat) : bool := existsb (Nat.eqb x) l.

Fixpoint copy (t : tree) : tree :=
  match t with
  | Node k vs kids =>
    Node k vs
      ((fix go (l : list (nat * list tree)) : list (nat * list tree) :=
          match l with
          | [] => []
          | (f, cs) :: r =>
            (f, if memb f (tbl k)
                then (fix gs (c : list tree) : list tree := match c with [] => [] | x :: y => copy x :: gs y end) cs
                else []) :: go r
          end) kids)
  end.

(* a tree is covered when every non-empty child field of every node is in the table *)
Inductive covered : tree -> Prop :=
| cov k vs kids :
    (forall f cs, In (f, cs) kids -> cs <> [] -> memb f (tbl k) = true) ->
    (forall f cs c, In (f, cs) kids -> In c cs -> covered c) ->
    covered (Node k vs kids).

Section TInd.
Variable P : tree -> Prop.
Hypothesis H : forall k vs kids, (forall f cs c, In (f, cs) kids -> In c cs -> P c) -> P (Node k vs kids).
Fixpoint tree_ind' (t : tree) : P t :=
  match t with
  | Node k vs kids =>
    H k vs kids
      ((fix go (l : list (nat * list tree)) : forall f cs c, In (f, cs) l -> In c cs -> P c :=
          match l with
          | [] => fun f cs c Hin => match Hin with end
          | (f0, cs0) :: r => fun f cs c Hin Hc =>
              match Hin with
              | or_introl E =>
                (fix gs (l2 : list tree) : forall c, In c l2 -> P c :=
                   match l2 with
                   | [] => fun c Hc => match Hc with end
                   | x :: y => fun c Hc => match Hc with
                                           | or_introl E2 => eq_rect x P (tree_ind' x) c E2
                                           | or_intror Hc' => gs y c Hc'
                                           end
                   end) cs0 c (eq_rect cs (fun z => In c z) Hc cs0 (eq_sym (f_equal snd E)))
              | or_intror Hin' => go r f cs c Hin' Hc
              end
          end) kids)
  end.
End TInd.

Lemma gs_id (l : list tree) : (forall c, In c l -> copy c = c) ->
  (fix gs (c : list tree) : list tree := match c with [] => [] | x :: y => copy x :: gs y end) l = l.
Proof.
  induction l as [|x y IHy]; intros Hall; [reflexivity|].
  rewrite Hall; [|apply in_eq]. f_equal. apply IHy. intros c Hin. apply Hall. apply in_cons. exact Hin.
Qed.

Theorem copy_id : forall t, covered t -> copy t = t.
Proof.
  induction t as [k vs kids IH] using tree_ind'. intros Hc. inversion Hc as [k' vs' kids' Hf Hk]; subst.
  cbn [copy]. f_equal.
  assert (G : forall l, (forall f cs, In (f, cs) l -> In (f, cs) kids) ->
     (fix go (l : list (nat * list tree)) : list (nat * list tree) :=
          match l with
          | [] => []
          | (f, cs) :: r =>
            (f, if memb f (tbl k)
                then (fix gs (c : list tree) : list tree := match c with [] => [] | x :: y => copy x :: gs y end) cs
                else []) :: go r
          end) l = l).
  { induction l as [|[f cs] r IHl]; intros Hsub; auto. f_equal.
    - f_equal. destruct cs as [|c0 cr]; [destruct (memb f (tbl k)); reflexivity|].
      rewrite (Hf f (c0 :: cr)); [|apply Hsub; apply in_eq|discriminate].
      assert (Hall : forall c, In c (c0 :: cr) -> copy c = c).
      { intros c Hin. apply (IH f (c0 :: cr) c); [apply Hsub; apply in_eq|exact Hin|].
        apply (Hk f (c0 :: cr) c); [apply Hsub; apply in_eq|exact Hin]. }
      exact (gs_id (c0 :: cr) Hall).
    - apply IHl. intros f' cs' Hin. apply Hsub. apply in_cons. exact Hin. }
  apply G. auto.
Qed.

(* conversely, a field missing from the table is lost on some tree *)
Theorem copy_loses k f : memb f (tbl k) = false ->
  copy (Node k [] [(f, [Node 0 [] []])]) <> Node k [] [(f, [Node 0 [] []])].
Proof. intros H. cbn. rewrite H. discriminate. Qed.
End Copy.
