From Coq Require Import List Arith Lia Bool Permutation.
From Wire Require Import Sets.
Import ListNotations.

(* C10: buildProviderMap does not depend on the order of the arguments of wire.Build / wire.NewSet:
   permuting the imported sets and the set's own providers / values / fields gives the same acceptance and the
   same finite map. *)

Section Perm.
Variable A : Type.
Variable imp bind : nat -> A -> A.

Notation map_eq := (map_eq A).

Lemma map_eq_refl pm : map_eq pm pm.
Proof. intros t. reflexivity. Qed.

Lemma map_eq_app (pm pm' : pmap A) es : map_eq pm pm' -> map_eq (pm ++ es) (pm' ++ es).
Proof. intros H t. rewrite !(look_app A). rewrite (H t). reflexivity. Qed.

(* a phase started from two maps with the same lookups behaves the same *)
Lemma insert_all_map_eq : forall (es : list (nat * A)) pm pm' errs r e,
  map_eq pm pm' -> insert_all es pm errs = (r, e) ->
  exists r', insert_all es pm' errs = (r', e) /\ map_eq r r'.
Proof.
  induction es as [|[k c] rest IH]; intros pm pm' errs r e Hm H; cbn [insert_all] in *.
  - inversion H; subst. eauto.
  - rewrite <- (Hm k). destruct (look pm k).
    + eapply IH; eauto.
    + eapply IH; [|exact H]. apply map_eq_app. exact Hm.
Qed.

Lemma insert_binds_map_eq : forall bs pm pm' errs r e,
  map_eq pm pm' -> insert_binds bind bs pm errs = (r, e) ->
  exists r', insert_binds bind bs pm' errs = (r', e) /\ map_eq r r'.
Proof.
  induction bs as [|[[i c] b] rest IH]; intros pm pm' errs r e Hm H; cbn [insert_binds] in *.
  - inversion H; subst. eauto.
  - rewrite <- (Hm i). destruct (look pm i).
    + eapply IH; eauto.
    + rewrite <- (Hm c). destruct (look pm c) as [cc|].
      * eapply IH; [|exact H]. apply map_eq_app. exact Hm.
      * eapply IH; eauto.
Qed.

Lemma keys_perm (l l' : list (nat * A)) : Permutation l l' -> Permutation (map fst l) (map fst l').
Proof. apply Permutation_map. Qed.

(* one successful phase, permuted *)
Lemma phase_perm es es' pm pm' pm1 :
  Permutation es es' -> NoDup (keys pm) -> map_eq pm pm' -> NoDup (keys pm') ->
  insert_all es pm [] = (pm1, []) ->
  exists pm2, insert_all es' pm' [] = (pm2, []) /\ map_eq pm1 pm2.
Proof.
  intros HP Hnd Hm Hnd' H.
  destruct (insert_all_perm A imp bind es es' pm HP Hnd pm1 H) as (pmx & Hx & Hmx).
  destruct (insert_all_map_eq es' pm pm' [] pmx [] Hm Hx) as (pm2 & H2 & Hm2).
  exists pm2. split; auto. intros t. rewrite (Hmx t). apply Hm2.
Qed.

Lemma flat_map_perm {X Y} (f : X -> list Y) l l' : Permutation l l' -> Permutation (flat_map f l) (flat_map f l').
Proof.
  induction 1 as [|x l l' _ IH|x y l|l1 l2 l3 _ IH1 _ IH2]; cbn.
  - constructor.
  - apply Permutation_app_head. exact IH.
  - rewrite !app_assoc. apply Permutation_app_tail. apply Permutation_app_comm.
  - eapply Permutation_trans; eauto.
Qed.

(* C10 for one level: permuting the imported sets and the own sources preserves acceptance and the map *)
Theorem build1_perm a ms ms' d d' b pm :
  Permutation ms ms' -> Permutation d d' ->
  build1 imp bind a ms d b = inl pm ->
  exists pm', build1 imp bind a ms' d' b = inl pm' /\ map_eq pm pm'.
Proof.
  intros Hms Hd. unfold build1.
  destruct (insert_all (a ++ flat_map (imp_entries A imp) ms) [] []) as [pm1 e1] eqn:E1.
  destruct e1; [|discriminate].
  destruct (insert_all d pm1 []) as [pm2 e2] eqn:E2.
  destruct e2; [|discriminate].
  destruct (insert_binds bind b pm2 []) as [pm3 e3] eqn:E3.
  destruct e3; [|discriminate]. intros H; inversion H; subst pm3.
  assert (N0 : NoDup (keys (@nil (nat * A)))) by constructor.
  assert (P1 : Permutation (a ++ flat_map (imp_entries A imp) ms) (a ++ flat_map (imp_entries A imp) ms')).
  { apply Permutation_app_head. apply flat_map_perm. exact Hms. }
  destruct (phase_perm _ _ [] [] pm1 P1 N0 (map_eq_refl []) N0 E1) as (pm1' & E1' & M1).
  pose proof (insert_all_ok A imp bind _ _ _ N0 E1) as [_ N1].
  pose proof (insert_all_ok A imp bind _ _ _ N0 E1') as [_ N1'].
  destruct (phase_perm _ _ pm1 pm1' pm2 Hd N1 M1 N1' E2) as (pm2' & E2' & M2).
  destruct (insert_binds_map_eq b pm2 pm2' [] pm [] M2 E3) as (pm3' & E3' & M3).
  rewrite E1', E2', E3'. exists pm3'. auto.
Qed.

(* and rejection is preserved too (acceptance is an iff) *)
Theorem build1_perm_iff a ms ms' d d' b :
  Permutation ms ms' -> Permutation d d' ->
  ((exists pm, build1 imp bind a ms d b = inl pm) <-> (exists pm', build1 imp bind a ms' d' b = inl pm')).
Proof.
  intros Hms Hd. split; intros [pm H].
  - destruct (build1_perm a ms ms' d d' b pm Hms Hd H) as (pm' & H' & _). eauto.
  - destruct (build1_perm a ms' ms d' d b pm (Permutation_sym Hms) (Permutation_sym Hd) H) as (pm' & H' & _). eauto.
Qed.

(* the same, keeping track of the lists themselves: the two maps hold the same entries *)
Lemma insert_all_append : forall (es : list (nat * A)) pm pm',
  insert_all es pm [] = (pm', []) -> pm' = pm ++ es.
Proof.
  induction es as [|[k c] r IH]; intros pm pm' H; cbn [insert_all] in H.
  - inversion H. rewrite app_nil_r. reflexivity.
  - destruct (look pm k) eqn:E.
    + apply (insert_all_errs_mono A) in H. destruct H as [l Hl]. destruct l; discriminate.
    + apply IH in H. rewrite H, <- app_assoc. reflexivity.
Qed.

Lemma insert_binds_append : forall bs pm pm' r,
  map_eq pm pm' -> insert_binds bind bs pm [] = (r, []) ->
  exists x, r = pm ++ x /\ insert_binds bind bs pm' [] = (pm' ++ x, []).
Proof.
  induction bs as [|[[i c] b] rest IH]; intros pm pm' r Hm H; cbn [insert_binds] in *.
  - inversion H; subst. exists []. rewrite !app_nil_r. auto.
  - rewrite <- (Hm i). destruct (look pm i).
    { apply (insert_binds_errs_mono A bind) in H. destruct H as [l Hl]. destruct l; discriminate. }
    rewrite <- (Hm c). destruct (look pm c) as [cc|].
    2:{ apply (insert_binds_errs_mono A bind) in H. destruct H as [l Hl]. destruct l; discriminate. }
    destruct (IH (pm ++ [(i, bind b cc)]) (pm' ++ [(i, bind b cc)]) r (map_eq_app _ _ _ Hm) H) as (x & Hr & Hx).
    exists ((i, bind b cc) :: x). rewrite <- !app_assoc in *. cbn [app] in *. auto.
Qed.

Theorem build1_perm_entries a ms ms' d d' b pm :
  Permutation ms ms' -> Permutation d d' ->
  build1 imp bind a ms d b = inl pm ->
  exists pm', build1 imp bind a ms' d' b = inl pm' /\ map_eq pm pm' /\ Permutation pm pm'.
Proof.
  intros Hms Hd. unfold build1.
  destruct (insert_all (a ++ flat_map (imp_entries A imp) ms) [] []) as [pm1 e1] eqn:E1.
  destruct e1; [|discriminate].
  destruct (insert_all d pm1 []) as [pm2 e2] eqn:E2.
  destruct e2; [|discriminate].
  destruct (insert_binds bind b pm2 []) as [pm3 e3] eqn:E3.
  destruct e3; [|discriminate]. intros H; inversion H; subst pm3.
  assert (N0 : NoDup (keys (@nil (nat * A)))) by constructor.
  assert (P1 : Permutation (a ++ flat_map (imp_entries A imp) ms) (a ++ flat_map (imp_entries A imp) ms')).
  { apply Permutation_app_head. apply flat_map_perm. exact Hms. }
  destruct (phase_perm _ _ [] [] pm1 P1 N0 (map_eq_refl []) N0 E1) as (pm1' & E1' & M1).
  pose proof (insert_all_ok A imp bind _ _ _ N0 E1) as [_ N1].
  pose proof (insert_all_ok A imp bind _ _ _ N0 E1') as [_ N1'].
  destruct (phase_perm _ _ pm1 pm1' pm2 Hd N1 M1 N1' E2) as (pm2' & E2' & M2).
  destruct (insert_binds_append b pm2 pm2' pm M2 E3) as (x & Hx & E3').
  rewrite E1', E2', E3'. exists (pm2' ++ x). split; [reflexivity|]. split.
  - rewrite Hx. apply map_eq_app. exact M2.
  - rewrite Hx. apply Permutation_app_tail.
    apply insert_all_append in E1. apply insert_all_append in E1'. apply insert_all_append in E2. apply insert_all_append in E2'.
    cbn [app] in E1, E1'. subst. apply Permutation_app; auto.
Qed.
End Perm.
