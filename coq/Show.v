From Coq Require Import List Arith Bool Lia.
From Wire Require Import Sets Model.
Import ListNotations.

(* cmd/wire/main.go: gather -- what `wire show` prints for one top-level provider set.
   Part 1: the named sets it includes (work-list over ProviderSet.Imports with a visited set).
   Part 2: the outputs grouped by the set of outside types needed to obtain them (the stack DFS over
   set.Outputs() with inputVisited and the groups slice). *)

(* ------------------------------------------------------------------ small set-as-list toolkit *)
Definition mem (x : nat) (l : list nat) : bool := existsb (Nat.eqb x) l.
Lemma mem_In x l : mem x l = true <-> In x l.
Proof.
  unfold mem. rewrite existsb_exists. split.
  - intros (y & Hy & E). apply Nat.eqb_eq in E. subst. exact Hy.
  - intros H. exists x. split; auto. apply Nat.eqb_refl.
Qed.

Fixpoint dedup (l : list nat) : list nat :=
  match l with [] => [] | x :: r => if mem x r then dedup r else x :: dedup r end.
Lemma dedup_In x l : In x (dedup l) <-> In x l.
Proof.
  induction l as [|y r IH]; cbn; [tauto|].
  destruct (mem y r) eqn:E.
  - rewrite IH. split; auto. intros [->|H]; auto. apply mem_In. exact E.
  - cbn. rewrite IH. tauto.
Qed.
Lemma dedup_NoDup l : NoDup (dedup l).
Proof.
  induction l as [|y r IH]; cbn; [constructor|].
  destruct (mem y r) eqn:E; auto. constructor; auto.
  rewrite dedup_In. intros H. apply mem_In in H. congruence.
Qed.

Definition seteq (a b : list nat) : Prop := forall x, In x a <-> In x b.

(* sameTypeKeys: equal length and every key of a is a key of b (on duplicate-free key lists) *)
Definition same_keys (a b : list nat) : bool := Nat.eqb (length a) (length b) && forallb (fun x => mem x b) a.

Lemma same_keys_seteq a b : NoDup a -> NoDup b -> (same_keys a b = true <-> seteq a b).
Proof.
  intros Ha Hb. unfold same_keys. rewrite andb_true_iff, Nat.eqb_eq, forallb_forall. split.
  - intros [Hl Hi] x. split.
    + intros H. apply mem_In. apply Hi. exact H.
    + intros H. assert (Hincl : incl a b) by (intros y Hy; apply mem_In; apply Hi; exact Hy).
      apply (NoDup_length_incl Ha) in Hincl; [apply Hincl; exact H|lia].
  - intros H. split.
    + apply Nat.le_antisymm; apply NoDup_incl_length; auto; intros y Hy; apply H; exact Hy.
    + intros x Hx. apply mem_In. apply H. exact Hx.
Qed.

(* ------------------------------------------------------------------ part 2: the grouping DFS *)
Section Gather.
Variable deps : nat -> list nat.        (* provider: argument types; field: the parent struct; value: none *)
Variable is_input : nat -> bool.        (* set.For(t) is nil or an injector argument *)

Record gstate := mkGS {
  iv : list (nat * option nat);                      (* inputVisited: -1 (None) or a group index *)
  groups : list (list nat * list nat) }.             (* inputs (duplicate-free), outputs *)

Fixpoint ivget (l : list (nat * option nat)) (t : nat) : option (option nat) :=
  match l with [] => None | (k, v) :: r => if Nat.eqb k t then Some v else ivget r t end.

Definition unvisited (s : gstate) (t : nat) : bool := match ivget (iv s) t with None => true | Some _ => false end.

(* the input set built from the (visited) dependencies: an input contributes itself, a grouped type its
   group's inputs (mergeTypeSets) *)
Definition merge_in (s : gstate) (ds : list nat) : list nat :=
  dedup (flat_map (fun a => match ivget (iv s) a with
                            | Some None => [a]
                            | Some (Some i) => fst (nth i (groups s) ([], []))
                            | None => []
                            end) ds).

Fixpoint find_group (ins : list nat) (gs : list (list nat * list nat)) (i : nat) : option nat :=
  match gs with
  | [] => None
  | (gi, _) :: r => if same_keys gi ins then Some i else find_group ins r (S i)
  end.

Fixpoint add_output (gs : list (list nat * list nat)) (i : nat) (t : nat) : list (list nat * list nat) :=
  match gs, i with
  | [], _ => []
  | (gi, go) :: r, 0 => (gi, go ++ [t]) :: r
  | g :: r, S j => g :: add_output r j t
  end.

Definition place (s : gstate) (t : nat) (ins : list nat) : gstate :=
  match find_group ins (groups s) 0 with
  | Some i => mkGS ((t, Some i) :: iv s) (add_output (groups s) i t)
  | None => mkGS ((t, Some (length (groups s))) :: iv s) (groups s ++ [(ins, [t])])
  end.

(* one iteration of the inner `for len(stk) > 0` loop; the head of the list is the top of the stack *)
Definition gstep (s : gstate) (curr : nat) (rest : list nat) : gstate * list nat :=
  if negb (unvisited s curr) then (s, rest)
  else if is_input curr then (mkGS ((curr, None) :: iv s) (groups s), rest)
  else match filter (unvisited s) (deps curr) with
       | [] => (place s curr (merge_in s (deps curr)), rest)
       | un => (s, rev un ++ curr :: rest)
       end.

(* the outer `for _, k := range set.Outputs()` loop around the inner one *)
Fixpoint grun (fuel : nat) (s : gstate) (stk pending : list nat) : option gstate :=
  match fuel with
  | 0 => None
  | S f =>
    match stk with
    | curr :: rest => let '(s', stk') := gstep s curr rest in grun f s' stk' pending
    | [] =>
      match pending with
      | [] => Some s
      | k :: r => if unvisited s k then grun f s [k] r else grun f s [] r
      end
    end
  end.

(* ---- specification: the outside types needed to obtain t *)
Inductive needs : nat -> nat -> Prop :=
| needs_here t a : In a (deps t) -> is_input a = true -> needs t a
| needs_step t a x : In a (deps t) -> is_input a = false -> needs a x -> needs t x.

Definition group_ok (s : gstate) : Prop :=
  (forall t, ivget (iv s) t = Some None -> is_input t = true) /\
  (forall t i, ivget (iv s) t = Some (Some i) ->
     is_input t = false /\ exists ins outs, nth_error (groups s) i = Some (ins, outs) /\ In t outs /\ (forall x, In x ins <-> needs t x)) /\
  (forall i ins outs, nth_error (groups s) i = Some (ins, outs) ->
     NoDup ins /\ forall t, In t outs -> ivget (iv s) t = Some (Some i)) /\
  (forall i j a b, nth_error (groups s) i = Some a -> nth_error (groups s) j = Some b -> seteq (fst a) (fst b) -> i = j).

Lemma ivget_cons l k v t : ivget ((k, v) :: l) t = if Nat.eqb k t then Some v else ivget l t.
Proof. reflexivity. Qed.

Lemma find_group_spec ins : forall gs i0 i, find_group ins gs i0 = Some i ->
  i0 <= i /\ exists g, nth_error gs (i - i0) = Some g /\ same_keys (fst g) ins = true.
Proof.
  induction gs as [|[gi go] r IH]; intros i0 i H; cbn in H; [discriminate|].
  destruct (same_keys gi ins) eqn:E.
  - injection H as <-. split; [lia|]. rewrite Nat.sub_diag. exists (gi, go). auto.
  - destruct (IH _ _ H) as (Hle & g & Hn & Hs). split; [lia|]. exists g. split; auto.
    replace (i - i0) with (S (i - S i0)) by lia. exact Hn.
Qed.

Lemma find_group_none ins : forall gs i0, find_group ins gs i0 = None ->
  forall g, In g gs -> same_keys (fst g) ins = false.
Proof.
  induction gs as [|[gi go] r IH]; intros i0 H g Hg; [destruct Hg|].
  cbn in H. destruct (same_keys gi ins) eqn:E; [discriminate|].
  destruct Hg as [<-|Hg]; [exact E|]. eapply IH; eauto.
Qed.

Lemma add_output_nth : forall gs i t j,
  nth_error (add_output gs i t) j =
  match nth_error gs j with
  | Some (gi, go) => if Nat.eqb i j then Some (gi, go ++ [t]) else Some (gi, go)
  | None => None
  end.
Proof.
  induction gs as [|[gi go] r IH]; intros i t j; cbn.
  - destruct j; reflexivity.
  - destruct i as [|i'], j as [|j']; cbn; try reflexivity.
    + destruct (nth_error r j') as [[a b]|]; reflexivity.
    + apply IH.
Qed.

(* the input set computed from visited dependencies is exactly `needs` *)
Lemma merge_in_needs s t : group_ok s -> is_input t = false ->
  (forall a, In a (deps t) -> unvisited s a = false) ->
  forall x, In x (merge_in s (deps t)) <-> needs t x.
Proof.
  intros (G1 & G2 & G3 & G4) Ht Hv x. unfold merge_in. rewrite dedup_In, in_flat_map. split.
  - intros (a & Ha & Hx). destruct (ivget (iv s) a) as [[i|]|] eqn:E.
    + destruct (G2 a i E) as (Hna & ins & outs & Hn & Hin & Hneeds).
      rewrite (nth_error_nth _ _ _ Hn) in Hx. cbn in Hx. eapply needs_step; eauto. apply Hneeds. exact Hx.
    + destruct Hx as [<-|[]]. apply needs_here; auto.
    + destruct Hx.
  - intros H. inversion H as [t0 a Ha Hi|t0 a x0 Ha Hi Hn]; subst.
    + exists x. split; auto. specialize (Hv x Ha). unfold unvisited in Hv.
      destruct (ivget (iv s) x) as [[i|]|] eqn:E; [|left; reflexivity|discriminate].
      destruct (G2 x i E) as (Hna & _). congruence.
    + exists a. split; auto. specialize (Hv a Ha). unfold unvisited in Hv.
      destruct (ivget (iv s) a) as [[i|]|] eqn:E; [| |discriminate].
      * destruct (G2 a i E) as (_ & ins & outs & Hnth & _ & Hneeds). rewrite (nth_error_nth _ _ _ Hnth). cbn. apply Hneeds. exact Hn.
      * specialize (G1 a E). congruence.
Qed.

Lemma place_ok s t ins : group_ok s -> unvisited s t = true -> is_input t = false -> NoDup ins ->
  (forall x, In x ins <-> needs t x) -> group_ok (place s t ins).
Proof.
  intros (G1 & G2 & G3 & G4) Hu Ht Hnd Hins. unfold unvisited in Hu.
  destruct (ivget (iv s) t) eqn:Eu; [discriminate|]. clear Hu.
  unfold place. destruct (find_group ins (groups s) 0) as [i|] eqn:Ef.
  - destruct (find_group_spec ins _ _ _ Ef) as (_ & [gi go] & Hn & Hs). rewrite Nat.sub_0_r in Hn. cbn [fst] in Hs.
    destruct (G3 i gi go Hn) as (Hndg & Hout).
    apply (same_keys_seteq gi ins Hndg Hnd) in Hs.
    split; [|split; [|split]]; cbn [iv groups].
    + intros t0. rewrite ivget_cons. destruct (Nat.eqb t t0) eqn:E; [discriminate|apply G1].
    + intros t0 i0 H. rewrite ivget_cons in H. destruct (Nat.eqb t t0) eqn:E.
      * apply Nat.eqb_eq in E. subst t0. injection H as <-. split; [exact Ht|].
        exists gi, (go ++ [t]). rewrite add_output_nth, Hn, Nat.eqb_refl. split; auto. split; [apply in_or_app; right; left; reflexivity|].
        intros x. rewrite <- Hins. apply Hs.
      * destruct (G2 t0 i0 H) as (Hni & ins0 & outs0 & Hn0 & Hin0 & Hneeds0). split; [exact Hni|].
        rewrite add_output_nth, Hn0. destruct (Nat.eqb i i0) eqn:Ei.
        -- exists ins0, (outs0 ++ [t]). split; auto. split; auto. apply in_or_app; auto.
        -- exists ins0, outs0. auto.
    + intros i0 ins0 outs0 H. rewrite add_output_nth in H. destruct (nth_error (groups s) i0) as [[a b]|] eqn:En; [|discriminate].
      split.
      * destruct (Nat.eqb i i0); injection H as <- <-; apply (G3 i0 a b En).
      * intros t0 Hin. rewrite ivget_cons. destruct (Nat.eqb i i0) eqn:Ei.
        -- apply Nat.eqb_eq in Ei. subst i0. injection H as <- <-. apply in_app_or in Hin. destruct Hin as [Hin|[<-|[]]].
           ++ destruct (Nat.eqb t t0) eqn:E; [|apply (G3 i a b En); exact Hin].
              apply Nat.eqb_eq in E. subst t0. destruct (G3 i a b En) as (_ & Hall). rewrite (Hall t Hin) in Eu. discriminate.
           ++ rewrite Nat.eqb_refl. reflexivity.
        -- injection H as <- <-. destruct (Nat.eqb t t0) eqn:E; [|apply (G3 i0 a b En); exact Hin].
           apply Nat.eqb_eq in E. subst t0. destruct (G3 i0 a b En) as (_ & Hall). rewrite (Hall t Hin) in Eu. discriminate.
    + intros i0 j a b Ha Hb Hse. rewrite add_output_nth in Ha, Hb.
      destruct (nth_error (groups s) i0) as [[a1 a2]|] eqn:E1; [|discriminate].
      destruct (nth_error (groups s) j) as [[b1 b2]|] eqn:E2; [|discriminate].
      apply (G4 i0 j (a1, a2) (b1, b2) E1 E2). cbn [fst].
      destruct (Nat.eqb i i0); injection Ha as <-; destruct (Nat.eqb i j); injection Hb as <-; exact Hse.
  - pose proof (find_group_none ins _ _ Ef) as Hnone.
    assert (Hnth : forall j, nth_error (groups s ++ [(ins, [t])]) j =
                             if Nat.ltb j (length (groups s)) then nth_error (groups s) j
                             else if Nat.eqb j (length (groups s)) then Some (ins, [t]) else None).
    { intros j. destruct (Nat.ltb j (length (groups s))) eqn:El.
      - apply Nat.ltb_lt in El. apply nth_error_app1. exact El.
      - apply Nat.ltb_ge in El. rewrite nth_error_app2 by exact El.
        destruct (Nat.eqb j (length (groups s))) eqn:Ee.
        + apply Nat.eqb_eq in Ee. subst j. rewrite Nat.sub_diag. reflexivity.
        + apply Nat.eqb_neq in Ee. destruct (j - length (groups s)) as [|k] eqn:Ek; [lia|]. cbn. destruct k; reflexivity. }
    split; [|split; [|split]]; cbn [iv groups].
    + intros t0. rewrite ivget_cons. destruct (Nat.eqb t t0) eqn:E; [discriminate|apply G1].
    + intros t0 i H. rewrite ivget_cons in H. destruct (Nat.eqb t t0) eqn:E.
      * apply Nat.eqb_eq in E. subst t0. injection H as <-. split; [exact Ht|].
        exists ins, [t]. rewrite Hnth, Nat.ltb_irrefl, Nat.eqb_refl.
        split; auto. split; [left; reflexivity|exact Hins].
      * destruct (G2 t0 i H) as (Hni & ins0 & outs0 & Hn0 & Hin0 & Hneeds0). split; [exact Hni|]. exists ins0, outs0. split; auto.
        rewrite Hnth. assert (Hl : i < length (groups s)) by (apply nth_error_Some; congruence).
        apply Nat.ltb_lt in Hl. rewrite Hl. exact Hn0.
    + intros i ins0 outs H. rewrite Hnth in H. split.
      * destruct (Nat.ltb i (length (groups s))); [apply (G3 i ins0 outs H)|].
        destruct (Nat.eqb i (length (groups s))); [|discriminate]. injection H as <- <-. exact Hnd.
      * intros t0 Hin. rewrite ivget_cons. destruct (Nat.ltb i (length (groups s))) eqn:El.
        -- destruct (Nat.eqb t t0) eqn:E; [|apply (G3 i ins0 outs H); exact Hin].
           apply Nat.eqb_eq in E. subst t0. destruct (G3 i ins0 outs H) as (_ & Hall). rewrite (Hall t Hin) in Eu. discriminate.
        -- destruct (Nat.eqb i (length (groups s))) eqn:Ee; [|discriminate]. injection H as <- <-.
           destruct Hin as [<-|[]]. rewrite Nat.eqb_refl. apply Nat.eqb_eq in Ee. subst i. reflexivity.
    + intros i j a b Ha Hb Hse. rewrite Hnth in Ha, Hb.
      destruct (Nat.ltb i (length (groups s))) eqn:Eli; destruct (Nat.ltb j (length (groups s))) eqn:Elj.
      * apply (G4 i j a b Ha Hb Hse).
      * destruct (Nat.eqb j (length (groups s))) eqn:Ee; [|discriminate]. injection Hb as <-. cbn [fst] in Hse. exfalso.
        assert (Hina : In a (groups s)) by (eapply nth_error_In; eauto).
        specialize (Hnone a Hina). destruct a as [a1 a2]. cbn [fst] in *.
        destruct (G3 i a1 a2 Ha) as (Hnda & _).
        apply (same_keys_seteq a1 ins Hnda Hnd) in Hse. congruence.
      * destruct (Nat.eqb i (length (groups s))) eqn:Ee; [|discriminate]. injection Ha as <-. cbn [fst] in Hse. exfalso.
        assert (Hinb : In b (groups s)) by (eapply nth_error_In; eauto).
        specialize (Hnone b Hinb). destruct b as [b1 b2]. cbn [fst] in *.
        destruct (G3 j b1 b2 Hb) as (Hndb & _).
        assert (Hse' : seteq b1 ins) by (intros x; symmetry; apply Hse).
        apply (same_keys_seteq b1 ins Hndb Hnd) in Hse'. congruence.
      * destruct (Nat.eqb i (length (groups s))) eqn:Ei; [|discriminate].
        destruct (Nat.eqb j (length (groups s))) eqn:Ej; [|discriminate].
        apply Nat.eqb_eq in Ei, Ej. congruence.
Qed.

Lemma gstep_ok s curr rest : group_ok s -> group_ok (fst (gstep s curr rest)).
Proof.
  intros G. unfold gstep. destruct (unvisited s curr) eqn:Eu; cbn [negb]; [|exact G].
  destruct (is_input curr) eqn:Ei.
  - destruct G as (G1 & G2 & G3 & G4). cbn [fst]. unfold unvisited in Eu.
    destruct (ivget (iv s) curr) eqn:Ec; [discriminate|].
    split; [|split; [|split]]; cbn [iv groups].
    + intros t. rewrite ivget_cons. destruct (Nat.eqb curr t) eqn:E; [|apply G1].
      apply Nat.eqb_eq in E. subst t. intros _. exact Ei.
    + intros t i H. rewrite ivget_cons in H. destruct (Nat.eqb curr t) eqn:E; [discriminate|apply (G2 t i H)].
    + intros i ins outs H. split; [apply (G3 i ins outs H)|].
      intros t Hin. rewrite ivget_cons. destruct (Nat.eqb curr t) eqn:E; [|apply (G3 i ins outs H); exact Hin].
      apply Nat.eqb_eq in E. subst t. destruct (G3 i ins outs H) as (_ & Hall). rewrite (Hall curr Hin) in Ec. discriminate.
    + exact G4.
  - destruct (filter (unvisited s) (deps curr)) as [|u un] eqn:Ef; [|exact G].
    cbn [fst]. apply place_ok; auto.
    + unfold merge_in. apply dedup_NoDup.
    + apply merge_in_needs; auto. intros a Ha.
      destruct (unvisited s a) eqn:Ea; auto.
      assert (Hin : In a (filter (unvisited s) (deps curr))) by (apply filter_In; auto).
      rewrite Ef in Hin. destruct Hin.
Qed.

(* every key taken from the pending list is visited or still on the stack *)
Definition gcovered (s : gstate) (stk done : list nat) : Prop :=
  forall k, In k done -> unvisited s k = false \/ In k stk.

Lemma place_visits s t ins k : unvisited (place s t ins) k = false <-> k = t \/ unvisited s k = false.
Proof.
  unfold place, unvisited. destruct (find_group ins (groups s) 0); cbn [iv]; rewrite ivget_cons;
    destruct (Nat.eqb t k) eqn:E; try (apply Nat.eqb_eq in E; subst; tauto);
    apply Nat.eqb_neq in E; split; auto; intros [->|H]; auto; congruence.
Qed.

Lemma gstep_covered s curr rest done : gcovered s (curr :: rest) done ->
  gcovered (fst (gstep s curr rest)) (snd (gstep s curr rest)) done.
Proof.
  intros C k Hk. specialize (C k Hk). unfold gstep.
  destruct (unvisited s curr) eqn:Eu; cbn [negb fst snd].
  - destruct (is_input curr) eqn:Ei; cbn [fst snd].
    + unfold unvisited at 1. cbn [iv]. rewrite ivget_cons. destruct (Nat.eqb curr k) eqn:E; auto.
      destruct C as [C|[C|C]]; auto. subst. rewrite Nat.eqb_refl in E. discriminate.
    + destruct (filter (unvisited s) (deps curr)) as [|u un] eqn:Ef; cbn [fst snd].
      * destruct C as [C|[C|C]]; auto; left; apply place_visits; auto.
      * destruct C as [C|[C|C]]; auto; right; apply in_or_app; right; [left|right]; auto.
  - destruct C as [C|[C|C]]; auto. subst. auto.
Qed.

Lemma grun_ok : forall fuel s stk pending done s',
  group_ok s -> gcovered s stk done -> grun fuel s stk pending = Some s' ->
  group_ok s' /\ forall k, In k (done ++ pending) -> unvisited s' k = false.
Proof.
  induction fuel as [|f IH]; intros s stk pending done s' G C H; cbn in H; [discriminate|].
  destruct stk as [|curr rest].
  - destruct pending as [|k r].
    + injection H as <-. split; auto. intros k Hk. rewrite app_nil_r in Hk. destruct (C k Hk) as [?|[]]; auto.
    + destruct (unvisited s k) eqn:Eu.
      * destruct (IH s [k] r (done ++ [k]) s' G) as (G' & V); auto.
        { intros x Hx. apply in_app_or in Hx. destruct Hx as [Hx|[<-|[]]]; [|right; left; reflexivity].
          destruct (C x Hx) as [?|[]]; auto. }
        split; auto. intros x Hx. apply V. rewrite <- app_assoc. exact Hx.
      * destruct (IH s [] r (done ++ [k]) s' G) as (G' & V); auto.
        { intros x Hx. apply in_app_or in Hx. destruct Hx as [Hx|[<-|[]]]; auto. }
        split; auto. intros x Hx. apply V. rewrite <- app_assoc. exact Hx.
  - pose proof (gstep_ok s curr rest G) as G1. pose proof (gstep_covered s curr rest done C) as C1.
    destruct (gstep s curr rest) as [s1 stk1]. cbn [fst snd] in *. eapply IH; eauto.
Qed.

Definition gs0 : gstate := mkGS [] [].

Lemma gs0_ok : group_ok gs0.
Proof.
  split; [|split; [|split]]; cbn.
  - intros t H. discriminate.
  - intros t i H. discriminate.
  - intros i ins outs H. destruct i; discriminate.
  - intros i j a b H. destruct i; discriminate.
Qed.

(* `wire show`: whenever the loop finishes, every output that has a source sits in exactly one group, the group's
   input list is exactly the set of outside types needed to obtain it, and two outputs share a group iff they need
   the same outside types *)
Theorem gather_groups_correct fuel outputs s :
  grun fuel gs0 [] outputs = Some s ->
  (forall t, In t outputs -> is_input t = false ->
     exists i ins outs, ivget (iv s) t = Some (Some i) /\ nth_error (groups s) i = Some (ins, outs) /\ In t outs /\
                        NoDup ins /\ forall x, In x ins <-> needs t x) /\
  (forall t t' i j, ivget (iv s) t = Some (Some i) -> ivget (iv s) t' = Some (Some j) ->
     (i = j <-> forall x, needs t x <-> needs t' x)) /\
  (forall i ins outs t, nth_error (groups s) i = Some (ins, outs) -> In t outs -> ivget (iv s) t = Some (Some i)).
Proof.
  intros H. destruct (grun_ok fuel gs0 [] outputs [] s gs0_ok) as (G & V); auto.
  { intros k []. }
  destruct G as (G1 & G2 & G3 & G4). split; [|split].
  - intros t Ht Hi. specialize (V t Ht). unfold unvisited in V.
    destruct (ivget (iv s) t) as [[i|]|] eqn:E; [| |discriminate].
    + destruct (G2 t i E) as (_ & ins & outs & Hn & Hin & Hneeds). exists i, ins, outs.
      destruct (G3 i ins outs Hn) as (Hnd & _). auto.
    + specialize (G1 t E). congruence.
  - intros t t' i j Hi Hj.
    destruct (G2 t i Hi) as (_ & ins & outs & Hn & _ & Hneeds).
    destruct (G2 t' j Hj) as (_ & ins' & outs' & Hn' & _ & Hneeds'). split.
    + intros <-. rewrite Hn in Hn'. injection Hn' as <- <-. intros x. rewrite <- Hneeds, <- Hneeds'. tauto.
    + intros Heq. apply (G4 i j (ins, outs) (ins', outs') Hn Hn'). cbn. intros x. rewrite Hneeds, Hneeds'. apply Heq.
  - intros i ins outs t Hn Hin. apply (G3 i ins outs Hn). exact Hin.
Qed.
End Gather.

(* ------------------------------------------------------------------ instantiation on a provider map *)
Definition pm_is_input (pm : pmap entry) (t : nat) : bool :=
  match look pm t with
  | None => true
  | Some e => match e_what e with WhArg _ => true | _ => false end
  end.

Definition show_fuel (pm : pmap entry) : nat :=
  4 + 2 * length pm + 2 * fold_right (fun kv n => length (succ_of pm (fst kv)) + n) 0 pm.

(* the groups `wire show` prints for a set with provider map pm, outputs visited in the given order *)
Definition show_groups (pm : pmap entry) (outputs : list nat) : option (list (list nat * list nat)) :=
  match grun (succ_of pm) (pm_is_input pm) (show_fuel pm + 2 * length outputs) (gs0) [] outputs with
  | Some s => Some (groups s)
  | None => None
  end.

(* ------------------------------------------------------------------ part 1: the included named sets *)
Inductive nset := NSet (id : nat) (name : option (nat * nat)) (imports : list nset).   (* name: (package, variable) *)

Definition ns_id (s : nset) : nat := match s with NSet i _ _ => i end.
Definition ns_name (s : nset) := match s with NSet _ n _ => n end.
Definition ns_imports (s : nset) := match s with NSet _ _ l => l end.

Definition name_eqb (a b : nat * nat) : bool := Nat.eqb (fst a) (fst b) && Nat.eqb (snd a) (snd b).

(* the `next`/`visited` work-list; pointer identity of *ProviderSet is the id *)
Fixpoint imports_run (fuel : nat) (key : nat * nat) (next : list nset) (visited : list nat) (acc : list (nat * nat))
  : option (list (nat * nat)) :=
  match fuel with
  | 0 => None
  | S f =>
    match next with
    | [] => Some acc
    | curr :: rest =>
      if mem (ns_id curr) visited then imports_run f key rest visited acc
      else
        let acc' := match ns_name curr with
                    | Some n => if name_eqb n key then acc else n :: acc
                    | None => acc
                    end in
        imports_run f key (rev (ns_imports curr) ++ rest) (ns_id curr :: visited) acc'
    end
  end.

(* specification: the names of the sets reachable through Imports *)
Inductive reach : nset -> nset -> Prop :=
| reach_refl s : reach s s
| reach_step s c d : In c (ns_imports s) -> reach c d -> reach s d.

(* sharing is by identity: two nodes with one id are the same node *)
Definition coherent (root : nset) : Prop :=
  forall a b, reach root a -> reach root b -> ns_id a = ns_id b -> a = b.

Lemma reach_trans a b c : reach a b -> reach b c -> reach a c.
Proof. induction 1; auto. intros H2. eapply reach_step; eauto. Qed.

(* soundness: every name listed belongs to a reachable set and is not the key *)
Lemma imports_run_sound key : forall fuel next visited acc res,
  imports_run fuel key next visited acc = Some res ->
  forall n, In n res -> In n acc \/ (name_eqb n key = false /\ exists c d, In c next /\ reach c d /\ ns_name d = Some n).
Proof.
  induction fuel as [|f IH]; intros next visited acc res H n Hn; cbn in H; [discriminate|].
  destruct next as [|curr rest].
  - injection H as <-. auto.
  - destruct (mem (ns_id curr) visited).
    + destruct (IH _ _ _ _ H n Hn) as [?|(Hk & c & d & Hc & Hr & Hd)]; auto.
      right. split; auto. exists c, d. split; auto. right. exact Hc.
    + destruct (IH _ _ _ _ H n Hn) as [Hacc|(Hk & c & d & Hc & Hr & Hd)].
      * destruct (ns_name curr) as [m|] eqn:Em; auto.
        destruct (name_eqb m key) eqn:Ek; auto. destruct Hacc as [<-|?]; auto.
        right. split; auto. exists curr, curr. split; [left; reflexivity|]. split; [constructor|exact Em].
      * right. split; auto. apply in_app_or in Hc. destruct Hc as [Hc|Hc].
        -- apply in_rev in Hc. exists curr, d. split; [left; reflexivity|]. split; auto. eapply reach_step; eauto.
        -- exists c, d. split; auto. right. exact Hc.
Qed.

Theorem show_imports_sound fuel key root res :
  imports_run fuel key [root] [] [] = Some res ->
  forall n, In n res -> name_eqb n key = false /\ exists d, reach root d /\ ns_name d = Some n.
Proof.
  intros H n Hn. destruct (imports_run_sound key _ _ _ _ _ H n Hn) as [[]|(Hk & c & d & [<-|[]] & Hr & Hd)].
  split; auto. exists d. auto.
Qed.

(* completeness.  Invariant: every reachable named set other than the key is already listed, or is reachable from
   the work-list along sets that are all unvisited. *)
Fixpoint nsize (s : nset) : nat :=
  match s with NSet _ _ l => S ((fix go (l : list nset) : nat := match l with [] => 0 | x :: r => nsize x + go r end) l) end.

Lemma nsize_child s c : In c (ns_imports s) -> nsize c < nsize s.
Proof.
  destruct s as [i n l]. cbn [ns_imports nsize]. induction l as [|x r IH]; intros H; [destruct H|].
  destruct H as [<-|H]; [lia|]. specialize (IH H). cbn in *. lia.
Qed.

Lemma reach_size s d : reach s d -> nsize d <= nsize s.
Proof. induction 1 as [s|s c d Hc Hr IH]; [lia|]. pose proof (nsize_child s c Hc). lia. Qed.

Inductive ureach (visited : list nat) : nset -> nset -> Prop :=
| ureach_refl s : ~ In (ns_id s) visited -> ureach visited s s
| ureach_step s c d : ~ In (ns_id s) visited -> In c (ns_imports s) -> ureach visited c d -> ureach visited s d.

Lemma ureach_reach visited s d : ureach visited s d -> reach s d.
Proof. induction 1; [constructor|eapply reach_step; eauto]. Qed.

(* marking x visited: a path keeps avoiding the visited sets, or it passes through a set with id x *)
Lemma ureach_mark visited x s d : ureach visited s d ->
  ureach (x :: visited) s d \/ exists v, ns_id v = x /\ reach s v /\ ureach visited v d.
Proof.
  induction 1 as [s Hs|s c d Hs Hc Hr IH].
  - destruct (Nat.eq_dec (ns_id s) x) as [E|E].
    + right. exists s. split; auto. split; constructor. exact Hs.
    + left. constructor. intros [H|H]; auto.
  - destruct (Nat.eq_dec (ns_id s) x) as [E|E].
    + right. exists s. split; auto. split; [constructor|]. eapply ureach_step; eauto.
    + destruct IH as [IH|(v & Hv & R1 & R2)].
      * left. eapply ureach_step; eauto. intros [H|H]; auto.
      * right. exists v. split; auto. split; auto. eapply reach_step; eauto.
Qed.

(* below a coherent set no path returns to it *)
Lemma ureach_below root curr visited : coherent root -> reach root curr ->
  forall c d, reach curr c -> nsize c < nsize curr -> ureach visited c d -> ureach (ns_id curr :: visited) c d.
Proof.
  intros Hco Hrc c d Hcc Hsz H. induction H as [s Hs|s c' d Hs Hc Hr IH].
  - constructor. intros [E|Hi]; auto.
    assert (curr = s) by (apply Hco; auto; eapply reach_trans; eauto). subst. lia.
  - eapply ureach_step; eauto.
    + intros [E|Hi]; auto.
      assert (curr = s) by (apply Hco; auto; eapply reach_trans; eauto). subst. lia.
    + apply IH.
      * eapply reach_trans; [exact Hcc|]. eapply reach_step; [exact Hc|constructor].
      * pose proof (nsize_child s c' Hc). lia.
Qed.

Definition listed (key : nat * nat) (acc : list (nat * nat)) (next : list nset) (visited : list nat) (root : nset) : Prop :=
  forall d n, reach root d -> ns_name d = Some n -> name_eqb n key = false ->
    In n acc \/ exists c, In c next /\ ureach visited c d.

Lemma imports_run_complete key root : coherent root -> forall fuel next visited acc res,
  (forall c, In c next -> reach root c) ->
  listed key acc next visited root ->
  imports_run fuel key next visited acc = Some res ->
  forall d n, reach root d -> ns_name d = Some n -> name_eqb n key = false -> In n res.
Proof.
  intros Hco. induction fuel as [|f IH]; intros next visited acc res Hnext L H; cbn in H; [discriminate|].
  destruct next as [|curr rest].
  - injection H as <-. intros d n Hr Hn Hk. destruct (L d n Hr Hn Hk) as [?|(c & [] & _)]; auto.
  - assert (Hrc : reach root curr) by (apply Hnext; left; reflexivity).
    destruct (mem (ns_id curr) visited) eqn:Ev.
    + intros d n Hr Hn Hk.
      refine (IH rest visited acc res (fun c Hc => Hnext c (or_intror Hc)) _ H d n Hr Hn Hk).
      intros d1 n1 Hr1 Hn1 Hk1. destruct (L d1 n1 Hr1 Hn1 Hk1) as [?|(c & [<-|Hc] & Hu)]; auto.
      * exfalso. apply mem_In in Ev. inversion Hu; subst; auto.
      * right. exists c. auto.
    + assert (Hnv : ~ In (ns_id curr) visited) by (intros Hi; apply mem_In in Hi; congruence).
      intros d n Hr Hn Hk.
      refine (IH _ _ _ res _ _ H d n Hr Hn Hk).
      * intros c Hc. apply in_app_or in Hc. destruct Hc as [Hc|Hc]; [|apply Hnext; right; exact Hc].
        apply in_rev in Hc. eapply reach_trans; [exact Hrc|]. eapply reach_step; [exact Hc|constructor].
      * clear d n Hr Hn Hk. intros d n Hr Hn Hk.
        (* what happens to a path that starts at curr *)
        assert (FromCurr : forall d0, ureach visited curr d0 -> ns_name d0 = Some n ->
                  In n (match ns_name curr with Some m => if name_eqb m key then acc else m :: acc | None => acc end) \/
                  exists c, In c (rev (ns_imports curr) ++ rest) /\ ureach (ns_id curr :: visited) c d0).
        { intros d0 Hu Hn0. inversion Hu as [s Hs|s c' d' Hs Hc Hr']; subst.
          - left. rewrite Hn0. rewrite Hk. left. reflexivity.
          - right. exists c'. split; [apply in_or_app; left; apply in_rev; rewrite rev_involutive; exact Hc|].
            apply (ureach_below root curr visited Hco Hrc); auto.
            + eapply reach_step; [exact Hc|constructor].
            + apply nsize_child. exact Hc. }
        destruct (L d n Hr Hn Hk) as [Hacc|(c & Hc & Hu)].
        -- left. destruct (ns_name curr) as [m|]; auto. destruct (name_eqb m key); auto. right. exact Hacc.
        -- destruct Hc as [<-|Hc]; [apply FromCurr; auto|].
           destruct (ureach_mark visited (ns_id curr) c d Hu) as [Hu'|(v & Hv & R1 & R2)].
           ++ right. exists c. split; auto. apply in_or_app. right. exact Hc.
           ++ assert (v = curr).
              { apply Hco; auto. eapply reach_trans; [apply Hnext; right; exact Hc|exact R1]. }
              subst v. apply FromCurr; auto.
Qed.

(* `wire show`: the included-sets list holds exactly the names of the sets reachable through Imports, the shown
   set's own name excepted *)
Theorem show_imports_exact fuel key root res : coherent root ->
  imports_run fuel key [root] [] [] = Some res ->
  forall n, In n res <-> (name_eqb n key = false /\ exists d, reach root d /\ ns_name d = Some n).
Proof.
  intros Hco H n. split.
  - apply (show_imports_sound fuel key root res H).
  - intros (Hk & d & Hr & Hn).
    refine (imports_run_complete key root Hco fuel [root] [] [] res _ _ H d n Hr Hn Hk).
    + intros c [<-|[]]. constructor.
    + intros d0 n0 Hr0 Hn0 Hk0. right. exists root. split; [left; reflexivity|].
      clear -Hr0. induction Hr0; [constructor; intros []|eapply ureach_step; eauto; intros []].
Qed.

(* ------------------------------------------------------------------ the work-list always finishes *)
Fixpoint sumsize (l : list nset) : nat := match l with [] => 0 | x :: r => nsize x + sumsize r end.

Lemma sumsize_app a b : sumsize (a ++ b) = sumsize a + sumsize b.
Proof. induction a as [|x r IH]; cbn; [reflexivity|]. rewrite IH. lia. Qed.

Lemma sumsize_rev a : sumsize (rev a) = sumsize a.
Proof. induction a as [|x r IH]; cbn; [reflexivity|]. rewrite sumsize_app, IH. cbn. lia. Qed.

Lemma nsize_sumsize s : nsize s = S (sumsize (ns_imports s)).
Proof.
  destruct s as [i n l]. reflexivity.
Qed.

(* every iteration removes one unit of the total size of the trees on the work-list, visited or not *)
Lemma imports_run_total key : forall fuel next visited acc,
  sumsize next < fuel -> exists res, imports_run fuel key next visited acc = Some res.
Proof.
  induction fuel as [|f IH]; intros next visited acc H; [lia|]. cbn [imports_run].
  destruct next as [|curr rest]; [eauto|]. cbn [sumsize] in H. pose proof (nsize_sumsize curr) as Hs.
  destruct (mem (ns_id curr) visited).
  - apply IH. lia.
  - apply IH. rewrite sumsize_app, sumsize_rev. lia.
Qed.

Theorem show_imports_terminates key root :
  exists res, imports_run (2 * nsize root + 2) key [root] [] [] = Some res.
Proof. apply imports_run_total. cbn [sumsize]. lia. Qed.

(* ------------------------------------------------------------------ what `wire show` prints for one top-level set *)
Definition nset_fuel (s : nset) : nat := 2 * nsize s + 2.

Inductive show_result :=
| ShAbsent                                                        (* the set has errors: not listed *)
| ShSet (includes : list (nat * nat)) (groups : list (list nat * list nat))
| ShFuel.

Definition show_set (tyorder : list nat) (s : rset) (ns : nset) (key : nat * nat) : show_result :=
  match process_set tyorder [] s with
  | inr _ => ShAbsent
  | inl pm =>
    match show_groups pm (keys pm), imports_run (nset_fuel ns) key [ns] [] [] with
    | Some g, Some i => ShSet i g
    | _, _ => ShFuel
    end
  end.

Definition group_eqb (a b : list nat * list nat) : bool :=
  perm_eqb Nat.eqb (fst a) (fst b) && perm_eqb Nat.eqb (snd a) (snd b).

Definition show_agrees (r o : show_result) : bool :=
  match r, o with
  | ShAbsent, ShAbsent => true
  | ShSet i g, ShSet i' g' => perm_eqb name_eqb i i' && perm_eqb group_eqb g g'
  | _, _ => false
  end.

Record scase := mkSCase { sk_id : nat; sk_order : list nat; sk_set : rset; sk_nset : nset; sk_key : nat * nat; sk_obs : show_result }.

Definition smismatches (ks : list scase) : list nat :=
  map sk_id (filter (fun k => negb (show_agrees (show_set (sk_order k) (sk_set k) (sk_nset k) (sk_key k)) (sk_obs k))) ks).
