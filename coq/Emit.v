From Coq Require Import List Arith Bool String Ascii.
From Wire Require Import Names Sets Model Exec.
From Wire Require Imports.
Import ListNotations.
Definition snoc {A} (l : list A) (x : A) : list A := l ++ [x].
Definition lapp {A} (l1 l2 : list A) : list A := l1 ++ l2.
Local Open Scope string_scope.

(* wire.go: gen.inject / injectPass (both passes), funcProviderCall, structProviderCall, valueExpr,
   fieldExpr, zeroValue, qualifyImport, nameInFileScope, nameInInjector -- as a function from the planned
   call list to the canonical lines of the emitted injector. *)

Inductive zkind := ZComposite | ZBool | ZNum | ZString | ZNil | ZPanic.

Inductive tydesc :=
| TNamed (pkg : nat) (name : string) (zk : zkind)     (* a named type of package pkg (0 = the injector's package) *)
| TUniv (name : string) (zk : zkind)                  (* a named type without package: error, any *)
| TPtr (t : nat)
| TBasic (name : string) (zk : zkind)
| TSlice (t : nat)
| TArray (len : string) (t : nat)
| TMap (k v : nat)
| TOpaque (text : string) (names : list string) (zk : zkind).   (* printed as is, mentions no package *)

Record env := mkEnv {
  e_pkgs : list (string * string);      (* package index -> (import path as written in the output, package name) *)
  e_types : list (nat * tydesc);
  e_scope : list string }.              (* package scope of the injector's package (under wireinject) ++ universe *)

Record gst := mkG {
  g_imports : list (string * (string * bool));   (* path -> (name, differs) in allocation order *)
  g_values : list (nat * string) }.              (* value id -> variable name *)

Section E.
Variable E : env.

Fixpoint assoc {A} (k : string) (l : list (string * A)) : option A :=
  match l with [] => None | (k', v) :: r => if String.eqb k k' then Some v else assoc k r end.
Fixpoint nassoc {A} (k : nat) (l : list (nat * A)) : option A :=
  match l with [] => None | (k', v) :: r => if Nat.eqb k k' then Some v else nassoc k r end.

Definition file_names (g : gst) : list string :=
  lapp (map (fun x => fst (snd x)) (g_imports g)) (lapp (map snd (g_values g)) (e_scope E)).

Definition disamb_in (bad : list string) (name : string) : string :=
  match disamb (S (List.length keywords + List.length bad)) (coll bad) name with
  | Some s => s
  | None => "?FUEL"
  end.

Definition tvn_in (bad : list string) (names : list string) (default : string) (transform : string -> string) : string :=
  match type_variable_name (S (List.length keywords + List.length bad)) names default transform (coll bad) with
  | Some s => s
  | None => "?FUEL"
  end.

(* gen.qualifyImport *)
Definition qualify_import (g : gst) (pkg : nat) : string * gst :=
  if Nat.eqb pkg 0 then (EmptyString, g) else
  match nth_error (e_pkgs E) pkg with
  | None => ("?PKG", g)
  | Some (path, name) =>
    match assoc path (g_imports g) with
    | Some (n, _) => (n, g)
    | None =>
      let n := disamb_in ("err" :: file_names g) name in
      (n, mkG (snoc (g_imports g) (path, (n, negb (String.eqb n name)))) (g_values g))
    end
  end.

Definition qualified_id (g : gst) (pkg : nat) (sym : string) : string * gst :=
  let '(q, g') := qualify_import g pkg in
  (if String.eqb q "" then sym else q ++ "." ++ sym, g').

(* types.TypeString with gen.qualifyPkg as qualifier *)
Fixpoint type_string (fuel : nat) (g : gst) (t : nat) : string * gst :=
  match fuel with
  | 0 => ("?DEPTH", g)
  | S f =>
    match nassoc t (e_types E) with
    | None => ("?TYPE", g)
    | Some (TNamed p n _) => qualified_id g p n
    | Some (TUniv n _) => (n, g)
    | Some (TPtr u) => let '(s, g') := type_string f g u in ("*" ++ s, g')
    | Some (TBasic n _) => (n, g)
    | Some (TSlice u) => let '(s, g') := type_string f g u in ("[]" ++ s, g')
    | Some (TArray len u) => let '(s, g') := type_string f g u in ("[" ++ len ++ "]" ++ s, g')
    | Some (TMap k v) =>
      let '(sk, g1) := type_string f g k in
      let '(sv, g2) := type_string f g1 v in ("map[" ++ sk ++ "]" ++ sv, g2)
    | Some (TOpaque s _ _) => (s, g)
    end
  end.

Definition tdepth := 12.

Definition zkind_of (t : nat) : zkind :=
  match nassoc t (e_types E) with
  | Some (TNamed _ _ z) | Some (TUniv _ z) | Some (TBasic _ z) | Some (TOpaque _ _ z) => z
  | Some (TPtr _) | Some (TSlice _) | Some (TMap _ _) => ZNil
  | Some (TArray _ _) => ZComposite
  | None => ZPanic
  end.

(* wire.go:zeroValue *)
Definition zero_value (g : gst) (t : nat) : string * gst :=
  match zkind_of t with
  | ZComposite => let '(s, g') := type_string tdepth g t in (s ++ "{}", g')
  | ZBool => ("false", g)
  | ZNum => ("0", g)
  | ZString => ("""""", g)
  | ZNil => ("nil", g)
  | ZPanic => ("?PANIC", g)
  end.

Definition is_pointer (t : nat) : bool :=
  match nassoc t (e_types E) with Some (TPtr _) => true | _ => false end.

Definition base_names (t : nat) : list string :=
  match nassoc t (e_types E) with
  | Some (TNamed p n _) =>
    n :: match nth_error (e_pkgs E) p with
         | Some (_, pn) => if String.eqb pn "" then [] else [pn ++ title n]
         | None => []
         end
  | Some (TUniv n _) => [n]
  | Some (TBasic n _) => [n]
  | Some (TOpaque _ names _) => names
  | _ => []
  end.

(* the candidate names typeVariableName derives from a type *)
Definition tv_names (t : nat) : list string :=
  match nassoc t (e_types E) with
  | Some (TPtr u) => base_names u
  | _ => base_names t
  end.

Record igst := mkIG { ig_params : list string; ig_locals : list string; ig_cleanups : list string; ig_err : string }.

Definition inj_names (ig : igst) (g : gst) : list string :=
  ig_err ig :: lapp (ig_params ig) (lapp (ig_locals ig) (lapp (ig_cleanups ig) (file_names g))).

Fixpoint join (sep : string) (l : list string) : string :=
  match l with
  | [] => EmptyString
  | [x] => x
  | x :: r => x ++ sep ++ join sep r
  end.

Record injector := mkInj {
  i_name : string;
  i_params : list (string * nat);     (* declared name ("" / "_" when absent), type *)
  i_variadic : option nat;            (* element type of a variadic last parameter *)
  i_out : nat; i_cleanup : bool; i_err : bool;
  i_argidx : nat }.                   (* index of the parameter providing the result when there are no calls *)

Definition arg_name (ig : igst) (a : nat) : string :=
  if Nat.ltb a (List.length (ig_params ig)) then nth a (ig_params ig) "?ARG"
  else nth (a - List.length (ig_params ig)) (ig_locals ig) "?LOCAL".

(* cleanup variable number c, as a call statement *)
Definition cleanup_call (names : list string) (c : nat) : string := nth c names "?CLEANUP" ++ "()".

(* the abstract step (Exec.v) behind a planned call: only function providers can have a cleanup or fail *)
Definition pstep_of (c : call) : pstep :=
  {| p_id := c_out c; p_args := c_args c;
     p_cleanup := Nat.eqb (c_kind c) 0 && c_cleanup c;
     p_err := Nat.eqb (c_kind c) 0 && c_err c |}.

(* the header: parameter names and types *)
Fixpoint emit_params (ps : list (string * nat)) (last_variadic : option nat) (ig : igst) (g : gst) (acc : list string)
  : list string * igst * gst :=
  match ps with
  | [] => (acc, ig, g)
  | (n, t) :: r =>
    let a := if String.eqb n "" || String.eqb n "_"
             then tvn_in (inj_names ig g) (tv_names t) "arg" unexport
             else disamb_in (inj_names ig g) n in
    let ig' := mkIG (snoc (ig_params ig) a) (ig_locals ig) (ig_cleanups ig) (ig_err ig) in
    match r, last_variadic with
    | [], Some el =>
      let '(s, g') := type_string tdepth g el in
      (snoc acc (a ++ " ..." ++ s), ig', g')
    | _, _ =>
      let '(s, g') := type_string tdepth g t in
      emit_params r last_variadic ig' g' (snoc acc (a ++ " " ++ s))
    end
  end.

Definition emit_call (inj : injector) (c : call) (ins : instr) (ig : igst) (g : gst) : list string * igst * gst :=
  let '(ICall _ _ _ _ unwind) := ins in
  let lname := tvn_in (inj_names ig g) (tv_names (c_out c)) "v" unexport in
  let ig1 := mkIG (ig_params ig) (snoc (ig_locals ig) lname) (ig_cleanups ig) (ig_err ig) in
  match c_kind c with
  | 0 =>
    let '(cn, ig2) :=
      if c_cleanup c then
        let cname := disamb_in (inj_names ig1 g) "cleanup" in
        ([cname], mkIG (ig_params ig1) (ig_locals ig1) (snoc (ig_cleanups ig1) cname) (ig_err ig1))
      else ([], ig1) in
    let lhs := lapp [lname] (lapp cn (if c_err c then [ig_err ig2] else [])) in
    let '(fn, g1) := qualified_id g (c_pkg c) (c_name c) in
    let args := join ", " (map (arg_name ig2) (c_args c)) in
    let line := "DEF " ++ join ", " lhs ++ " := " ++ fn ++ "(" ++ args ++ (if c_varargs c then "..." else "") ++ ")" in
    if c_err c then
      let '(z, g2) := zero_value g1 (i_out inj) in
      let ret := "  RET " ++ z ++ (if i_cleanup inj then ", nil" else "") ++ ", " ++ ig_err ig2 in
      (lapp [line; "IF " ++ ig_err ig2 ++ " != nil"] (snoc (map (fun c => "  EXPR " ++ cleanup_call (ig_cleanups ig2) c) unwind) ret), ig2, g2)
    else ([line], ig2, g1)
  | 1 =>
    let '(tn, g1) := qualified_id g (c_pkg c) (c_name c) in
    let fields := map (fun fa => fst fa ++ ": " ++ arg_name ig1 (snd fa) ++ ",") (combine (c_fields c) (c_args c)) in
    let body := match fields with [] => "{}" | _ => "{ " ++ join " " fields ++ " }" end in
    (["DEF " ++ lname ++ " := " ++ (if is_pointer (c_out c) then "&" else "") ++ tn ++ body], ig1, g1)
  | 2 =>
    let v := match nassoc (c_vid c) (g_values g) with Some n => n | None => "?VALUE" end in
    (["DEF " ++ lname ++ " := " ++ v], ig1, g)
  | 3 =>
    let a := match c_args c with a :: _ => a | [] => 0 end in
    (["DEF " ++ lname ++ " := " ++ (if c_ptrfield c then "&" else "") ++ arg_name ig1 a ++ "." ++ c_name c], ig1, g)
  | _ => (["?KIND"], ig1, g)
  end.

Fixpoint emit_calls (inj : injector) (cs : list call) (is : list instr) (ig : igst) (g : gst) (acc : list string)
  : list string * igst * gst :=
  match cs, is with
  | c :: r, ins :: ir => let '(ls, ig', g') := emit_call inj c ins ig g in emit_calls inj r ir ig' g' (lapp acc ls)
  | _, _ => (acc, ig, g)
  end.

(* one run of injectPass; the caller decides whether the lines are kept *)
Definition inject_pass (inj : injector) (cs : list call) (g : gst) : list string * gst :=
  let ig0 := mkIG [] [] [] (disamb_in (file_names g) "err") in
  let '(ps, ig1, g1) := emit_params (i_params inj) (i_variadic inj) ig0 g [] in
  let '(outs, g2) := type_string tdepth g1 (i_out inj) in
  let results := lapp [outs] (lapp (if i_cleanup inj then ["func()"] else []) (if i_err inj then ["error"] else [])) in
  let sig := "SIG " ++ i_name inj ++ "(" ++ join ", " ps ++ ") -> " ++ join ", " results in
  let code := Exec.emit (map pstep_of cs) (i_cleanup inj) in
  let '(body, ig2, g3) := emit_calls inj cs (Exec.body code) ig1 g2 [] in
  let rv := match cs with
            | [] => nth (i_argidx inj) (ig_params ig2) "?ARGIDX"
            | _ => last (ig_locals ig2) "?NOLOCAL"
            end in
  let ret := "RET " ++ rv ++
             (match ret_cleanups code with
              | Some l => ", func(){" ++ join ";" (map (cleanup_call (ig_cleanups ig2)) l) ++ "}"
              | None => ""
              end) ++
             (if i_err inj then ", nil" else "") in
  (sig :: snoc body ret, g3).

(* value expressions: pieces of text with package references to be re-qualified *)
Inductive piece := PText (s : string) | PPkg (p : nat).

Fixpoint render_pieces (ps : list piece) (g : gst) (acc : string) : string * gst :=
  match ps with
  | [] => (acc, g)
  | PText s :: r => render_pieces r g (acc ++ s)
  | PPkg p :: r =>
    let '(q, g') := qualify_import g p in
    render_pieces r g' (acc ++ (if String.eqb q "" then "" else q ++ "."))
  end.

Record valinfo := mkVI { vi_id : nat; vi_type : nat; vi_expr : list piece }.

(* gen.inject after solve and the checks: name the value variables, run both passes, print the variables *)
Fixpoint name_values (vs : list valinfo) (cs : list call) (g : gst) (pending : list valinfo) : gst * list valinfo :=
  match cs with
  | [] => (g, pending)
  | c :: r =>
    if Nat.eqb (c_kind c) 2 then
      match nassoc (c_vid c) (g_values g) with
      | Some _ => name_values vs r g pending
      | None =>
        match find (fun v => Nat.eqb (vi_id v) (c_vid c)) vs with
        | None => name_values vs r g pending
        | Some vi =>
          let n := tvn_in (file_names g) (tv_names (vi_type vi)) ""
                          (fun name => "_wire" ++ export name ++ "Value") in
          name_values vs r (mkG (g_imports g) (snoc (g_values g) (c_vid c, n))) (snoc pending vi)
        end
      end
    else name_values vs r g pending
  end.

Fixpoint emit_vars (pending : list valinfo) (g : gst) (acc : list string) : list string * gst :=
  match pending with
  | [] => (acc, g)
  | vi :: r =>
    let n := match nassoc (vi_id vi) (g_values g) with Some n => n | None => "?VALUE" end in
    let '(e, g') := render_pieces (vi_expr vi) g EmptyString in
    emit_vars r g' (snoc acc ("VAR " ++ n ++ " = " ++ e))
  end.

Definition inject (inj : injector) (vs : list valinfo) (cs : list call) (g : gst) : list string * gst :=
  let '(g1, pending) := name_values vs cs g [] in
  let '(_, g2) := inject_pass inj cs g1 in
  let '(lines, g3) := inject_pass inj cs g2 in
  let '(vars, g4) := emit_vars pending g3 [] in
  (lapp lines vars, g4).

(* frame(): the import block lists g.imports sorted by path (Imports.v) *)
Definition import_lines (g : gst) : list string := Imports.import_block (g_imports g).

End E.

(* ---------------- whole-case evaluation for the correspondence ---------------- *)
Inductive gen_result :=
| GErr (st : stage) (ds : list diag)
| GOk (lines : list string) (imports : list string).

Definition arg_index (pm : pmap entry) (out : nat) : nat :=
  match look pm out with
  | Some e => match e_what e with WhArg i => i | _ => 0 end
  | None => 0
  end.

Definition generate1 (E : env) (tyorder : list nat) (root : rset) (inj : injector) (vs : list valinfo) : gen_result :=
  match analyze tyorder root (map snd (i_params inj)) (i_out inj) (i_cleanup inj) (i_err inj) with
  | RErr st ds => GErr st ds
  | ROk pm cs =>
    (* injectPass with no calls: set.For(out).Arg().Index -- read from the provider map, bindings included *)
    let inj' := mkInj (i_name inj) (i_params inj) (i_variadic inj) (i_out inj) (i_cleanup inj) (i_err inj)
                      (arg_index pm (i_out inj)) in
    let '(lines, g) := inject E inj' vs cs (mkG [] []) in
    GOk lines (import_lines g)
  end.

Inductive gen_observed :=
| GOErr (st : stage) (ds : list diag)
| GOOk (lines : list string) (imports : list string).

Definition gen_agrees (r : gen_result) (o : gen_observed) : bool :=
  match r, o with
  | GErr st ds, GOErr st' ds' => stage_eqb st st' && perm_eqb diag_eqb ds ds'
  | GOk l i, GOOk l' i' => list_eqb String.eqb l l' && list_eqb String.eqb i i'
  | _, _ => false
  end.

Record gcase := mkGCase {
  gk_id : nat; gk_env : env; gk_order : list nat; gk_root : rset; gk_inj : injector;
  gk_vals : list valinfo;
  gk_anon : list nat;        (* ids of anonymous inline sets: Wire's "unused provider set" message has no name for them *)
  gk_obs : gen_observed }.

(* projection onto what the message can tell: an unused anonymous set is reported without a name *)
Definition anon_diag (anon : list nat) (d : diag) : diag :=
  match d with
  | DUnusedSet i => if existsb (Nat.eqb i) anon then DUnusedSet 0 else d
  | _ => d
  end.

Definition project_anon (anon : list nat) (r : gen_result) : gen_result :=
  match r with
  | GErr st ds => GErr st (map (anon_diag anon) ds)
  | _ => r
  end.

Definition run_gcase (k : gcase) : gen_result :=
  generate1 (gk_env k) (gk_order k) (gk_root k) (gk_inj k) (gk_vals k).

Definition gmismatches (ks : list gcase) : list nat :=
  map gk_id (filter (fun k => negb (gen_agrees (project_anon (gk_anon k) (run_gcase k)) (gk_obs k))) ks).
