From Coq Require Import List Arith Lia Bool Relations.
From Wire Require Import Sets Solve SolveBound Model Show.
Import ListNotations.

(* C19 (show): gather's grouping loop finishes, within a bound linear in the size of the set, on every set whose
   dependency relation is acyclic -- i.e. on every set that parse.go:Load keeps.  The loop is step-for-step the
   planner's stack machine (Solve.machine) on a derived map: inputs are "missing" types, every other type is a
   provider of its dependencies written in reverse (gather pushes the unvisited dependencies in order, so the last
   one is on top; solve pushes them so that the first one is).  The planner's bound (SolveBound) then transfers. *)

Section Sim.
Variable deps : nat -> list nat.
Variable is_input : nat -> bool.

Definition pmg (t : nat) : option provided :=
  if is_input t then None else Some {| conc := t; wh := WProv (rev (deps t)) 0 |}.

Notation gstep := (Show.gstep deps is_input).
Notation grun := (Show.grun deps is_input).
Notation sstep := (Solve.step pmg 0).
Notation smachine := (Solve.machine pmg 0).

Definition R (gs : gstate) (ss : st) : Prop := forall t, Show.unvisited gs t = negb (indexed ss t).

Lemma filter_rev_eq {A} (f : A -> bool) l : filter f (rev l) = rev (filter f l).
Proof.
  induction l as [|x r IH]; cbn; auto. rewrite filter_app, IH. cbn. destruct (f x); cbn; [reflexivity|rewrite app_nil_r; reflexivity].
Qed.

Lemma unvisited_R gs ss l : R gs ss -> Solve.unvisited ss (rev l) = rev (filter (Show.unvisited gs) l).
Proof.
  intros H. unfold Solve.unvisited. rewrite filter_rev_eq. f_equal. apply filter_ext. intros a. rewrite (H a). reflexivity.
Qed.

Lemma indexed_cons_eq ix cs es t v a :
  indexed {| index := (t, v) :: ix; calls := cs; errs := es |} a = (Nat.eqb t a || indexed {| index := ix; calls := cs; errs := es |} a)%bool.
Proof. unfold indexed. cbn [index lookup]. destruct (Nat.eqb t a); reflexivity. Qed.

Lemma indexed_only_ix s s' a : index s = index s' -> indexed s a = indexed s' a.
Proof. unfold indexed. intros ->. reflexivity. Qed.

Lemma R_mark gs ss t v (s' : st) g' :
  R gs ss -> index s' = (t, v) :: index ss -> (forall k, Show.unvisited g' k = false <-> k = t \/ Show.unvisited gs k = false) -> R g' s'.
Proof.
  intros H Hi Hg k. specialize (Hg k). rewrite (H k) in Hg.
  assert (E : indexed s' k = (Nat.eqb t k || indexed ss k)%bool).
  { unfold indexed. rewrite Hi. cbn [lookup]. destruct (Nat.eqb t k); reflexivity. }
  rewrite E. destruct (Show.unvisited g' k) eqn:U.
  - destruct (Nat.eqb t k) eqn:Ek.
    + apply Nat.eqb_eq in Ek. subst. assert (false = true) by (symmetry; apply Hg; auto). discriminate.
    + cbn. destruct (indexed ss k); auto. assert (true = false) by (apply Hg; auto). discriminate.
  - destruct (proj1 Hg eq_refl) as [->|Hk]; [rewrite Nat.eqb_refl; reflexivity|].
    destruct (indexed ss k); [rewrite orb_true_r; reflexivity|discriminate].
Qed.

Lemma mark_visits gs t k : Show.unvisited (mkGS ((t, None) :: iv gs) (groups gs)) k = false <-> k = t \/ Show.unvisited gs k = false.
Proof.
  unfold Show.unvisited. cbn [iv]. rewrite Show.ivget_cons. destruct (Nat.eqb t k) eqn:E.
  - apply Nat.eqb_eq in E. subst. tauto.
  - apply Nat.eqb_neq in E. split; auto. intros [->|H]; auto. congruence.
Qed.

Lemma finish_index ss t k args s' : finish 0 ss t k args = Some s' -> exists v, index s' = (t, v) :: index ss.
Proof.
  unfold finish. destruct (arg_slots ss args) as [[l|]|]; intros H; inversion H; subst; cbn; eauto.
Qed.

(* one iteration of gather's inner loop = one iteration of the planner's loop on pmg *)
Lemma sim_step gs ss curr rest : R gs ss ->
  snd (gstep gs curr rest) = fst (sstep curr rest ss) /\ R (fst (gstep gs curr rest)) (snd (sstep curr rest ss)).
Proof.
  intros H. unfold Show.gstep, Solve.step. rewrite (H curr).
  destruct (indexed ss curr) eqn:Ei; cbn [negb]; [split; auto|].
  unfold pmg. destruct (is_input curr) eqn:Ein.
  - cbn [fst snd]. split; auto. apply (R_mark gs ss curr Abort (add_err ss curr) _ H eq_refl). apply mark_visits.
  - cbn [conc wh]. rewrite Nat.eqb_refl. cbn [negb].
    rewrite (unvisited_R gs ss (deps curr) H).
    destruct (filter (Show.unvisited gs) (deps curr)) as [|u un] eqn:Ef.
    + cbn [rev].
      assert (Hu : Solve.unvisited ss (rev (deps curr)) = []) by (rewrite (unvisited_R gs ss _ H), Ef; reflexivity).
      destruct (finish 0 ss curr (CProv 0) (rev (deps curr))) as [s'|] eqn:Ef2.
      * cbn [fst snd]. split; auto. destruct (finish_index _ _ _ _ _ Ef2) as (v & Hv).
        apply (R_mark gs ss curr v s' _ H Hv). apply (Show.place_visits deps is_input).
      * exfalso. unfold finish in Ef2. pose proof (arg_slots_some ss _ Hu) as Hs.
        destruct (arg_slots ss (rev (deps curr))) as [[l|]|]; try discriminate. congruence.
    + destruct (rev (u :: un)) as [|n l] eqn:Er.
      { exfalso. apply (f_equal (@length nat)) in Er. rewrite rev_length in Er. discriminate. }
      cbn [fst snd]. split; auto.
Qed.

(* the planner's step only conses onto the rest of the stack *)
Lemma sstep_app curr rest x ss : fst (sstep curr (rest ++ x) ss) = fst (sstep curr rest ss) ++ x /\ snd (sstep curr (rest ++ x) ss) = snd (sstep curr rest ss).
Proof.
  unfold Solve.step. destruct (indexed ss curr); [auto|].
  destruct (pmg curr) as [pv|]; [|auto].
  destruct (negb (conc pv =? curr)).
  - destruct (lookup (index ss) (conc pv)); cbn [fst snd]; auto.
  - destruct (wh pv) as [i|args pid|vid|parent fid]; cbn [fst snd]; auto.
    + destruct (Solve.unvisited ss args) as [|u0 ur]; cbn [fst snd].
      * destruct (finish 0 ss curr (CProv pid) args); auto.
      * split; auto. rewrite <- app_assoc. reflexivity.
    + destruct (lookup (index ss) parent); cbn [fst snd]; auto.
      destruct (finish 0 ss curr (CField fid) [parent]); auto.
Qed.

Lemma grun_more : forall f gs stk pending g, grun f gs stk pending = Some g -> forall k, grun (k + f) gs stk pending = Some g.
Proof.
  induction f as [|f IH]; intros gs stk pending g H k; [discriminate|].
  replace (k + S f) with (S (k + f)) by lia. cbn [Show.grun] in *.
  destruct stk as [|curr rest].
  - destruct pending as [|p pr]; [exact H|]. destruct (Show.unvisited gs p); apply IH; exact H.
  - destruct (gstep gs curr rest) as [gs1 stk1]. apply IH. exact H.
Qed.

Lemma grun_unfold f gs stk pending : grun (S f) gs stk pending =
  match stk with
  | curr :: rest => let '(s', stk') := gstep gs curr rest in grun f s' stk' pending
  | [] => match pending with
          | [] => Some gs
          | k :: r => if Show.unvisited gs k then grun f gs [k] r else grun f gs [] r
          end
  end.
Proof. reflexivity. Qed.

(* the outer loop over the outputs, run as one stack *)
Lemma grun_of_machine : forall fuel stk pending gs ss r,
  R gs ss -> smachine fuel (stk ++ pending) ss = Some r ->
  exists g, grun (2 * fuel + 1) gs stk pending = Some g.
Proof.
  induction fuel as [|f IH]; intros stk pending gs ss r HR Hm; [discriminate|].
  replace (2 * S f + 1) with (S (S (2 * f + 1))) by lia.
  destruct stk as [|curr rest].
  - cbn [app] in Hm. destruct pending as [|k pr].
    + rewrite grun_unfold. eauto.
    + rewrite grun_unfold. rewrite (HR k). rewrite step1 in Hm.
      destruct (indexed ss k) eqn:Ei; cbn [negb].
      * unfold Solve.step in Hm. rewrite Ei in Hm.
        destruct (IH [] pr gs ss r HR Hm) as (g & Hg).
        exists g. replace (S (2 * f + 1)) with (1 + (2 * f + 1)) by lia.
        apply (grun_more _ _ _ _ _ Hg).
      * (* dispatch, then the first step on [k] *)
        rewrite grun_unfold.
        destruct (sim_step gs ss k [] HR) as (E1 & E2).
        destruct (sstep_app k [] pr ss) as (A1 & A2). cbn [app] in A1, A2.
        destruct (sstep k pr ss) as [stk2 ss2] eqn:Es. cbn [fst snd] in *.
        destruct (gstep gs k []) as [gs1 stk1] eqn:Eg. cbn [fst snd] in *.
        rewrite A2 in Hm. rewrite A1 in Hm. subst stk1.
        apply (IH _ _ _ _ _ E2 Hm).
  - cbn [app] in Hm. rewrite step1 in Hm. rewrite grun_unfold.
    destruct (sim_step gs ss curr rest HR) as (E1 & E2).
    destruct (sstep_app curr rest pending ss) as (A1 & A2).
    destruct (sstep curr (rest ++ pending) ss) as [stk2 ss2] eqn:Es. cbn [fst snd] in *.
    destruct (gstep gs curr rest) as [gs1 stk1] eqn:Eg. cbn [fst snd] in *.
    subst stk2 ss2 stk1.
    destruct (IH _ _ _ _ _ E2 Hm) as (g & Hg). exists g.
    replace (S (2 * f + 1)) with (1 + (2 * f + 1)) by lia. apply (grun_more _ _ _ _ _ Hg).
Qed.

(* ---- termination with an explicit bound, for an acyclic dependency relation *)
Variable keys : list nat.
Hypothesis keys_cover : forall t, is_input t = false -> In t keys.

Definition D (t a : nat) : Prop := is_input t = false /\ In a (deps t).
Hypothesis Hac : forall t, ~ clos_trans nat D t t.

Lemma pmg_keys t pv : pmg t = Some pv -> In t keys.
Proof. unfold pmg. destruct (is_input t) eqn:E; [discriminate|]. intros _. apply keys_cover. exact E. Qed.

Lemma dep_D t a : dep pmg t a -> D t a.
Proof.
  intros H. destruct H as [t pv Hp Hc|t pv args pid a Hp Hc Hw Hin|t pv parent fid Hp Hc Hw];
    unfold pmg in Hp; destruct (is_input t) eqn:E; try discriminate; injection Hp as <-; cbn in *.
  - congruence.
  - injection Hw as <- _. split; auto. apply in_rev. exact Hin.
  - discriminate.
Qed.

Lemma dep_D_trans x y : clos_trans nat (dep pmg) x y -> clos_trans nat D x y.
Proof.
  induction 1 as [x y H|x y z _ IH1 _ IH2].
  - apply t_step. apply dep_D. exact H.
  - eapply t_trans; eauto.
Qed.

Lemma pmg_acyclic : acyclic pmg.
Proof. intros t Hc. apply (Hac t). apply dep_D_trans. exact Hc. Qed.

Lemma pmg_args_indexed s : args_indexed pmg s.
Proof.
  intros t pv i Hp Hc Hw. unfold pmg in Hp. destruct (is_input t); [discriminate|]. injection Hp as <-. cbn in Hw. discriminate.
Qed.

Lemma visit_list_total : forall l s, exists s', visit_list pmg 0 (length keys + 2) l s = Some s'.
Proof.
  induction l as [|a r IH]; intros s; cbn [Solve.visit_list]; [eauto|].
  destruct (visit_total pmg 0 keys pmg_keys pmg_acyclic (length keys + 2) a [] s) as (s1 & H1 & _).
  - cbn. exact I.
  - constructor.
  - intros x [].
  - cbn. lia.
  - apply pmg_args_indexed.
  - rewrite H1. apply IH.
Qed.

Definition s_empty : st := {| index := []; calls := []; errs := [] |}.

Lemma R_init : R Show.gs0 s_empty.
Proof. intros t. reflexivity. Qed.

Theorem gather_terminates outputs :
  exists g, grun (2 * (length outputs + Wmax pmg keys + 1) + 1) Show.gs0 [] outputs = Some g.
Proof.
  destruct (visit_list_total outputs s_empty) as (s' & Hv).
  pose proof (solve_sim_bounded pmg 0 keys pmg_keys pmg_acyclic (length keys + 2)) as HP.
  destruct (Pb_Qb pmg 0 keys _ HP outputs s_empty s' Hv []) as (k & B & Hk).
  pose proof (Ws_le_Wmax pmg keys s') as Hle.
  assert (Hm : smachine (length outputs + Wmax pmg keys + 1) (outputs ++ []) s_empty = Some s').
  { rewrite app_nil_r. pose proof (Hk 1) as H1. rewrite app_nil_r in H1. cbn [Solve.machine] in H1.
    assert (Hk1 : k <= length outputs + Wmax pmg keys) by lia.
    replace (length outputs + Wmax pmg keys + 1) with ((length outputs + Wmax pmg keys - k) + (k + 1)) by (clear -Hk1; lia).
    apply machine_more'. exact H1. }
  rewrite app_nil_r in Hm.
  apply (grun_of_machine _ [] outputs Show.gs0 s_empty s' R_init). cbn [app]. exact Hm.
Qed.
End Sim.

(* ------------------------------------------------------------------ on a provider map *)
From Wire Require Import Acyclic ModelThms.

Lemma wt_pmg_le pm k : wt (pmg (succ_of pm) (pm_is_input pm)) k <= 1 + List.length (succ_of pm k).
Proof.
  unfold wt, deg, pmg. destruct (pm_is_input pm k); [lia|]. cbn [conc wh]. rewrite Nat.eqb_refl. cbn [negb].
  rewrite rev_length. lia.
Qed.

Lemma Wmax_pmg_le pm : Wmax (pmg (succ_of pm) (pm_is_input pm)) (keys pm) <=
  List.length pm + fold_right (fun kv n => List.length (succ_of pm (fst kv)) + n) 0 pm.
Proof.
  unfold Wmax.
  assert (G : forall l : pmap entry,
            fold_right (fun k n => wt (pmg (succ_of pm) (pm_is_input pm)) k + n) 0 (keys l) <=
            List.length l + fold_right (fun kv n => List.length (succ_of pm (fst kv)) + n) 0 l).
  { induction l as [|[k e] r IH]; [cbn; lia|]. unfold keys in *. cbn [map fst fold_right List.length].
    pose proof (wt_pmg_le pm k). lia. }
  apply G.
Qed.

Lemma D_path pm x y : clos_trans nat (D (succ_of pm) (pm_is_input pm)) x y -> path (succ_of pm) x y.
Proof.
  induction 1 as [x y [_ H]|x y z _ IH1 _ IH2].
  - apply path1. exact H.
  - eapply path_trans; eauto.
Qed.

(* `wire show`: the grouping loop completes within the model's explicit linear bound on every provider map whose
   dependency graph is acyclic *)
Theorem show_groups_terminates tyorder pm : NoDup (keys pm) -> verify tyorder pm = [] ->
  exists g, show_groups pm (keys pm) = Some g.
Proof.
  intros Hnd Hv.
  assert (Hcover : forall t, pm_is_input pm t = false -> In t (keys pm)).
  { intros t H. unfold pm_is_input in H. destruct (look pm t) as [e|] eqn:E; [|discriminate].
    destruct (in_dec Nat.eq_dec t (keys pm)) as [?|Hn]; auto.
    apply (look_None_keys entry imp_payload bind_payload) in Hn. congruence. }
  assert (Hac : forall t, ~ clos_trans nat (D (succ_of pm) (pm_is_input pm)) t t).
  { intros t Hc. apply (proj1 (verify_acyclic_iff_total tyorder pm Hnd) Hv). exists t. apply D_path. exact Hc. }
  destruct (gather_terminates (succ_of pm) (pm_is_input pm) (keys pm) Hcover Hac (keys pm)) as (g & Hg).
  unfold show_groups.
  pose proof (Wmax_pmg_le pm) as Hw. unfold keys in Hw at 1.
  assert (Hlen : List.length (keys pm) = List.length pm) by (unfold keys; apply map_length).
  set (need := 2 * (List.length (keys pm) + Wmax (pmg (succ_of pm) (pm_is_input pm)) (keys pm) + 1) + 1) in *.
  assert (Hfuel : need <= show_fuel pm + 2 * List.length (keys pm)).
  { unfold need, show_fuel. unfold keys in *. rewrite map_length in *. lia. }
  replace (show_fuel pm + 2 * List.length (keys pm)) with ((show_fuel pm + 2 * List.length (keys pm) - need) + need) by lia.
  rewrite (grun_more (succ_of pm) (pm_is_input pm) need Show.gs0 [] (keys pm) g Hg). eauto.
Qed.
