From Coq Require Import List Arith Bool Lia Relations.
From Wire Require Import Solve.
Import ListNotations.

(* analyze.go:solve's `used` list, exactly: at the end of the loop it consists of the keys that were indexed by
   the run (not already indexed at the start) and have a source in the set. *)

Section Used.
Variable pmc : nat -> option provided.
Variable given : nat.

Lemma indexed_set_idx s t v x : indexed (set_idx s t v) x = true -> x = t \/ indexed s x = true.
Proof.
  destruct s as [ix cs es]. unfold set_idx. simpl. intros H.
  exact (proj1 (indexed_cons_iff {| index := ix; calls := cs; errs := es |} t v x cs es) H).
Qed.
Lemma indexed_add_err s t x : indexed (add_err s t) x = true -> x = t \/ indexed s x = true.
Proof.
  destruct s as [ix cs es]. unfold add_err. simpl. intros H.
  exact (proj1 (indexed_cons_iff {| index := ix; calls := cs; errs := es |} t Abort x cs (es ++ [t])) H).
Qed.
Lemma indexed_add_call s t k l x : indexed (add_call given s t k l) x = true -> x = t \/ indexed s x = true.
Proof.
  destruct s as [ix cs es]. unfold add_call. simpl. intros H.
  exact (proj1 (indexed_cons_iff {| index := ix; calls := cs; errs := es |} t _ x _ es) H).
Qed.

Lemma finish_only s t k al s' x : finish given s t k al = Some s' -> indexed s' x = true -> x = t \/ indexed s x = true.
Proof.
  unfold finish. destruct (arg_slots s al) as [[l|]|]; intros H; inversion H; subst.
  - apply indexed_add_call.
  - apply indexed_set_idx.
Qed.

(* one iteration of the loop *)
Lemma step_facts t stk s stk2 s2 :
  args_indexed pmc s -> step pmc given t stk s = (stk2, s2) ->
  (exists pre, stk2 = pre ++ stk) /\ ext s s2 /\
  (forall x, indexed s2 x = true -> x = t \/ indexed s x = true) /\
  (indexed s t = false -> pmc t <> None -> indexed s2 t = true \/ In t stk2).
Proof.
  intros Ha. unfold step. destruct (indexed s t) eqn:Ei.
  { intros H; injection H as <- <-. split; [exists []; reflexivity|]. split; [apply ext_refl|]. split; [auto|discriminate]. }
  destruct (pmc t) as [pv|] eqn:Ep.
  2:{ intros H; injection H as <- <-. split; [exists []; reflexivity|]. split; [apply ext_add_err|].
      split; [apply indexed_add_err|]. intros _ Hn. congruence. }
  destruct (negb (conc pv =? t)) eqn:Ec.
  - destruct (lookup (index s) (conc pv)) as [i|] eqn:El; intros H; injection H as <- <-.
    + split; [exists []; reflexivity|]. split; [apply ext_set_idx|]. split; [apply indexed_set_idx|].
      intros _ _. left. apply set_idx_indexed.
    + split; [exists [conc pv; t]; reflexivity|]. split; [apply ext_refl|]. split; [auto|].
      intros _ _. right. right. left. reflexivity.
  - apply negb_false_iff in Ec. apply Nat.eqb_eq in Ec.
    assert (Hfin : forall k al s', finish given s t k al = Some s' ->
              (exists pre : list nat, stk = pre ++ stk) /\ ext s s' /\
              (forall x, indexed s' x = true -> x = t \/ indexed s x = true) /\
              (false = false -> Some pv <> None -> indexed s' t = true \/ In t stk)).
    { intros k al s' Hf. split; [exists []; reflexivity|]. split; [eapply ext_finish; eauto|].
      split; [intros x; eapply finish_only; eauto|]. intros _ _. left. eapply finish_indexed; eauto. }
    destruct (wh pv) as [i|al pid|vid|parent fid] eqn:Ew.
    + exfalso. rewrite (Ha t pv i Ep Ec Ew) in Ei. discriminate.
    + destruct (unvisited s al) as [|u0 ur] eqn:Eu.
      * destruct (finish given s t (CProv pid) al) as [s'|] eqn:Ef; intros H; injection H as <- <-.
        -- eapply Hfin; eauto.
        -- exfalso. unfold finish in Ef. pose proof (arg_slots_some s al Eu) as Hs.
           destruct (arg_slots s al) as [[l|]|]; try discriminate. congruence.
      * intros H; injection H as <- <-. split; [exists ((u0 :: ur) ++ [t]); rewrite <- app_assoc; reflexivity|].
        split; [apply ext_refl|]. split; [auto|]. intros _ _. right. apply (in_or_app (u0 :: ur) (t :: stk)). right. left. reflexivity.
    + intros H; injection H as <- <-. split; [exists []; reflexivity|]. split; [apply ext_add_call|].
      split; [apply indexed_add_call|]. intros _ _. left. apply add_call_indexed.
    + destruct (lookup (index s) parent) as [ip|] eqn:El.
      * destruct (finish given s t (CField fid) [parent]) as [s'|] eqn:Ef; intros H; injection H as <- <-.
        -- eapply Hfin; eauto.
        -- exfalso. unfold finish in Ef. cbn [arg_slots] in Ef. rewrite El in Ef. destruct ip; discriminate.
      * intros H; injection H as <- <-. split; [exists [parent; t]; reflexivity|].
        split; [apply ext_refl|]. split; [auto|]. intros _ _. right. right. left. reflexivity.
Qed.

Section Inv.
Variable s0 : st.

Definition UInv (stk : list nat) (s : st) (u : list nat) : Prop :=
  (forall x, In x u -> pmc x <> None /\ indexed s0 x = false /\ (indexed s x = true \/ In x stk)) /\
  (forall x, indexed s x = true -> indexed s0 x = true \/ pmc x = None \/ In x u) /\
  ext s0 s.

Lemma UInv_step t stk s u stk2 s2 :
  args_indexed pmc s0 -> step pmc given t stk s = (stk2, s2) -> UInv (t :: stk) s u -> UInv stk2 s2 (marks pmc t s u).
Proof.
  intros Ha0 Hs (I1 & I2 & I3).
  assert (Ha : args_indexed pmc s) by (eapply args_indexed_ext; eauto).
  destruct (step_facts _ _ _ _ _ Ha Hs) as ((pre & Hpre) & Hext & Honly & Hnew).
  split; [|split].
  - intros x Hx. unfold marks in Hx.
    assert (Hold : In x u -> pmc x <> None /\ indexed s0 x = false /\ (indexed s2 x = true \/ In x stk2)).
    { intros Hu. destruct (I1 x Hu) as (A & B & C). split; auto. split; auto.
      destruct C as [C|[C|C]].
      - left. apply Hext. exact C.
      - subst x. destruct (indexed s t) eqn:Ei; [left; apply Hext; exact Ei|]. apply Hnew; auto.
      - right. rewrite Hpre. apply in_or_app. right. exact C. }
    destruct (indexed s t) eqn:Ei; [auto|].
    destruct (pmc t) eqn:Ep; [|auto].
    apply in_app_or in Hx. destruct Hx as [Hx|[<-|[]]]; [auto|].
    split; [congruence|]. split.
    + destruct (indexed s0 t) eqn:E0; auto. rewrite (I3 t E0) in Ei. discriminate.
    + apply Hnew; auto. congruence.
  - intros x Hx. destruct (Honly x Hx) as [->|Hx0].
    + destruct (indexed s t) eqn:Ei.
      * destruct (I2 t Ei) as [A|[A|A]]; auto. right. right. unfold marks. rewrite Ei. exact A.
      * destruct (pmc t) eqn:Ep; auto. right. right. unfold marks. rewrite Ei, Ep. apply in_or_app. right. left. reflexivity.
    + destruct (I2 x Hx0) as [A|[A|A]]; auto. right. right. unfold marks.
      destruct (indexed s t); auto. destruct (pmc t); auto. apply in_or_app. left. exact A.
  - eapply ext_trans; eauto.
Qed.

Lemma machine2_UInv : forall fuel stk s u s' u',
  args_indexed pmc s0 -> machine2 pmc given fuel stk s u = Some (s', u') -> UInv stk s u -> UInv [] s' u'.
Proof.
  induction fuel as [|f IH]; intros stk s u s' u' Ha H HI; [discriminate|].
  cbn [machine2] in H. destruct stk as [|t stk'].
  - inversion H; subst. exact HI.
  - destruct (step pmc given t stk' s) as [stk2 s2] eqn:Es. eapply IH; eauto. eapply UInv_step; eauto.
Qed.
End Inv.

(* C08: the used list, exactly *)
Theorem machine2_used_exactly fuel out s0 s' u' :
  args_indexed pmc s0 -> machine2 pmc given fuel [out] s0 [] = Some (s', u') ->
  forall x, In x u' <-> (indexed s' x = true /\ indexed s0 x = false /\ pmc x <> None).
Proof.
  intros Ha H.
  assert (H0 : UInv s0 [out] s0 []).
  { split; [intros x []|]. split; [auto|apply ext_refl]. }
  destruct (machine2_UInv s0 _ _ _ _ _ _ Ha H H0) as (I1 & I2 & I3).
  intros x. split.
  - intros Hx. destruct (I1 x Hx) as (A & B & [C|[]]). auto.
  - intros (A & B & C). destruct (I2 x A) as [D|[D|D]]; auto; congruence.
Qed.
End Used.
