From Coq Require Import List Arith Bool String Ascii.
From Wire Require Import Sets Acyclic Solve Names Front.
Import ListNotations.

(* The concrete executable model of Wire's analysis (internal/wire/analyze.go and the tail of
   parse.go:processNewSet, wire.go:gen.inject's checks).  It is defined THROUGH the proved cores
   (Sets.process, Acyclic.mrootsL, Solve.machine2), so their theorems apply to it by unfolding.
   Types are nat ids; items carry the ids the harness gave them (Go pointer identity). *)

Record provider := mkProv {
  pv_id : nat; pv_pkg : nat; pv_name : string;
  pv_args : list nat; pv_fields : list string;      (* parameter types; field names (struct providers) *)
  pv_varargs : bool; pv_struct : bool;
  pv_outs : list nat; pv_cleanup : bool; pv_err : bool }.
Record value := mkVal { vl_id : nat; vl_out : nat; vl_ok : bool }.   (* vl_ok: accessibleFrom the injector's package *)
Record field := mkField { fd_id : nat; fd_pkg : nat; fd_parent : nat; fd_name : string; fd_outs : list nat }.
Record binding := mkBind { bd_id : nat; bd_iface : nat; bd_conc : nat }.

(* wire.Struct(new(T), lits...) as written: the struct's declared fields (with tags) and the source text of
   the field-name literals; parse.go:processStructProvider turns it into a provider or a diagnostic *)
Record sprov := mkSProv {
  sp_id : nat; sp_pkg : nat; sp_name : string; sp_t : nat; sp_tptr : nat;
  sp_fields : list sfield; sp_lits : list string }.

Inductive rset :=
| RSet (id : nat) (imports : list rset) (provs : list provider) (sprovs : list sprov) (vals : list value)
       (flds : list field) (binds : list binding).

(* item error classes *)
Definition ec_dup_param := 1.
Definition ec_dup_field := 2.
Definition ec_not_field := 3.
Definition ec_prevented := 4.

Fixpoint select_fields (lits : list string) (fields : list sfield) (id : nat) : list sfield + serr :=
  match lits with
  | [] => inl []
  | l :: r =>
    match check_field l fields with
    | CfNotField => inr (SItem ec_not_field id)
    | CfPrevented => inr (SItem ec_prevented id)
    | CfOk f => match select_fields r fields id with inl fs => inl (f :: fs) | inr e => inr e end
    end
  end.

Definition struct_provider (s : sprov) : provider + serr :=
  let sel := if all_fields (sp_lits s) then inl (star_fields (sp_fields s))
             else select_fields (sp_lits s) (sp_fields s) (sp_id s) in
  match sel with
  | inr e => inr e
  | inl fs =>
    match first_dup (map sf_type fs) [] with
    | Some t => inr (SItem ec_dup_field t)
    | None => inl (mkProv (sp_id s) (sp_pkg s) (sp_name s) (map sf_type fs) (map sf_name fs)
                          false true [sp_t s; sp_tptr s] false false)
    end
  end.

Definition func_provider_errs (p : provider) : list serr :=
  if pv_struct p then [] else
  match first_dup (pv_args p) [] with Some t => [SItem ec_dup_param t] | None => [] end.

Definition sprov_errs (s : sprov) : list serr :=
  match struct_provider s with inr e => [e] | inl _ => [] end.
Definition sprov_oks (s : sprov) : list provider :=
  match struct_provider s with inl p => [p] | inr _ => [] end.

Definition all_provs (provs : list provider) (sprovs : list sprov) : list provider :=
  provs ++ flat_map sprov_oks sprovs.

Inductive what := WhArg (i : nat) | WhProv (p : provider) | WhVal (v : value) | WhField (f : field).
Inductive src := SArg (i : nat) | SProv (id : nat) | SVal (id : nat) | SField (id : nat) | SBind (id : nat) | SImport (sid : nat).
Record entry := mkEntry { e_conc : nat; e_what : what; e_src : src }.

Definition imp_payload (sid : nat) (e : entry) : entry := mkEntry (e_conc e) (e_what e) (SImport sid).
Definition bind_payload (bid : nat) (e : entry) : entry := mkEntry (e_conc e) (e_what e) (SBind bid).

Fixpoint arg_entries (i : nat) (args : list nat) : list (nat * entry) :=
  match args with
  | [] => []
  | t :: r => (t, mkEntry t (WhArg i) (SArg i)) :: arg_entries (S i) r
  end.

Definition prov_entries (p : provider) : list (nat * entry) :=
  map (fun t => (t, mkEntry t (WhProv p) (SProv (pv_id p)))) (pv_outs p).
Definition val_entry (v : value) : nat * entry := (vl_out v, mkEntry (vl_out v) (WhVal v) (SVal (vl_id v))).
Definition field_entries (f : field) : list (nat * entry) :=
  map (fun t => (t, mkEntry t (WhField f) (SField (fd_id f)))) (fd_outs f).
Definition bind_triple (b : binding) : nat * nat * nat := (bd_iface b, bd_conc b, bd_id b).

Definition direct_entries (provs : list provider) (vals : list value) (flds : list field) : list (nat * entry) :=
  flat_map prov_entries provs ++ map val_entry vals ++ flat_map field_entries flds.

Fixpoint to_core (args : list nat) (s : rset) : pset entry :=
  match s with
  | RSet id imports provs sprovs vals flds binds =>
    PSet id (arg_entries 0 args)
         ((fix go (l : list rset) : list (pset entry) :=
             match l with [] => [] | x :: r => to_core [] x :: go r end) imports)
         (flat_map func_provider_errs provs ++ flat_map sprov_errs sprovs)
         (direct_entries (all_provs provs sprovs) vals flds)
         (map bind_triple binds)
  end.

(* ---------------- verifyAcyclic ---------------- *)
Definition succ_of (pm : pmap entry) (t : nat) : list nat :=
  match look pm t with
  | Some e => match e_what e with
              | WhProv p => pv_args p
              | WhField f => [fd_parent f]
              | _ => []
              end
  | None => []
  end.

Definition acyc_fuel (pm : pmap entry) : nat :=
  3 + List.length pm + fold_right (fun kv n => List.length (succ_of pm (fst kv)) + n) 0 pm.

Section WithOrder.
(* every type id of the case, sorted the way verifyAcyclic sorts its roots (by type string);
   supplied by the harness *)
Variable tyorder : list nat.

(* the sorted keys; keys the supplied order does not mention (none, when the harness did its job) come last, so
   every key is a root whatever the order says *)
Definition roots_of (pm : pmap entry) : list nat :=
  filter (fun t => existsb (Nat.eqb t) (keys pm)) tyorder ++
  filter (fun t => negb (existsb (Nat.eqb t) tyorder)) (keys pm).

Definition verify (pm : pmap entry) : list serr :=
  match mrootsL (succ_of pm) (acyc_fuel pm) (roots_of pm) [] [] with
  | Some (_, cycles) => map SCycle cycles
  | None => [SFuel]
  end.

Definition process_set (args : list nat) (s : rset) : pmap entry + list serr :=
  process imp_payload bind_payload verify (to_core args s).

(* ---------------- solve ---------------- *)
Definition core_what (w : what) : Solve.what :=
  match w with
  | WhArg i => WArg i
  | WhProv p => WProv (pv_args p) (pv_id p)
  | WhVal v => WVal (vl_id v)
  | WhField f => WField (fd_parent f) (fd_id f)
  end.

Definition core_pm (pm : pmap entry) (t : nat) : option Solve.provided :=
  match look pm t with
  | Some e => Some {| conc := e_conc e; wh := core_what (e_what e) |}
  | None => None
  end.

Definition solve_fuel (pm : pmap entry) : nat :=
  4 + 2 * (List.length pm + fold_right (fun kv n => List.length (succ_of pm (fst kv)) + n) 0 pm).

Definition init_state (args : list nat) : st :=
  {| index := combine args (map Slot (seq 0 (List.length args))); calls := []; errs := [] |}.

Inductive diag :=
| DMulti (t : nat) | DBindMissing (i c : nat) | DCycle (l : list nat) | DFuel
| DNoProvider (t : nat)
| DUnusedSet (sid : nat) | DUnusedProv (id : nat) | DUnusedVal (id : nat) | DUnusedBind (id : nat) | DUnusedField (id : nat)
| DNeedsCleanup (t : nat) | DNeedsErr (t : nat) | DValueAccess (t : nat) | DProvAccess (t : nat)
| DItem (code : nat) (t : nat).

Definition diag_of_serr (e : serr) : diag :=
  match e with
  | SMulti t => DMulti t
  | SBindMissing i c => DBindMissing i c
  | SCycle l => DCycle l
  | SFuel => DFuel
  | SItem c t => DItem c t
  end.

Definition src_eqb (a b : src) : bool :=
  match a, b with
  | SArg x, SArg y | SProv x, SProv y | SVal x, SVal y | SField x, SField y
  | SBind x, SBind y | SImport x, SImport y => Nat.eqb x y
  | _, _ => false
  end.

Definition used_in (used : list src) (s : src) : bool := existsb (src_eqb s) used.

Definition rset_id (s : rset) : nat := match s with RSet id _ _ _ _ _ _ => id end.

(* analyze.go:verifyArgsUsed: imports, providers, values, bindings, fields, in that order *)
Definition verify_args_used (root : rset) (used : list src) : list diag :=
  match root with
  | RSet _ imports provs sprovs vals flds binds =>
    map (fun s => DUnusedSet (rset_id s)) (filter (fun s => negb (used_in used (SImport (rset_id s)))) imports) ++
    map (fun p => DUnusedProv (pv_id p)) (filter (fun p => negb (used_in used (SProv (pv_id p)))) (all_provs provs sprovs)) ++
    map (fun v => DUnusedVal (vl_id v)) (filter (fun v => negb (used_in used (SVal (vl_id v)))) vals) ++
    map (fun b => DUnusedBind (bd_id b)) (filter (fun b => negb (used_in used (SBind (bd_id b)))) binds) ++
    map (fun f => DUnusedField (fd_id f)) (filter (fun f => negb (used_in used (SField (fd_id f)))) flds)
  end.

Record call := mkCall {
  c_kind : nat;            (* 0 funcProviderCall, 1 structProvider, 2 valueExpr, 3 selectorExpr *)
  c_out : nat; c_pkg : nat; c_name : string; c_args : list nat; c_varargs : bool;
  c_fields : list string; c_ins : list nat; c_cleanup : bool; c_err : bool; c_ptrfield : bool;
  c_vid : nat; c_vok : bool }.

Definition nth_eqb (l : list nat) (i : nat) (t : nat) : bool :=
  match nth_error l i with Some x => Nat.eqb x t | None => false end.

Definition decorate (pm : pmap entry) (c : Solve.call) : call :=
  let t := Solve.c_out c in
  match look pm t with
  | Some e =>
    match e_what e with
    | WhProv p =>
      mkCall (if pv_struct p then 1 else 0) t (pv_pkg p) (pv_name p) (Solve.c_args c) (pv_varargs p)
             (if pv_struct p then pv_fields p else []) (pv_args p) (pv_cleanup p) (pv_err p) false 0 true
    | WhVal v => mkCall 2 t 0 EmptyString [] false [] [] false false false (vl_id v) (vl_ok v)
    | WhField f =>
      mkCall 3 t (fd_pkg f) (fd_name f) (Solve.c_args c) false [] [] false false
             (Nat.eqb (List.length (fd_outs f)) 2 && nth_eqb (fd_outs f) 1 t) 0 true
    | WhArg _ => mkCall 9 t 0 EmptyString [] false [] [] false false false 0 true
    end
  | None => mkCall 9 t 0 EmptyString [] false [] [] false false false 0 true
  end.

Definition src_of (pm : pmap entry) (t : nat) : list src :=
  match look pm t with Some e => [e_src e] | None => [] end.

Definition solve (pm : pmap entry) (root : rset) (args : list nat) (out : nat) : list call + list diag :=
  match machine2 (core_pm pm) (List.length args) (solve_fuel pm) [out] (init_state args) [] with
  | None => inr [DFuel]
  | Some (s, usedk) =>
    match errs s with
    | _ :: _ => inr (map DNoProvider (errs s))
    | [] =>
      match verify_args_used root (flat_map (src_of pm) usedk) with
      | [] => inl (map (decorate pm) (calls s))
      | e => inr e
      end
    end
  end.

(* go/ast.IsExported on the ASCII identifiers of the model *)
Definition is_exported (s : string) : bool :=
  match s with String c _ => is_upper c | EmptyString => false end.

(* wire.go:gen.inject, the checks between solve and emission *)
Definition inject_checks (sig_cleanup sig_err : bool) (cs : list call) : list diag :=
  flat_map (fun c =>
    (if c_cleanup c && negb sig_cleanup then [DNeedsCleanup (c_out c)] else []) ++
    (if c_err c && negb sig_err then [DNeedsErr (c_out c)] else []) ++
    (if Nat.eqb (c_kind c) 2 then (if negb (c_vok c) then [DValueAccess (c_out c)] else [])
     else if negb (Nat.eqb (c_pkg c) 0) && negb (forallb is_exported (c_name c :: c_fields c)) then [DProvAccess (c_out c)]
     else [])) cs.

Inductive stage := StSet | StSolve | StInject.

Inductive result :=
| RErr (st : stage) (ds : list diag)
| ROk (pm : pmap entry) (cs : list call).

Definition analyze (root : rset) (args : list nat) (out : nat) (sig_cleanup sig_err : bool) : result :=
  match process_set args root with
  | inr es => RErr StSet (map diag_of_serr es)
  | inl pm =>
    match solve pm root args out with
    | inr ds => RErr StSolve ds
    | inl cs =>
      match inject_checks sig_cleanup sig_err cs with
      | [] => ROk pm cs
      | ds => RErr StInject ds
      end
    end
  end.

(* parse.go:Load (wire check / wire show): the second driver loop runs processNewSet, solve and -- since the
   repair of the check/gen disagreement -- injectorCallErrors for every injector, like gen.inject *)
Definition load_analyze (root : rset) (args : list nat) (out : nat) (sig_cleanup sig_err : bool) : result :=
  match process_set args root with
  | inr es => RErr StSet (map diag_of_serr es)
  | inl pm =>
    match solve pm root args out with
    | inr ds => RErr StSolve ds
    | inl cs =>
      match inject_checks sig_cleanup sig_err cs with
      | [] => ROk pm cs
      | ds => RErr StInject ds
      end
    end
  end.

End WithOrder.

(* ---------------- boolean comparison with observations (correspondence harness) ---------------- *)
Fixpoint list_eqb {A} (eqb : A -> A -> bool) (l1 l2 : list A) : bool :=
  match l1, l2 with
  | [], [] => true
  | x :: r, y :: s => eqb x y && list_eqb eqb r s
  | _, _ => false
  end.

Definition diag_eqb (a b : diag) : bool :=
  match a, b with
  | DMulti x, DMulti y | DNoProvider x, DNoProvider y
  | DUnusedSet x, DUnusedSet y | DUnusedProv x, DUnusedProv y | DUnusedVal x, DUnusedVal y
  | DUnusedBind x, DUnusedBind y | DUnusedField x, DUnusedField y
  | DNeedsCleanup x, DNeedsCleanup y | DNeedsErr x, DNeedsErr y | DValueAccess x, DValueAccess y
  | DProvAccess x, DProvAccess y => Nat.eqb x y
  | DBindMissing i c, DBindMissing i' c' | DItem i c, DItem i' c' => Nat.eqb i i' && Nat.eqb c c'
  | DCycle l, DCycle l' => list_eqb Nat.eqb l l'
  | DFuel, DFuel => true
  | _, _ => false
  end.

Fixpoint remove1 {A} (eqb : A -> A -> bool) (x : A) (l : list A) : option (list A) :=
  match l with
  | [] => None
  | y :: r => if eqb x y then Some r else match remove1 eqb x r with Some r' => Some (y :: r') | None => None end
  end.

(* multiset equality *)
Fixpoint perm_eqb {A} (eqb : A -> A -> bool) (l1 l2 : list A) : bool :=
  match l1 with
  | [] => match l2 with [] => true | _ => false end
  | x :: r => match remove1 eqb x l2 with Some l2' => perm_eqb eqb r l2' | None => false end
  end.

Definition call_eqb (a b : call) : bool :=
  Nat.eqb (c_kind a) (c_kind b) && Nat.eqb (c_out a) (c_out b) && Nat.eqb (c_pkg a) (c_pkg b) &&
  String.eqb (c_name a) (c_name b) && list_eqb Nat.eqb (c_args a) (c_args b) &&
  Bool.eqb (c_varargs a) (c_varargs b) && list_eqb String.eqb (c_fields a) (c_fields b) &&
  list_eqb Nat.eqb (c_ins a) (c_ins b) && Bool.eqb (c_cleanup a) (c_cleanup b) &&
  Bool.eqb (c_err a) (c_err b) && Bool.eqb (c_ptrfield a) (c_ptrfield b) &&
  Nat.eqb (c_vid a) (c_vid b).

Definition stage_eqb (a b : stage) : bool :=
  match a, b with StSet, StSet | StSolve, StSolve | StInject, StInject => true | _, _ => false end.

(* projection of a provider-map entry: key, concrete, kind, item id; and of its source *)
Definition what_row (w : what) : nat * nat :=
  match w with
  | WhArg i => (0, i) | WhProv p => (1, pv_id p) | WhVal v => (2, vl_id v) | WhField f => (3, fd_id f)
  end.
Definition src_row (s : src) : nat * nat :=
  match s with
  | SArg i => (0, i) | SProv i => (1, i) | SVal i => (2, i) | SField i => (3, i) | SBind i => (4, i) | SImport i => (5, i)
  end.
Definition pm_row (kv : nat * entry) : list nat :=
  let '(k, e) := kv in
  [k; e_conc e; fst (what_row (e_what e)); snd (what_row (e_what e)); fst (src_row (e_src e)); snd (src_row (e_src e))].

(* observed: what the implementation reported for the same case *)
Inductive observed :=
| OErr (st : stage) (ds : list diag)
| OOk (rows : list (list nat)) (cs : list call).

Definition agrees (r : result) (o : observed) : bool :=
  match r, o with
  | RErr st ds, OErr st' ds' => stage_eqb st st' && perm_eqb diag_eqb ds ds'
  | ROk pm cs, OOk rows cs' =>
    perm_eqb (list_eqb Nat.eqb) (map pm_row pm) rows && list_eqb call_eqb cs cs'
  | _, _ => false
  end.

Record case := mkCase {
  k_id : nat; k_order : list nat; k_root : rset; k_args : list nat; k_out : nat;
  k_cleanup : bool; k_err : bool; k_obs : observed }.

Definition run_case (k : case) : result :=
  analyze (k_order k) (k_root k) (k_args k) (k_out k) (k_cleanup k) (k_err k).

Definition mismatches (ks : list case) : list nat :=
  map k_id (filter (fun k => negb (agrees (run_case k) (k_obs k))) ks).
