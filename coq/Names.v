From Coq Require Import List Arith Lia Bool String Ascii DecimalString DecimalNat Decimal FinFun.
Import ListNotations.
Local Open Scope string_scope.

(* wire.go naming helpers: disambiguate (the loop `for n := 2; ; n++` as a fuelled loop, with the proof that
   fuel |bad|+1 suffices and the result is fresh), unexport, export, typeVariableName (ASCII identifiers). *)

Definition itoa (n : nat) : string := NilEmpty.string_of_uint (Nat.to_uint n).

Lemma itoa_inj n m : itoa n = itoa m -> n = m.
Proof.
  unfold itoa. intros H.
  assert (Some (Nat.to_uint n) = Some (Nat.to_uint m)) as H'.
  { rewrite <- (NilEmpty.usu (Nat.to_uint n)), <- (NilEmpty.usu (Nat.to_uint m)). rewrite H. reflexivity. }
  inversion H' as [H'']. apply (f_equal Nat.of_uint) in H''.
  rewrite !DecimalNat.Unsigned.of_to in H''. exact H''.
Qed.

Lemma append_cancel_l (b x y : string) : b ++ x = b ++ y -> x = y.
Proof. induction b as [|c b IH]; simpl; intros H; [exact H|]. inversion H. auto. Qed.

Section D.
Variable is_kw : string -> bool.
Variable collides : string -> bool.

Definition ok (s : string) : bool := negb (is_kw s) && negb (collides s).

Fixpoint loop (fuel n : nat) (base : string) : option string :=
  match fuel with
  | 0 => None
  | S f => let c := base ++ itoa n in if ok c then Some c else loop f (S n) base
  end.

Definition last_is_digit (s : string) : bool :=
  match String.length s with
  | 0 => false
  | S k => match String.get k s with
           | Some c => (Nat.leb 48 (nat_of_ascii c)) && (Nat.leb (nat_of_ascii c) 57)
           | None => false
           end
  end.

Definition disambiguate (fuel : nat) (name : string) : option string :=
  if ok name then Some name
  else let base := if last_is_digit name then name ++ "_" else name in
       loop fuel 2 base.

(* finite support of the two predicates *)
Variable bad : list string.
Hypothesis bad_ok : forall s, ok s = false -> In s bad.

Definition cands (base : string) (n fuel : nat) : list string :=
  map (fun k => base ++ itoa k) (seq n fuel).

Lemma cands_nodup base n fuel : NoDup (cands base n fuel).
Proof.
  unfold cands. apply FinFun.Injective_map_NoDup; [|apply seq_NoDup].
  intros a b H. apply append_cancel_l in H. apply itoa_inj; auto.
Qed.

Lemma loop_none base : forall fuel n, loop fuel n base = None -> incl (cands base n fuel) bad.
Proof.
  induction fuel as [|f IH]; intros n H; cbn [loop cands seq map] in *.
  - intros x [].
  - destruct (ok (base ++ itoa n)) eqn:E; [discriminate|].
    intros x [<-|Hx]; [apply bad_ok; auto|]. apply (IH (S n)); auto.
Qed.

Lemma loop_some base : forall fuel n r, loop fuel n base = Some r -> ok r = true.
Proof.
  induction fuel as [|f IH]; intros n r H; cbn [loop] in H; [discriminate|].
  destruct (ok (base ++ itoa n)) eqn:E; [inversion H; subst; auto|eauto].
Qed.

Theorem loop_terminates base n fuel : List.length bad < fuel -> exists r, loop fuel n base = Some r /\ ok r = true.
Proof.
  intros Hf. destruct (loop fuel n base) as [r|] eqn:E.
  - exists r. split; auto. eapply loop_some; eauto.
  - exfalso. apply loop_none in E.
    assert (List.length (cands base n fuel) <= List.length bad)
      by (apply NoDup_incl_length; auto using cands_nodup).
    unfold cands in H. rewrite map_length, seq_length in H. lia.
Qed.

Theorem disambiguate_fresh name :
  exists r, disambiguate (S (List.length bad)) name = Some r /\ is_kw r = false /\ collides r = false.
Proof.
  unfold disambiguate. destruct (ok name) eqn:E.
  - exists name. split; auto. unfold ok in E. apply andb_true_iff in E. destruct E as [E1 E2].
    split; [destruct (is_kw name)|destruct (collides name)]; auto; discriminate.
  - destruct (loop_terminates (if last_is_digit name then name ++ "_" else name) 2 (S (List.length bad))) as (r & Hr & Hok); [lia|].
    exists r. split; auto. unfold ok in Hok. apply andb_true_iff in Hok. destruct Hok as [E1 E2].
    split; [destruct (is_kw r)|destruct (collides r)]; auto; discriminate.
Qed.
End D.



(* ---------------- Go keywords (go/token) ---------------- *)
Definition keywords : list string :=
  ["break"; "case"; "chan"; "const"; "continue"; "default"; "defer"; "else"; "fallthrough"; "for"; "func";
   "go"; "goto"; "if"; "import"; "interface"; "map"; "package"; "range"; "return"; "select"; "struct";
   "switch"; "type"; "var"].
Definition is_keyword (s : string) : bool := existsb (String.eqb s) keywords.

(* ---------------- unexport / export ---------------- *)
Definition is_upper (c : ascii) : bool := let n := nat_of_ascii c in Nat.leb 65 n && Nat.leb n 90.
Definition is_lower (c : ascii) : bool := let n := nat_of_ascii c in Nat.leb 97 n && Nat.leb n 122.
Definition to_lower (c : ascii) : ascii := if is_upper c then ascii_of_nat (nat_of_ascii c + 32) else c.
Definition to_upper (c : ascii) : ascii := if is_lower c then ascii_of_nat (nat_of_ascii c - 32) else c.

(* the loop of unexport: l starts at the current (second or later) rune *)
Fixpoint unexport_tail (l : string) : string :=
  match l with
  | String r rest =>
    if is_upper r then
      match rest with
      | String r2 _ => if is_lower r2 then l else String (to_lower r) (unexport_tail rest)
      | EmptyString => String (to_lower r) EmptyString
      end
    else l
  | EmptyString => EmptyString
  end.

Definition unexport (name : string) : string :=
  match name with
  | EmptyString => EmptyString
  | String r rest =>
    if negb (is_upper r) then name
    else match rest with
         | EmptyString => String (to_lower r) EmptyString
         | String r2 _ => if negb (is_upper r2) then String (to_lower r) rest
                          else String (to_lower r) (unexport_tail rest)
         end
  end.

Definition export (name : string) : string :=
  match name with
  | EmptyString => EmptyString
  | String r rest => if is_upper r then name else String (to_upper r) rest
  end.

(* strings.Title on an identifier: only the first letter changes *)
Definition title (name : string) : string :=
  match name with
  | EmptyString => EmptyString
  | String r rest => String (to_upper r) rest
  end.

(* ---------------- disambiguate with the real keyword table and explicit fuel ---------------- *)
Definition disamb (fuel : nat) (collides : string -> bool) (name : string) : option string :=
  disambiguate is_keyword collides fuel name.

(* typeVariableName: names = the candidate names derived from the type (already computed from the type
   descriptor: [] when nothing can be derived) *)
Definition type_variable_name (fuel : nat) (names : list string) (default : string)
           (transform : string -> string) (collides : string -> bool) : option string :=
  let names1 := match names with [] => [default] | _ => names end in
  let names2 := map transform names1 in
  match find (fun n => negb (is_keyword n) && negb (collides n)) names2 with
  | Some n => Some n
  | None => match names2 with
            | n0 :: _ => disamb fuel collides n0
            | [] => None
            end
  end.

(* sanity: TestDisambiguate's and TestUnexport's tables *)
Definition coll (l : list string) (s : string) : bool := existsb (String.eqb s) l.
Example disamb_table :
  (disamb 10 (coll []) "foo", disamb 10 (coll ["foo"]) "foo", disamb 10 (coll ["foo"; "foo1"; "foo2"]) "foo",
   disamb 10 (coll ["foo"; "foo1"; "foo2"]) "foo1", disamb 10 (coll []) "select", disamb 10 (coll []) "var")
  = (Some "foo", Some "foo2", Some "foo3", Some "foo1_2", Some "select2", Some "var2").
Proof. vm_compute. reflexivity. Qed.
Example unexport_table :
  map unexport [""; "a"; "ab"; "A"; "AB"; "A_"; "ABc"; "ABC"; "AB_"; "foo"; "Foo"; "HTTPClient"; "HTTPSClient"; "ID"]
  = [""; "a"; "ab"; "a"; "ab"; "a_"; "aBc"; "abc"; "ab_"; "foo"; "foo"; "httpClient"; "httpsClient"; "id"].
Proof. vm_compute. reflexivity. Qed.
