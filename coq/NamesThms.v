From Coq Require Import List Arith Bool String Lia.
From Wire Require Import Names Sets Model Exec Emit ModelThms.
Import ListNotations.

(* C14: every name injectPass invents is fresh with respect to everything it must avoid, hence parameter
   names, local names and cleanup names of one injector are pairwise distinct and differ from the error
   variable and from every name of the file scope known at that moment. *)

Lemma coll_false_notin bad s : coll bad s = false -> ~ In s bad.
Proof.
  unfold coll. intros H Hin. assert (existsb (String.eqb s) bad = true); [|congruence].
  apply existsb_exists. exists s. split; auto. apply String.eqb_refl.
Qed.

Lemma coll_true_in bad s : coll bad s = true -> In s bad.
Proof.
  unfold coll. intros H. apply existsb_exists in H. destruct H as (x & Hx & E). apply String.eqb_eq in E. subst. auto.
Qed.

Lemma keyword_in s : is_keyword s = true -> In s keywords.
Proof.
  unfold is_keyword. intros H. apply existsb_exists in H. destruct H as (x & Hx & E). apply String.eqb_eq in E. subst. auto.
Qed.

(* disambiguate with the model's fuel always succeeds and returns a name outside the collision list that is
   no keyword *)
Lemma disamb_in_fresh bad name : ~ In (disamb_in bad name) bad /\ is_keyword (disamb_in bad name) = false.
Proof.
  unfold disamb_in, disamb.
  destruct (disambiguate_fresh is_keyword (coll bad) (keywords ++ bad)%list) with (name := name) as (r & Hr & Hk & Hc).
  { intros s Hs. unfold ok in Hs. apply andb_false_iff in Hs. apply in_or_app. destruct Hs as [Hs|Hs].
    - left. apply keyword_in. destruct (is_keyword s); auto; discriminate.
    - right. apply coll_true_in. destruct (coll bad s); auto; discriminate. }
  rewrite app_length in Hr. rewrite Hr. split; auto. apply coll_false_notin; auto.
Qed.

Lemma tvn_in_fresh bad names d tr : ~ In (tvn_in bad names d tr) bad /\ is_keyword (tvn_in bad names d tr) = false.
Proof.
  unfold tvn_in, type_variable_name.
  set (names2 := map tr match names with [] => [d] | _ :: _ => names end).
  destruct (find (fun n => negb (is_keyword n) && negb (coll bad n)) names2) as [n|] eqn:F.
  - apply find_some in F. destruct F as [_ F]. apply andb_true_iff in F. destruct F as [F1 F2].
    split; [apply coll_false_notin; destruct (coll bad n); auto; discriminate|destruct (is_keyword n); auto; discriminate].
  - destruct names2 as [|n0 r] eqn:E.
    + exfalso. unfold names2 in E. destruct names; discriminate.
    + exact (disamb_in_fresh bad n0).
Qed.

Section Distinct.
Variable E : env.

Definition inj_locals (ig : igst) : list string := (ig_params ig ++ ig_locals ig ++ ig_cleanups ig)%list.

(* the state invariant: the injector's own names are pairwise distinct and none is the error variable *)
Definition names_ok (ig : igst) : Prop := NoDup (inj_locals ig) /\ ~ In (ig_err ig) (inj_locals ig).

Lemma in_inj_names ig g x : In x (inj_locals ig) -> In x (inj_names E ig g).
Proof.
  unfold inj_locals, inj_names, lapp. intros H. right.
  apply in_app_or in H. destruct H as [H|H]; [apply in_or_app; auto|].
  apply in_or_app. right. apply in_app_or in H. destruct H as [H|H]; apply in_or_app; auto.
  right. apply in_or_app; auto.
Qed.

Lemma err_in_inj_names ig g : In (ig_err ig) (inj_names E ig g).
Proof. unfold inj_names. left. reflexivity. Qed.

Lemma NoDup_insert_mid (a b c : list string) x :
  NoDup (a ++ b ++ c) -> ~ In x (a ++ b ++ c) -> NoDup (a ++ (b ++ [x]) ++ c).
Proof.
  intros Hnd Hn.
  replace (a ++ (b ++ [x]) ++ c)%list with ((a ++ b) ++ x :: c)%list by (rewrite <- !app_assoc; reflexivity).
  apply (NoDup_Add (Add_app x (a ++ b) c)). rewrite <- app_assoc. split; auto.
Qed.

Lemma NoDup_snoc_end (a b c : list string) x :
  NoDup (a ++ b ++ c) -> ~ In x (a ++ b ++ c) -> NoDup (a ++ b ++ (c ++ [x])).
Proof.
  intros Hnd Hn.
  replace (a ++ b ++ c ++ [x])%list with ((a ++ b ++ c) ++ x :: [])%list by (rewrite <- !app_assoc; reflexivity).
  apply (NoDup_Add (Add_app x (a ++ b ++ c) [])). rewrite app_nil_r. split; auto.
Qed.

Lemma in_insert_mid (a b c : list string) x y :
  In y (a ++ (b ++ [x]) ++ c) -> In y (a ++ b ++ c) \/ y = x.
Proof.
  rewrite !in_app_iff. cbn. intros [H|[[H|[H|[]]]|H]]; auto.
Qed.

Lemma in_snoc_end (a b c : list string) x y :
  In y (a ++ b ++ (c ++ [x])) -> In y (a ++ b ++ c) \/ y = x.
Proof.
  rewrite !in_app_iff. cbn. intros [H|[H|[H|[H|[]]]]]; auto.
Qed.

(* the name bookkeeping of emit_call, separated from the text it prints *)
Definition emit_call_ig (c : call) (ig : igst) (g : gst) : igst :=
  let lname := tvn_in (inj_names E ig g) (tv_names E (c_out c)) "v" unexport in
  let ig1 := mkIG (ig_params ig) (snoc (ig_locals ig) lname) (ig_cleanups ig) (ig_err ig) in
  match c_kind c with
  | 0 => if c_cleanup c
         then mkIG (ig_params ig1) (ig_locals ig1) (snoc (ig_cleanups ig1) (disamb_in (inj_names E ig1 g) "cleanup")) (ig_err ig1)
         else ig1
  | _ => ig1
  end.

Lemma emit_call_ig_eq inj c ins ig g : snd (fst (emit_call E inj c ins ig g)) = emit_call_ig c ig g.
Proof.
  unfold emit_call, emit_call_ig. destruct ins as [p0 a0 cl0 he0 unwind].
  destruct (c_kind c) as [|[|[|[|k]]]].
  - destruct (c_cleanup c).
    + destruct (qualified_id E g (c_pkg c) (c_name c)) as [fn g1]. destruct (c_err c).
      * destruct (zero_value E g1 (i_out inj)) as [z g2]. reflexivity.
      * reflexivity.
    + destruct (qualified_id E g (c_pkg c) (c_name c)) as [fn g1]. destruct (c_err c).
      * destruct (zero_value E g1 (i_out inj)) as [z g2]. reflexivity.
      * reflexivity.
  - destruct (qualified_id E g (c_pkg c) (c_name c)) as [tn g1]. reflexivity.
  - reflexivity.
  - reflexivity.
  - reflexivity.
Qed.

Lemma names_ok_add_local ig x :
  names_ok ig -> ~ In x (inj_locals ig) -> x <> ig_err ig ->
  names_ok (mkIG (ig_params ig) (snoc (ig_locals ig) x) (ig_cleanups ig) (ig_err ig)).
Proof.
  intros [Hnd Herr] Hl Hle. unfold names_ok, inj_locals, snoc in *. cbn. split.
  - apply NoDup_insert_mid; auto.
  - intros Hi. apply in_insert_mid in Hi. destruct Hi as [Hi|Hi]; [apply Herr; exact Hi|apply Hle; auto].
Qed.

Lemma names_ok_add_cleanup ig x :
  names_ok ig -> ~ In x (inj_locals ig) -> x <> ig_err ig ->
  names_ok (mkIG (ig_params ig) (ig_locals ig) (snoc (ig_cleanups ig) x) (ig_err ig)).
Proof.
  intros [Hnd Herr] Hl Hle. unfold names_ok, inj_locals, snoc in *. cbn. split.
  - apply NoDup_snoc_end; auto.
  - intros Hi. apply in_snoc_end in Hi. destruct Hi as [Hi|Hi]; [apply Herr; exact Hi|apply Hle; auto].
Qed.

Lemma names_ok_add_param ig x :
  ig_locals ig = [] -> ig_cleanups ig = [] -> names_ok ig -> ~ In x (inj_locals ig) -> x <> ig_err ig ->
  names_ok (mkIG (snoc (ig_params ig) x) (ig_locals ig) (ig_cleanups ig) (ig_err ig)).
Proof.
  intros Hl Hc [Hnd Herr] Hx Hle. unfold names_ok, inj_locals, snoc in *. cbn. rewrite Hl, Hc in *.
  rewrite !app_nil_r in *. split.
  - apply (NoDup_Add (Add_app x (ig_params ig) [])). rewrite app_nil_r. split; auto.
  - intros Hi. apply in_app_or in Hi. destruct Hi as [Hi|[Hi|[]]]; [apply Herr; exact Hi|apply Hle; auto].
Qed.

Lemma emit_call_ig_ok c ig g : names_ok ig ->
  names_ok (emit_call_ig c ig g) /\ ig_err (emit_call_ig c ig g) = ig_err ig /\ ig_params (emit_call_ig c ig g) = ig_params ig.
Proof.
  intros Hok. unfold emit_call_ig.
  set (lname := tvn_in (inj_names E ig g) (tv_names E (c_out c)) "v" unexport).
  destruct (tvn_in_fresh (inj_names E ig g) (tv_names E (c_out c)) "v" unexport) as [Hfresh _]. fold lname in Hfresh.
  assert (H1 : names_ok (mkIG (ig_params ig) (snoc (ig_locals ig) lname) (ig_cleanups ig) (ig_err ig))).
  { apply names_ok_add_local; auto.
    - intros Hi. apply Hfresh. apply in_inj_names. exact Hi.
    - intros Hi. apply Hfresh. rewrite Hi. apply err_in_inj_names. }
  set (ig1 := mkIG (ig_params ig) (snoc (ig_locals ig) lname) (ig_cleanups ig) (ig_err ig)) in *.
  destruct (c_kind c) as [|k]; [|auto].
  destruct (c_cleanup c); [|auto].
  destruct (disamb_in_fresh (inj_names E ig1 g) "cleanup") as [Hcf _].
  split; [|auto]. apply names_ok_add_cleanup; auto.
  - intros Hi. apply Hcf. apply in_inj_names. exact Hi.
  - intros Hi. apply Hcf. rewrite Hi. exact (err_in_inj_names ig1 g).
Qed.

Lemma emit_calls_names_ok inj : forall (cs : list call) (is : list instr) ig g acc ls ig' g',
  emit_calls E inj cs is ig g acc = (ls, ig', g') -> names_ok ig ->
  names_ok ig' /\ ig_err ig' = ig_err ig /\ ig_params ig' = ig_params ig.
Proof.
  induction cs as [|c r IH]; intros is ig g acc ls ig' g' H Hok; cbn [emit_calls] in H.
  - injection H as _ <- _. auto.
  - destruct is as [|ins ir]; [injection H as _ <- _; auto|].
    pose proof (emit_call_ig_eq inj c ins ig g) as Eig.
    destruct (emit_call E inj c ins ig g) as [[l1 ig1] g1]. cbn [fst snd] in Eig. subst ig1.
    destruct (emit_call_ig_ok c ig g Hok) as (A & B & C).
    destruct (IH _ _ _ _ _ _ _ H A) as (A' & B' & C'). split; auto. split; congruence.
Qed.

(* the name bookkeeping of emit_params *)
Lemma emit_params_names_ok : forall ps v ig g acc out ig' g',
  emit_params E ps v ig g acc = (out, ig', g') -> ig_locals ig = [] -> ig_cleanups ig = [] -> names_ok ig ->
  names_ok ig' /\ ig_err ig' = ig_err ig /\ ig_locals ig' = [] /\ ig_cleanups ig' = [].
Proof.
  induction ps as [|[n t] r IH]; intros v ig g acc out ig' g' H Hl Hc Hok; cbn [emit_params] in H.
  - injection H as _ <- _. auto.
  - set (a := if (String.eqb n "" || String.eqb n "_")%bool
              then tvn_in (inj_names E ig g) (tv_names E t) "arg" unexport
              else disamb_in (inj_names E ig g) n) in H.
    assert (Hfresh : ~ In a (inj_names E ig g)).
    { unfold a. destruct (String.eqb n "" || String.eqb n "_")%bool; [apply tvn_in_fresh|apply disamb_in_fresh]. }
    assert (H1 : names_ok (mkIG (snoc (ig_params ig) a) (ig_locals ig) (ig_cleanups ig) (ig_err ig))).
    { apply names_ok_add_param; auto.
      - intros Hi. apply Hfresh. apply in_inj_names. exact Hi.
      - intros Hi. apply Hfresh. rewrite Hi. apply err_in_inj_names. }
    destruct r as [|p2 r2].
    + destruct v as [el|].
      * destruct (type_string E tdepth g el) as [s g1]. injection H as _ <- _. auto.
      * destruct (type_string E tdepth g t) as [s g1]. cbn [emit_params] in H. injection H as _ <- _. auto.
    + destruct (type_string E tdepth g t) as [s g1].
      assert (Hcase : emit_params E (p2 :: r2) v (mkIG (snoc (ig_params ig) a) (ig_locals ig) (ig_cleanups ig) (ig_err ig)) g1
                        (snoc acc (String.append a (String.append " " s))) = (out, ig', g')).
      { destruct v; exact H. }
      destruct (IH _ _ _ _ _ _ _ Hcase Hl Hc H1) as (A & B & C & D). auto.
Qed.

(* C14: in every generated injector, parameter names, local names and cleanup names are pairwise distinct and
   none of them is the error variable *)
Theorem inject_pass_names_distinct inj (cs : list call) g :
  exists ig, names_ok ig /\ List.length (ig_params ig) = List.length (i_params inj) /\
             ig_err ig = disamb_in (file_names E g) "err" /\ ~ In (ig_err ig) (file_names E g).
Proof.
  set (ig0 := mkIG [] [] [] (disamb_in (file_names E g) "err")).
  assert (H0 : names_ok ig0) by (split; [constructor|intros []]).
  destruct (emit_params E (i_params inj) (i_variadic inj) ig0 g []) as [[ps ig1] g1] eqn:Ep.
  destruct (emit_params_names_ok _ _ _ _ _ _ _ _ Ep eq_refl eq_refl H0) as (A & B & C & D).
  destruct (emit_calls E inj cs (Exec.body (Exec.emit (map pstep_of cs) (i_cleanup inj))) ig1
              (snd (type_string E tdepth g1 (i_out inj))) []) as [[body ig2] g3] eqn:Ec.
  destruct (emit_calls_names_ok _ _ _ _ _ _ _ _ _ Ec A) as (A2 & B2 & C2).
  exists ig2. split; auto. split.
  - rewrite C2. assert (L := emit_params_length E _ _ _ _ _ _ _ _ Ep). cbn in L. lia.
  - rewrite B2, B. cbn. split; auto. apply disamb_in_fresh.
Qed.
End Distinct.
