From Coq Require Import List Arith Lia Bool Permutation.
From Wire Require Import Sets SetsWF Perm.
Import ListNotations.

(* C10 (grouping): dissolving a nested provider set into the set that imports it -- its imports become imports of
   the parent, its providers/values/fields direct items, its bindings bindings of the parent -- leaves acceptance
   and every lookup of the provider map unchanged, up to the bookkeeping of where an entry came from (the
   payload wrappers of buildProviderMap's srcMap). *)

Section Regroup.
Variable A B : Type.
Variable imp bind : nat -> A -> A.
Variable verify : pmap A -> list serr.
Variable core : A -> B.                                 (* what an entry says, without its source *)
Hypothesis core_imp : forall s e, core (imp s e) = core e.
Hypothesis core_bind : forall b e, core (bind b e) = core e.

Definition ceq (pm pm' : pmap A) : Prop := forall t, option_map core (look pm t) = option_map core (look pm' t).
Hypothesis verify_core : forall pm pm', NoDup (keys pm) -> NoDup (keys pm') -> ceq pm pm' -> verify pm = [] -> verify pm' = [].

Notation IA es pm r := (insert_all es pm [] = (r, [])).
Notation IB bs pm r := (insert_binds bind bs pm [] = (r, [])).

Lemma ceq_refl pm : ceq pm pm.
Proof. intros t. reflexivity. Qed.
Lemma ceq_sym pm pm' : ceq pm pm' -> ceq pm' pm.
Proof. intros H t. symmetry. apply H. Qed.
Lemma ceq_trans a b c : ceq a b -> ceq b c -> ceq a c.
Proof. intros H1 H2 t. rewrite (H1 t). apply H2. Qed.

Lemma ceq_none pm pm' t : ceq pm pm' -> (look pm t = None <-> look pm' t = None).
Proof. intros H. specialize (H t). destruct (look pm t), (look pm' t); cbn in H; split; intros; congruence. Qed.

Lemma map_eq_ceq pm pm' : map_eq A pm pm' -> ceq pm pm'.
Proof. intros H t. rewrite (H t). reflexivity. Qed.

(* entries equal up to their source *)
Definition eeq (x y : nat * A) : Prop := fst x = fst y /\ core (snd x) = core (snd y).

Lemma ceq_app (pm pm' es es' : pmap A) : ceq pm pm' -> Forall2 eeq es es' -> ceq (pm ++ es) (pm' ++ es').
Proof.
  intros H F t. rewrite !(look_app A). pose proof (H t) as Ht.
  destruct (look pm t), (look pm' t); cbn in Ht; try discriminate; auto.
  clear -F. induction F as [|[k c] [k' c'] r r' [E1 E2] F IH]; cbn; auto. cbn in E1, E2. subst k'.
  destruct (k =? t); cbn; [f_equal; exact E2|exact IH].
Qed.

Lemma Forall2_eeq_keys (es es' : list (nat * A)) : Forall2 eeq es es' -> map fst es = map fst es'.
Proof. induction 1 as [|x y r r' [E _] F IH]; cbn; congruence. Qed.

(* success of a phase only asks for fresh, pairwise distinct keys *)
Lemma IA_iff (es pm : pmap A) : NoDup (keys pm) ->
  ((exists r, IA es pm r) <-> NoDup (keys pm ++ map fst es)).
Proof.
  intros Hnd. split.
  - intros (r & H). destruct (insert_all_ok A imp bind es pm r Hnd H) as [K N]. rewrite <- K. exact N.
  - apply (insert_all_succeeds A imp bind). exact Hnd.
Qed.

Lemma IA_result (es pm r : pmap A) : IA es pm r -> r = pm ++ es.
Proof. apply (insert_all_eq A). Qed.

Lemma IA_app (x y pm r : pmap A) : IA (x ++ y) pm r -> exists m, IA x pm m /\ IA y m r.
Proof.
  revert pm. induction x as [|[k c] x IH]; intros pm H; cbn [app insert_all] in *.
  - exists pm. auto.
  - destruct (look pm k) eqn:E.
    + apply (insert_all_errs_mono A) in H. destruct H as [l Hl]. destruct l; discriminate.
    + apply IH. exact H.
Qed.

Lemma IA_app_inv (x y pm m r : pmap A) : IA x pm m -> IA y m r -> IA (x ++ y) pm r.
Proof.
  revert pm. induction x as [|[k c] x IH]; intros pm H1 H2; cbn [app insert_all] in *.
  - inversion H1; subst. exact H2.
  - destruct (look pm k) eqn:E.
    + apply (insert_all_errs_mono A) in H1. destruct H1 as [l Hl]. destruct l; discriminate.
    + eapply IH; eauto.
Qed.

(* a binding phase started from a map that agrees up to sources *)
Lemma IB_ceq : forall bs pm pm' r, ceq pm pm' -> IB bs pm r ->
  exists r', IB bs pm' r' /\ ceq r r' /\ exists x x', r = pm ++ x /\ r' = pm' ++ x' /\ Forall2 eeq x x'.
Proof.
  induction bs as [|[[i c] b] rest IH]; intros pm pm' r Hc H; cbn [insert_binds] in *.
  - inversion H; subst. exists pm'. split; auto. split; auto. exists [], []. rewrite !app_nil_r. auto.
  - destruct (look pm i) eqn:Ei.
    { apply (insert_binds_errs_mono A bind) in H. destruct H as [l Hl]. destruct l; discriminate. }
    apply (ceq_none pm pm' i Hc) in Ei. rewrite Ei.
    pose proof (Hc c) as Hcc.
    destruct (look pm c) as [cc|] eqn:Ec.
    + destruct (look pm' c) as [cc'|] eqn:Ec'; [|discriminate]. cbn in Hcc. injection Hcc as Hcc.
      assert (Hc2 : ceq (pm ++ [(i, bind b cc)]) (pm' ++ [(i, bind b cc')])).
      { apply ceq_app; auto. constructor; [|constructor]. split; cbn; auto. rewrite !core_bind. exact Hcc. }
      destruct (IH _ _ _ Hc2 H) as (r' & H' & Hr & x & x' & E1 & E2 & F).
      exists r'. split; auto. split; auto. exists ((i, bind b cc) :: x), ((i, bind b cc') :: x'). subst r r'.
      split; [rewrite <- app_assoc; reflexivity|]. split; [rewrite <- app_assoc; reflexivity|].
      constructor; auto. split; cbn; auto. rewrite !core_bind. exact Hcc.
    + apply (insert_binds_errs_mono A bind) in H. destruct H as [l Hl]. destruct l; discriminate.
Qed.

(* the same binding phase on a larger map: every lookup the small map answers, the large one answers alike, and the
   interfaces are fresh in the large one *)
Definition sub (small big : pmap A) : Prop :=
  forall t e, look small t = Some e -> exists e', look big t = Some e' /\ core e = core e'.

Lemma IB_sub : forall bs small big r,
  sub small big -> IB bs small r ->
  (forall i c b, In (i, c, b) bs -> look big i = None) -> NoDup (map (fun x => fst (fst x)) bs) ->
  exists r' x x', IB bs big r' /\ r = small ++ x /\ r' = big ++ x' /\ Forall2 eeq x x' /\ sub r r'.
Proof.
  induction bs as [|[[i c] b] rest IH]; intros small big r Hs H Hfresh Hnd; cbn [insert_binds] in *.
  - inversion H; subst. exists big, [], []. rewrite !app_nil_r. auto.
  - destruct (look small i) eqn:Ei.
    { apply (insert_binds_errs_mono A bind) in H. destruct H as [l Hl]. destruct l; discriminate. }
    rewrite (Hfresh i c b (or_introl eq_refl)).
    destruct (look small c) as [cc|] eqn:Ec.
    + destruct (Hs c cc Ec) as (cc' & Ec' & Hcc). rewrite Ec'.
      cbn [map fst] in Hnd. inversion Hnd as [|? ? Hni Hnd']; subst.
      assert (Hs2 : sub (small ++ [(i, bind b cc)]) (big ++ [(i, bind b cc')])).
      { intros t e Ht. rewrite (look_app A) in Ht. rewrite (look_app A). destruct (look small t) as [e0|] eqn:Et.
        - injection Ht as <-. destruct (Hs t e0 Et) as (e' & He' & Hce). rewrite He'. eauto.
        - cbn in Ht. destruct (i =? t) eqn:E; [|discriminate]. injection Ht as <-. apply Nat.eqb_eq in E. subst t.
          rewrite (Hfresh i c b (or_introl eq_refl)). cbn. rewrite Nat.eqb_refl. eexists. split; eauto.
          rewrite !core_bind. exact Hcc. }
      destruct (IH _ _ _ Hs2 H) as (r' & x & x' & H' & E1 & E2 & F & Hs3).
      * intros i0 c0 b0 Hin. rewrite (look_app A). rewrite (Hfresh i0 c0 b0 (or_intror Hin)). cbn.
        destruct (i =? i0) eqn:E; auto. apply Nat.eqb_eq in E. subst i0. exfalso. apply Hni.
        apply (in_map (fun x : nat * nat * nat => fst (fst x)) rest (i, c0, b0) Hin).
      * exact Hnd'.
      * exists r', ((i, bind b cc) :: x), ((i, bind b cc') :: x'). subst r r'.
        split; [exact H'|]. split; [rewrite <- app_assoc; reflexivity|]. split; [rewrite <- app_assoc; reflexivity|].
        split; [|exact Hs3]. constructor; auto. split; cbn; auto. rewrite !core_bind. exact Hcc.
    + apply (insert_binds_errs_mono A bind) in H. destruct H as [l Hl]. destruct l; discriminate.
Qed.

Lemma IB_app : forall x y pm r, IB (x ++ y) pm r <-> exists m, IB x pm m /\ IB y m r.
Proof.
  induction x as [|[[i c] b] x IH]; intros y pm r; cbn [app insert_binds].
  - split; [intros H; exists pm; auto|intros (m & H1 & H2); inversion H1; subst; exact H2].
  - destruct (look pm i) eqn:Ei.
    { split.
      - intros H. apply (insert_binds_errs_mono A bind) in H. destruct H as [l Hl]. destruct l; discriminate.
      - intros (m & H & _). apply (insert_binds_errs_mono A bind) in H. destruct H as [l Hl]. destruct l; discriminate. }
    destruct (look pm c) as [cc|] eqn:Ec.
    + apply IH.
    + split.
      * intros H. apply (insert_binds_errs_mono A bind) in H. destruct H as [l Hl]. destruct l; discriminate.
      * intros (m & H & _). apply (insert_binds_errs_mono A bind) in H. destruct H as [l Hl]. destruct l; discriminate.
Qed.

Lemma IB_keys : forall bs pm r, IB bs pm r -> exists x, r = pm ++ x /\ map fst x = map (fun z => fst (fst z)) bs.
Proof.
  induction bs as [|[[i c] b] rest IH]; intros pm r H; cbn [insert_binds] in H.
  - inversion H; subst. exists []. rewrite app_nil_r. auto.
  - destruct (look pm i) eqn:Ei.
    { apply (insert_binds_errs_mono A bind) in H. destruct H as [l Hl]. destruct l; discriminate. }
    destruct (look pm c) as [cc|] eqn:Ec.
    + destruct (IH _ _ H) as (x & E & K). exists ((i, bind b cc) :: x). rewrite E, <- app_assoc. split; auto. cbn. f_equal. exact K.
    + apply (insert_binds_errs_mono A bind) in H. destruct H as [l Hl]. destruct l; discriminate.
Qed.

Lemma look_perm_ceq (l l' : pmap A) : Permutation l l' -> NoDup (keys l) -> ceq l l'.
Proof. intros HP Hnd. apply map_eq_ceq. intros t. apply (look_NoDup_perm A); auto. Qed.

Lemma imp_entries_eeq s (m : pmap A) : Forall2 eeq (imp_entries A imp (s, m)) m.
Proof.
  unfold imp_entries. cbn [fst snd]. induction m as [|[k c] r IH]; cbn; [constructor|].
  constructor; [|exact IH]. split; cbn; auto.
Qed.

Lemma Forall2_eeq_app (a a' b b' : pmap A) : Forall2 eeq a a' -> Forall2 eeq b b' -> Forall2 eeq (a ++ b) (a' ++ b').
Proof. intros H1 H2. apply Forall2_app; auto. Qed.

Lemma Forall2_eeq_refl (l : pmap A) : Forall2 eeq l l.
Proof. induction l; constructor; auto. split; auto. Qed.

Lemma sub_of_ceq_prefix (p q : pmap A) : NoDup (keys (p ++ q)) -> sub p (p ++ q).
Proof.
  intros _ t e H. exists e. split; auto. apply (look_app_l A). exact H.
Qed.

Lemma sub_trans_ceq small big big' : sub small big -> ceq big big' -> sub small big'.
Proof.
  intros Hs Hc t e H. destruct (Hs t e H) as (e' & He' & Hce). pose proof (Hc t) as Ht. rewrite He' in Ht.
  destruct (look big' t) as [e''|]; cbn in Ht; [|discriminate]. injection Ht as Ht. exists e''. split; auto. congruence.
Qed.

Lemma ceq_keys_none_app (pm : pmap A) es t : ~ In t (keys pm) -> ~ In t (map fst es) -> look (pm ++ es) t = None.
Proof.
  intros H1 H2. apply (look_None_keys A imp bind). rewrite (keys_app A). intros Hin. apply in_app_or in Hin. destruct Hin; auto.
Qed.

(* ---------------------------------------------------------------- build1 as three successful phases *)
Lemma build1_elim a ms d b pm : build1 imp bind a ms d b = inl pm ->
  exists m1 m2, IA (a ++ flat_map (imp_entries A imp) ms) [] m1 /\ IA d m1 m2 /\ IB b m2 pm.
Proof.
  unfold build1.
  destruct (insert_all (a ++ flat_map (imp_entries A imp) ms) [] []) as [m1 e1] eqn:H1. destruct e1; [|discriminate].
  destruct (insert_all d m1 []) as [m2 e2] eqn:H2. destruct e2; [|discriminate].
  destruct (insert_binds bind b m2 []) as [m3 e3] eqn:H3. destruct e3; [|discriminate].
  intros H. injection H as <-. exists m1, m2. auto.
Qed.

Lemma build1_intro a ms d b m1 m2 pm :
  IA (a ++ flat_map (imp_entries A imp) ms) [] m1 -> IA d m1 m2 -> IB b m2 pm -> build1 imp bind a ms d b = inl pm.
Proof. intros H1 H2 H3. unfold build1. rewrite H1, H2, H3. reflexivity. Qed.

Lemma NoDup_app_l (x y : list nat) : NoDup (x ++ y) -> NoDup x.
Proof. induction x as [|k x IH]; cbn; intros H; [constructor|]. inversion H; subst. constructor; auto. intros Hi. apply H2. apply in_or_app; auto. Qed.
Lemma NoDup_app_r (x y : list nat) : NoDup (x ++ y) -> NoDup y.
Proof. induction x as [|k x IH]; cbn; intros H; auto. inversion H; auto. Qed.
Lemma NoDup_app_disj (x y : list nat) t : NoDup (x ++ y) -> In t x -> ~ In t y.
Proof.
  induction x as [|k x IH]; cbn; intros H Hi Hy; [destruct Hi|]. destruct Hi as [->|Hi].
  - inversion H; subst. apply H2. apply in_or_app; auto.
  - inversion H; subst. eapply IH; eauto.
Qed.

Lemma Forall2_len {X Y} (R : X -> Y -> Prop) l l' : Forall2 R l l' -> length l = length l'.
Proof. induction 1; cbn; auto. Qed.

Lemma ceq_lists (es es' : pmap A) : Forall2 eeq es es' -> ceq es es'.
Proof. intros F. apply (ceq_app [] [] es es'); auto. apply ceq_refl. Qed.

Lemma flat_map_imp_app (x y : list (nat * pmap A)) :
  flat_map (imp_entries A imp) (x ++ y) = flat_map (imp_entries A imp) x ++ flat_map (imp_entries A imp) y.
Proof. apply flat_map_app. Qed.

(* ---------------------------------------------------------------- one level: the child's map dissolved *)
(* args a; the child (id cid, imports' maps cms, direct cd, bindings cb) listed first among the imports; the other
   imports' maps ms; the parent's own direct items d and bindings b *)
Theorem build1_flatten a cid cms cd cb pmc ms d b pm :
  build1 imp bind [] cms cd cb = inl pmc ->
  build1 imp bind a ((cid, pmc) :: ms) d b = inl pm ->
  exists pm', build1 imp bind a (cms ++ ms) (cd ++ d) (cb ++ b) = inl pm' /\ ceq pm pm' /\ length pm = length pm'.
Proof.
  intros Hc Hp.
  assert (N0 : NoDup (keys (@nil (nat * A)))) by (cbn; constructor).
  (* --- the child: pmc = F ++ cd ++ BEc *)
  destruct (build1_elim _ _ _ _ _ Hc) as (c1 & c2 & C1 & C2 & C3). cbn [app] in C1.
  set (F := flat_map (imp_entries A imp) cms) in *.
  pose proof (IA_result _ _ _ C1) as E1. cbn [app] in E1. subst c1.
  pose proof (IA_result _ _ _ C2) as E2. subst c2.
  destruct (IB_keys _ _ _ C3) as (BEc & E3 & K3).
  (* --- the parent: M2 = a ++ Ic ++ R ++ d, then the bindings b *)
  destruct (build1_elim _ _ _ _ _ Hp) as (p1 & p2 & P1 & P2 & P3). cbn [flat_map] in P1.
  set (R := flat_map (imp_entries A imp) ms) in *.
  set (Ic := imp_entries A imp (cid, pmc)) in *.
  pose proof (IA_result _ _ _ P1) as Q1. cbn [app] in Q1. subst p1.
  pose proof (IA_result _ _ _ P2) as Q2. subst p2.
  assert (ND2 : NoDup (keys ((a ++ Ic ++ R) ++ d))).
  { destruct (insert_all_ok A imp bind _ _ _ N0 P1) as [_ N1].
    destruct (insert_all_ok A imp bind _ _ _ N1 P2) as [_ N2]. exact N2. }
  assert (FIc : Forall2 eeq Ic pmc) by apply imp_entries_eeq.
  (* the parent's map with the child's entries unwrapped, and rearranged *)
  set (M2u := (a ++ pmc ++ R) ++ d).
  set (M2r := ((a ++ F ++ R) ++ cd ++ d) ++ BEc).
  assert (C_M2_M2u : ceq ((a ++ Ic ++ R) ++ d) M2u).
  { apply ceq_lists. unfold M2u. repeat apply Forall2_eeq_app; auto using Forall2_eeq_refl. }
  assert (Kuu : keys ((a ++ Ic ++ R) ++ d) = keys M2u).
  { unfold keys. apply Forall2_eeq_keys. unfold M2u. repeat apply Forall2_eeq_app; auto using Forall2_eeq_refl. }
  assert (NDu : NoDup (keys M2u)) by (rewrite <- Kuu; exact ND2).
  assert (Pur : Permutation M2u M2r).
  { unfold M2u, M2r. rewrite E3. rewrite <- !app_assoc. apply Permutation_app_head. apply Permutation_app_head.
    (* cd ++ BEc ++ R ++ d  ~  R ++ cd ++ d ++ BEc *)
    eapply Permutation_trans; [apply Permutation_app_head; apply (Permutation_app_comm BEc (R ++ d))|].
    rewrite <- app_assoc. apply Permutation_app_swap_app. }
  assert (NDr : NoDup (keys M2r)).
  { unfold keys. eapply Permutation_NoDup; [apply Permutation_map; exact Pur|exact NDu]. }
  assert (C_u_r : ceq M2u M2r) by (apply look_perm_ceq; auto).
  (* --- the flattened set, phase by phase *)
  set (m1' := a ++ F ++ R).
  set (m2' := m1' ++ cd ++ d).
  assert (Kr : keys M2r = keys m2' ++ map fst BEc).
  { unfold M2r, m2', m1'. rewrite (keys_app A). reflexivity. }
  assert (ND2' : NoDup (keys m2')) by (rewrite Kr in NDr; eapply NoDup_app_l; eauto).
  assert (S1 : IA (a ++ flat_map (imp_entries A imp) (cms ++ ms)) [] m1').
  { rewrite flat_map_imp_app. fold F R.
    destruct (proj2 (IA_iff (a ++ F ++ R) [] N0)) as (r & Hr).
    - cbn [keys map app]. unfold m2' in ND2'. rewrite (keys_app A) in ND2'. apply NoDup_app_l in ND2'. exact ND2'.
    - rewrite (IA_result _ _ _ Hr) in Hr. cbn [app] in Hr. exact Hr. }
  assert (ND1' : NoDup (keys m1')).
  { unfold m2' in ND2'. rewrite (keys_app A) in ND2'. eapply NoDup_app_l; eauto. }
  assert (S2 : IA (cd ++ d) m1' m2').
  { destruct (proj2 (IA_iff (cd ++ d) m1' ND1')) as (r & Hr).
    - unfold m2' in ND2'. rewrite (keys_app A) in ND2'. exact ND2'.
    - rewrite (IA_result _ _ _ Hr) in Hr. exact Hr. }
  (* the child's bindings on the flattened map *)
  assert (Sub : sub (F ++ cd) m2').
  { intros t e Ht. exists e. split; auto. apply (NoDup_In_look A); auto.
    apply (look_In_gen A) in Ht. unfold m2', m1'. apply in_app_or in Ht. rewrite !in_app_iff. tauto. }
  assert (NDB : NoDup (map fst BEc)) by (rewrite Kr in NDr; eapply NoDup_app_r; eauto).
  destruct (IB_sub cb (F ++ cd) m2' pmc Sub C3) as (m3' & x & x' & S3 & Ex & Ex' & Fx & _).
  { intros i c b0 Hin. apply (look_None_keys A imp bind). intros Hk.
    apply (NoDup_app_disj (keys m2') (map fst BEc) i); [rewrite <- Kr; exact NDr|exact Hk|].
    rewrite K3. apply (in_map (fun z : nat * nat * nat => fst (fst z)) cb (i, c, b0) Hin). }
  { rewrite <- K3. exact NDB. }
  assert (x = BEc) by (rewrite E3 in Ex; apply app_inv_head in Ex; auto). subst x.
  (* the parent's bindings: the map they start from agrees with the parent's up to sources *)
  assert (C_r_3 : ceq M2r m3').
  { rewrite Ex'. unfold M2r. fold m1'. fold m2'. apply ceq_app; [apply ceq_refl|exact Fx]. }
  assert (C_M2_3 : ceq ((a ++ Ic ++ R) ++ d) m3') by (eapply ceq_trans; [exact C_M2_M2u|eapply ceq_trans; eauto]).
  destruct (IB_ceq b _ m3' pm C_M2_3 P3) as (pm' & S4 & Cfin & y & y' & Ey & Ey' & Fy).
  exists pm'. split; [|split; [exact Cfin|]].
  - eapply build1_intro; [exact S1|exact S2|]. apply IB_app. exists m3'. auto.
  - rewrite Ey, Ey', Ex'. unfold m2', m1'. rewrite !app_length.
    rewrite <- (Forall2_len _ _ _ Fy), <- (Forall2_len _ _ _ Fx), (Forall2_len _ _ _ FIc), E3, !app_length. lia.
Qed.

(* ---------------------------------------------------------------- the recursion of processNewSet *)
Lemma process_list_cons_ok x (r : list (pset A)) ms :
  process_list A imp bind verify (x :: r) = (ms, []) ->
  exists m ms', process imp bind verify x = inl m /\ process_list A imp bind verify r = (ms', []) /\ ms = (set_id x, m) :: ms'.
Proof.
  intros H. pose proof (process_list_ok A imp bind verify (x :: r) ms H) as F.
  cbn [process_list] in H. destruct (process_list A imp bind verify r) as [ms' es'] eqn:Er.
  inversion F as [|x0 m0 r0 msr [Hx Hid] Fr]; subst.
  rewrite Hx in H. injection H as Hm He Hes. subst es'. exists (snd m0), ms'. split; [exact Hx|]. split; [reflexivity|].
  destruct m0 as [i0 p0]. cbn [fst snd] in *. subst i0. subst msr. reflexivity.
Qed.

Lemma process_list_app_ok (x y : list (pset A)) mx my :
  process_list A imp bind verify x = (mx, []) -> process_list A imp bind verify y = (my, []) ->
  process_list A imp bind verify (x ++ y) = (mx ++ my, []).
Proof.
  revert mx. induction x as [|s x IH]; intros mx Hx Hy; cbn [app].
  - cbn in Hx. injection Hx as <-. exact Hy.
  - destruct (process_list_cons_ok s x mx Hx) as (m & ms' & Hs & Hr & ->).
    cbn [process_list]. rewrite (IH ms' Hr Hy), Hs. reflexivity.
Qed.

(* dissolving the first imported set into its parent *)
Theorem process_flatten sid a cid cimps cie cd cb imps ie d b pm :
  process imp bind verify (PSet sid a (PSet cid [] cimps cie cd cb :: imps) ie d b) = inl pm ->
  exists pm', process imp bind verify (PSet sid a (cimps ++ imps) (cie ++ ie) (cd ++ d) (cb ++ b)) = inl pm' /\
              ceq pm pm' /\ length pm = length pm'.
Proof.
  intros H. rewrite process_unfold in H.
  destruct (process_list A imp bind verify (PSet cid [] cimps cie cd cb :: imps)) as [ms es] eqn:El.
  destruct (es ++ ie) as [|e0 r0] eqn:Ee; [|discriminate].
  apply app_eq_nil in Ee. destruct Ee as [-> ->].
  destruct (process_list_cons_ok _ _ _ El) as (pmc & ms' & Hc & Hr & ->). cbn [set_id] in *.
  destruct (build1 imp bind a ((cid, pmc) :: ms') d b) as [pm0|e] eqn:Eb; [|discriminate].
  destruct (verify pm0) eqn:Ev; [|discriminate]. injection H as <-.
  (* the child, one level down *)
  rewrite process_unfold in Hc.
  destruct (process_list A imp bind verify cimps) as [cms ces] eqn:Ecl.
  destruct (ces ++ cie) as [|e1 r1] eqn:Ece; [|discriminate].
  apply app_eq_nil in Ece. destruct Ece as [-> ->].
  destruct (build1 imp bind [] cms cd cb) as [pmc0|e] eqn:Ecb; [|discriminate].
  destruct (verify pmc0) eqn:Ecv; [|discriminate]. injection Hc as <-.
  destruct (build1_flatten a cid cms cd cb pmc0 ms' d b pm0 Ecb Eb) as (pm' & Eb' & Hceq & Hlen).
  exists pm'. split; [|split; auto].
  rewrite process_unfold. rewrite (process_list_app_ok cimps imps cms ms' Ecl Hr). cbn [app].
  rewrite Eb'.
  assert (N1 : NoDup (keys pm0)) by (destruct (build1_keys A imp bind _ _ _ _ _ Eb); auto).
  assert (N2 : NoDup (keys pm')) by (destruct (build1_keys A imp bind _ _ _ _ _ Eb'); auto).
  rewrite (verify_core pm0 pm' N1 N2 Hceq Ev). reflexivity.
Qed.
End Regroup.
