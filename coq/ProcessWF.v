From Coq Require Import List Arith Bool Lia.
From Coq Require Import Relations.
From Wire Require Import Sets SetsWF Acyclic Solve Used Names Front Exec Model ModelThms Bridge.
Import ListNotations.

(* Every provider map that Model.process_set accepts satisfies the well-formedness checker wfb, so the planner
   theorems of Bridge.v hold for every accepted program, not only for the cases a run evaluated. *)

Definition RE (e' e : entry) : Prop := e_what e' = e_what e.
Definition QnoArg (e : entry) : Prop := forall i, e_what e <> WhArg i.

(* induction over nested rsets *)
Section RInd.
Variable P : rset -> Prop.
Hypothesis H : forall id imports provs sprovs vals flds binds, Forall P imports -> P (RSet id imports provs sprovs vals flds binds).
Fixpoint rset_ind' (s : rset) : P s :=
  match s with
  | RSet id imports provs sprovs vals flds binds =>
    H id imports provs sprovs vals flds binds
      ((fix go (l : list rset) : Forall P l :=
          match l with [] => Forall_nil P | x :: r => Forall_cons x (rset_ind' x) (go r) end) imports)
  end.
End RInd.

Lemma arg_entries_in : forall args k t e, In (t, e) (arg_entries k args) ->
  exists j, nth_error args j = Some t /\ e = mkEntry t (WhArg (k + j)) (SArg (k + j)).
Proof.
  induction args as [|x r IH]; intros k t e Hin; [destruct Hin|]. cbn [arg_entries] in Hin.
  destruct Hin as [Heq|Hin].
  - inversion Heq; subst. exists 0. rewrite Nat.add_0_r. auto.
  - destruct (IH _ _ _ Hin) as (j & A & B). exists (S j). split; auto. rewrite B. f_equal; f_equal; lia.
Qed.

Lemma arg_entries_nth : forall args k j t, nth_error args j = Some t ->
  In (t, mkEntry t (WhArg (k + j)) (SArg (k + j))) (arg_entries k args).
Proof.
  induction args as [|x r IH]; intros k j t H; [destruct j; discriminate|].
  destruct j as [|j]; cbn in H.
  - inversion H; subst. left. rewrite Nat.add_0_r. reflexivity.
  - right. replace (k + S j) with (S k + j) by lia. apply IH. exact H.
Qed.

Lemma direct_in provs vals flds t e :
  In (t, e) (direct_entries provs vals flds) -> e_conc e = t /\ QnoArg e.
Proof.
  unfold direct_entries. intros Hin. apply in_app_or in Hin. destruct Hin as [Hin|Hin]; [|apply in_app_or in Hin; destruct Hin as [Hin|Hin]].
  - apply in_flat_map in Hin. destruct Hin as (p & _ & Hin). unfold prov_entries in Hin.
    apply in_map_iff in Hin. destruct Hin as (x & Heq & _). inversion Heq; subst. split; [reflexivity|intros i; discriminate].
  - apply in_map_iff in Hin. destruct Hin as (v & Heq & _). unfold val_entry in Heq. inversion Heq; subst. split; [reflexivity|intros i; discriminate].
  - apply in_flat_map in Hin. destruct Hin as (f & _ & Hin). unfold field_entries in Hin.
    apply in_map_iff in Hin. destruct Hin as (x & Heq & _). inversion Heq; subst. split; [reflexivity|intros i; discriminate].
Qed.

Lemma to_core_imports (l : list rset) :
  (fix go (l : list rset) : list (pset entry) := match l with [] => [] | x :: r => to_core [] x :: go r end) l
  = map (to_core []) l.
Proof. induction l as [|x r IH]; cbn; [reflexivity|rewrite IH; reflexivity]. Qed.

Lemma self_set_to_core : forall s args, self_set entry e_conc (to_core args s).
Proof.
  induction s as [id imports provs sprovs vals flds binds IH] using rset_ind'. intros args.
  cbn [to_core self_set]. split; [|split].
  - intros k e Hin. destruct (arg_entries_in _ _ _ _ Hin) as (j & _ & ->). reflexivity.
  - intros k e Hin. apply direct_in in Hin. tauto.
  - rewrite to_core_imports. induction IH as [|x r Hx Hr IHr]; cbn; auto.
Qed.

Lemma Q_set_to_core_nil : forall s, Q_set entry QnoArg (to_core [] s).
Proof.
  induction s as [id imports provs sprovs vals flds binds IH] using rset_ind'.
  cbn [to_core Q_set arg_entries]. split; [|split].
  - intros k e [].
  - intros k e Hin. apply direct_in in Hin. tauto.
  - rewrite to_core_imports. induction IH as [|x r Hx Hr IHr]; cbn; auto.
Qed.

Lemma nodupb_complete : forall l, NoDup l -> nodupb l = true.
Proof.
  induction l as [|x r IH]; intros H; cbn; auto. inversion H; subst. rewrite IH; auto.
  destruct (existsb (Nat.eqb x) r) eqn:E; auto.
  apply existsb_exists in E. destruct E as (y & Hy & E). apply Nat.eqb_eq in E. subst. contradiction.
Qed.

Lemma NoDup_app_l {X} (l l' : list X) : NoDup (l ++ l') -> NoDup l.
Proof.
  induction l as [|x r IH]; intros H; [constructor|]. cbn in H. inversion H; subst. constructor.
  - intros Hin. apply H2. apply in_or_app. left. exact Hin.
  - apply IH. exact H3.
Qed.

Lemma list_eqb_refl : forall l, list_eqb Nat.eqb l l = true.
Proof. induction l as [|x r IH]; cbn; auto. rewrite Nat.eqb_refl, IH. reflexivity. Qed.

Section Root.
Variable tyorder : list nat.
Variable args : list nat.
Variable root : rset.
Variable pm : pmap entry.
Hypothesis Hacc : process_set tyorder args root = inl pm.

Let R_refl : forall x, RE x x := fun x => eq_refl.
Lemma R_imp : forall s x y, RE x y -> RE (imp_payload s x) (imp_payload s y).
Proof. intros s x y H. exact H. Qed.
Lemma R_bind : forall b x y, RE y x -> RE y (bind_payload b x).
Proof. intros b x y H. exact H. Qed.
Lemma Q_imp : forall s x, QnoArg x -> QnoArg (imp_payload s x).
Proof. intros s x H. exact H. Qed.
Lemma Q_bind : forall b x, QnoArg x -> QnoArg (bind_payload b x).
Proof. intros b x H. exact H. Qed.

Lemma pm_WFA : WFA entry e_conc RE pm /\ NoDup (keys pm).
Proof.
  unfold process_set in Hacc.
  apply (process_WFA entry imp_payload bind_payload (verify tyorder) e_conc RE R_refl R_imp R_bind
           (fun _ _ => eq_refl) (fun _ _ => eq_refl) (to_core args root) pm (self_set_to_core root args) Hacc).
Qed.

Lemma args_nodup : NoDup args.
Proof.
  destruct (process_set_one_source tyorder args root pm Hacc) as (_ & N & _).
  destruct root as [id imports provs sprovs vals flds binds]. rewrite provided_to_core in N.
  rewrite arg_entries_keys in N. apply NoDup_app_l in N. exact N.
Qed.

Lemma wf_entries_ok : forallb (wf_entry pm) pm = true.
Proof.
  destruct pm_WFA as [Hw Hn]. apply forallb_forall. intros [t e] Hin. unfold wf_entry. cbn [fst snd].
  pose proof (NoDup_In_look entry pm t e Hn Hin) as Hl.
  destruct (Hw t e Hl) as (e' & A & B & C). rewrite A. rewrite B, Nat.eqb_refl. cbn.
  unfold succ_of. rewrite A, Hl. unfold RE in C. rewrite C. apply list_eqb_refl.
Qed.

(* the shape of the root map *)
Lemma root_shape : exists ms x,
  pm = ((arg_entries 0 args ++ flat_map (imp_entries entry imp_payload) ms) ++
        (match root with RSet _ _ provs sprovs vals flds _ => direct_entries (all_provs provs sprovs) vals flds end)) ++ x /\
  (forall k e, In (k, e) x -> e_conc e <> k) /\
  Forall (fun m => forall k e, In (k, e) (snd m) -> QnoArg e) ms.
Proof.
  unfold process_set in Hacc. destruct root as [id imports provs sprovs vals flds binds]. cbn [to_core] in Hacc.
  destruct (process_shape entry imp_payload bind_payload (verify tyorder) e_conc RE R_refl R_imp R_bind
              (fun _ _ => eq_refl) (fun _ _ => eq_refl) _ _ _ _ _ _ pm (self_set_to_core (RSet id imports provs sprovs vals flds binds) args) Hacc)
    as (ms & x & Hl & Hpm & Hx).
  exists ms, x. split; [exact Hpm|]. split; [exact Hx|].
  rewrite to_core_imports in Hl. clear -Hl.
  remember (map (to_core []) imports) as cs. revert imports Heqcs.
  induction Hl as [|c m r ms' [Hc _] Hr IHr]; intros imports Heq; constructor.
  - destruct imports as [|s0 rest]; [discriminate|]. cbn in Heq. inversion Heq; subst.
    intros k e Hin.
    exact (process_allQ entry imp_payload bind_payload (verify tyorder) QnoArg Q_imp Q_bind (to_core [] s0) (snd m)
             (Q_set_to_core_nil s0) Hc k e Hin).
  - destruct imports as [|s0 rest]; [discriminate|]. cbn in Heq. inversion Heq; subst. eapply IHr; eauto.
Qed.

Lemma args_ok_gen : forall l i0, (forall j t, nth_error l j = Some t -> look pm t = Some (mkEntry t (WhArg (i0 + j)) (SArg (i0 + j)))) ->
  args_okb pm i0 l = true.
Proof.
  induction l as [|t r IH]; intros i0 H; cbn [args_okb]; auto.
  rewrite (H 0 t eq_refl). cbn. rewrite Nat.eqb_refl, Nat.add_0_r, Nat.eqb_refl. cbn.
  apply IH. intros j t' Hn. replace (S i0 + j) with (i0 + S j) by lia. apply (H (S j) t'). exact Hn.
Qed.

Lemma args_ok : args_okb pm 0 args = true.
Proof.
  apply args_ok_gen. intros j t Hn. destruct pm_WFA as [_ Hnd].
  apply (NoDup_In_look entry); auto.
  destruct root_shape as (ms & x & Hpm & _ & _). rewrite Hpm.
  apply in_or_app. left. apply in_or_app. left. apply in_or_app. left. apply arg_entries_nth. exact Hn.
Qed.

Lemma argentries_ok : forallb (argentry_okb args) pm = true.
Proof.
  apply forallb_forall. intros [t e] Hin. unfold argentry_okb. cbn [fst snd].
  destruct (e_what e) as [i| | |] eqn:Ew; auto.
  destruct (e_conc e =? t) eqn:Ec; cbn; auto. apply Nat.eqb_eq in Ec.
  destruct root_shape as (ms & x & Hpm & Hx & Hms). rewrite Hpm in Hin.
  apply in_app_or in Hin. destruct Hin as [Hin|Hin]; [|exfalso; exact (Hx t e Hin Ec)].
  apply in_app_or in Hin. destruct Hin as [Hin|Hin].
  - apply in_app_or in Hin. destruct Hin as [Hin|Hin].
    + destruct (arg_entries_in _ _ _ _ Hin) as (j & Hn & He). subst e. cbn in Ew. inversion Ew; subst.
      unfold nth_eqb. rewrite Hn. apply Nat.eqb_refl.
    + exfalso. apply in_flat_map in Hin. destruct Hin as ([sid m] & Hm & Hin).
      unfold imp_entries in Hin. cbn [fst snd] in Hin. apply in_map_iff in Hin.
      destruct Hin as ([k e0] & Heq & Hin0). cbn [fst snd] in Heq. injection Heq as Hk He. subst e.
      rewrite Forall_forall in Hms. exact (Hms _ Hm k e0 Hin0 i Ew).
  - exfalso. destruct root as [id imports provs sprovs vals flds binds].
    apply direct_in in Hin. destruct Hin as [_ HQ]. exact (HQ i Ew).
Qed.

(* the certificate holds on every accepted map *)
Theorem process_set_wfb : wfb pm args = true.
Proof.
  unfold wfb. rewrite wf_entries_ok, args_ok, argentries_ok.
  rewrite (nodupb_complete _ args_nodup). destruct pm_WFA as [_ Hn]. rewrite (nodupb_complete _ Hn). reflexivity.
Qed.

Lemma process_set_verify : verify tyorder pm = [].
Proof. exact (proj2 (proj2 (process_set_one_source tyorder args root pm Hacc))). Qed.

End Root.

(* ---------------- the planner theorems for every accepted program, without certificate ---------------- *)
Theorem accepted_wiring tyorder root args out pm cs :
  process_set tyorder args root = inl pm -> solve pm root args out = inl cs ->
  exists s i v, cs = map (decorate pm) (calls s) /\
    lookup (index s) out = Some (Slot i) /\
    nth_error (exec_calls (env0 (List.length args)) (calls s)) i = Some v /\
    val (core_pm pm) out v.
Proof.
  intros Hp Hs.
  exact (solve_wiring tyorder pm root args out (process_set_wfb tyorder args root pm Hp)
           (process_set_verify tyorder args root pm Hp) cs Hs).
Qed.

Theorem accepted_missing tyorder root args out pm s usedk :
  process_set tyorder args root = inl pm ->
  machine2 (core_pm pm) (List.length args) (solve_fuel pm) [out] (init_state args) [] = Some (s, usedk) ->
  (forall t, In t (errs s) <-> reach (core_pm pm) out t /\ core_pm pm t = None) /\ NoDup (errs s).
Proof.
  intros Hp Hm.
  exact (solve_missing tyorder pm args out (process_set_wfb tyorder args root pm Hp)
           (process_set_verify tyorder args root pm Hp) s usedk Hm).
Qed.

Theorem accepted_rejects_missing tyorder root args out pm ds :
  process_set tyorder args root = inl pm -> solve pm root args out = inr ds ->
  ds = [DFuel] \/
  (exists l, ds = map DNoProvider l /\ l <> [] /\ NoDup l /\ forall t, In t l <-> reach (core_pm pm) out t /\ core_pm pm t = None) \/
  (forall t, reach (core_pm pm) out t -> core_pm pm t <> None).
Proof.
  intros Hp Hs.
  exact (solve_rejects_missing tyorder pm root args out (process_set_wfb tyorder args root pm Hp)
           (process_set_verify tyorder args root pm Hp) ds Hs).
Qed.

Theorem accepted_complete tyorder root args out pm cs :
  process_set tyorder args root = inl pm -> solve pm root args out = inl cs ->
  forall t, reach (core_pm pm) out t -> core_pm pm t <> None.
Proof.
  intros Hp Hs.
  exact (solve_accepts_complete tyorder pm root args out (process_set_wfb tyorder args root pm Hp)
           (process_set_verify tyorder args root pm Hp) cs Hs).
Qed.

(* the planner's dependency relation of an accepted set is acyclic, so the planner terminates on it *)
Theorem accepted_acyclic tyorder root args pm :
  process_set tyorder args root = inl pm -> acyclic (core_pm pm).
Proof.
  intros Hp. exact (core_acyclic tyorder pm args (process_set_wfb tyorder args root pm Hp)
                      (process_set_verify tyorder args root pm Hp)).
Qed.

(* ---------------- C08: the used list of an accepted, successfully planned injector, exactly ---------------- *)
Lemma indexed_init_iff args x : indexed (init_state args) x = true <-> In x args.
Proof.
  unfold indexed, init_state. cbn [index]. split.
  - destruct (lookup (combine args (map Slot (seq 0 (List.length args)))) x) eqn:E; [|discriminate]. intros _.
    clear -E. revert E. generalize (map Slot (seq 0 (List.length args))) as vs.
    induction args as [|a r IH]; intros vs E; [discriminate|]. destruct vs as [|v vs]; [discriminate|].
    cbn [combine lookup] in E. destruct (a =? x) eqn:Ea; [apply Nat.eqb_eq in Ea; left; auto|right; eapply IH; eauto].
  - intros Hin. destruct (lookup (combine args (map Slot (seq 0 (List.length args)))) x) eqn:E; auto.
    exfalso. revert E. apply lookup_combine_some; auto. rewrite map_length, seq_length. reflexivity.
Qed.

Theorem accepted_used tyorder root args out pm s usedk :
  process_set tyorder args root = inl pm ->
  machine2 (core_pm pm) (List.length args) (solve_fuel pm) [out] (init_state args) [] = Some (s, usedk) ->
  forall x, In x usedk <-> (reach (core_pm pm) out x /\ core_pm pm x <> None /\ ~ In x args).
Proof.
  intros Hp Hm x.
  pose proof (process_set_wfb tyorder args root pm Hp) as Hwf.
  pose proof (process_set_verify tyorder args root pm Hp) as Hver.
  pose proof (init_args_indexed pm args Hwf) as Hai.
  rewrite (machine2_used_exactly _ _ _ _ _ _ _ Hai Hm x).
  pose proof (solve_is_visit tyorder pm args out Hwf Hver _ _ _ Hm) as Hv.
  pose proof (visit_indexes _ _ _ _ _ _ Hai Hv) as Hio.
  rewrite init_is_s_init in Hv.
  pose proof (visit_ErrInv _ _ args out _ out _ _ Hv (rt_refl _ _ _) (ErrInv_init _ _ args (ARGS pm args Hwf) out)) as HE.
  assert (Hnotin : indexed (init_state args) x = false <-> ~ In x args).
  { rewrite <- indexed_init_iff. destruct (indexed (init_state args) x); split; intros; try discriminate; auto. exfalso; auto. }
  split.
  - intros (A & B & C). split; [|split; [exact C|apply Hnotin; exact B]].
    destruct (e_reach _ _ _ _ _ HE x A) as [Hi|Hr]; auto.
    rewrite <- init_is_s_init in Hi. rewrite B in Hi. discriminate.
  - intros (Hr & C & Hn). split; [|split; [apply Hnotin; exact Hn|exact C]].
    assert (Hcl : forall a b, clos_refl_trans_1n nat (dep (core_pm pm)) a b -> indexed s a = true -> indexed s b = true).
    { intros a b Hab. induction Hab as [|a0 y z D _ IH]; auto. intros Ha. apply IH. eapply (e_closed _ _ _ _ _ HE); eauto. }
    eapply Hcl; [apply clos_rt_rt1n; exact Hr|exact Hio].
Qed.

(* hence: a direct item is reported unused exactly when no type the result needs (other than an injector parameter)
   has it as its source *)
Theorem accepted_unused_iff tyorder root args out pm s usedk d :
  process_set tyorder args root = inl pm ->
  machine2 (core_pm pm) (List.length args) (solve_fuel pm) [out] (init_state args) [] = Some (s, usedk) ->
  (In d (verify_args_used root (flat_map (src_of pm) usedk)) <->
   In d (verify_args_used root (flat_map (src_of pm)
           (filter (fun x => negb (existsb (Nat.eqb x) args)) usedk)))).
Proof.
  intros Hp Hm.
  assert (Hall : forall x, In x usedk -> ~ In x args) by (intros x Hx; apply (accepted_used tyorder root args out pm s usedk Hp Hm x); exact Hx).
  assert (Heq : filter (fun x => negb (existsb (Nat.eqb x) args)) usedk = usedk).
  { clear -Hall. induction usedk as [|y r IH]; cbn; auto.
    assert (Hy : existsb (Nat.eqb y) args = false).
    { destruct (existsb (Nat.eqb y) args) eqn:E; auto. apply existsb_exists in E. destruct E as (z & Hz & E).
      apply Nat.eqb_eq in E. subst z. exfalso. apply (Hall y); [left; reflexivity|exact Hz]. }
    rewrite Hy. cbn. f_equal. apply IH. intros x Hx. apply Hall. right. exact Hx. }
  rewrite Heq. tauto.
Qed.
