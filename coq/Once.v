From Coq Require Import List Arith Lia Bool.
From Wire Require Import Solve.
Import ListNotations.

(* C02, "each provider function is called at most once per injector call": the planner (analyze.go:solve, the
   frame-stack machine of Solve.v) never emits two calls for one type, whatever the graph, the stack and the fuel. *)

Section O.
Variable pm : nat -> option provided.
Variable given : nat.

(* a call is what the provider map says about its output type *)
Definition kind_ok (c : call) : Prop :=
  exists pv, pm (c_out c) = Some pv /\ conc pv = c_out c /\
    match c_kind c with
    | CProv pid => exists args, wh pv = WProv args pid
    | CVal vid => wh pv = WVal vid
    | CField fid => exists parent, wh pv = WField parent fid
    end.

Record OInv (s : st) : Prop := {
  o_nodup : NoDup (map c_out (calls s));
  o_indexed : forall c, In c (calls s) -> indexed s (c_out c) = true;
  o_kind : forall c, In c (calls s) -> kind_ok c }.

Lemma OInv_nil s : calls s = [] -> OInv s.
Proof. intros E. split; rewrite E; cbn; [constructor|intros c []|intros c []]. Qed.

Lemma indexed_set_idx s t v a : indexed s a = true -> indexed (set_idx s t v) a = true.
Proof. apply (ext_set_idx s t v). Qed.

Lemma OInv_set_idx s t v : OInv s -> OInv (set_idx s t v).
Proof.
  intros [H1 H2 H3]. split; cbn [calls set_idx]; auto.
  intros c Hc. apply indexed_set_idx. auto.
Qed.

Lemma OInv_add_err s t : OInv s -> OInv (add_err s t).
Proof.
  intros [H1 H2 H3]. split; cbn [calls add_err]; auto.
  intros c Hc. apply (ext_add_err s t). auto.
Qed.

Lemma NoDup_snoc {A} (l : list A) x : NoDup l -> ~ In x l -> NoDup (l ++ [x]).
Proof.
  induction l as [|y r IH]; cbn; intros Hn Hx; [repeat constructor; auto|].
  inversion Hn as [|? ? Hy Hr]; subst. constructor.
  - intros H. apply in_app_or in H. destruct H as [H|[H|[]]]; auto.
  - apply IH; auto.
Qed.

Lemma OInv_add_call s t k l :
  OInv s -> indexed s t = false -> kind_ok {| c_out := t; c_kind := k; c_args := l |} ->
  OInv (add_call given s t k l).
Proof.
  intros [H1 H2 H3] Ht Hk. split; cbn [calls add_call].
  - rewrite map_app. cbn. apply NoDup_snoc; auto.
    intros H. apply in_map_iff in H. destruct H as [c [E Hc]]. apply H2 in Hc. rewrite E in Hc. congruence.
  - intros c Hc. apply in_app_or in Hc. destruct Hc as [Hc|[<-|[]]].
    + apply (ext_add_call given s t k l). auto.
    + cbn [c_out]. apply add_call_indexed.
  - intros c Hc. apply in_app_or in Hc. destruct Hc as [Hc|[<-|[]]]; auto.
Qed.

Lemma OInv_finish s t k args s' :
  OInv s -> indexed s t = false -> (forall l, kind_ok {| c_out := t; c_kind := k; c_args := l |}) ->
  finish given s t k args = Some s' -> OInv s'.
Proof.
  unfold finish. intros Hi Ht Hk H. destruct (arg_slots s args) as [[l|]|]; try discriminate; injection H as <-.
  - apply OInv_add_call; auto.
  - apply OInv_set_idx; auto.
Qed.

Lemma step_OInv t stk s : OInv s -> OInv (snd (step pm given t stk s)).
Proof.
  intros Hi. unfold step. destruct (indexed s t) eqn:Et; [exact Hi|].
  destruct (pm t) as [pv|] eqn:Ep; [|apply OInv_add_err; exact Hi].
  destruct (negb (Nat.eqb (conc pv) t)) eqn:Ec.
  - destruct (lookup (index s) (conc pv)); cbn [snd]; [apply OInv_set_idx|]; exact Hi.
  - apply negb_false_iff, Nat.eqb_eq in Ec.
    destruct (wh pv) as [i|args pid|vid|parent fid] eqn:Ew; cbn [snd]; auto.
    + destruct (unvisited s args); cbn [snd]; auto.
      destruct (finish given s t (CProv pid) args) as [s'|] eqn:Ef; cbn [snd]; auto.
      eapply OInv_finish; eauto. intros l. exists pv. cbn. repeat split; auto. exists args. exact Ew.
    + apply OInv_add_call; auto. exists pv. cbn. auto.
    + destruct (lookup (index s) parent); cbn [snd]; auto.
      destruct (finish given s t (CField fid) [parent]) as [s'|] eqn:Ef; cbn [snd]; auto.
      eapply OInv_finish; eauto. intros l. exists pv. cbn. repeat split; auto. exists parent. exact Ew.
Qed.

Theorem machine_OInv : forall fuel stk s s', machine pm given fuel stk s = Some s' -> OInv s -> OInv s'.
Proof.
  induction fuel as [|f IH]; intros stk s s' H Hi; cbn [machine] in H; [discriminate|].
  destruct stk as [|t stk']; [injection H as <-; exact Hi|].
  pose proof (step_OInv t stk' s Hi) as Hs. destruct (step pm given t stk' s) as [stk2 s2]. cbn [snd] in Hs.
  eapply IH; eauto.
Qed.

(* no type is produced by two calls *)
Theorem outputs_distinct fuel stk s s' i j c c' :
  machine pm given fuel stk s = Some s' -> OInv s ->
  nth_error (calls s') i = Some c -> nth_error (calls s') j = Some c' -> c_out c = c_out c' -> i = j.
Proof.
  intros H Hi Hc Hc' E. apply (machine_OInv _ _ _ _ H) in Hi. destruct Hi as [Hnd _ _].
  assert (Hl : i < length (map c_out (calls s'))) by (rewrite map_length; apply nth_error_Some; congruence).
  apply (proj1 (NoDup_nth_error (map c_out (calls s'))) Hnd i j Hl).
  rewrite !nth_error_map, Hc, Hc'. cbn. congruence.
Qed.

(* a provider function that sits at one key of the map is called at most once *)
Theorem provider_called_at_most_once fuel stk s s' i j c c' pid :
  (forall t t' pv pv' a a', pm t = Some pv -> conc pv = t -> wh pv = WProv a pid ->
                            pm t' = Some pv' -> conc pv' = t' -> wh pv' = WProv a' pid -> t = t') ->
  machine pm given fuel stk s = Some s' -> OInv s ->
  nth_error (calls s') i = Some c -> nth_error (calls s') j = Some c' ->
  c_kind c = CProv pid -> c_kind c' = CProv pid -> i = j.
Proof.
  intros Hinj H Hi Hc Hc' Hk Hk'. eapply outputs_distinct; eauto.
  pose proof (machine_OInv _ _ _ _ H Hi) as [_ _ Hkind].
  destruct (Hkind c (nth_error_In _ _ Hc)) as [pv [Hp [Hcc Hw]]].
  destruct (Hkind c' (nth_error_In _ _ Hc')) as [pv' [Hp' [Hcc' Hw']]].
  rewrite Hk in Hw. rewrite Hk' in Hw'. destruct Hw as [a Hw]. destruct Hw' as [a' Hw'].
  eapply Hinj; eauto.
Qed.

(* the same for the machine that also records the used list *)
Theorem machine2_OInv fuel stk s u s' u' :
  machine2 pm given fuel stk s u = Some (s', u') -> OInv s -> OInv s'.
Proof.
  intros H. apply (machine_OInv fuel stk s s').
  rewrite <- (machine2_fst pm given fuel stk s u), H. reflexivity.
Qed.

Theorem each_type_built_once fuel stk s u s' u' i j c c' :
  machine2 pm given fuel stk s u = Some (s', u') -> calls s = [] ->
  nth_error (calls s') i = Some c -> nth_error (calls s') j = Some c' -> c_out c = c_out c' -> i = j.
Proof.
  intros H E. apply (outputs_distinct fuel stk s s').
  - rewrite <- (machine2_fst pm given fuel stk s u), H. reflexivity.
  - apply OInv_nil. exact E.
Qed.

Theorem provider_at_most_once fuel stk s u s' u' i j c c' pid :
  (forall t t' pv pv' a a', pm t = Some pv -> conc pv = t -> wh pv = WProv a pid ->
                            pm t' = Some pv' -> conc pv' = t' -> wh pv' = WProv a' pid -> t = t') ->
  machine2 pm given fuel stk s u = Some (s', u') -> calls s = [] ->
  nth_error (calls s') i = Some c -> nth_error (calls s') j = Some c' ->
  c_kind c = CProv pid -> c_kind c' = CProv pid -> i = j.
Proof.
  intros Hinj H E. apply (provider_called_at_most_once fuel stk s s'); auto.
  - rewrite <- (machine2_fst pm given fuel stk s u), H. reflexivity.
  - apply OInv_nil. exact E.
Qed.

End O.

(* the premises are satisfiable: A needs B and C, B needs C; C is built once *)
Example once_instance :
  let pm := fun t => match t with
                     | 0 => Some {| conc := 0; wh := WProv [1; 2] 10 |}
                     | 1 => Some {| conc := 1; wh := WProv [2] 11 |}
                     | 2 => Some {| conc := 2; wh := WProv [] 12 |}
                     | _ => None end in
  option_map (fun r => map c_out (calls (fst r)))
             (machine2 pm 0 20 [0] {| index := []; calls := []; errs := [] |} []) = Some [2; 1; 0].
Proof. vm_compute. reflexivity. Qed.
