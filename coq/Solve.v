From Coq Require Import List Arith Lia Bool Relations.
Import ListNotations.

(* Spike: analyze.go:solve as a frame-stack machine, and its recursive counterpart. *)

Inductive what :=
| WArg (i : nat)
| WProv (args : list nat) (pid : nat)
| WVal (vid : nat)
| WField (parent : nat) (fid : nat).

Record provided := { conc : nat; wh : what }.

Inductive idx := Slot (n : nat) | Abort.

Inductive callk := CProv (pid : nat) | CVal (vid : nat) | CField (fid : nat).
Record call := { c_out : nat; c_kind : callk; c_args : list nat }.

Record st := { index : list (nat * idx); calls : list call; errs : list nat }.

Section S.
Variable pm : nat -> option provided.
Variable given : nat.

Fixpoint lookup (ix : list (nat * idx)) (t : nat) : option idx :=
  match ix with
  | [] => None
  | (k, v) :: r => if Nat.eqb k t then Some v else lookup r t
  end.

Definition indexed (s : st) (t : nat) : bool :=
  match lookup (index s) t with Some _ => true | None => false end.

Definition set_idx (s : st) (t : nat) (v : idx) : st :=
  {| index := (t, v) :: index s; calls := calls s; errs := errs s |}.

Definition add_err (s : st) (t : nat) : st :=
  {| index := (t, Abort) :: index s; calls := calls s; errs := errs s ++ [t] |}.

Definition add_call (s : st) (t : nat) (k : callk) (args : list nat) : st :=
  {| index := (t, Slot (given + length (calls s))) :: index s;
     calls := calls s ++ [{| c_out := t; c_kind := k; c_args := args |}];
     errs := errs s |}.

(* slots of all args, or None if some arg is aborted / unindexed *)
Fixpoint arg_slots (s : st) (args : list nat) : option (option (list nat)) :=
  (* outer None: some arg unindexed; inner None: some arg aborted *)
  match args with
  | [] => Some (Some [])
  | a :: r =>
    match lookup (index s) a with
    | None => None
    | Some Abort => match arg_slots s r with None => None | Some _ => Some None end
    | Some (Slot n) =>
      match arg_slots s r with
      | None => None
      | Some None => Some None
      | Some (Some l) => Some (Some (n :: l))
      end
    end
  end.

Definition unvisited (s : st) (args : list nat) : list nat :=
  filter (fun a => negb (indexed s a)) args.

(* what happens when a frame for t is popped with all its dependencies indexed *)
Definition finish (s : st) (t : nat) (k : callk) (args : list nat) : option st :=
  match arg_slots s args with
  | None => None
  | Some None => Some (set_idx s t Abort)
  | Some (Some l) => Some (add_call s t k l)
  end.

(* one iteration of the for-loop: returns new stack and state *)
Definition step (t : nat) (stk : list nat) (s : st) : list nat * st :=
  if indexed s t then (stk, s)
  else match pm t with
  | None => (stk, add_err s t)
  | Some pv =>
    if negb (Nat.eqb (conc pv) t) then
      match lookup (index s) (conc pv) with
      | None => (conc pv :: t :: stk, s)
      | Some i => (stk, set_idx s t i)
      end
    else match wh pv with
    | WArg _ => (stk, s)
    | WProv args pid =>
      match unvisited s args with
      | [] => match finish s t (CProv pid) args with Some s' => (stk, s') | None => (stk, s) end
      | u => (u ++ t :: stk, s)
      end
    | WVal vid => (stk, add_call s t (CVal vid) [])
    | WField parent fid =>
      match lookup (index s) parent with
      | None => (parent :: t :: stk, s)
      | Some _ => match finish s t (CField fid) [parent] with Some s' => (stk, s') | None => (stk, s) end
      end
    end
  end.

Fixpoint machine (fuel : nat) (stk : list nat) (s : st) : option st :=
  match fuel with
  | 0 => None
  | S f =>
    match stk with
    | [] => Some s
    | t :: stk' => let '(stk2, s2) := step t stk' s in machine f stk2 s2
    end
  end.

(* recursive counterpart *)
Fixpoint visit (fuel : nat) (t : nat) (s : st) : option st :=
  match fuel with
  | 0 => None
  | S f =>
    if indexed s t then Some s
    else match pm t with
    | None => Some (add_err s t)
    | Some pv =>
      if negb (Nat.eqb (conc pv) t) then
        match visit f (conc pv) s with
        | None => None
        | Some s' =>
          if indexed s' t then Some s'
          else match lookup (index s') (conc pv) with
               | None => None
               | Some i => Some (set_idx s' t i)
               end
        end
      else match wh pv with
      | WArg _ => Some s
      | WProv args pid =>
        match (fix vl (l : list nat) (s0 : st) : option st :=
                 match l with
                 | [] => Some s0
                 | a :: r => match visit f a s0 with None => None | Some s1 => vl r s1 end
                 end) args s with
        | None => None
        | Some s' => if indexed s' t then Some s' else finish s' t (CProv pid) args
        end
      | WVal vid => Some (add_call s t (CVal vid) [])
      | WField parent fid =>
        match visit f parent s with
        | None => None
        | Some s' => if indexed s' t then Some s' else finish s' t (CField fid) [parent]
        end
      end
    end
  end.

Fixpoint visit_list (f : nat) (l : list nat) (s0 : st) : option st :=
  match l with
  | [] => Some s0
  | a :: r => match visit f a s0 with None => None | Some s1 => visit_list f r s1 end
  end.


Lemma visit_unfold f t s :
  visit (S f) t s =
    if indexed s t then Some s
    else match pm t with
    | None => Some (add_err s t)
    | Some pv =>
      if negb (Nat.eqb (conc pv) t) then
        match visit f (conc pv) s with
        | None => None
        | Some s' =>
          if indexed s' t then Some s'
          else match lookup (index s') (conc pv) with
               | None => None
               | Some i => Some (set_idx s' t i)
               end
        end
      else match wh pv with
      | WArg _ => Some s
      | WProv args pid =>
        match visit_list f args s with
        | None => None
        | Some s' => if indexed s' t then Some s' else finish s' t (CProv pid) args
        end
      | WVal vid => Some (add_call s t (CVal vid) [])
      | WField parent fid =>
        match visit f parent s with
        | None => None
        | Some s' => if indexed s' t then Some s' else finish s' t (CField fid) [parent]
        end
      end
    end.
Proof.
  cbn [visit]. destruct (indexed s t); auto. destruct (pm t) as [pv|]; auto.
  destruct (negb (conc pv =? t)); auto. destruct (wh pv) as [i|args pid|vid|parent fid]; auto.
  match goal with |- match ?A with _ => _ end = match ?B with _ => _ end => assert (A = B) as -> end; auto.
  generalize s. induction args as [|a r IH]; intros s0; cbn [visit_list]; auto.
  destruct (visit f a s0); auto.
Qed.

Definition ext (s s' : st) : Prop := forall a, indexed s a = true -> indexed s' a = true.

Lemma ext_refl s : ext s s. Proof. intros a H; exact H. Qed.
Lemma ext_trans s1 s2 s3 : ext s1 s2 -> ext s2 s3 -> ext s1 s3.
Proof. intros H1 H2 a H. auto. Qed.

Lemma indexed_cons ix cs es t v a :
  indexed {| index := ix; calls := cs; errs := es |} a = true ->
  forall cs' es', indexed {| index := (t, v) :: ix; calls := cs'; errs := es' |} a = true.
Proof.
  unfold indexed; cbn [index lookup]. intros H cs' es'. destruct (t =? a); auto.
Qed.

Lemma ext_set_idx s t v : ext s (set_idx s t v).
Proof. intros a H. destruct s. unfold set_idx. cbn [index calls errs]. eapply indexed_cons; eauto. Qed.
Lemma ext_add_err s t : ext s (add_err s t).
Proof. intros a H. destruct s. unfold add_err. cbn [index calls errs]. eapply indexed_cons; eauto. Qed.
Lemma ext_add_call s t k l : ext s (add_call s t k l).
Proof. intros a H. destruct s. unfold add_call. cbn [index calls errs]. eapply indexed_cons; eauto. Qed.

Lemma ext_finish s t k args s' : finish s t k args = Some s' -> ext s s'.
Proof.
  unfold finish. destruct (arg_slots s args) as [[l|]|]; intros H; inversion H; subst.
  - apply ext_add_call.
  - apply ext_set_idx.
Qed.

Lemma visit_mono f : forall t s s', visit f t s = Some s' -> ext s s'.
Proof.
  induction f as [|f IH]; intros t s s' H; [discriminate|].
  assert (IHl : forall l s0 s1, visit_list f l s0 = Some s1 -> ext s0 s1).
  { induction l as [|a r IHr]; intros s0 s1 Hl; cbn [visit_list] in Hl.
    - inversion Hl; apply ext_refl.
    - destruct (visit f a s0) as [s2|] eqn:E; [|discriminate].
      eapply ext_trans; [eapply IH; eauto|eauto]. }
  rewrite visit_unfold in H.
  destruct (indexed s t); [inversion H; apply ext_refl|].
  destruct (pm t) as [pv|]; [|inversion H; apply ext_add_err].
  destruct (negb (conc pv =? t)).
  - destruct (visit f (conc pv) s) as [s1|] eqn:E; [|discriminate].
    apply IH in E. destruct (indexed s1 t); [inversion H; subst; auto|].
    destruct (lookup (index s1) (conc pv)); [|discriminate]. inversion H; subst.
    eapply ext_trans; [eauto|apply ext_set_idx].
  - destruct (wh pv) as [i|args pid|vid|parent fid].
    + inversion H; apply ext_refl.
    + destruct (visit_list f args s) as [s1|] eqn:E; [|discriminate]. apply IHl in E.
      destruct (indexed s1 t); [inversion H; subst; auto|].
      eapply ext_trans; [eauto|eapply ext_finish; eauto].
    + inversion H; apply ext_add_call.
    + destruct (visit f parent s) as [s1|] eqn:E; [|discriminate]. apply IH in E.
      destruct (indexed s1 t); [inversion H; subst; auto|].
      eapply ext_trans; [eauto|eapply ext_finish; eauto].
Qed.

Lemma visit_list_mono f l : forall s s', visit_list f l s = Some s' -> ext s s'.
Proof.
  induction l as [|a r IH]; intros s s' H; cbn [visit_list] in H.
  - inversion H; apply ext_refl.
  - destruct (visit f a s) as [s1|] eqn:E; [|discriminate].
    eapply ext_trans; [eapply visit_mono; eauto|eauto].
Qed.

Lemma visit_noop f t s : indexed s t = true -> visit (S f) t s = Some s.
Proof. intros H. rewrite visit_unfold. rewrite H. reflexivity. Qed.

Lemma visit_some_pos f t s s' : visit f t s = Some s' -> exists f', f = S f'.
Proof. destruct f; [discriminate|eauto]. Qed.

(* visiting all args = visiting those that were unvisited at an earlier state *)
Lemma visit_list_unvisited f : forall args s0 s s',
  ext s0 s -> visit_list f args s = Some s' -> visit_list f (unvisited s0 args) s = Some s'.
Proof.
  induction args as [|a r IH]; intros s0 s s' Hx H; cbn [visit_list unvisited filter] in *; auto.
  destruct (visit f a s) as [s1|] eqn:E; [|discriminate].
  destruct (indexed s0 a) eqn:Ea; cbn [negb].
  - assert (Ha := Hx _ Ea). destruct (visit_some_pos _ _ _ _ E) as [f' ->].
    rewrite (visit_noop f' a s Ha) in E. inversion E; subst. eapply IH; eauto.
  - cbn [visit_list]. rewrite E. eapply IH; eauto.
    eapply ext_trans; [eauto|eapply visit_mono; eauto].
Qed.

Lemma arg_slots_all_indexed s args r : arg_slots s args = Some r -> unvisited s args = [].
Proof.
  revert r. induction args as [|a l IH]; intros r H; cbn [arg_slots unvisited filter] in *; auto.
  unfold indexed. destruct (lookup (index s) a) as [[n|]|] eqn:E; [| |discriminate]; cbn [negb].
  - destruct (arg_slots s l) as [r'|]; [|discriminate]. eapply IH; eauto.
  - destruct (arg_slots s l) as [r'|]; [|discriminate]. eapply IH; eauto.
Qed.

Lemma finish_all_indexed s t k args s' : finish s t k args = Some s' -> unvisited s args = [].
Proof.
  unfold finish. destruct (arg_slots s args) as [r|] eqn:E; [|discriminate].
  intros _. eapply arg_slots_all_indexed; eauto.
Qed.

Lemma visit_list_noop f : forall args s s', unvisited s args = [] ->
  visit_list f args s = Some s' -> s' = s.
Proof.
  induction args as [|a r IH]; intros s s' Hu H; cbn [visit_list unvisited filter] in *.
  - inversion H; auto.
  - destruct (indexed s a) eqn:Ea; cbn [negb] in Hu; [|discriminate].
    destruct (visit f a s) as [s1|] eqn:E; [|discriminate].
    destruct (visit_some_pos _ _ _ _ E) as [f' ->]. rewrite (visit_noop f' a s Ea) in E.
    inversion E; subst. eapply IH; eauto.
Qed.

Definition P (f : nat) : Prop :=
  forall t s s', visit f t s = Some s' ->
    forall stk, exists k, forall fuel, machine (k + fuel) (t :: stk) s = machine fuel stk s'.
Definition Q (f : nat) : Prop :=
  forall l s s', visit_list f l s = Some s' ->
    forall stk, exists k, forall fuel, machine (k + fuel) (l ++ stk) s = machine fuel stk s'.

Lemma P_Q f : P f -> Q f.
Proof.
  intros HP l. induction l as [|a r IH]; intros s s' H stk; cbn [visit_list] in H.
  - inversion H; subst. exists 0. intros; reflexivity.
  - destruct (visit f a s) as [s1|] eqn:E; [|discriminate].
    destruct (HP _ _ _ E (r ++ stk)) as [k1 H1]. destruct (IH _ _ H stk) as [k2 H2].
    exists (k1 + k2). intros fuel. rewrite <- Nat.add_assoc. cbn [app]. rewrite H1. apply H2.
Qed.

Lemma step1 t stk s fuel : machine (S fuel) (t :: stk) s =
  let '(stk2, s2) := step t stk s in machine fuel stk2 s2.
Proof. reflexivity. Qed.

Lemma Q_P f : P f -> Q f -> P (S f).
Proof.
  intros HP HQ t s s' H stk. rewrite visit_unfold in H.
  destruct (indexed s t) eqn:Et.
  { inversion H; subst. exists 1. intros fuel. cbn [Nat.add]. rewrite step1. unfold step. rewrite Et. reflexivity. }
  destruct (pm t) as [pv|] eqn:Ep.
  2:{ inversion H; subst. exists 1. intros fuel. cbn [Nat.add]. rewrite step1. unfold step. rewrite Et, Ep. reflexivity. }
  destruct (negb (conc pv =? t)) eqn:Ec.
  - (* alias *)
    destruct (visit f (conc pv) s) as [s1|] eqn:E; [|discriminate].
    destruct (lookup (index s) (conc pv)) as [i0|] eqn:El.
    + (* concrete already indexed: visit was a no-op *)
      assert (Hi : indexed s (conc pv) = true) by (unfold indexed; rewrite El; auto).
      destruct (visit_some_pos _ _ _ _ E) as [f' ->]. rewrite (visit_noop f' _ s Hi) in E.
      inversion E; subst s1. rewrite Et, El in H. inversion H; subst.
      exists 1. intros fuel. cbn [Nat.add]. rewrite step1. unfold step. rewrite Et, Ep, Ec, El. reflexivity.
    + destruct (HP _ _ _ E (t :: stk)) as [k1 H1].
      exists (S (k1 + 1)). intros fuel. cbn [Nat.add]. rewrite step1. unfold step at 1. rewrite Et, Ep, Ec, El.
      rewrite <- Nat.add_assoc. rewrite H1. cbn [Nat.add]. rewrite step1. unfold step.
      destruct (indexed s1 t) eqn:Et1.
      * inversion H; subst. reflexivity.
      * rewrite Ep, Ec. destruct (lookup (index s1) (conc pv)) as [i|]; [|discriminate].
        inversion H; subst. reflexivity.
  - destruct (wh pv) as [i|args pid|vid|parent fid] eqn:Ew.
    + inversion H; subst. exists 1. intros fuel. cbn [Nat.add]. rewrite step1. unfold step.
      rewrite Et, Ep, Ec, Ew. reflexivity.
    + (* provider *)
      destruct (visit_list f args s) as [s1|] eqn:E; [|discriminate].
      destruct (unvisited s args) as [|u0 ur] eqn:Eu.
      * assert (s1 = s) by (eapply visit_list_noop; eauto). subst s1. rewrite Et in H.
        exists 1. intros fuel. cbn [Nat.add]. rewrite step1. unfold step.
        rewrite Et, Ep, Ec, Ew, Eu, H. reflexivity.
      * assert (E' : visit_list f (unvisited s args) s = Some s1)
          by (eapply visit_list_unvisited; eauto using ext_refl).
        rewrite Eu in E'. destruct (HQ _ _ _ E' (t :: stk)) as [k1 H1].
        exists (S (k1 + 1)). intros fuel. cbn [Nat.add]. rewrite step1. unfold step at 1.
        rewrite Et, Ep, Ec, Ew, Eu. rewrite <- Nat.add_assoc. rewrite H1.
        cbn [Nat.add]. rewrite step1. unfold step.
        destruct (indexed s1 t) eqn:Et1.
        -- inversion H; subst. reflexivity.
        -- rewrite Ep, Ec, Ew. rewrite (finish_all_indexed _ _ _ _ _ H). rewrite H. reflexivity.
    + inversion H; subst. exists 1. intros fuel. cbn [Nat.add]. rewrite step1. unfold step.
      rewrite Et, Ep, Ec, Ew. reflexivity.
    + (* field *)
      destruct (visit f parent s) as [s1|] eqn:E; [|discriminate].
      destruct (lookup (index s) parent) as [i0|] eqn:El.
      * assert (Hi : indexed s parent = true) by (unfold indexed; rewrite El; auto).
        destruct (visit_some_pos _ _ _ _ E) as [f' ->]. rewrite (visit_noop f' _ s Hi) in E.
        inversion E; subst s1. rewrite Et in H.
        exists 1. intros fuel. cbn [Nat.add]. rewrite step1. unfold step.
        rewrite Et, Ep, Ec, Ew, El, H. reflexivity.
      * destruct (HP _ _ _ E (t :: stk)) as [k1 H1].
        exists (S (k1 + 1)). intros fuel. cbn [Nat.add]. rewrite step1. unfold step at 1.
        rewrite Et, Ep, Ec, Ew, El. rewrite <- Nat.add_assoc. rewrite H1.
        cbn [Nat.add]. rewrite step1. unfold step.
        destruct (indexed s1 t) eqn:Et1.
        -- inversion H; subst. reflexivity.
        -- rewrite Ep, Ec, Ew.
           assert (Hu := finish_all_indexed _ _ _ _ _ H). cbn [unvisited filter] in Hu.
           unfold indexed in Hu. destruct (lookup (index s1) parent); [|discriminate].
           rewrite H. reflexivity.
Qed.

Theorem solve_sim f : P f.
Proof.
  induction f as [|f IH].
  - intros t s s' H; discriminate.
  - apply Q_P; [exact IH|apply P_Q; exact IH].
Qed.


(* ---------- fuel sufficiency under acyclicity (pigeonhole on the ancestor trail) ---------- *)
Inductive dep : nat -> nat -> Prop :=
| dep_alias t pv : pm t = Some pv -> conc pv <> t -> dep t (conc pv)
| dep_prov t pv args pid a : pm t = Some pv -> conc pv = t -> wh pv = WProv args pid -> In a args -> dep t a
| dep_field t pv parent fid : pm t = Some pv -> conc pv = t -> wh pv = WField parent fid -> dep t parent.

Definition acyclic : Prop := forall t, ~ clos_trans nat dep t t.

Variable keys : list nat.
Hypothesis keys_ok : forall t pv, pm t = Some pv -> In t keys.

(* injector arguments are indexed from the start *)
Definition args_indexed (s : st) : Prop :=
  forall t pv i, pm t = Some pv -> conc pv = t -> wh pv = WArg i -> indexed s t = true.

Lemma args_indexed_ext s s' : ext s s' -> args_indexed s -> args_indexed s'.
Proof. intros He Ha t pv i H1 H2 H3. apply He. eapply Ha; eauto. Qed.

(* trail: ancestors, nearest first; each depends on the next-nearer one, the head on the current node *)
Fixpoint chain (t : nat) (trail : list nat) : Prop :=
  match trail with
  | [] => True
  | p :: r => dep p t /\ chain p r
  end.

Lemma chain_reach t trail a : chain t trail -> In a trail -> clos_trans nat dep a t.
Proof.
  revert t. induction trail as [|p r IH]; intros t Hc Ha; [destruct Ha|].
  destruct Hc as [Hd Hc]. destruct Ha as [<-|Ha].
  - apply t_step; auto.
  - eapply t_trans; [eapply IH; eauto|apply t_step; auto].
Qed.

Lemma set_idx_indexed s t v : indexed (set_idx s t v) t = true.
Proof. unfold indexed, set_idx; cbn [index lookup]. rewrite Nat.eqb_refl. reflexivity. Qed.
Lemma add_err_indexed s t : indexed (add_err s t) t = true.
Proof. unfold indexed, add_err; cbn [index lookup]. rewrite Nat.eqb_refl. reflexivity. Qed.
Lemma add_call_indexed s t k l : indexed (add_call s t k l) t = true.
Proof. unfold indexed, add_call; cbn [index lookup]. rewrite Nat.eqb_refl. reflexivity. Qed.

Lemma finish_indexed s t k args s' : finish s t k args = Some s' -> indexed s' t = true.
Proof.
  unfold finish. destruct (arg_slots s args) as [[l|]|]; intros H; inversion H; subst.
  - apply add_call_indexed. - apply set_idx_indexed.
Qed.

Lemma arg_slots_some s args : unvisited s args = [] -> arg_slots s args <> None.
Proof.
  induction args as [|a r IH]; cbn [unvisited filter arg_slots]; intros Hu; [discriminate|].
  unfold indexed in Hu. destruct (lookup (index s) a) as [[n|]|] eqn:E; cbn [negb] in Hu; try discriminate.
  - specialize (IH Hu). destruct (arg_slots s r) as [[l|]|]; congruence.
  - specialize (IH Hu). destruct (arg_slots s r) as [[l|]|]; congruence.
Qed.

Lemma all_indexed_unvisited s args : (forall a, In a args -> indexed s a = true) -> unvisited s args = [].
Proof.
  induction args as [|a r IH]; intros H; cbn [unvisited filter]; auto.
  rewrite (H a (or_introl eq_refl)). cbn [negb]. apply IH. intros; apply H; simpl; auto.
Qed.

(* Main lemma: enough fuel => visit succeeds and indexes its type. *)
Lemma visit_total (Hac : acyclic) :
  forall f t trail s,
    chain t trail -> NoDup trail -> incl trail keys ->
    length keys + 2 <= f + length trail ->
    args_indexed s ->
    exists s', visit f t s = Some s' /\ indexed s' t = true.
Proof.
  induction f as [|f IH]; intros t trail s Hc Hnd Hin Hlen Hargs.
  - exfalso. assert (length trail <= length keys) by (apply NoDup_incl_length; auto). lia.
  - rewrite visit_unfold. destruct (indexed s t) eqn:Et; [eauto|].
    destruct (pm t) as [pv|] eqn:Ep; [|eexists; split; [reflexivity|apply add_err_indexed]].
    (* facts for recursing from t *)
    assert (Ht_notin : ~ In t trail).
    { intros Hi. apply (Hac t). eapply chain_reach; eauto. }
    assert (Hnd' : NoDup (t :: trail)) by (constructor; auto).
    assert (Hin' : incl (t :: trail) keys).
    { intros x [<-|Hx]; [eapply keys_ok; eauto|auto]. }
    assert (Hlen' : length keys + 2 <= f + length (t :: trail)) by (simpl; lia).
    destruct (negb (conc pv =? t)) eqn:Ec.
    + assert (Hne : conc pv <> t).
      { intros Heq. rewrite Heq, Nat.eqb_refl in Ec. discriminate. }
      destruct (IH (conc pv) (t :: trail) s) as (s1 & Hv & Hi); auto.
      { split; auto. eapply dep_alias; eauto. }
      rewrite Hv. destruct (indexed s1 t) eqn:Et1; [eauto|].
      unfold indexed in Hi. destruct (lookup (index s1) (conc pv)) as [i|]; [|discriminate].
      eexists; split; [reflexivity|apply set_idx_indexed].
    + assert (Heq : conc pv = t).
      { destruct (conc pv =? t) eqn:E; [apply Nat.eqb_eq; auto|discriminate]. }
      destruct (wh pv) as [i|args pid|vid|parent fid] eqn:Ew.
      * exfalso. rewrite (Hargs t pv i Ep Heq Ew) in Et. discriminate.
      * (* provider: all args visited in turn *)
        assert (HL : forall l s0, incl l args -> args_indexed s0 ->
                  exists s1, visit_list f l s0 = Some s1 /\ ext s0 s1 /\
                             (forall a, In a l -> indexed s1 a = true)).
        { induction l as [|a r IHl]; intros s0 Hl Ha0; cbn [visit_list].
          - exists s0. split; auto. split; [apply ext_refl|intros a []].
          - destruct (IH a (t :: trail) s0) as (s1 & Hv & Hi); auto.
            { split; auto. eapply dep_prov; eauto. apply Hl; simpl; auto. }
            rewrite Hv. assert (Hx1 := visit_mono _ _ _ _ Hv).
            destruct (IHl s1) as (s2 & Hv2 & Hx2 & Hall).
            { intros x Hx; apply Hl; simpl; auto. }
            { eapply args_indexed_ext; eauto. }
            exists s2. split; auto. split; [eapply ext_trans; eauto|].
            intros b [<-|Hb]; auto. }
        destruct (HL args s (incl_refl _) Hargs) as (s1 & Hv & Hx & Hall).
        rewrite Hv. destruct (indexed s1 t) eqn:Et1; [eauto|].
        assert (Hu := all_indexed_unvisited _ _ Hall).
        assert (Hs := arg_slots_some _ _ Hu).
        unfold finish. destruct (arg_slots s1 args) as [[l|]|]; [| |congruence].
        -- eexists; split; [reflexivity|apply add_call_indexed].
        -- eexists; split; [reflexivity|apply set_idx_indexed].
      * eexists; split; [reflexivity|apply add_call_indexed].
      * destruct (IH parent (t :: trail) s) as (s1 & Hv & Hi); auto.
        { split; auto. eapply dep_field; eauto. }
        rewrite Hv. destruct (indexed s1 t) eqn:Et1; [eauto|].
        assert (Hu : unvisited s1 [parent] = []) by (cbn [unvisited filter]; rewrite Hi; reflexivity).
        assert (Hs := arg_slots_some _ _ Hu).
        unfold finish. destruct (arg_slots s1 [parent]) as [[l|]|]; [| |congruence].
        -- eexists; split; [reflexivity|apply add_call_indexed].
        -- eexists; split; [reflexivity|apply set_idx_indexed].
Qed.

(* ---------- plan validity: invariants of the state (C02 core) ---------- *)
Variable gtypes : list nat.                 (* types of the injector parameters *)
Hypothesis given_len : given = length gtypes.

Definition conc_of (t : nat) : option nat := option_map conc (pm t).

Definition slot_ty (s : st) (i : nat) : option nat :=
  if i <? given then nth_error gtypes i
  else option_map c_out (nth_error (calls s) (i - given)).

(* s' extends s: calls only appended, index entries only added (never overwritten) *)
Definition grows (s s' : st) : Prop :=
  (exists l, calls s' = calls s ++ l) /\
  (forall a v, lookup (index s) a = Some v -> lookup (index s') a = Some v).

Lemma grows_refl s : grows s s.
Proof. split; [exists []; rewrite app_nil_r; auto|auto]. Qed.
Lemma grows_trans a b c : grows a b -> grows b c -> grows a c.
Proof.
  intros [[l1 H1] H2] [[l2 H3] H4]. split; [exists (l1 ++ l2); rewrite H3, H1, app_assoc; auto|auto].
Qed.

Lemma lookup_cons_other ix t v a : a <> t -> lookup ((t, v) :: ix) a = lookup ix a.
Proof. intros H. cbn [lookup]. destruct (t =? a) eqn:E; auto. apply Nat.eqb_eq in E. congruence. Qed.
Lemma lookup_cons_same ix t v : lookup ((t, v) :: ix) t = Some v.
Proof. cbn [lookup]. rewrite Nat.eqb_refl. reflexivity. Qed.

Lemma unindexed_lookup s t : indexed s t = false -> lookup (index s) t = None.
Proof. unfold indexed. destruct (lookup (index s) t); [discriminate|auto]. Qed.

Lemma grows_set_idx s t v : indexed s t = false -> grows s (set_idx s t v).
Proof.
  intros H. split; [exists []; unfold set_idx; cbn [calls]; rewrite app_nil_r; auto|].
  intros a w Hl. unfold set_idx; cbn [index]. rewrite lookup_cons_other; auto.
  intros ->. rewrite (unindexed_lookup _ _ H) in Hl. discriminate.
Qed.
Lemma grows_add_err s t : indexed s t = false -> grows s (add_err s t).
Proof.
  intros H. split; [exists []; unfold add_err; cbn [calls]; rewrite app_nil_r; auto|].
  intros a w Hl. unfold add_err; cbn [index]. rewrite lookup_cons_other; auto.
  intros ->. rewrite (unindexed_lookup _ _ H) in Hl. discriminate.
Qed.
Lemma grows_add_call s t k l : indexed s t = false -> grows s (add_call s t k l).
Proof.
  intros H. split; [eexists; unfold add_call; cbn [calls]; reflexivity|].
  intros a w Hl. unfold add_call; cbn [index]. rewrite lookup_cons_other; auto.
  intros ->. rewrite (unindexed_lookup _ _ H) in Hl. discriminate.
Qed.
Lemma grows_finish s t k args s' : indexed s t = false -> finish s t k args = Some s' -> grows s s'.
Proof.
  intros Hi. unfold finish. destruct (arg_slots s args) as [[l|]|]; intros H; inversion H; subst.
  - apply grows_add_call; auto. - apply grows_set_idx; auto.
Qed.

Lemma visit_grows f : forall t s s', visit f t s = Some s' -> grows s s'.
Proof.
  induction f as [|f IH]; intros t s s' H; [discriminate|].
  assert (IHl : forall l s0 s1, visit_list f l s0 = Some s1 -> grows s0 s1).
  { induction l as [|a r IHr]; intros s0 s1 Hl; cbn [visit_list] in Hl.
    - inversion Hl; apply grows_refl.
    - destruct (visit f a s0) as [s2|] eqn:E; [|discriminate].
      eapply grows_trans; [eapply IH; eauto|eauto]. }
  rewrite visit_unfold in H.
  destruct (indexed s t) eqn:Et; [inversion H; apply grows_refl|].
  destruct (pm t) as [pv|]; [|inversion H; apply grows_add_err; auto].
  destruct (negb (conc pv =? t)).
  - destruct (visit f (conc pv) s) as [s1|] eqn:E; [|discriminate].
    apply IH in E. destruct (indexed s1 t) eqn:Et1; [inversion H; subst; auto|].
    destruct (lookup (index s1) (conc pv)); [|discriminate]. inversion H; subst.
    eapply grows_trans; [eauto|apply grows_set_idx; auto].
  - destruct (wh pv) as [i|args pid|vid|parent fid].
    + inversion H; apply grows_refl.
    + destruct (visit_list f args s) as [s1|] eqn:E; [|discriminate]. apply IHl in E.
      destruct (indexed s1 t) eqn:Et1; [inversion H; subst; auto|].
      eapply grows_trans; [eauto|eapply grows_finish; eauto].
    + inversion H; apply grows_add_call; auto.
    + destruct (visit f parent s) as [s1|] eqn:E; [|discriminate]. apply IH in E.
      destruct (indexed s1 t) eqn:Et1; [inversion H; subst; auto|].
      eapply grows_trans; [eauto|eapply grows_finish; eauto].
Qed.

Lemma slot_ty_grows s s' i c : grows s s' -> slot_ty s i = Some c -> slot_ty s' i = Some c.
Proof.
  intros [[l Hl] _]. unfold slot_ty. destruct (i <? given); auto.
  rewrite Hl. destruct (nth_error (calls s) (i - given)) as [x|] eqn:E; [|discriminate].
  intros H. rewrite nth_error_app1; [rewrite E; auto|]. apply nth_error_Some. congruence.
Qed.

(* a slot holds the value of (the concrete type behind) a *)
Definition slot_for (s : st) (a : nat) (sl : nat) : Prop :=
  sl < given + length (calls s) /\ exists ca, conc_of a = Some ca /\ slot_ty s sl = Some ca.

Lemma slot_for_grows s s' a sl : grows s s' -> slot_for s a sl -> slot_for s' a sl.
Proof.
  intros Hg [Hlt (ca & H1 & H2)]. split.
  - destruct Hg as [[l Hl] _]. rewrite Hl, app_length. lia.
  - exists ca. split; auto. eapply slot_ty_grows; eauto.
Qed.

(* every call was made with arguments taken from earlier slots of the right types *)
Definition call_ok (s : st) (j : nat) (c : call) : Prop :=
  exists pv, pm (c_out c) = Some pv /\ conc pv = c_out c /\
    match c_kind c, wh pv with
    | CProv pid, WProv args pid' =>
        pid = pid' /\ Forall2 (fun a sl => sl < given + j /\ slot_for s a sl) args (c_args c)
    | CVal vid, WVal vid' => vid = vid' /\ c_args c = []
    | CField fid, WField parent fid' =>
        fid = fid' /\ exists sl, c_args c = [sl] /\ sl < given + j /\ slot_for s parent sl
    | _, _ => False
    end.

Definition Good (s : st) : Prop :=
  (forall t i, lookup (index s) t = Some (Slot i) -> slot_for s t i) /\
  (forall j c, nth_error (calls s) j = Some c -> call_ok s j c).

Lemma Forall2_impl' {A B} (P Q : A -> B -> Prop) l1 l2 :
  (forall a b, P a b -> Q a b) -> Forall2 P l1 l2 -> Forall2 Q l1 l2.
Proof. intros H HF. induction HF; constructor; auto. Qed.

Lemma call_ok_grows s s' j c : grows s s' -> call_ok s j c -> call_ok s' j c.
Proof.
  intros Hg (pv & H1 & H2 & H3). exists pv. split; auto. split; auto.
  destruct (c_kind c), (wh pv); auto.
  - destruct H3 as [-> HF]. split; auto.
    eapply Forall2_impl'; [|exact HF]. intros a sl [Hlt Hs]. split; auto. eapply slot_for_grows; eauto.
  - destruct H3 as [-> (sl & Ha & Hlt & Hs)]. split; auto. exists sl. repeat split; auto.
    + destruct Hs as [Hs _]. destruct Hg as [[l Hl] _]. rewrite Hl, app_length. lia.
    + destruct Hs as [_ Hs]. destruct Hs as (ca & X & Y). exists ca; split; auto. eapply slot_ty_grows; eauto.
Qed.

(* arg_slots returns, for each argument, the slot recorded for it *)
Lemma arg_slots_spec s : (forall t i, lookup (index s) t = Some (Slot i) -> slot_for s t i) ->
  forall args l, arg_slots s args = Some (Some l) -> Forall2 (fun a sl => slot_for s a sl) args l.
Proof.
  intros HG. induction args as [|a r IH]; intros l H; cbn [arg_slots] in H.
  - inversion H; constructor.
  - destruct (lookup (index s) a) as [[n|]|] eqn:E; [| |discriminate].
    + destruct (arg_slots s r) as [[l'|]|]; try discriminate. inversion H; subst.
      constructor; auto.
    + destruct (arg_slots s r) as [x|]; discriminate.
Qed.

Lemma Good_set_idx_alias s t c i :
  Good s -> indexed s t = false -> lookup (index s) c = Some i ->
  (forall pv, pm t = Some pv -> conc pv = c) -> conc_of t = conc_of c -> pm t <> None ->
  Good (set_idx s t i).
Proof.
  intros [G1 G2] Hi Hc Hpv Hco Hnn. assert (Hg := grows_set_idx s t i Hi). split.
  - intros a n Hl. unfold set_idx in Hl; cbn [index] in Hl.
    destruct (Nat.eq_dec a t) as [->|Hne].
    + rewrite lookup_cons_same in Hl. inversion Hl; subst.
      destruct (G1 _ _ Hc) as [Hlt (ca & X & Y)]. split; [exact Hlt|].
      exists ca. rewrite Hco. split; auto.
    + rewrite lookup_cons_other in Hl; auto. eapply slot_for_grows; eauto.
  - intros j c0 Hn. unfold set_idx in Hn; cbn [calls] in Hn. eapply call_ok_grows; eauto.
Qed.

Lemma Good_set_abort s t : Good s -> indexed s t = false -> Good (set_idx s t Abort).
Proof.
  intros [G1 G2] Hi. assert (Hg := grows_set_idx s t Abort Hi). split.
  - intros a n Hl. unfold set_idx in Hl; cbn [index] in Hl.
    destruct (Nat.eq_dec a t) as [->|Hne].
    + rewrite lookup_cons_same in Hl. discriminate.
    + rewrite lookup_cons_other in Hl; auto. eapply slot_for_grows; eauto.
  - intros j c0 Hn. unfold set_idx in Hn; cbn [calls] in Hn. eapply call_ok_grows; eauto.
Qed.

Lemma Good_add_err s t : Good s -> indexed s t = false -> Good (add_err s t).
Proof.
  intros [G1 G2] Hi. assert (Hg := grows_add_err s t Hi). split.
  - intros a n Hl. unfold add_err in Hl; cbn [index] in Hl.
    destruct (Nat.eq_dec a t) as [->|Hne].
    + rewrite lookup_cons_same in Hl. discriminate.
    + rewrite lookup_cons_other in Hl; auto. eapply slot_for_grows; eauto.
  - intros j c0 Hn. unfold add_err in Hn; cbn [calls] in Hn. eapply call_ok_grows; eauto.
Qed.

Lemma slot_ty_new s t k l : slot_ty (add_call s t k l) (given + length (calls s)) = Some t.
Proof.
  unfold slot_ty. assert (given + length (calls s) <? given = false) as -> by (apply Nat.ltb_ge; lia).
  unfold add_call; cbn [calls]. replace (given + length (calls s) - given) with (length (calls s)) by lia.
  rewrite nth_error_app2; [|lia]. rewrite Nat.sub_diag. reflexivity.
Qed.

Lemma Good_add_call s t k l pv :
  Good s -> indexed s t = false -> pm t = Some pv -> conc pv = t ->
  call_ok (add_call s t k l) (length (calls s)) {| c_out := t; c_kind := k; c_args := l |} ->
  Good (add_call s t k l).
Proof.
  intros [G1 G2] Hi Hp Hc Hok. assert (Hg := grows_add_call s t k l Hi). split.
  - intros a n Hl. unfold add_call in Hl; cbn [index] in Hl.
    destruct (Nat.eq_dec a t) as [->|Hne].
    + rewrite lookup_cons_same in Hl. injection Hl as <-. split.
      * unfold add_call; cbn [calls]. rewrite app_length. simpl. lia.
      * exists t. split; [unfold conc_of; rewrite Hp; simpl; congruence|apply slot_ty_new].
    + rewrite lookup_cons_other in Hl; auto. eapply slot_for_grows; eauto.
  - intros j c0 Hn. unfold add_call in Hn; cbn [calls] in Hn.
    destruct (Nat.lt_ge_cases j (length (calls s))) as [Hlt|Hge].
    + rewrite nth_error_app1 in Hn; auto. eapply call_ok_grows; eauto.
    + rewrite nth_error_app2 in Hn; auto.
      destruct (j - length (calls s)) as [|m] eqn:Em.
      * cbn in Hn. inversion Hn; subst. assert (j = length (calls s)) as -> by lia. exact Hok.
      * cbn in Hn. destruct m; discriminate.
Qed.

(* the provider map produced by buildProviderMap: an alias key points at a key that is its own concrete type *)
Hypothesis pm_wf : forall t pv, pm t = Some pv -> conc pv <> t ->
  exists pv', pm (conc pv) = Some pv' /\ conc pv' = conc pv.

Lemma Good_finish s t k args s' pv :
  Good s -> indexed s t = false -> pm t = Some pv -> conc pv = t ->
  (forall l, arg_slots s args = Some (Some l) ->
     call_ok (add_call s t k l) (length (calls s)) {| c_out := t; c_kind := k; c_args := l |}) ->
  finish s t k args = Some s' -> Good s'.
Proof.
  intros HG Hi Hp Hc Hok. unfold finish. destruct (arg_slots s args) as [[l|]|] eqn:E; intros H; inversion H; subst.
  - eapply Good_add_call; eauto.
  - apply Good_set_abort; auto.
Qed.

Theorem visit_Good f : forall t s s', visit f t s = Some s' -> Good s -> Good s'.
Proof.
  induction f as [|f IH]; intros t s s' H HG; [discriminate|].
  assert (IHl : forall l s0 s1, visit_list f l s0 = Some s1 -> Good s0 -> Good s1).
  { induction l as [|a r IHr]; intros s0 s1 Hl HG0; cbn [visit_list] in Hl.
    - inversion Hl; subst; auto.
    - destruct (visit f a s0) as [s2|] eqn:E; [|discriminate]. eauto. }
  rewrite visit_unfold in H.
  destruct (indexed s t) eqn:Et; [inversion H; subst; auto|].
  destruct (pm t) as [pv|] eqn:Ep; [|inversion H; subst; apply Good_add_err; auto].
  destruct (negb (conc pv =? t)) eqn:Ec.
  - assert (Hne : conc pv <> t).
    { intros Heq. rewrite Heq, Nat.eqb_refl in Ec. discriminate. }
    destruct (visit f (conc pv) s) as [s1|] eqn:E; [|discriminate].
    assert (HG1 := IH _ _ _ E HG).
    destruct (indexed s1 t) eqn:Et1; [inversion H; subst; auto|].
    destruct (lookup (index s1) (conc pv)) as [i|] eqn:El; [|discriminate]. inversion H; subst.
    destruct (pm_wf _ _ Ep Hne) as (pv' & Hp' & Hc').
    destruct i as [n|].
    + eapply Good_set_idx_alias; eauto.
      * intros pv0 Hpv0. rewrite Ep in Hpv0. inversion Hpv0; subst; auto.
      * unfold conc_of. rewrite Ep, Hp'. simpl. congruence.
      * congruence.
    + apply Good_set_abort; auto.
  - assert (Heq : conc pv = t).
    { destruct (conc pv =? t) eqn:E; [apply Nat.eqb_eq; auto|discriminate]. }
    destruct (wh pv) as [i|args pid|vid|parent fid] eqn:Ew.
    + inversion H; subst; auto.
    + destruct (visit_list f args s) as [s1|] eqn:E; [|discriminate].
      assert (HG1 := IHl _ _ _ E HG).
      destruct (indexed s1 t) eqn:Et1; [inversion H; subst; auto|].
      eapply Good_finish; eauto.
      intros l Hl. exists pv. cbn [c_out c_kind c_args]. split; auto. split; auto. rewrite Ew. split; auto.
      destruct HG1 as [G1 _]. pose proof (arg_slots_spec s1 G1 args l Hl) as HF.
      eapply Forall2_impl'; [|exact HF]. intros a sl Hs. split.
      * destruct Hs as [Hlt _]. exact Hlt.
      * eapply slot_for_grows; [apply grows_add_call; auto|exact Hs].
    + inversion H; subst. eapply Good_add_call; eauto.
      exists pv. cbn [c_out c_kind c_args]. rewrite Ew. auto.
    + destruct (visit f parent s) as [s1|] eqn:E; [|discriminate].
      assert (HG1 := IH _ _ _ E HG).
      destruct (indexed s1 t) eqn:Et1; [inversion H; subst; auto|].
      eapply Good_finish; eauto.
      intros l Hl. exists pv. cbn [c_out c_kind c_args]. split; auto. split; auto. rewrite Ew. split; auto.
      destruct HG1 as [G1 _]. pose proof (arg_slots_spec s1 G1 [parent] l Hl) as HF.
      inversion HF as [|a0 sl0 la ll Hs HF']; subst. inversion HF'; subst.
      exists sl0. split; auto. split.
      * destruct Hs as [Hlt _]. exact Hlt.
      * eapply slot_for_grows; [apply grows_add_call; auto|exact Hs].
Qed.

(* ---------- C02: the plan computes the specified value ---------- *)
Inductive V := VArg (i : nat) | VCall (pid : nat) (args : list V) | VVal (vid : nat) | VField (fid : nat) (parent : V).

(* Specification, on the provider map alone: the value of type t in one injector call *)
Inductive val : nat -> V -> Prop :=
| val_alias t pv v : pm t = Some pv -> conc pv <> t -> val (conc pv) v -> val t v
| val_arg t pv i : pm t = Some pv -> conc pv = t -> wh pv = WArg i -> val t (VArg i)
| val_prov t pv args pid vs : pm t = Some pv -> conc pv = t -> wh pv = WProv args pid ->
    Forall2 val args vs -> val t (VCall pid vs)
| val_val t pv vid : pm t = Some pv -> conc pv = t -> wh pv = WVal vid -> val t (VVal vid)
| val_field t pv parent fid v : pm t = Some pv -> conc pv = t -> wh pv = WField parent fid ->
    val parent v -> val t (VField fid v).

(* Execution of a call list: slot i < given holds parameter i; each call appends one slot *)
Definition exec_call (env : list V) (c : call) : V :=
  match c_kind c with
  | CProv pid => VCall pid (map (fun sl => nth sl env (VArg 0)) (c_args c))
  | CVal vid => VVal vid
  | CField fid => VField fid (nth (hd 0 (c_args c)) env (VArg 0))
  end.

Fixpoint exec_calls (env : list V) (cs : list call) : list V :=
  match cs with
  | [] => env
  | c :: r => exec_calls (env ++ [exec_call env c]) r
  end.

Definition env0 : list V := map VArg (seq 0 given).
Definition env_of (s : st) : list V := exec_calls env0 (calls s).

Lemma exec_calls_app env cs cs' : exec_calls env (cs ++ cs') = exec_calls (exec_calls env cs) cs'.
Proof. revert env. induction cs as [|c r IH]; intros env; cbn [app exec_calls]; auto. Qed.

Lemma exec_calls_length env cs : length (exec_calls env cs) = length env + length cs.
Proof.
  revert env. induction cs as [|c r IH]; intros env; cbn [exec_calls length]; [lia|].
  rewrite IH, app_length. simpl. lia.
Qed.

Lemma exec_calls_prefix env cs : exists l, exec_calls env cs = env ++ l.
Proof.
  revert env. induction cs as [|c r IH]; intros env; cbn [exec_calls].
  - exists []. rewrite app_nil_r; auto.
  - destruct (IH (env ++ [exec_call env c])) as [l Hl]. exists ([exec_call env c] ++ l).
    rewrite Hl, app_assoc. reflexivity.
Qed.

Lemma env_of_length s : length (env_of s) = given + length (calls s).
Proof. unfold env_of. rewrite exec_calls_length. unfold env0. rewrite map_length, seq_length. reflexivity. Qed.

Lemma env_of_grows s s' i v : grows s s' -> nth_error (env_of s) i = Some v -> nth_error (env_of s') i = Some v.
Proof.
  intros [[l Hl] _] H. unfold env_of in *. rewrite Hl, exec_calls_app.
  destruct (exec_calls_prefix (exec_calls env0 (calls s)) l) as [l' ->].
  rewrite nth_error_app1; auto. apply nth_error_Some. congruence.
Qed.

(* semantic invariant: every indexed type's slot holds the specified value *)
Definition slot_val (s : st) (a : nat) (sl : nat) : Prop :=
  exists v, nth_error (env_of s) sl = Some v /\ val a v.

Definition SemGood (s : st) : Prop :=
  forall t i, lookup (index s) t = Some (Slot i) -> slot_val s t i.

Lemma slot_val_grows s s' a sl : grows s s' -> slot_val s a sl -> slot_val s' a sl.
Proof. intros Hg (v & H1 & H2). exists v. split; auto. eapply env_of_grows; eauto. Qed.

Lemma SemGood_keep s s' t0 :
  SemGood s -> grows s s' ->
  (forall t i, lookup (index s') t = Some (Slot i) -> t <> t0 -> lookup (index s) t = Some (Slot i)) ->
  (forall i, lookup (index s') t0 = Some (Slot i) -> slot_val s' t0 i) ->
  SemGood s'.
Proof.
  intros HG Hg Hold Hnew t i Hl. destruct (Nat.eq_dec t t0) as [->|Hne]; auto.
  eapply slot_val_grows; eauto.
Qed.

Lemma nth_error_nth' {A} (l : list A) n d v : nth_error l n = Some v -> nth n l d = v.
Proof. intros H. apply nth_error_nth; auto. Qed.

Lemma arg_slots_vals s : SemGood s ->
  forall args l, arg_slots s args = Some (Some l) ->
  Forall2 val args (map (fun sl => nth sl (env_of s) (VArg 0)) l).
Proof.
  intros HG. induction args as [|a r IH]; intros l H; cbn [arg_slots] in H.
  - inversion H; constructor.
  - destruct (lookup (index s) a) as [[n|]|] eqn:E; [| |discriminate].
    + destruct (arg_slots s r) as [[l'|]|]; try discriminate. inversion H; subst.
      cbn [map]. constructor; auto.
      destruct (HG _ _ E) as (v & Hv & Hval). rewrite (nth_error_nth' _ _ _ _ Hv). exact Hval.
    + destruct (arg_slots s r) as [x|]; discriminate.
Qed.

Lemma env_of_add_call s t k l :
  env_of (add_call s t k l) = env_of s ++ [exec_call (env_of s) {| c_out := t; c_kind := k; c_args := l |}].
Proof. unfold env_of, add_call. cbn [calls]. rewrite exec_calls_app. reflexivity. Qed.

Lemma SemGood_add_call s t k l v :
  SemGood s -> indexed s t = false ->
  exec_call (env_of s) {| c_out := t; c_kind := k; c_args := l |} = v -> val t v ->
  SemGood (add_call s t k l).
Proof.
  intros HG Hi Hex Hv. eapply (SemGood_keep s _ t); eauto using grows_add_call.
  - intros a i Hl Hne. unfold add_call in Hl; cbn [index] in Hl. rewrite lookup_cons_other in Hl; auto.
  - intros i Hl. unfold add_call in Hl; cbn [index] in Hl. rewrite lookup_cons_same in Hl.
    injection Hl as <-. exists v. split; auto.
    rewrite env_of_add_call, Hex. rewrite nth_error_app2; rewrite env_of_length; [|lia].
    rewrite Nat.sub_diag. reflexivity.
Qed.

Lemma SemGood_set_abort s t : SemGood s -> indexed s t = false -> SemGood (set_idx s t Abort).
Proof.
  intros HG Hi. eapply (SemGood_keep s _ t); eauto using grows_set_idx.
  - intros a i Hl Hne. unfold set_idx in Hl; cbn [index] in Hl. rewrite lookup_cons_other in Hl; auto.
  - intros i Hl. unfold set_idx in Hl; cbn [index] in Hl. rewrite lookup_cons_same in Hl. discriminate.
Qed.

Lemma SemGood_add_err s t : SemGood s -> indexed s t = false -> SemGood (add_err s t).
Proof.
  intros HG Hi. eapply (SemGood_keep s _ t); eauto using grows_add_err.
  - intros a i Hl Hne. unfold add_err in Hl; cbn [index] in Hl. rewrite lookup_cons_other in Hl; auto.
  - intros i Hl. unfold add_err in Hl; cbn [index] in Hl. rewrite lookup_cons_same in Hl. discriminate.
Qed.

Theorem visit_SemGood f : forall t s s', visit f t s = Some s' -> SemGood s -> SemGood s'.
Proof.
  induction f as [|f IH]; intros t s s' H HG; [discriminate|].
  assert (IHl : forall l s0 s1, visit_list f l s0 = Some s1 -> SemGood s0 -> SemGood s1).
  { induction l as [|a r IHr]; intros s0 s1 Hl HG0; cbn [visit_list] in Hl.
    - inversion Hl; subst; auto.
    - destruct (visit f a s0) as [s2|] eqn:E; [|discriminate]. eauto. }
  rewrite visit_unfold in H.
  destruct (indexed s t) eqn:Et; [inversion H; subst; auto|].
  destruct (pm t) as [pv|] eqn:Ep; [|inversion H; subst; apply SemGood_add_err; auto].
  destruct (negb (conc pv =? t)) eqn:Ec.
  - assert (Hne : conc pv <> t).
    { intros Heq. rewrite Heq, Nat.eqb_refl in Ec. discriminate. }
    destruct (visit f (conc pv) s) as [s1|] eqn:E; [|discriminate].
    assert (HG1 := IH _ _ _ E HG).
    destruct (indexed s1 t) eqn:Et1; [inversion H; subst; auto|].
    destruct (lookup (index s1) (conc pv)) as [i|] eqn:El; [|discriminate]. inversion H; subst.
    destruct i as [n|]; [|apply SemGood_set_abort; auto].
    eapply (SemGood_keep s1 _ t); eauto using grows_set_idx.
    + intros a i Hl Hn'. unfold set_idx in Hl; cbn [index] in Hl. rewrite lookup_cons_other in Hl; auto.
    + intros i Hl. unfold set_idx in Hl; cbn [index] in Hl. rewrite lookup_cons_same in Hl. injection Hl as <-.
      destruct (HG1 _ _ El) as (v & Hv & Hval). exists v. split.
      * eapply env_of_grows; [apply grows_set_idx; auto|exact Hv].
      * eapply val_alias; eauto.
  - assert (Heq : conc pv = t).
    { destruct (conc pv =? t) eqn:E; [apply Nat.eqb_eq; auto|discriminate]. }
    destruct (wh pv) as [i|args pid|vid|parent fid] eqn:Ew.
    + inversion H; subst; auto.
    + destruct (visit_list f args s) as [s1|] eqn:E; [|discriminate].
      assert (HG1 := IHl _ _ _ E HG).
      destruct (indexed s1 t) eqn:Et1; [inversion H; subst; auto|].
      unfold finish in H. destruct (arg_slots s1 args) as [[l|]|] eqn:Ea; inversion H; subst.
      * eapply SemGood_add_call; eauto. cbn [exec_call c_kind c_args].
        eapply val_prov; eauto. eapply arg_slots_vals; eauto.
      * apply SemGood_set_abort; auto.
    + inversion H; subst. eapply SemGood_add_call; eauto. cbn [exec_call c_kind]. eapply val_val; eauto.
    + destruct (visit f parent s) as [s1|] eqn:E; [|discriminate].
      assert (HG1 := IH _ _ _ E HG).
      destruct (indexed s1 t) eqn:Et1; [inversion H; subst; auto|].
      unfold finish in H. destruct (arg_slots s1 [parent]) as [[l|]|] eqn:Ea; inversion H; subst.
      * eapply SemGood_add_call; eauto. cbn [exec_call c_kind c_args].
        pose proof (arg_slots_vals s1 HG1 [parent] l Ea) as HF.
        destruct l as [|sl l']; [inversion HF|]. inversion HF; subst. cbn [hd].
        eapply val_field; eauto.
      * apply SemGood_set_abort; auto.
Qed.

(* the initial state: parameter i is slot i *)
Definition s_init : st :=
  {| index := combine gtypes (map Slot (seq 0 given)); calls := []; errs := [] |}.

Hypothesis args_pm : forall i t, nth_error gtypes i = Some t ->
  exists pv, pm t = Some pv /\ conc pv = t /\ wh pv = WArg i.
Hypothesis gtypes_nodup : NoDup gtypes.

Lemma lookup_combine_slot : forall (l : list nat) (k : nat) t i,
  NoDup l -> lookup (combine l (map Slot (seq k (length l)))) t = Some (Slot i) ->
  k <= i /\ nth_error l (i - k) = Some t.
Proof.
  induction l as [|x l IH]; intros k t i Hnd H; cbn in H; [discriminate|].
  inversion Hnd; subst. destruct (x =? t) eqn:E.
  - apply Nat.eqb_eq in E. subst. injection H as <-. rewrite Nat.sub_diag. split; auto.
  - destruct (IH (S k) t i H3 H) as [Hle Hn]. split; [lia|].
    replace (i - k) with (S (i - S k)) by lia. exact Hn.
Qed.

Lemma SemGood_init : SemGood s_init.
Proof.
  intros t i Hl. unfold s_init in Hl; cbn [index] in Hl. rewrite given_len in Hl.
  destruct (lookup_combine_slot _ _ _ _ gtypes_nodup Hl) as [_ Hn]. rewrite Nat.sub_0_r in Hn.
  destruct (args_pm _ _ Hn) as (pv & Hp & Hc & Hw).
  exists (VArg i). split; [|eapply val_arg; eauto].
  unfold env_of, s_init; cbn [calls exec_calls]. unfold env0.
  assert (i < given). { rewrite given_len. apply nth_error_Some. congruence. }
  rewrite nth_error_map. rewrite (proj2 (nth_error_Some _ _) ) with (1 := ltac:(rewrite seq_length; lia)) || idtac.
  destruct (nth_error (seq 0 given) i) eqn:E.
  - apply nth_error_nth with (d := 0) in E. rewrite seq_nth in E; auto. simpl in E. subst. reflexivity.
  - apply nth_error_None in E. rewrite seq_length in E. lia.
Qed.

(* C02 (wiring): whatever slot solve records for the result type holds the specified value *)
Theorem C02_wiring f out s' i :
  visit f out s_init = Some s' -> lookup (index s') out = Some (Slot i) ->
  exists v, nth_error (exec_calls env0 (calls s')) i = Some v /\ val out v.
Proof.
  intros Hv Hl. apply (visit_SemGood _ _ _ _ Hv SemGood_init _ _ Hl).
Qed.

Lemma NoDup_snoc_nat (l : list nat) k : NoDup l -> ~ In k l -> NoDup (l ++ [k]).
Proof.
  induction l as [|x l IH]; intros Hnd Hn; cbn.
  - constructor; auto; constructor.
  - inversion Hnd; subst. constructor.
    + intros Hi. apply in_app_or in Hi. destruct Hi as [Hi|[->|[]]]; auto. apply Hn; simpl; auto.
    + apply IH; auto. intros Hi. apply Hn; simpl; auto.
Qed.

(* ---------- C06: errors are exactly the missing types the result needs ---------- *)
Definition reach (out t : nat) : Prop := clos_refl_trans nat dep out t.

Lemma reach_step out t u : reach out t -> dep t u -> reach out u.
Proof. intros H D. eapply rt_trans; [exact H|apply rt_step; exact D]. Qed.

Record ErrInv (out : nat) (s : st) : Prop := {
  e_missing : forall t, In t (errs s) -> pm t = None /\ indexed s t = true;
  e_recorded : forall t, indexed s t = true -> pm t = None -> In t (errs s);
  e_closed : forall t u, indexed s t = true -> dep t u -> indexed s u = true;
  e_reach : forall t, indexed s t = true -> indexed s_init t = true \/ reach out t;
  e_nodup : NoDup (errs s);
  e_abort : forall t, lookup (index s) t = Some Abort -> errs s <> []
}.

Lemma indexed_cons_iff s t v a cs es :
  indexed {| index := (t, v) :: index s; calls := cs; errs := es |} a = true <-> a = t \/ indexed s a = true.
Proof.
  unfold indexed; cbn [index lookup]. destruct (t =? a) eqn:E.
  - apply Nat.eqb_eq in E. subst. tauto.
  - apply Nat.eqb_neq in E. split; [auto|intros [->|H]; [congruence|auto]].
Qed.

(* adding an index entry for a type all of whose dependencies are indexed keeps the invariant *)
Lemma ErrInv_index out s s' t v :
  ErrInv out s -> indexed s t = false -> reach out t ->
  index s' = (t, v) :: index s -> errs s' = errs s ->
  pm t <> None ->
  (forall u, dep t u -> indexed s u = true) ->
  (v = Abort -> errs s <> []) ->
  ErrInv out s'.
Proof.
  intros [M R C Re N A] Hi Hr Hix Her Hpm Hdeps Hab.
  assert (Hiff : forall a, indexed s' a = true <-> a = t \/ indexed s a = true).
  { intros a. destruct s' as [ix cs es]. cbn [index] in Hix. subst ix. apply indexed_cons_iff. }
  constructor.
  - intros a Ha. rewrite Her in Ha. destruct (M a Ha) as [H1 H2]. split; auto. apply Hiff; auto.
  - intros a Ha Hn. rewrite Her. apply Hiff in Ha. destruct Ha as [->|Ha]; [congruence|auto].
  - intros a u Ha D. apply Hiff. apply Hiff in Ha. destruct Ha as [->|Ha]; [right; auto|right; eauto].
  - intros a Ha. apply Hiff in Ha. destruct Ha as [->|Ha]; auto.
  - rewrite Her; auto.
  - intros a Hl. rewrite Hix in Hl. cbn [lookup] in Hl. rewrite Her. destruct (t =? a) eqn:E.
    + injection Hl as ->. auto.
    + eauto.
Qed.

Lemma ErrInv_add_err out s t :
  ErrInv out s -> indexed s t = false -> reach out t -> pm t = None -> ErrInv out (add_err s t).
Proof.
  intros [M R C Re N A] Hi Hr Hpm.
  assert (Hiff : forall a, indexed (add_err s t) a = true <-> a = t \/ indexed s a = true).
  { intros a. unfold add_err. apply indexed_cons_iff. }
  constructor.
  - intros a Ha. unfold add_err in Ha; cbn [errs] in Ha. apply in_app_or in Ha.
    destruct Ha as [Ha|[<-|[]]].
    + destruct (M a Ha). split; auto. apply Hiff; auto.
    + split; auto. apply Hiff; auto.
  - intros a Ha Hn. unfold add_err; cbn [errs]. apply in_or_app. apply Hiff in Ha.
    destruct Ha as [->|Ha]; [right; simpl; auto|left; auto].
  - intros a u Ha D. apply Hiff. apply Hiff in Ha. destruct Ha as [->|Ha].
    + exfalso. inversion D; subst; congruence.
    + right; eauto.
  - intros a Ha. apply Hiff in Ha. destruct Ha as [->|Ha]; auto.
  - unfold add_err; cbn [errs]. apply NoDup_snoc_nat; auto.
    intros Hin. destruct (M t Hin) as [_ H2]. congruence.
  - intros a Hl. unfold add_err; cbn [errs]. intros Hnil. destruct (errs s); discriminate.
Qed.

Lemma arg_slots_abort s : forall args, arg_slots s args = Some None ->
  exists a, In a args /\ lookup (index s) a = Some Abort.
Proof.
  induction args as [|a r IH]; cbn [arg_slots]; intros H; [discriminate|].
  destruct (lookup (index s) a) as [[n|]|] eqn:E; [| |discriminate].
  - destruct (arg_slots s r) as [[l|]|] eqn:Er; try discriminate.
    destruct (IH eq_refl) as (x & Hx & Hl). exists x. split; simpl; auto.
  - exists a. split; simpl; auto.
Qed.

Lemma unvisited_nil_all s args : unvisited s args = [] -> forall a, In a args -> indexed s a = true.
Proof.
  induction args as [|x r IH]; cbn [unvisited filter]; intros H a Ha; [destruct Ha|].
  destruct (indexed s x) eqn:E; cbn [negb] in H; [|discriminate].
  destruct Ha as [<-|Ha]; auto.
Qed.

Lemma dep_cases t u pv : pm t = Some pv -> dep t u ->
  (conc pv <> t /\ u = conc pv) \/
  (conc pv = t /\ exists args pid, wh pv = WProv args pid /\ In u args) \/
  (conc pv = t /\ exists fid, wh pv = WField u fid).
Proof.
  intros Hp D.
  destruct D as [t pv' H1 H2 | t pv' args pid a H1 H2 H3 H4 | t pv' parent fid H1 H2 H3];
    rewrite Hp in H1; injection H1 as <-.
  - left; auto.
  - right; left; eauto.
  - right; right; eauto.
Qed.

Theorem visit_ErrInv out f : forall t s s', visit f t s = Some s' -> reach out t -> ErrInv out s -> ErrInv out s'.
Proof.
  induction f as [|f IH]; intros t s s' H Hr HE; [discriminate|].
  assert (IHl : forall l s0 s1, visit_list f l s0 = Some s1 -> (forall a, In a l -> reach out a) ->
                  ErrInv out s0 -> ErrInv out s1).
  { induction l as [|a r IHr]; intros s0 s1 Hl Hall HE0; cbn [visit_list] in Hl.
    - inversion Hl; subst; auto.
    - destruct (visit f a s0) as [s2|] eqn:E; [|discriminate].
      eapply IHr; eauto; [intros; apply Hall; simpl; auto|].
      eapply IH; eauto. apply Hall; simpl; auto. }
  rewrite visit_unfold in H.
  destruct (indexed s t) eqn:Et; [inversion H; subst; auto|].
  destruct (pm t) as [pv|] eqn:Ep; [|inversion H; subst; apply ErrInv_add_err; auto].
  assert (Hpm : pm t <> None) by congruence.
  destruct (negb (conc pv =? t)) eqn:Ec.
  - assert (Hne : conc pv <> t).
    { intros Heq. rewrite Heq, Nat.eqb_refl in Ec. discriminate. }
    destruct (visit f (conc pv) s) as [s1|] eqn:E; [|discriminate].
    assert (HE1 : ErrInv out s1).
    { eapply IH; eauto. eapply reach_step; eauto. eapply dep_alias; eauto. }
    destruct (indexed s1 t) eqn:Et1; [inversion H; subst; auto|].
    destruct (lookup (index s1) (conc pv)) as [i|] eqn:El; [|discriminate]. injection H as <-.
    eapply (ErrInv_index out s1 _ t i HE1 Et1 Hr); [reflexivity|reflexivity|exact Hpm| |].
    + intros u D. destruct (dep_cases _ _ _ Ep D) as [[_ ->]|[[Hc _]|[Hc _]]]; try congruence.
      unfold indexed. rewrite El. reflexivity.
    + intros ->. eapply e_abort; eauto.
  - assert (Heq : conc pv = t).
    { destruct (conc pv =? t) eqn:E; [apply Nat.eqb_eq; auto|discriminate]. }
    destruct (wh pv) as [i|args pid|vid|parent fid] eqn:Ew.
    + inversion H; subst; auto.
    + destruct (visit_list f args s) as [s1|] eqn:E; [|discriminate].
      assert (HE1 : ErrInv out s1).
      { eapply IHl; eauto. intros a Ha. eapply reach_step; eauto. eapply dep_prov; eauto. }
      destruct (indexed s1 t) eqn:Et1; [inversion H; subst; auto|].
      assert (Hall := unvisited_nil_all _ _ (finish_all_indexed _ _ _ _ _ H)).
      assert (Hdeps : forall u, dep t u -> indexed s1 u = true).
      { intros u D. destruct (dep_cases _ _ _ Ep D) as [[Hc _]|[[_ (a' & p' & Hw & Hin)]|[_ (f' & Hw)]]]; try congruence.
        rewrite Ew in Hw. injection Hw as <- <-. auto. }
      unfold finish in H. destruct (arg_slots s1 args) as [[l|]|] eqn:Ea; try discriminate; injection H as <-.
      * eapply (ErrInv_index out s1 _ t _ HE1 Et1 Hr); [reflexivity|reflexivity|exact Hpm|exact Hdeps|discriminate].
      * eapply (ErrInv_index out s1 _ t Abort HE1 Et1 Hr); [reflexivity|reflexivity|exact Hpm|exact Hdeps|].
        intros _. destruct (arg_slots_abort _ _ Ea) as (a & _ & Hl). eapply e_abort; eauto.
    + injection H as <-. eapply (ErrInv_index out s _ t _ HE Et Hr); [reflexivity|reflexivity|exact Hpm| |discriminate].
      intros u D. destruct (dep_cases _ _ _ Ep D) as [[Hc _]|[[_ (a' & p' & Hw & Hin)]|[_ (f' & Hw)]]]; congruence.
    + destruct (visit f parent s) as [s1|] eqn:E; [|discriminate].
      assert (HE1 : ErrInv out s1).
      { eapply IH; eauto. eapply reach_step; eauto. eapply dep_field; eauto. }
      destruct (indexed s1 t) eqn:Et1; [inversion H; subst; auto|].
      assert (Hall := unvisited_nil_all _ _ (finish_all_indexed _ _ _ _ _ H)).
      assert (Hdeps : forall u, dep t u -> indexed s1 u = true).
      { intros u D. destruct (dep_cases _ _ _ Ep D) as [[Hc _]|[[_ (a' & p' & Hw & Hin)]|[_ (f' & Hw)]]]; try congruence.
        rewrite Ew in Hw. injection Hw as <- <-. apply Hall; simpl; auto. }
      unfold finish in H. destruct (arg_slots s1 [parent]) as [[l|]|] eqn:Ea; try discriminate; injection H as <-.
      * eapply (ErrInv_index out s1 _ t _ HE1 Et1 Hr); [reflexivity|reflexivity|exact Hpm|exact Hdeps|discriminate].
      * eapply (ErrInv_index out s1 _ t Abort HE1 Et1 Hr); [reflexivity|reflexivity|exact Hpm|exact Hdeps|].
        intros _. destruct (arg_slots_abort _ _ Ea) as (a & _ & Hl). eapply e_abort; eauto.
Qed.

Lemma lookup_combine_in : forall (l : list nat) (vs : list idx) t v,
  lookup (combine l vs) t = Some v -> In t l /\ In v vs.
Proof.
  induction l as [|x l IH]; intros vs t v H; destruct vs as [|w vs]; cbn in H; try discriminate.
  destruct (x =? t) eqn:E.
  - apply Nat.eqb_eq in E. injection H as <-. subst. split; simpl; auto.
  - destruct (IH _ _ _ H). split; simpl; auto.
Qed.

Lemma init_indexed_arg t : indexed s_init t = true -> exists i pv, pm t = Some pv /\ conc pv = t /\ wh pv = WArg i.
Proof.
  unfold indexed, s_init; cbn [index]. destruct (lookup _ t) as [v|] eqn:E; [|discriminate]. intros _.
  apply lookup_combine_in in E. destruct E as [Hin _].
  apply In_nth_error in Hin. destruct Hin as [i Hi]. destruct (args_pm _ _ Hi) as (pv & H1 & H2 & H3). eauto.
Qed.

Lemma ErrInv_init out : ErrInv out s_init.
Proof.
  constructor.
  - intros t [].
  - intros t Hi Hn. destruct (init_indexed_arg _ Hi) as (i & pv & Hp & _). congruence.
  - intros t u Hi D. destruct (init_indexed_arg _ Hi) as (i & pv & Hp & Hc & Hw).
    destruct (dep_cases _ _ _ Hp D) as [[Hc' _]|[[_ (a' & p' & Hw' & _)]|[_ (f' & Hw')]]]; congruence.
  - auto.
  - constructor.
  - intros t Hl. unfold s_init in Hl; cbn [index] in Hl. apply lookup_combine_in in Hl.
    destruct Hl as [_ Hin]. apply in_map_iff in Hin. destruct Hin as (x & Hx & _). discriminate.
Qed.

(* C06: the reported missing types are exactly the source-less types the result depends on *)
Theorem C06_missing f out s' :
  visit f out s_init = Some s' -> indexed s' out = true ->
  (forall t, In t (errs s') <-> reach out t /\ pm t = None) /\
  NoDup (errs s') /\
  (errs s' = [] -> exists i, lookup (index s') out = Some (Slot i)).
Proof.
  intros Hv Hi.
  assert (HE := visit_ErrInv out f out s_init s' Hv (rt_refl _ _ _) (ErrInv_init out)).
  destruct HE as [M R C Re N A]. split; [|split]; auto.
  - intros t. split.
    + intros Hin. destruct (M t Hin) as [Hn Hit]. split; auto.
      destruct (Re t Hit) as [Hinit|Hr]; auto.
      destruct (init_indexed_arg _ Hinit) as (i & pv & Hp & _). congruence.
    + intros [Hr Hn]. apply R; auto.
      assert (Hcl : forall a b, clos_refl_trans_1n nat dep a b -> indexed s' a = true -> indexed s' b = true).
      { intros a b Hab. induction Hab as [|x y z D _ IH]; auto. intros Hx. apply IH. eapply C; eauto. }
      eapply Hcl; [apply clos_rt_rt1n; exact Hr|exact Hi].
  - intros He. unfold indexed in Hi. destruct (lookup (index s') out) as [[i|]|] eqn:El; try discriminate.
    + eauto.
    + exfalso. eapply A; eauto.
Qed.

(* the real loop terminates: with fuel |keys|+2 the recursive visit succeeds, hence (solve_sim)
   the machine started on [out] reaches the same state *)
Theorem solve_terminates (Hac : acyclic) out s0 :
  args_indexed s0 ->
  exists s' k, visit (length keys + 2) out s0 = Some s' /\
               forall fuel, machine (k + fuel) [out] s0 = machine fuel [] s'.
Proof.
  intros Ha.
  destruct (visit_total Hac (length keys + 2) out [] s0) as (s' & Hv & _); simpl; auto.
  { constructor. } { intros x []. } { lia. }
  destruct (solve_sim _ _ _ _ Hv []) as [k Hk].
  exists s', k. split; auto.
Qed.


(* ---------- fuel monotonicity: any successful run agrees with the recursive visit ---------- *)
Lemma machine_more f : forall stk s r, machine f stk s = Some r -> forall k, machine (k + f) stk s = Some r.
Proof.
  induction f as [|f IH]; intros stk s r H k; [discriminate|].
  replace (k + S f) with (S (k + f)) by lia.
  destruct stk as [|t stk'].
  - cbn [machine] in *. exact H.
  - rewrite step1 in H. rewrite step1. destruct (step t stk' s) as [stk2 s2]. apply IH; auto.
Qed.

Theorem machine_visit (Hac : acyclic) out s0 fuel r :
  args_indexed s0 -> machine fuel [out] s0 = Some r -> visit (length keys + 2) out s0 = Some r.
Proof.
  intros Ha Hm. destruct (solve_terminates Hac out s0 Ha) as (s' & k & Hv & Hk).
  rewrite Hv. f_equal.
  pose proof (Hk (S fuel)) as H1.
  assert (Hn : machine (S fuel) [] s' = Some s') by reflexivity. rewrite Hn in H1.
  pose proof (machine_more _ _ _ _ Hm (S k)) as H2.
  replace (S k + fuel) with (k + S fuel) in H2 by lia. congruence.
Qed.

(* ---------- the `used` list of analyze.go:solve ---------- *)
(* a key is appended whenever its frame is popped un-indexed and the set has a source for it *)
Definition marks (t : nat) (s : st) (u : list nat) : list nat :=
  if indexed s t then u else match pm t with Some _ => u ++ [t] | None => u end.

Fixpoint machine2 (fuel : nat) (stk : list nat) (s : st) (u : list nat) : option (st * list nat) :=
  match fuel with
  | 0 => None
  | S f =>
    match stk with
    | [] => Some (s, u)
    | t :: stk' => let '(stk2, s2) := step t stk' s in machine2 f stk2 s2 (marks t s u)
    end
  end.

Lemma machine2_fst f : forall stk s u, option_map fst (machine2 f stk s u) = machine f stk s.
Proof.
  induction f as [|f IH]; intros stk s u; cbn [machine2 machine option_map]; auto.
  destruct stk as [|t stk']; auto. destruct (step t stk' s) as [stk2 s2]. apply IH.
Qed.

End S.
Print Assumptions solve_sim.
Print Assumptions solve_terminates.
Print Assumptions visit_Good.
Print Assumptions C02_wiring.
Print Assumptions C06_missing.

