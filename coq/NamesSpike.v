From Coq Require Import List Arith Lia Bool String Ascii DecimalString DecimalNat Decimal FinFun.
Import ListNotations.
Open Scope string_scope.

(* Spike: wire.go:disambiguate — the loop `for n := 2; ; n++` terminates and returns a fresh name. *)

Definition itoa (n : nat) : string := NilEmpty.string_of_uint (Nat.to_uint n).

Lemma itoa_inj n m : itoa n = itoa m -> n = m.
Proof.
  unfold itoa. intros H.
  assert (Some (Nat.to_uint n) = Some (Nat.to_uint m)) as H'.
  { rewrite <- (NilEmpty.usu (Nat.to_uint n)), <- (NilEmpty.usu (Nat.to_uint m)). rewrite H. reflexivity. }
  inversion H' as [H'']. apply (f_equal Nat.of_uint) in H''.
  rewrite !DecimalNat.Unsigned.of_to in H''. exact H''.
Qed.

Lemma append_cancel_l (b x y : string) : b ++ x = b ++ y -> x = y.
Proof. induction b as [|c b IH]; simpl; intros H; [exact H|]. inversion H. auto. Qed.

Section D.
Variable is_kw : string -> bool.
Variable collides : string -> bool.

Definition ok (s : string) : bool := negb (is_kw s) && negb (collides s).

Fixpoint loop (fuel n : nat) (base : string) : option string :=
  match fuel with
  | 0 => None
  | S f => let c := base ++ itoa n in if ok c then Some c else loop f (S n) base
  end.

Definition last_is_digit (s : string) : bool :=
  match String.length s with
  | 0 => false
  | S k => match String.get k s with
           | Some c => (Nat.leb 48 (nat_of_ascii c)) && (Nat.leb (nat_of_ascii c) 57)
           | None => false
           end
  end.

Definition disambiguate (fuel : nat) (name : string) : option string :=
  if ok name then Some name
  else let base := if last_is_digit name then name ++ "_" else name in
       loop fuel 2 base.

(* finite support of the two predicates *)
Variable bad : list string.
Hypothesis bad_ok : forall s, ok s = false -> In s bad.

Definition cands (base : string) (n fuel : nat) : list string :=
  map (fun k => base ++ itoa k) (seq n fuel).

Lemma cands_nodup base n fuel : NoDup (cands base n fuel).
Proof.
  unfold cands. apply FinFun.Injective_map_NoDup; [|apply seq_NoDup].
  intros a b H. apply append_cancel_l in H. apply itoa_inj; auto.
Qed.

Lemma loop_none base : forall fuel n, loop fuel n base = None -> incl (cands base n fuel) bad.
Proof.
  induction fuel as [|f IH]; intros n H; cbn [loop cands seq map] in *.
  - intros x [].
  - destruct (ok (base ++ itoa n)) eqn:E; [discriminate|].
    intros x [<-|Hx]; [apply bad_ok; auto|]. apply (IH (S n)); auto.
Qed.

Lemma loop_some base : forall fuel n r, loop fuel n base = Some r -> ok r = true.
Proof.
  induction fuel as [|f IH]; intros n r H; cbn [loop] in H; [discriminate|].
  destruct (ok (base ++ itoa n)) eqn:E; [inversion H; subst; auto|eauto].
Qed.

Theorem loop_terminates base n fuel : List.length bad < fuel -> exists r, loop fuel n base = Some r /\ ok r = true.
Proof.
  intros Hf. destruct (loop fuel n base) as [r|] eqn:E.
  - exists r. split; auto. eapply loop_some; eauto.
  - exfalso. apply loop_none in E.
    assert (List.length (cands base n fuel) <= List.length bad)
      by (apply NoDup_incl_length; auto using cands_nodup).
    unfold cands in H. rewrite map_length, seq_length in H. lia.
Qed.

Theorem disambiguate_fresh name :
  exists r, disambiguate (S (List.length bad)) name = Some r /\ is_kw r = false /\ collides r = false.
Proof.
  unfold disambiguate. destruct (ok name) eqn:E.
  - exists name. split; auto. unfold ok in E. apply andb_true_iff in E. destruct E as [E1 E2].
    split; [destruct (is_kw name)|destruct (collides name)]; auto; discriminate.
  - destruct (loop_terminates (if last_is_digit name then name ++ "_" else name) 2 (S (List.length bad))) as (r & Hr & Hok); [lia|].
    exists r. split; auto. unfold ok in Hok. apply andb_true_iff in Hok. destruct Hok as [E1 E2].
    split; [destruct (is_kw r)|destruct (collides r)]; auto; discriminate.
Qed.
End D.

Print Assumptions disambiguate_fresh.

(* sanity: matches TestDisambiguate's table *)
Definition kw (s : string) : bool := existsb (String.eqb s) ["select"; "var"; "type"; "func"].
Definition coll (l : list string) (s : string) : bool := existsb (String.eqb s) l.
Eval vm_compute in
  (disambiguate kw (coll []) 10 "foo",
   disambiguate kw (coll ["foo"]) 10 "foo",
   disambiguate kw (coll ["foo"; "foo1"; "foo2"]) 10 "foo",
   disambiguate kw (coll ["foo"; "foo1"; "foo2"]) 10 "foo1",
   disambiguate kw (coll []) 10 "select").

