From Coq Require Import List Arith NArith Bool String Permutation Sorting.Sorted.
Import ListNotations.
Local Open Scope string_scope.

(* wire.go: gen.frame -- the import block.  g.imports is a Go map; frame collects its keys (in the map's random
   iteration order), sorts them with sort.Strings and prints one line per path.  C16: the block is a function of the
   map, not of the order in which the entries happen to be visited. *)

Definition entry := (string * (string * bool))%type.          (* path -> (local name, differs from the package name) *)

Fixpoint insert (x : entry) (l : list entry) : list entry :=
  match l with
  | [] => [x]
  | y :: r => if String.leb (fst x) (fst y) then x :: l else y :: insert x r
  end.

Fixpoint sort_paths (l : list entry) : list entry :=
  match l with [] => [] | x :: r => insert x (sort_paths r) end.

Definition import_line (e : entry) : string :=
  (if snd (snd e) then fst (snd e) ++ " " else "") ++ """" ++ fst e ++ """".

Definition import_block (visited : list entry) : list string := map import_line (sort_paths visited).

Definition le (a b : entry) : Prop := String.leb (fst a) (fst b) = true.

Lemma leb_refl s : String.leb s s = true.
Proof. destruct (String.leb_total s s); auto. Qed.

Lemma scmp_refl c : String.compare c c = Eq.
Proof. pose proof (String.compare_antisym c c) as H. destruct (String.compare c c); cbn in H; congruence. Qed.

Lemma acmp_refl c : Ascii.compare c c = Eq.
Proof. pose proof (Ascii.compare_antisym c c) as H. destruct (Ascii.compare c c); cbn in H; congruence. Qed.

Lemma leb_trans a b c : String.leb a b = true -> String.leb b c = true -> String.leb a c = true.
Proof.
  unfold String.leb. intros H1 H2.
  destruct (String.compare a b) eqn:E1; try discriminate; destruct (String.compare b c) eqn:E2; try discriminate.
  - apply String.compare_eq_iff in E1, E2. subst. rewrite scmp_refl. reflexivity.
  - apply String.compare_eq_iff in E1. subst. rewrite E2. reflexivity.
  - apply String.compare_eq_iff in E2. subst. rewrite E1. reflexivity.
  - assert (String.compare a c = Lt).
    { revert b c E1 E2. induction a as [|x a IH]; intros [|y b] [|z c] E1 E2; cbn in *; try discriminate; auto.
      destruct (Ascii.compare x y) eqn:A1; try discriminate; destruct (Ascii.compare y z) eqn:A2; try discriminate.
      - apply Ascii.compare_eq_iff in A1, A2. subst. rewrite acmp_refl. eapply IH; eauto.
      - apply Ascii.compare_eq_iff in A1. subst. rewrite A2. reflexivity.
      - apply Ascii.compare_eq_iff in A2. subst. rewrite A1. reflexivity.
      - assert (Ascii.compare x z = Lt) as ->; [|reflexivity].
        unfold Ascii.compare in *. rewrite N.compare_lt_iff in *. eapply N.lt_trans; eauto. }
    rewrite H. reflexivity.
Qed.

Lemma insert_perm x l : Permutation (x :: l) (insert x l).
Proof.
  induction l as [|y r IH]; cbn; auto. destruct (String.leb (fst x) (fst y)); auto.
  eapply perm_trans; [apply perm_swap|]. apply perm_skip. exact IH.
Qed.

Lemma sort_perm l : Permutation l (sort_paths l).
Proof. induction l as [|x r IH]; cbn; auto. eapply perm_trans; [apply perm_skip; exact IH|apply insert_perm]. Qed.

Lemma insert_sorted x l : Sorted le l -> Sorted le (insert x l).
Proof.
  induction 1 as [|y r Hs IH Hh]; cbn; [repeat constructor|].
  destruct (String.leb (fst x) (fst y)) eqn:E.
  - constructor; [constructor; auto|constructor; exact E].
  - constructor; auto. destruct r as [|z r']; cbn.
    + constructor. unfold le. destruct (String.leb_total (fst x) (fst y)); congruence.
    + destruct (String.leb (fst x) (fst z)); constructor.
      * unfold le. destruct (String.leb_total (fst x) (fst y)); congruence.
      * inversion Hh; auto.
Qed.

Lemma sort_sorted l : Sorted le (sort_paths l).
Proof. induction l as [|x r IH]; cbn; [constructor|apply insert_sorted; exact IH]. Qed.

(* a sorted list with pairwise distinct keys is determined by its elements *)
Lemma sorted_perm_eq : forall l l' : list entry,
  Sorted le l -> Sorted le l' -> NoDup (map fst l) -> Permutation l l' -> l = l'.
Proof.
  intros l l' Hs Hs' Hnd HP.
  apply Sorted_StronglySorted in Hs; [|intros a b c; unfold le; apply leb_trans].
  apply Sorted_StronglySorted in Hs'; [|intros a b c; unfold le; apply leb_trans].
  revert l' Hs' HP. induction l as [|x r IH]; intros l' Hs' HP.
  - apply Permutation_nil in HP. subst. reflexivity.
  - destruct l' as [|y r']; [apply Permutation_sym, Permutation_nil in HP; discriminate|].
    inversion Hs as [|? ? Hsr Hall]; subst. inversion Hs' as [|? ? Hsr' Hall']; subst.
    cbn in Hnd. inversion Hnd as [|? ? Hnx Hndr]; subst.
    assert (Hxy : x = y).
    { assert (Hx : In x (y :: r')) by (eapply Permutation_in; [exact HP|left; reflexivity]).
      assert (Hy : In y (x :: r)) by (eapply Permutation_in; [apply Permutation_sym; exact HP|left; reflexivity]).
      destruct Hx as [->|Hx]; auto. destruct Hy as [->|Hy]; auto.
      rewrite Forall_forall in Hall, Hall'. specialize (Hall y Hy). specialize (Hall' x Hx). unfold le in *.
      pose proof (String.leb_antisym _ _ Hall Hall') as Hk.
      exfalso. apply Hnx. rewrite Hk. apply in_map. exact Hy. }
    subst y. f_equal. apply IH; auto. eapply Permutation_cons_inv; eauto.
Qed.

(* C16: whatever order the map's entries are visited in, the import block is the same *)
Theorem import_block_order_independent (visited visited' : list entry) :
  NoDup (map fst visited) -> Permutation visited visited' -> import_block visited = import_block visited'.
Proof.
  intros Hnd HP. unfold import_block. f_equal.
  apply sorted_perm_eq; try apply sort_sorted.
  - eapply Permutation_NoDup; [apply Permutation_map; apply sort_perm|exact Hnd].
  - eapply perm_trans; [apply Permutation_sym, sort_perm|]. eapply perm_trans; [exact HP|apply sort_perm].
Qed.

(* evaluation for the correspondence: the lines the implementation printed, in order *)
Definition imismatches (ks : list (nat * list entry * list string)) : list nat :=
  flat_map (fun k => if list_eq_dec string_dec (import_block (snd (fst k))) (snd k) then [] else [fst (fst k)]) ks.
