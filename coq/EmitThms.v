From Coq Require Import List Arith Bool String Lia.
From Wire Require Import Names Sets Model Exec Emit ModelThms NamesThms.
Import ListNotations.

(* C14, file level.  (1) The import aliases and value-variable names of the generated file stay pairwise
   distinct and outside the package scope through everything gen.inject does.  (2) The two-pass design of
   injectPass: the file-level state produced by the first (discarded) pass is a fixed point of the second
   pass, so every local name of the emitted pass was chosen against the final set of import aliases the
   injector's body mentions. *)

Section FileNames.
Variable E : env.

(* ------------------------------------------------------------------ the state transformer of a pass *)
Definition qstep (g : gst) (p : nat) : gst := snd (qualify_import E g p).
Definition qfold (l : list nat) (g : gst) : gst := fold_left qstep l g.

Lemma qfold_app l1 l2 g : qfold (l1 ++ l2) g = qfold l2 (qfold l1 g).
Proof. unfold qfold. apply fold_left_app. Qed.

Lemma qualified_id_g g p s : snd (qualified_id E g p s) = qstep g p.
Proof. unfold qualified_id, qstep. destruct (qualify_import E g p) as [q g']. reflexivity. Qed.

(* packages mentioned by a type, in the order types.TypeString asks for them *)
Fixpoint type_pkgs (fuel : nat) (t : nat) : list nat :=
  match fuel with
  | 0 => []
  | S f =>
    match nassoc t (e_types E) with
    | Some (TNamed p _ _) => [p]
    | Some (TPtr u) | Some (TSlice u) | Some (TArray _ u) => type_pkgs f u
    | Some (TMap k v) => type_pkgs f k ++ type_pkgs f v
    | _ => []
    end
  end.

Lemma type_string_g : forall fuel g t, snd (type_string E fuel g t) = qfold (type_pkgs fuel t) g.
Proof.
  induction fuel as [|f IH]; intros g t; cbn [type_string type_pkgs]; [reflexivity|].
  destruct (nassoc t (e_types E)) as [[p n z|n z|u|n z|u|len u|k v|s ns z]|]; try reflexivity.
  - rewrite qualified_id_g. reflexivity.
  - specialize (IH g u). destruct (type_string E f g u) as [s g']. exact IH.
  - specialize (IH g u). destruct (type_string E f g u) as [s g']. exact IH.
  - specialize (IH g u). destruct (type_string E f g u) as [s g']. exact IH.
  - rewrite qfold_app. pose proof (IH g k) as Hk. destruct (type_string E f g k) as [sk g1]. cbn [snd] in Hk.
    pose proof (IH g1 v) as Hv. destruct (type_string E f g1 v) as [sv g2]. cbn [snd] in *. rewrite Hv, Hk. reflexivity.
Qed.

Definition zero_pkgs (t : nat) : list nat :=
  match zkind_of E t with ZComposite => type_pkgs tdepth t | _ => [] end.

Lemma zero_value_g g t : snd (zero_value E g t) = qfold (zero_pkgs t) g.
Proof.
  unfold zero_value, zero_pkgs. destruct (zkind_of E t); try reflexivity.
  pose proof (type_string_g tdepth g t) as H. destruct (type_string E tdepth g t) as [s g']. exact H.
Qed.

Fixpoint params_pkgs (ps : list (string * nat)) (v : option nat) : list nat :=
  match ps with
  | [] => []
  | (_, t) :: r =>
    match r, v with
    | [], Some el => type_pkgs tdepth el
    | _, _ => type_pkgs tdepth t ++ params_pkgs r v
    end
  end.

Lemma emit_params_g : forall ps v ig g acc, snd (emit_params E ps v ig g acc) = qfold (params_pkgs ps v) g.
Proof.
  induction ps as [|[n t] r IH]; intros v ig g acc; cbn [emit_params params_pkgs]; [reflexivity|].
  destruct r as [|p2 r2].
  - destruct v as [el|].
    + pose proof (type_string_g tdepth g el) as H. destruct (type_string E tdepth g el) as [s g']. exact H.
    + pose proof (type_string_g tdepth g t) as H. destruct (type_string E tdepth g t) as [s g'].
      cbn [emit_params params_pkgs snd] in *. rewrite app_nil_r. exact H.
  - pose proof (type_string_g tdepth g t) as H. destruct (type_string E tdepth g t) as [s g']. cbn [snd] in H.
    rewrite qfold_app, <- H.
    destruct v; apply IH.
Qed.

Definition call_pkgs (inj : injector) (c : call) : list nat :=
  match c_kind c with
  | 0 => c_pkg c :: (if c_err c then zero_pkgs (i_out inj) else [])
  | 1 => [c_pkg c]
  | _ => []
  end.

Lemma emit_call_g inj c ins ig g : snd (emit_call E inj c ins ig g) = qfold (call_pkgs inj c) g.
Proof.
  unfold emit_call, call_pkgs. destruct ins as [p0 a0 cl0 he0 unwind].
  destruct (c_kind c) as [|[|[|[|k]]]]; try reflexivity.
  - pose proof (qualified_id_g g (c_pkg c) (c_name c)) as Hq.
    destruct (c_cleanup c).
    + destruct (qualified_id E g (c_pkg c) (c_name c)) as [fn g1]. cbn [snd] in Hq. destruct (c_err c).
      * pose proof (zero_value_g g1 (i_out inj)) as Hz. destruct (zero_value E g1 (i_out inj)) as [z g2].
        cbn [snd] in *. rewrite Hz, Hq. reflexivity.
      * cbn [snd]. rewrite Hq. reflexivity.
    + destruct (qualified_id E g (c_pkg c) (c_name c)) as [fn g1]. cbn [snd] in Hq. destruct (c_err c).
      * pose proof (zero_value_g g1 (i_out inj)) as Hz. destruct (zero_value E g1 (i_out inj)) as [z g2].
        cbn [snd] in *. rewrite Hz, Hq. reflexivity.
      * cbn [snd]. rewrite Hq. reflexivity.
  - pose proof (qualified_id_g g (c_pkg c) (c_name c)) as Hq.
    destruct (qualified_id E g (c_pkg c) (c_name c)) as [tn g1]. cbn [snd] in *. rewrite Hq. reflexivity.
Qed.

Fixpoint calls_pkgs (inj : injector) (cs : list call) (is : list instr) : list nat :=
  match cs, is with
  | c :: r, _ :: ir => call_pkgs inj c ++ calls_pkgs inj r ir
  | _, _ => []
  end.

Lemma emit_calls_g inj : forall cs is ig g acc, snd (emit_calls E inj cs is ig g acc) = qfold (calls_pkgs inj cs is) g.
Proof.
  induction cs as [|c r IH]; intros is ig g acc; cbn [emit_calls calls_pkgs]; [reflexivity|].
  destruct is as [|ins ir]; [reflexivity|].
  pose proof (emit_call_g inj c ins ig g) as H.
  destruct (emit_call E inj c ins ig g) as [[ls ig'] g']. cbn [snd] in H.
  rewrite qfold_app, <- H. apply IH.
Qed.

Definition pass_pkgs (inj : injector) (cs : list call) : list nat :=
  params_pkgs (i_params inj) (i_variadic inj) ++ type_pkgs tdepth (i_out inj) ++
  calls_pkgs inj cs (Exec.body (Exec.emit (map pstep_of cs) (i_cleanup inj))).

Lemma inject_pass_g inj cs g : snd (inject_pass E inj cs g) = qfold (pass_pkgs inj cs) g.
Proof.
  unfold inject_pass, pass_pkgs.
  set (ig0 := mkIG [] [] [] (disamb_in (file_names E g) "err")).
  pose proof (emit_params_g (i_params inj) (i_variadic inj) ig0 g []) as Hp.
  destruct (emit_params E (i_params inj) (i_variadic inj) ig0 g []) as [[ps ig1] g1]. cbn [snd] in Hp.
  pose proof (type_string_g tdepth g1 (i_out inj)) as Ht.
  destruct (type_string E tdepth g1 (i_out inj)) as [outs g2]. cbn [snd] in Ht.
  pose proof (emit_calls_g inj cs (Exec.body (Exec.emit (map pstep_of cs) (i_cleanup inj))) ig1 g2 []) as Hc.
  destruct (emit_calls E inj cs (Exec.body (Exec.emit (map pstep_of cs) (i_cleanup inj))) ig1 g2 []) as [[body ig2] g3].
  cbn [snd] in *. rewrite !qfold_app, <- Hp, <- Ht, <- Hc. reflexivity.
Qed.

(* ------------------------------------------------------------------ settled packages *)
Definition settled (g : gst) (p : nat) : Prop := qstep g p = g.

Lemma assoc_snoc_some {A} k (l : list (string * A)) x v : assoc k l = Some v -> assoc k (snoc l x) = Some v.
Proof.
  unfold snoc. induction l as [|[k' v'] r IH]; cbn; [discriminate|].
  destruct (String.eqb k k'); auto.
Qed.

Lemma assoc_snoc_self {A} k (l : list (string * A)) v : assoc k l = None -> assoc k (snoc l (k, v)) = Some v.
Proof.
  unfold snoc. induction l as [|[k' v'] r IH]; cbn.
  - rewrite String.eqb_refl. reflexivity.
  - destruct (String.eqb k k'); [discriminate|auto].
Qed.

Lemma qstep_cases g p :
  qstep g p = g \/
  exists path name n, nth_error (e_pkgs E) p = Some (path, name) /\ assoc path (g_imports g) = None /\
                      n = disamb_in ("err"%string :: file_names E g) name /\
                      qstep g p = mkG (snoc (g_imports g) (path, (n, negb (String.eqb n name)))) (g_values g).
Proof.
  unfold qstep, qualify_import. destruct (Nat.eqb p 0); [left; reflexivity|].
  destruct (nth_error (e_pkgs E) p) as [[path name]|]; [|left; reflexivity].
  destruct (assoc path (g_imports g)) as [[n d]|] eqn:Ea; [left; reflexivity|].
  right. exists path, name, (disamb_in ("err"%string :: file_names E g) name). auto.
Qed.

Lemma settled_after g p : settled (qstep g p) p.
Proof.
  unfold settled. destruct (qstep_cases g p) as [H|(path & name & n & Hn & Ha & -> & H)].
  - rewrite H. exact H.
  - rewrite H. unfold qstep, qualify_import.
    destruct (Nat.eqb p 0); [reflexivity|]. rewrite Hn. cbn [g_imports].
    rewrite (assoc_snoc_self path (g_imports g) _ Ha). reflexivity.
Qed.

Lemma settled_mono g p q : settled g p -> settled (qstep g q) p.
Proof.
  unfold settled. intros Hs. destruct (qstep_cases g q) as [H|(path & name & n & Hn & Ha & -> & H)].
  - rewrite H. exact Hs.
  - rewrite H. revert Hs. unfold qstep, qualify_import.
    destruct (Nat.eqb p 0); [reflexivity|].
    destruct (nth_error (e_pkgs E) p) as [[path' name']|]; [|reflexivity].
    cbn [g_imports]. destruct (assoc path' (g_imports g)) as [[n' d']|] eqn:Ea'.
    + intros _. rewrite (assoc_snoc_some path' (g_imports g) _ _ Ea'). reflexivity.
    + cbn [snd]. intros Hbad. exfalso.
      assert (L : List.length (g_imports (mkG (snoc (g_imports g) (path', (disamb_in ("err"%string :: file_names E g) name', negb (String.eqb (disamb_in ("err"%string :: file_names E g) name') name')))) (g_values g))) = List.length (g_imports g)) by (rewrite Hbad; reflexivity).
      cbn [g_imports] in L. unfold snoc in L. rewrite app_length in L. cbn in L. lia.
Qed.

Lemma settled_qfold l : forall g p, settled g p -> settled (qfold l g) p.
Proof.
  induction l as [|q r IH]; intros g p H; cbn; auto. apply IH. apply settled_mono. exact H.
Qed.

Lemma qfold_settles l : forall g p, In p l -> settled (qfold l g) p.
Proof.
  induction l as [|q r IH]; intros g p Hin; [destruct Hin|].
  destruct Hin as [->|Hin]; cbn.
  - apply settled_qfold. apply settled_after.
  - apply IH. exact Hin.
Qed.

Lemma qfold_fixed l : forall g, (forall p, In p l -> settled g p) -> qfold l g = g.
Proof.
  induction l as [|q r IH]; intros g H; cbn; auto.
  rewrite (H q (or_introl eq_refl)). apply IH. intros p Hp. apply H. right. exact Hp.
Qed.

(* the second pass of injectPass does not touch the file-level state: every import alias the injector's body
   mentions was allocated by the first pass *)
Theorem second_pass_allocates_nothing inj cs g :
  snd (inject_pass E inj cs (snd (inject_pass E inj cs g))) = snd (inject_pass E inj cs g).
Proof.
  rewrite !inject_pass_g. apply qfold_fixed. intros p Hp. apply qfold_settles. exact Hp.
Qed.

(* ------------------------------------------------------------------ the emitted pass against the final aliases *)
Lemma file_in_inj_names ig g x : In x (file_names E g) -> In x (inj_names E ig g).
Proof.
  unfold inj_names, lapp. intros H. right. apply in_or_app. right. apply in_or_app. right. apply in_or_app. right. exact H.
Qed.

Definition locals_fresh (ig : igst) (g : gst) : Prop := forall x, In x (inj_locals ig) -> ~ In x (file_names E g).

Lemma emit_call_ig_fresh c ig g : locals_fresh ig g -> locals_fresh (emit_call_ig E c ig g) g.
Proof.
  intros Hf. unfold emit_call_ig.
  set (lname := tvn_in (inj_names E ig g) (tv_names E (c_out c)) "v" unexport).
  destruct (tvn_in_fresh (inj_names E ig g) (tv_names E (c_out c)) "v" unexport) as [Hfresh _]. fold lname in Hfresh.
  set (ig1 := mkIG (ig_params ig) (snoc (ig_locals ig) lname) (ig_cleanups ig) (ig_err ig)).
  assert (H1 : locals_fresh ig1 g).
  { intros x Hx. unfold inj_locals, ig1, snoc in Hx. cbn in Hx. rewrite !in_app_iff in Hx. cbn in Hx.
    destruct Hx as [Hx|[[Hx|[<-|[]]]|Hx]].
    - apply Hf. unfold inj_locals. rewrite !in_app_iff. auto.
    - apply Hf. unfold inj_locals. rewrite !in_app_iff. auto.
    - intros Hi. apply Hfresh. apply file_in_inj_names. exact Hi.
    - apply Hf. unfold inj_locals. rewrite !in_app_iff. auto. }
  destruct (c_kind c) as [|k]; [|exact H1].
  destruct (c_cleanup c); [|exact H1].
  destruct (disamb_in_fresh (inj_names E ig1 g) "cleanup") as [Hcf _].
  intros x Hx. unfold inj_locals, snoc in Hx. cbn [ig_params ig_locals ig_cleanups] in Hx. rewrite !in_app_iff in Hx. cbn [In] in Hx.
  destruct Hx as [Hx|[Hx|[Hx|[<-|[]]]]].
  - apply H1. unfold inj_locals. rewrite !in_app_iff. auto.
  - apply H1. unfold inj_locals. rewrite !in_app_iff. auto.
  - apply H1. unfold inj_locals. rewrite !in_app_iff. auto.
  - intros Hi. apply Hcf. apply file_in_inj_names. exact Hi.
Qed.

Lemma emit_calls_fresh inj : forall cs is ig g acc ls ig' g',
  (forall p, In p (calls_pkgs inj cs is) -> settled g p) ->
  emit_calls E inj cs is ig g acc = (ls, ig', g') -> locals_fresh ig g -> locals_fresh ig' g /\ g' = g.
Proof.
  induction cs as [|c r IH]; intros is ig g acc ls ig' g' Hs H Hf; cbn [emit_calls calls_pkgs] in *.
  - injection H as _ <- <-. auto.
  - destruct is as [|ins ir]; [injection H as _ <- <-; auto|].
    pose proof (emit_call_ig_eq E inj c ins ig g) as Eig. pose proof (emit_call_g inj c ins ig g) as Eg.
    destruct (emit_call E inj c ins ig g) as [[l1 ig1] g1]. cbn [fst snd] in Eig, Eg. subst ig1.
    assert (Hg1 : g1 = g).
    { rewrite Eg. apply qfold_fixed. intros p Hp. apply Hs. apply in_or_app. auto. }
    clear Eg. subst g1.
    apply (IH _ _ _ _ _ _ _ (fun p Hp => Hs p (in_or_app _ _ _ (or_intror Hp))) H). apply emit_call_ig_fresh. exact Hf.
Qed.

Lemma emit_params_fresh : forall ps v ig g acc out ig' g',
  (forall p, In p (params_pkgs ps v) -> settled g p) ->
  emit_params E ps v ig g acc = (out, ig', g') -> locals_fresh ig g -> locals_fresh ig' g /\ g' = g.
Proof.
  induction ps as [|[n t] r IH]; intros v ig g acc out ig' g' Hs H Hf; cbn [emit_params params_pkgs] in *.
  - injection H as _ <- <-. auto.
  - set (a := if (String.eqb n "" || String.eqb n "_")%bool
              then tvn_in (inj_names E ig g) (tv_names E t) "arg" unexport
              else disamb_in (inj_names E ig g) n) in H.
    assert (Hfresh : ~ In a (inj_names E ig g)).
    { unfold a. destruct (String.eqb n "" || String.eqb n "_")%bool; [apply tvn_in_fresh|apply disamb_in_fresh]. }
    assert (H1 : locals_fresh (mkIG (snoc (ig_params ig) a) (ig_locals ig) (ig_cleanups ig) (ig_err ig)) g).
    { intros x Hx. unfold inj_locals, snoc in Hx. cbn in Hx. rewrite !in_app_iff in Hx. cbn in Hx.
      destruct Hx as [[Hx|[<-|[]]]|[Hx|Hx]].
      - apply Hf. unfold inj_locals. rewrite !in_app_iff. auto.
      - intros Hi. apply Hfresh. apply file_in_inj_names. exact Hi.
      - apply Hf. unfold inj_locals. rewrite !in_app_iff. auto.
      - apply Hf. unfold inj_locals. rewrite !in_app_iff. auto. }
    destruct r as [|p2 r2].
    + destruct v as [el|].
      * pose proof (type_string_g tdepth g el) as Ht. destruct (type_string E tdepth g el) as [s g1]. cbn [snd] in Ht.
        injection H as _ <- <-. split; auto. rewrite Ht. apply qfold_fixed. exact Hs.
      * pose proof (type_string_g tdepth g t) as Ht. destruct (type_string E tdepth g t) as [s g1]. cbn [snd] in Ht.
        cbn [emit_params] in H. injection H as _ <- <-. split; auto. rewrite Ht. apply qfold_fixed.
        intros p Hp. apply Hs. cbn [params_pkgs]. rewrite app_nil_r. exact Hp.
    + pose proof (type_string_g tdepth g t) as Ht. destruct (type_string E tdepth g t) as [s g1]. cbn [snd] in Ht.
      assert (Hg1 : g1 = g).
      { rewrite Ht. apply qfold_fixed. intros p Hp. apply Hs. destruct v; apply in_or_app; auto. }
      clear Ht. subst g1.
      assert (Hcase : emit_params E (p2 :: r2) v (mkIG (snoc (ig_params ig) a) (ig_locals ig) (ig_cleanups ig) (ig_err ig)) g
                        (snoc acc (String.append a (String.append " " s))) = (out, ig', g')).
      { destruct v; exact H. }
      apply (IH _ _ _ _ _ _ _ (fun p Hp => Hs p ltac:(destruct v; apply in_or_app; right; exact Hp)) Hcase H1).
Qed.

(* the name state at the end of a pass (the same expressions inject_pass evaluates) *)
Definition pass_ig (inj : injector) (cs : list call) (g : gst) : igst :=
  let ig0 := mkIG [] [] [] (disamb_in (file_names E g) "err") in
  let '(_, ig1, g1) := emit_params E (i_params inj) (i_variadic inj) ig0 g [] in
  let g2 := snd (type_string E tdepth g1 (i_out inj)) in
  let '(_, ig2, _) := emit_calls E inj cs (Exec.body (Exec.emit (map pstep_of cs) (i_cleanup inj))) ig1 g2 [] in
  ig2.

(* C14: in the pass whose text is kept, every parameter, local and cleanup name -- and the error variable -- is
   distinct from every import alias, value variable and package-scope name of the file as it stands when the
   injector has been emitted; the names are pairwise distinct; and the pass allocates no further alias *)
Theorem emitted_pass_names_fresh inj cs g :
  let g2 := snd (inject_pass E inj cs g) in
  let ig := pass_ig inj cs g2 in
  names_ok ig /\ locals_fresh ig g2 /\ ~ In (ig_err ig) (file_names E g2) /\ snd (inject_pass E inj cs g2) = g2.
Proof.
  intros g2 ig.
  assert (Hset : forall p, In p (pass_pkgs inj cs) -> settled g2 p).
  { intros p Hp. unfold g2. rewrite inject_pass_g. apply qfold_settles. exact Hp. }
  assert (Main : names_ok ig /\ locals_fresh ig g2 /\ ~ In (ig_err ig) (file_names E g2)).
  { unfold ig, pass_ig.
    set (ig0 := mkIG [] [] [] (disamb_in (file_names E g2) "err")).
    assert (H0 : names_ok ig0) by (split; [constructor|intros []]).
    assert (F0 : locals_fresh ig0 g2) by (intros x []).
    destruct (emit_params E (i_params inj) (i_variadic inj) ig0 g2 []) as [[ps ig1] g1] eqn:Ep.
    destruct (emit_params_names_ok E _ _ _ _ _ _ _ _ Ep eq_refl eq_refl H0) as (A & B & C & D).
    assert (Hs1 : forall p, In p (params_pkgs (i_params inj) (i_variadic inj)) -> settled g2 p).
    { intros p Hp. apply Hset. unfold pass_pkgs. apply in_or_app. left. exact Hp. }
    destruct (emit_params_fresh _ _ _ _ _ _ _ _ Hs1 Ep F0) as (F1 & ->).
    assert (Ht : snd (type_string E tdepth g2 (i_out inj)) = g2).
    { rewrite type_string_g. apply qfold_fixed. intros p Hp. apply Hset. unfold pass_pkgs. apply in_or_app. right. apply in_or_app. left. exact Hp. }
    rewrite Ht.
    destruct (emit_calls E inj cs (Exec.body (Exec.emit (map pstep_of cs) (i_cleanup inj))) ig1 g2 []) as [[body ig2] g3] eqn:Ec.
    destruct (emit_calls_names_ok E _ _ _ _ _ _ _ _ _ Ec A) as (A2 & B2 & C2).
    assert (Hs2 : forall p, In p (calls_pkgs inj cs (Exec.body (Exec.emit (map pstep_of cs) (i_cleanup inj)))) -> settled g2 p).
    { intros p Hp. apply Hset. unfold pass_pkgs. apply in_or_app. right. apply in_or_app. right. exact Hp. }
    destruct (emit_calls_fresh _ _ _ _ _ _ _ _ _ Hs2 Ec F1) as (F2 & _).
    split; [exact A2|split; [exact F2|]].
    rewrite B2, B. cbn [ig_err ig0]. apply disamb_in_fresh. }
  destruct Main as (M1 & M2 & M3). split; [exact M1|split; [exact M2|split; [exact M3|]]].
  unfold g2. apply second_pass_allocates_nothing.
Qed.

(* ------------------------------------------------------------------ distinctness of the file-level names *)
Definition gnames (g : gst) : list string :=
  (map (fun x : string * (string * bool) => fst (snd x)) (g_imports g) ++ map snd (g_values g))%list.

Definition GInv (g : gst) : Prop :=
  NoDup (gnames g) /\ (forall n, In n (gnames g) -> ~ In n (e_scope E)).

Lemma gnames_in_file g n : In n (gnames g) -> In n (file_names E g).
Proof.
  unfold gnames, file_names, lapp. rewrite !in_app_iff. intros [H|H]; auto.
Qed.

Lemma scope_in_file g n : In n (e_scope E) -> In n (file_names E g).
Proof. unfold file_names, lapp. rewrite !in_app_iff. auto. Qed.

Lemma qstep_inv g p : GInv g -> GInv (qstep g p).
Proof.
  intros (Hnd & Hsc). destruct (qstep_cases g p) as [H|(path & name & n & Hn & Ha & Hdef & H)].
  - rewrite H. repeat split; auto.
  - rewrite H. destruct (disamb_in_fresh ("err"%string :: file_names E g) name) as [Hf _]. rewrite <- Hdef in Hf.
    assert (Hng : ~ In n (gnames g)) by (intros Hi; apply Hf; right; apply gnames_in_file; exact Hi).
    assert (Hns : ~ In n (e_scope E)) by (intros Hi; apply Hf; right; apply scope_in_file; exact Hi).
    unfold GInv, gnames. cbn [g_imports g_values]. unfold snoc. rewrite map_app. cbn [map fst snd].
    repeat split; auto.
    + rewrite <- app_assoc. cbn [app]. apply (NoDup_Add (Add_app n _ _)). split; auto.
    + intros m Hm. rewrite <- app_assoc in Hm. cbn [app] in Hm. apply in_app_iff in Hm. destruct Hm as [Hm|[<-|Hm]]; auto.
      * apply Hsc. unfold gnames. apply in_or_app. auto.
      * apply Hsc. unfold gnames. apply in_or_app. auto.
Qed.

Lemma qfold_inv l : forall g, GInv g -> GInv (qfold l g).
Proof. induction l as [|p r IH]; intros g H; cbn; auto. apply IH. apply qstep_inv. exact H. Qed.

Lemma inject_pass_inv inj cs g : GInv g -> GInv (snd (inject_pass E inj cs g)).
Proof. rewrite inject_pass_g. apply qfold_inv. Qed.

Lemma render_pieces_inv : forall ps g acc, GInv g -> GInv (snd (render_pieces E ps g acc)).
Proof.
  induction ps as [|[s|p] r IH]; intros g acc H; cbn [render_pieces]; auto.
  pose proof (qstep_inv g p H) as H1. unfold qstep in H1.
  destruct (qualify_import E g p) as [q g']. cbn [snd] in H1. apply IH. exact H1.
Qed.

Lemma emit_vars_inv : forall pending g acc, GInv g -> GInv (snd (emit_vars E pending g acc)).
Proof.
  induction pending as [|vi r IH]; intros g acc H; cbn [emit_vars]; auto.
  pose proof (render_pieces_inv (vi_expr vi) g EmptyString H) as H1.
  destruct (render_pieces E (vi_expr vi) g EmptyString) as [e g']. cbn [snd] in H1. apply IH. exact H1.
Qed.

Lemma name_values_inv vs : forall cs g pending, GInv g -> GInv (fst (name_values E vs cs g pending)).
Proof.
  induction cs as [|c r IH]; intros g pending H; cbn [name_values]; auto.
  destruct (Nat.eqb (c_kind c) 2); [|apply IH; exact H].
  destruct (nassoc (c_vid c) (g_values g)); [apply IH; exact H|].
  destruct (find (fun v => Nat.eqb (vi_id v) (c_vid c)) vs) as [vi|]; [|apply IH; exact H].
  apply IH. destruct H as (Hnd & Hsc).
  set (n := tvn_in (file_names E g) (tv_names E (vi_type vi)) "" (fun name => String.append "_wire" (String.append (export name) "Value"))).
  destruct (tvn_in_fresh (file_names E g) (tv_names E (vi_type vi)) "" (fun name => String.append "_wire" (String.append (export name) "Value"))) as [Hf _].
  fold n in Hf.
  assert (Hng : ~ In n (gnames g)) by (intros Hi; apply Hf; apply gnames_in_file; exact Hi).
  assert (Hns : ~ In n (e_scope E)) by (intros Hi; apply Hf; apply scope_in_file; exact Hi).
  unfold GInv, gnames. cbn [g_imports g_values]. unfold snoc. rewrite map_app. cbn [map snd].
  repeat split; auto.
  - rewrite app_assoc. apply (NoDup_Add (Add_app n _ [])). rewrite app_nil_r. split; auto.
  - intros m Hm. rewrite app_assoc in Hm. apply in_app_iff in Hm. destruct Hm as [Hm|[<-|[]]]; auto.
Qed.

(* gen.inject keeps the invariant: after any number of injectors, the import aliases and the value variables
   of the file are pairwise distinct and none of them is a name of the package scope *)
Theorem inject_inv inj vs cs g : GInv g -> GInv (snd (inject E inj vs cs g)).
Proof.
  intros H. unfold inject.
  pose proof (name_values_inv vs cs g [] H) as H1.
  destruct (name_values E vs cs g []) as [g1 pending]. cbn [fst] in H1.
  pose proof (inject_pass_inv inj cs g1 H1) as H2.
  destruct (inject_pass E inj cs g1) as [l1 g2]. cbn [snd] in H2.
  pose proof (inject_pass_inv inj cs g2 H2) as H3.
  destruct (inject_pass E inj cs g2) as [lines g3]. cbn [snd] in H3.
  pose proof (emit_vars_inv pending g3 [] H3) as H4.
  destruct (emit_vars E pending g3 []) as [vars g4]. cbn [snd] in *. exact H4.
Qed.

Lemma GInv_empty : GInv (mkG [] []).
Proof. unfold GInv, gnames. cbn. repeat split; auto; try constructor; intros n []. Qed.

(* a whole file: injectors emitted one after the other over the shared state *)
Fixpoint inject_all (js : list (injector * list valinfo * list call)) (g : gst) : gst :=
  match js with
  | [] => g
  | (inj, vs, cs) :: r => inject_all r (snd (inject E inj vs cs g))
  end.

Theorem file_names_distinct js : GInv (inject_all js (mkG [] [])).
Proof.
  assert (G : forall js g, GInv g -> GInv (inject_all js g)).
  { clear js. induction js as [|[[inj vs] cs] r IH]; intros g H; cbn; auto. apply IH. apply inject_inv. exact H. }
  apply G. apply GInv_empty.
Qed.

End FileNames.
