From Coq Require Import List Arith Bool Lia.
Import ListNotations.

(* wire.go: the layout of the generated file below the import block.
   generateInjectors walks the files of the package in order and, within a file, its declarations in order: each
   injector is emitted, preceded -- for the first injector of a file -- by "// Injectors from <file>:"; the files that
   had an injector are remembered (injectorFiles).  copyNonInjectorDecls then walks the remembered files and copies
   every declaration that is neither an injector nor an import declaration, preceded -- for the first one of a file --
   by "// <file>:".   C15: every such declaration appears exactly once, in source order; C01: every injector has
   exactly one implementation. *)

Inductive dkind := KImport | KInjector | KOther.     (* import GenDecl / injector FuncDecl / any other Func- or GenDecl *)
Record decl := mkDecl { d_kind : dkind; d_id : nat }.
Definition file := (nat * list decl)%type.          (* file (by its position-independent id), declarations in order *)

Inductive item := IInjHdr (f : nat) | IInj (id : nat) | ICopyHdr (f : nat) | ICopy (id : nat).

Definition is_inj (d : decl) : bool := match d_kind d with KInjector => true | _ => false end.
Definition copyable (d : decl) : bool := match d_kind d with KOther => true | _ => false end.

Definition snoc {A} (l : list A) (x : A) := l ++ [x].

(* ---- the loops, as written ---- *)
(* injectorFiles is a slice of file ids; "len(injectorFiles) == 0 || injectorFiles[len-1] != f" *)
Definition last_is (l : list nat) (f : nat) : bool :=
  match rev l with x :: _ => Nat.eqb x f | [] => false end.

Fixpoint gi_decls (f : nat) (ds : list decl) (injfiles : list nat) (out : list item) : list nat * list item :=
  match ds with
  | [] => (injfiles, out)
  | d :: r =>
    if is_inj d then
      let '(injfiles', out') := if last_is injfiles f then (injfiles, out) else (snoc injfiles f, snoc out (IInjHdr f)) in
      gi_decls f r injfiles' (snoc out' (IInj (d_id d)))
    else gi_decls f r injfiles out
  end.

Fixpoint gi_files (fs : list file) (injfiles : list nat) (out : list item) : list nat * list item :=
  match fs with
  | [] => (injfiles, out)
  | (f, ds) :: r => let '(i', o') := gi_decls f ds injfiles out in gi_files r i' o'
  end.

Fixpoint copy_decls (f : nat) (ds : list decl) (first : bool) (out : list item) : list item :=
  match ds with
  | [] => out
  | d :: r =>
    if copyable d then copy_decls f r false (snoc (if first then snoc out (ICopyHdr f) else out) (ICopy (d_id d)))
    else copy_decls f r first out
  end.

Definition decls_of (fs : list file) (f : nat) : list decl :=
  match find (fun x => Nat.eqb (fst x) f) fs with Some x => snd x | None => [] end.

Fixpoint copy_files (fs : list file) (injfiles : list nat) (out : list item) : list item :=
  match injfiles with
  | [] => out
  | f :: r => copy_files fs r (copy_decls f (decls_of fs f) true out)
  end.

Definition layout (fs : list file) : list item :=
  let '(injfiles, out) := gi_files fs [] [] in copy_files fs injfiles out.

(* ---- what it amounts to ---- *)
Definition inj_section (x : file) : list item :=
  match filter is_inj (snd x) with [] => [] | l => IInjHdr (fst x) :: map (fun d => IInj (d_id d)) l end.

Definition copy_section (x : file) : list item :=
  match filter copyable (snd x) with [] => [] | l => ICopyHdr (fst x) :: map (fun d => ICopy (d_id d)) l end.

Definition has_inj (x : file) : bool := existsb is_inj (snd x).

Definition layout_spec (fs : list file) : list item :=
  concat (map inj_section fs) ++ concat (map copy_section (filter has_inj fs)).

(* ---------------------------------------------------------------- proofs *)
Lemma last_is_snoc l f g : last_is (snoc l f) g = Nat.eqb f g.
Proof. unfold last_is, snoc. rewrite rev_app_distr. reflexivity. Qed.

(* within one file whose id is not the last remembered one *)
Lemma gi_decls_started f : forall ds injf out,
  last_is injf f = true ->
  gi_decls f ds injf out = (injf, out ++ map (fun d => IInj (d_id d)) (filter is_inj ds)).
Proof.
  induction ds as [|d r IH]; intros injf out Hl; cbn [gi_decls filter map].
  - rewrite app_nil_r. reflexivity.
  - destruct (is_inj d); [|apply IH; exact Hl].
    rewrite Hl. rewrite IH by exact Hl. unfold snoc. cbn [map]. rewrite <- app_assoc. reflexivity.
Qed.

Lemma gi_decls_fresh f : forall ds injf out,
  last_is injf f = false ->
  gi_decls f ds injf out =
    (if existsb is_inj ds then snoc injf f else injf, out ++ inj_section (f, ds)).
Proof.
  induction ds as [|d r IH]; intros injf out Hl; unfold inj_section; cbn [gi_decls filter map existsb snd fst].
  - rewrite app_nil_r. reflexivity.
  - destruct (is_inj d) eqn:Ed.
    + rewrite Hl. cbn [orb]. rewrite gi_decls_started by (rewrite last_is_snoc; apply Nat.eqb_refl).
      unfold snoc. cbn [map]. rewrite <- !app_assoc. reflexivity.
    + cbn [orb]. rewrite IH by exact Hl. unfold inj_section. cbn [snd fst]. reflexivity.
Qed.

(* file ids are pairwise distinct: a file is never the last remembered one when its turn comes *)
Lemma gi_files_spec : forall fs injf out,
  NoDup (map fst fs) -> (forall f, In f injf -> ~ In f (map fst fs)) ->
  gi_files fs injf out = (injf ++ map fst (filter has_inj fs), out ++ concat (map inj_section fs)).
Proof.
  induction fs as [|[f ds] r IH]; intros injf out Hnd Hfresh; cbn [gi_files filter map concat].
  - rewrite !app_nil_r. reflexivity.
  - cbn [map fst] in Hnd. inversion Hnd as [|? ? Hn Hr]; subst.
    assert (Hl : last_is injf f = false).
    { unfold last_is. destruct (rev injf) as [|x l] eqn:E; auto. apply Nat.eqb_neq. intros ->.
      apply (Hfresh f); [apply in_rev; rewrite E; left; reflexivity|left; reflexivity]. }
    rewrite gi_decls_fresh by exact Hl. unfold has_inj at 1. cbn [snd].
    destruct (existsb is_inj ds) eqn:Ee.
    + rewrite IH; auto.
      * unfold snoc. cbn [map fst]. rewrite <- !app_assoc. reflexivity.
      * intros g Hg Hin. unfold snoc in Hg. apply in_app_or in Hg. destruct Hg as [Hg|[<-|[]]]; auto.
        apply (Hfresh g Hg). right. exact Hin.
    + rewrite IH; auto.
      * rewrite <- !app_assoc. reflexivity.
      * intros g Hg Hin. apply (Hfresh g Hg). right. exact Hin.
Qed.

Lemma copy_decls_started f : forall ds out,
  copy_decls f ds false out = out ++ map (fun d => ICopy (d_id d)) (filter copyable ds).
Proof.
  induction ds as [|d r IH]; intros out; cbn [copy_decls filter map]; [rewrite app_nil_r; reflexivity|].
  destruct (copyable d); [|apply IH]. rewrite IH. unfold snoc. cbn [map]. rewrite <- app_assoc. reflexivity.
Qed.

Lemma copy_decls_spec f : forall ds out, copy_decls f ds true out = out ++ copy_section (f, ds).
Proof.
  induction ds as [|d r IH]; intros out; unfold copy_section; cbn [copy_decls filter map snd fst]; [rewrite app_nil_r; reflexivity|].
  destruct (copyable d).
  - rewrite copy_decls_started. unfold snoc. cbn [map]. rewrite <- !app_assoc. reflexivity.
  - rewrite IH. reflexivity.
Qed.

Lemma decls_of_in fs f ds : NoDup (map fst fs) -> In (f, ds) fs -> decls_of fs f = ds.
Proof.
  unfold decls_of. induction fs as [|[g es] r IH]; intros Hnd Hin; [destruct Hin|].
  cbn [map fst] in Hnd. inversion Hnd as [|? ? Hn Hr]; subst. cbn [find fst].
  destruct Hin as [E|Hin].
  - injection E as -> ->. rewrite Nat.eqb_refl. reflexivity.
  - destruct (Nat.eqb g f) eqn:E; [|apply IH; auto].
    apply Nat.eqb_eq in E. subst g. exfalso. apply Hn. apply (in_map fst) in Hin. exact Hin.
Qed.

Lemma copy_files_spec fs : NoDup (map fst fs) -> forall l out,
  incl l fs -> copy_files fs (map fst l) out = out ++ concat (map copy_section l).
Proof.
  intros Hnd. induction l as [|[f ds] r IH]; intros out Hin; cbn [copy_files map concat fst]; [rewrite app_nil_r; reflexivity|].
  rewrite (decls_of_in fs f ds Hnd) by (apply Hin; left; reflexivity).
  rewrite copy_decls_spec. rewrite IH by (intros x Hx; apply Hin; right; exact Hx).
  rewrite <- app_assoc. reflexivity.
Qed.

Theorem layout_is_spec fs : NoDup (map fst fs) -> layout fs = layout_spec fs.
Proof.
  intros Hnd. unfold layout, layout_spec. rewrite gi_files_spec; auto. cbn [app].
  apply copy_files_spec; auto. intros x Hx. apply filter_In in Hx. tauto.
Qed.

(* ---- the properties' wording ---- *)
Definition all_decls (fs : list file) : list decl := concat (map snd fs).

Lemma in_concat_map {A B} (f : A -> list B) l y : In y (concat (map f l)) <-> exists x, In x l /\ In y (f x).
Proof.
  rewrite in_concat. split.
  - intros [z [Hz Hy]]. apply in_map_iff in Hz. destruct Hz as [x [<- Hx]]. eauto.
  - intros [x [Hx Hy]]. exists (f x). split; auto. apply in_map. exact Hx.
Qed.

Lemma in_copy_section x id : In (ICopy id) (copy_section x) <-> exists d, In d (snd x) /\ copyable d = true /\ d_id d = id.
Proof.
  unfold copy_section. destruct (filter copyable (snd x)) as [|d0 l] eqn:E.
  - split; [intros []|]. intros [d [Hd [Hc _]]]. assert (In d (filter copyable (snd x))) by (apply filter_In; auto).
    rewrite E in H. destruct H.
  - rewrite <- E. split.
    + intros [H|H]; [discriminate|]. apply in_map_iff in H. destruct H as [d [Ed Hd]]. injection Ed as <-.
      apply filter_In in Hd. exists d. tauto.
    + intros [d [Hd [Hc <-]]]. right. apply in_map_iff. exists d. split; auto. apply filter_In. auto.
Qed.

Lemma in_inj_section_copy x id : ~ In (ICopy id) (inj_section x).
Proof.
  unfold inj_section. destruct (filter is_inj (snd x)) as [|d0 l0]; [intros []|].
  intros [H|H]; [discriminate|]. apply in_map_iff in H. destruct H as [e [E _]]. discriminate.
Qed.

(* a declaration is copied iff it is a non-injector, non-import declaration of a file that has an injector *)
Theorem copied_iff fs id : NoDup (map fst fs) ->
  (In (ICopy id) (layout fs) <->
   exists x d, In x fs /\ has_inj x = true /\ In d (snd x) /\ copyable d = true /\ d_id d = id).
Proof.
  intros Hnd. rewrite layout_is_spec by exact Hnd. unfold layout_spec. rewrite in_app_iff. split.
  - intros [H|H].
    + apply in_concat_map in H. destruct H as [x [_ Hx]]. exfalso. eapply in_inj_section_copy; eauto.
    + apply in_concat_map in H. destruct H as [x [Hx Hi]]. apply filter_In in Hx. apply in_copy_section in Hi.
      destruct Hi as [d Hd]. exists x, d. tauto.
  - intros [x [d [Hx [Hh Hd]]]]. right. apply in_concat_map. exists x. split; [apply filter_In; auto|].
    apply in_copy_section. exists d. exact Hd.
Qed.

(* injectors and imports are never copied *)
Corollary injector_never_copied fs id : NoDup (map fst fs) -> NoDup (map d_id (all_decls fs)) ->
  (exists x d, In x fs /\ In d (snd x) /\ copyable d = false /\ d_id d = id) -> ~ In (ICopy id) (layout fs).
Proof.
  intros Hnd Hids [x [d [Hx [Hd [Hc Hid]]]]] H. apply copied_iff in H; auto.
  destruct H as [x' [d' [Hx' [_ [Hd' [Hc' Hid']]]]]].
  assert (d = d'); [|congruence].
  assert (Ha : In d (all_decls fs)) by (apply in_concat_map; eauto).
  assert (Ha' : In d' (all_decls fs)) by (apply in_concat_map; eauto).
  clear - Hids Ha Ha' Hid Hid'. rewrite <- Hid' in Hid. clear Hid'. induction (all_decls fs) as [|e r IH]; [destruct Ha|].
  cbn in Hids. inversion Hids as [|? ? Hn Hr]; subst. destruct Ha as [->|Ha], Ha' as [E|Ha']; auto.
  - exfalso. apply Hn. rewrite Hid. apply in_map. exact Ha'.
  - subst e. exfalso. apply Hn. rewrite <- Hid. apply in_map. exact Ha.
Qed.

(* exactly once: the items of the output are pairwise distinct *)
Lemma NoDup_map_inj' {A B} (f : A -> B) l : NoDup (map f l) -> NoDup l.
Proof.
  induction l as [|x r IH]; cbn; intros H; constructor; inversion H; subst; auto.
  intros Hin. apply H2. apply in_map. exact Hin.
Qed.

Lemma NoDup_app_intro {A} (l1 l2 : list A) : NoDup l1 -> NoDup l2 -> (forall x, In x l1 -> ~ In x l2) -> NoDup (l1 ++ l2).
Proof.
  induction l1 as [|x r IH]; cbn; intros H1 H2 Hd; auto. inversion H1; subst. constructor.
  - intros H. apply in_app_or in H. destruct H; auto. eapply Hd; eauto.
  - apply IH; auto; intros y Hy; apply Hd; auto.
Qed.

Lemma copy_sections_once : forall l : list file,
  NoDup (map fst l) -> NoDup (map d_id (all_decls l)) -> NoDup (concat (map copy_section l)).
Proof.
  induction l as [|x r IH]; cbn [map concat all_decls]; intros Hf Hd; [constructor|].
  inversion Hf as [|? ? Hn Hr]; subst. unfold all_decls in Hd. cbn [map concat] in Hd. rewrite map_app in Hd.
  assert (Hd1 : NoDup (map d_id (snd x))).
  { clear - Hd. induction (map d_id (snd x)) as [|a l IHl]; [constructor|]. cbn in Hd. inversion Hd; subst.
    constructor; auto. intros H. apply H1. apply in_or_app. auto. }
  assert (Hd2 : NoDup (map d_id (all_decls r))).
  { clear - Hd. unfold all_decls. induction (map d_id (snd x)) as [|a l IHl]; auto. cbn in Hd. inversion Hd; auto. }
  apply NoDup_app_intro.
  - unfold copy_section. destruct (filter copyable (snd x)) as [|d0 l0] eqn:E; [constructor|]. rewrite <- E.
    constructor.
    + intros H. apply in_map_iff in H. destruct H as [d [Ed _]]. discriminate.
    + assert (Hnf : NoDup (map d_id (filter copyable (snd x)))).
      { clear - Hd1. induction (snd x) as [|d l IHl]; cbn; [constructor|]. cbn in Hd1. inversion Hd1; subst.
        destruct (copyable d); cbn; auto. constructor; auto. intros H. apply H1. apply in_map_iff in H.
        destruct H as [e [Ee He]]. apply filter_In in He. apply in_map_iff. exists e. tauto. }
      clear - Hnf. induction (filter copyable (snd x)) as [|d l IHl]; cbn; [constructor|]. cbn in Hnf. inversion Hnf; subst.
      constructor; auto. intros H. apply H1. apply in_map_iff in H. destruct H as [e [Ee He]]. injection Ee as Ee.
      rewrite <- Ee. apply in_map. exact He.
  - apply IH; auto.
  - intros it H1 H2. apply in_concat_map in H2. destruct H2 as [y [Hy H2]].
    unfold copy_section in H1, H2.
    destruct (filter copyable (snd x)) as [|d0 l0] eqn:E; [destruct H1|]. rewrite <- E in H1.
    destruct (filter copyable (snd y)) as [|e0 m0] eqn:E'; [destruct H2|]. rewrite <- E' in H2.
    destruct H1 as [<-|H1].
    + destruct H2 as [H2|H2]; [injection H2 as H2; apply Hn; rewrite <- H2; apply in_map; exact Hy|].
      apply in_map_iff in H2. destruct H2 as [d [Ed _]]. discriminate.
    + apply in_map_iff in H1. destruct H1 as [d [<- Hdx]]. destruct H2 as [H2|H2]; [discriminate|].
      apply in_map_iff in H2. destruct H2 as [e [Ee Hey]]. injection Ee as Ee.
      apply filter_In in Hdx. apply filter_In in Hey.
      clear - Hd Hdx Hey Hy Ee. destruct Hdx as [Hdx _]. destruct Hey as [Hey _].
      assert (Ha : In (d_id d) (map d_id (snd x))) by (apply in_map; exact Hdx).
      assert (Hb : In (d_id d) (map d_id (all_decls r))).
      { rewrite <- Ee. apply in_map. apply in_concat_map. eauto. }
      unfold all_decls in Hb. clear - Hd Ha Hb.
      induction (map d_id (snd x)) as [|a l IHl]; [destruct Ha|]. cbn in Hd. inversion Hd; subst.
      destruct Ha as [->|Ha]; auto. apply H1. apply in_or_app. auto.
Qed.

Lemma filter_all_decls_sub (p : file -> bool) fs d : In d (all_decls (filter p fs)) -> In d (all_decls fs).
Proof.
  intros H. apply in_concat_map in H. destruct H as [x [Hx Hd]]. apply filter_In in Hx. apply in_concat_map. exists x. tauto.
Qed.

Lemma NoDup_filter_files (p : file -> bool) : forall fs,
  NoDup (map d_id (all_decls fs)) -> NoDup (map d_id (all_decls (filter p fs))).
Proof.
  induction fs as [|x r IH]; cbn [filter]; auto. unfold all_decls. cbn [map concat]. rewrite map_app. intros H.
  assert (H2 : NoDup (map d_id (concat (map snd r)))).
  { clear - H. induction (map d_id (snd x)) as [|a l IHl]; auto. cbn in H. inversion H; auto. }
  destruct (p x); [|apply IH; exact H2].
  cbn [map concat]. rewrite map_app. apply NoDup_app_intro.
  - clear - H. induction (map d_id (snd x)) as [|a l IHl]; [constructor|]. cbn in H. inversion H; subst.
    constructor; auto. intros Hin. apply H2. apply in_or_app. auto.
  - apply IH. exact H2.
  - intros i Hi Hj. apply in_map_iff in Hj. destruct Hj as [d [<- Hd]]. apply (filter_all_decls_sub p r d) in Hd.
    clear - H Hi Hd. induction (map d_id (snd x)) as [|a l IHl]; [destruct Hi|]. cbn in H. inversion H; subst.
    destruct Hi as [->|Hi]; auto. apply H2. apply in_or_app. right. apply in_map. exact Hd.
Qed.

Lemma NoDup_filter_fst (p : file -> bool) : forall fs, NoDup (map fst fs) -> NoDup (map fst (filter p fs)).
Proof.
  induction fs as [|x r IH]; cbn; auto. intros H. inversion H; subst. destruct (p x); cbn; auto.
  constructor; auto. intros Hin. apply H2. apply in_map_iff in Hin. destruct Hin as [y [E Hy]]. apply filter_In in Hy.
  apply in_map_iff. exists y. tauto.
Qed.

(* every copied declaration appears exactly once *)
Theorem copied_once fs : NoDup (map fst fs) -> NoDup (map d_id (all_decls fs)) ->
  NoDup (concat (map copy_section (filter has_inj fs))).
Proof.
  intros Hf Hd. apply copy_sections_once; [apply NoDup_filter_fst|apply NoDup_filter_files]; auto.
Qed.

(* ... in source order: declarations of one file keep their order *)
Theorem copied_in_source_order x l1 d1 l2 d2 l3 :
  snd x = l1 ++ d1 :: l2 ++ d2 :: l3 -> copyable d1 = true -> copyable d2 = true ->
  exists a b c, copy_section x = a ++ ICopy (d_id d1) :: b ++ ICopy (d_id d2) :: c.
Proof.
  intros E H1 H2. unfold copy_section. rewrite E.
  replace (l1 ++ d1 :: l2 ++ d2 :: l3) with (l1 ++ [d1] ++ l2 ++ [d2] ++ l3) by reflexivity.
  rewrite !filter_app. cbn [filter]. rewrite H1, H2.
  destruct (filter copyable l1 ++ [d1] ++ filter copyable l2 ++ [d2] ++ filter copyable l3) eqn:E2.
  - destruct (filter copyable l1); discriminate.
  - rewrite <- E2. rewrite !map_app. cbn [map].
    exists (ICopyHdr (fst x) :: map (fun d => ICopy (d_id d)) (filter copyable l1)),
           (map (fun d => ICopy (d_id d)) (filter copyable l2)), (map (fun d => ICopy (d_id d)) (filter copyable l3)).
    cbn [app]. reflexivity.
Qed.

(* every injector has exactly one implementation, under its file's header *)
Theorem injector_emitted_iff fs id : NoDup (map fst fs) ->
  (In (IInj id) (layout fs) <-> exists x d, In x fs /\ In d (snd x) /\ is_inj d = true /\ d_id d = id).
Proof.
  intros Hnd. rewrite layout_is_spec by exact Hnd. unfold layout_spec. rewrite in_app_iff. split.
  - intros [H|H].
    + apply in_concat_map in H. destruct H as [x [Hx Hi]]. unfold inj_section in Hi.
      destruct (filter is_inj (snd x)) as [|d0 l] eqn:E; [destruct Hi|]. rewrite <- E in Hi.
      destruct Hi as [Hi|Hi]; [discriminate|]. apply in_map_iff in Hi. destruct Hi as [d [Ed Hd]]. injection Ed as <-.
      apply filter_In in Hd. exists x, d. tauto.
    + apply in_concat_map in H. destruct H as [x [_ Hi]]. unfold copy_section in Hi.
      destruct (filter copyable (snd x)) as [|c0 m0]; [destruct Hi|]. destruct Hi as [Hi|Hi]; [discriminate|].
      apply in_map_iff in Hi. destruct Hi as [e [Ee _]]. discriminate.
  - intros [x [d [Hx [Hd [Hi <-]]]]]. left. apply in_concat_map. exists x. split; auto. unfold inj_section.
    assert (Hf : In d (filter is_inj (snd x))) by (apply filter_In; auto).
    destruct (filter is_inj (snd x)) as [|d0 l] eqn:E; [destruct Hf|]. rewrite <- E. right. apply in_map_iff. exists d. split; [reflexivity|rewrite E; exact Hf].
Qed.

(* ---- evaluation for the correspondence ---- *)
Definition item_eqb (a b : item) : bool :=
  match a, b with
  | IInjHdr x, IInjHdr y | IInj x, IInj y | ICopyHdr x, ICopyHdr y | ICopy x, ICopy y => Nat.eqb x y
  | _, _ => false
  end.

Fixpoint items_eqb (a b : list item) : bool :=
  match a, b with
  | [], [] => true
  | x :: r, y :: s => item_eqb x y && items_eqb r s
  | _, _ => false
  end.

Definition lmismatches (ks : list (nat * list file * list item)) : list nat :=
  flat_map (fun k => if items_eqb (layout (snd (fst k))) (snd k) then [] else [fst (fst k)]) ks.

Example layout_example :
  layout [(1, [mkDecl KImport 0; mkDecl KOther 1; mkDecl KInjector 2; mkDecl KOther 3; mkDecl KInjector 4]);
          (2, [mkDecl KOther 5]);
          (3, [mkDecl KImport 6; mkDecl KInjector 7])]
  = [IInjHdr 1; IInj 2; IInj 4; IInjHdr 3; IInj 7; ICopyHdr 1; ICopy 1; ICopy 3].
Proof. reflexivity. Qed.
