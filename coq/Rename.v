From Coq Require Import List Arith Bool String Lia.
From Wire Require Import Names Sets Model Exec Emit ModelThms NamesThms.
Import ListNotations.
Local Open Scope string_scope.

(* wire.go: rewritePkgRefs, second pass -- identifiers declared inside a copied declaration (or value expression)
   that collide with a name of the generated file's scope are given fresh names.  The pass walks the identifier
   occurrences of the copied node in source order; `newNames` maps objects to their new names.

   An occurrence: the go/types object it denotes (None once the first pass has replaced it, or where go/types records
   nothing), its name, and whether the object may be renamed at all (it has a parent scope other than the package
   scope and is declared inside the node). *)
Record occ := mkOcc { o_obj : option nat; o_name : string; o_local : bool }.

Definition in_new (new : list (nat * string)) (n : string) : bool := existsb (fun kv => String.eqb (snd kv) n) new.
Fixpoint new_of (new : list (nat * string)) (o : nat) : option string :=
  match new with [] => None | (k, v) :: r => if Nat.eqb k o then Some v else new_of r o end.

Section Pass.
Variable scope : list string.          (* g.nameInFileScope: imports, value variables, package scope *)
Variable used : list string.           (* the identifiers occurring in the node (fix 264f93d); [] = the code before it *)

Definition in_scope (n : string) : bool := coll scope n.

(* one occurrence *)
Definition rstep (new : list (nat * string)) (x : occ) : list (nat * string) * string :=
  match o_obj x with
  | None => (new, o_name x)
  | Some o =>
    match new_of new o with
    | Some n => (new, n)
    | None =>
      if o_local x && (in_scope (o_name x) || in_new new (o_name x))
      then let n := disamb_in (scope ++ map snd new ++ used) (o_name x) in ((o, n) :: new, n)
      else (new, o_name x)
    end
  end.

Fixpoint rpass (new : list (nat * string)) (xs : list occ) : list (nat * string) * list (occ * string) :=
  match xs with
  | [] => (new, [])
  | x :: r => let '(new1, n) := rstep new x in
              let '(new2, ps) := rpass new1 r in (new2, (x, n) :: ps)
  end.

Definition rename (xs : list occ) : list string := map snd (snd (rpass [] xs)).
End Pass.

(* ------------------------------------------------------------------ the repaired pass: used = every identifier of the node *)
Section Fixed.
Variable scope : list string.
Variable xs0 : list occ.                         (* the whole node *)
Let used := map o_name xs0.

(* all occurrences of one object agree on its name and on whether it may be renamed *)
Hypothesis coherent : forall x y o, In x xs0 -> In y xs0 -> o_obj x = Some o -> o_obj y = Some o ->
  o_name x = o_name y /\ o_local x = o_local y.

Definition wants (x : occ) : bool := o_local x && in_scope scope (o_name x).

Definition new_ok (new : list (nat * string)) : Prop :=
  NoDup (map snd new) /\ NoDup (map fst new) /\
  (forall o n, In (o, n) new -> ~ In n scope /\ ~ In n used) /\
  (forall o n, In (o, n) new -> exists y, In y xs0 /\ o_obj y = Some o /\ wants y = true).

Definition good (new : list (nat * string)) (p : occ * string) : Prop :=
  match o_obj (fst p) with
  | None => snd p = o_name (fst p)
  | Some o => (new_of new o = Some (snd p) /\ wants (fst p) = true)
           \/ (new_of new o = None /\ snd p = o_name (fst p) /\ wants (fst p) = false)
  end.

Definition grows (new new' : list (nat * string)) : Prop :=
  forall p, In (fst p) xs0 -> good new p -> good new' p.

Lemma wants_coherent x y o : In x xs0 -> In y xs0 -> o_obj x = Some o -> o_obj y = Some o -> wants x = wants y.
Proof. intros Hx Hy Ex Ey. destruct (coherent x y o Hx Hy Ex Ey) as [En El]. unfold wants. rewrite En, El. reflexivity. Qed.

Lemma in_new_In new n : in_new new n = true <-> In n (map snd new).
Proof.
  unfold in_new. rewrite existsb_exists. split.
  - intros ([k v] & Hin & E). apply String.eqb_eq in E. cbn in E. subst. apply in_map_iff. exists (k, n). auto.
  - intros H. apply in_map_iff in H. destruct H as ([k v] & E & Hin). cbn in E. subst. exists (k, n). split; auto. apply String.eqb_refl.
Qed.

Lemma new_of_In new o n : new_of new o = Some n -> In (o, n) new.
Proof.
  induction new as [|[k v] r IH]; cbn; [discriminate|]. destruct (Nat.eqb k o) eqn:E.
  - intros H. injection H as <-. apply Nat.eqb_eq in E. subst. auto.
  - auto.
Qed.

Lemma new_of_None new o : new_of new o = None -> ~ In o (map fst new).
Proof.
  induction new as [|[k v] r IH]; cbn; [tauto|]. destruct (Nat.eqb k o) eqn:E; [discriminate|].
  intros H [Hk|Hi]; [subst; rewrite Nat.eqb_refl in E; discriminate|]. apply IH; auto.
Qed.

(* the `inNewNames(objName)` trigger is dead once new names avoid the node's identifiers *)
Lemma in_new_used_false new x : In x xs0 -> new_ok new -> in_new new (o_name x) = false.
Proof.
  intros Hx (_ & _ & N3 & _). destruct (in_new new (o_name x)) eqn:E; auto. apply in_new_In in E. apply in_map_iff in E.
  destruct E as ([k v] & Ev & Hin). cbn in Ev. subst v. destruct (N3 k (o_name x) Hin) as [_ Hu].
  exfalso. apply Hu. unfold used. apply in_map. exact Hx.
Qed.

Lemma grows_refl new : grows new new.
Proof. intros p _ H. exact H. Qed.

Lemma grows_cons new o n y : In y xs0 -> o_obj y = Some o -> wants y = true -> new_of new o = None ->
  grows new ((o, n) :: new).
Proof.
  intros Hy Ey Wy En p Hp. unfold good. destruct (o_obj (fst p)) as [o'|] eqn:Eo; auto. cbn [new_of].
  destruct (Nat.eqb o o') eqn:E.
  - apply Nat.eqb_eq in E. subst o'. intros [[H _]|[_ [_ H]]]; [congruence|].
    rewrite (wants_coherent (fst p) y o Hp Hy Eo Ey) in H. congruence.
  - auto.
Qed.

Lemma rstep_facts new x : In x xs0 -> new_ok new ->
  new_ok (fst (rstep scope used new x)) /\ good (fst (rstep scope used new x)) (x, snd (rstep scope used new x)) /\
  grows new (fst (rstep scope used new x)).
Proof.
  intros Hx Hok. pose proof (in_new_used_false new x Hx Hok) as Hnn. pose proof Hok as (N1 & N2 & N3 & N4).
  unfold rstep, good. cbn [fst snd].
  destruct (o_obj x) as [o|] eqn:Eo.
  2: { cbn [fst snd]. try rewrite Eo. split; [exact Hok|]. split; [reflexivity|apply grows_refl]. }
  destruct (new_of new o) as [n|] eqn:En.
  { cbn [fst snd]. try rewrite Eo; try rewrite En. split; [exact Hok|]. split; [|apply grows_refl]. left. split; auto.
    destruct (N4 o n (new_of_In _ _ _ En)) as (y & Hy & Ey & Wy).
    rewrite (wants_coherent x y o Hx Hy Eo Ey). exact Wy. }
  rewrite Hnn, orb_false_r. fold (wants x).
  destruct (wants x) eqn:Ew; cbn [fst snd].
  - destruct (disamb_in_fresh (scope ++ map snd new ++ used) (o_name x)) as [Hf _].
    set (n := disamb_in (scope ++ map snd new ++ used) (o_name x)) in *.
    try rewrite Eo. cbn [new_of]. rewrite Nat.eqb_refl. split; [|split].
    + split; [|split; [|split]].
      * cbn. constructor; auto. intros Hi. apply Hf. apply in_or_app. right. apply in_or_app. left. exact Hi.
      * cbn. constructor; auto. apply new_of_None. exact En.
      * intros o' n' [E|Hin].
        -- injection E as <- <-. split; intros Hi; apply Hf; apply in_or_app; [left; exact Hi|right; apply in_or_app; right; exact Hi].
        -- apply (N3 o' n' Hin).
      * intros o' n' [E|Hin].
        -- injection E as <- <-. exists x. auto.
        -- apply (N4 o' n' Hin).
    + left. auto.
    + apply (grows_cons new o n x); auto.
  - try rewrite Eo; try rewrite En. split; [exact Hok|]. split; [|apply grows_refl]. right. auto.
Qed.

Lemma rpass_facts : forall xs new, incl xs xs0 -> new_ok new ->
  new_ok (fst (rpass scope used new xs)) /\ grows new (fst (rpass scope used new xs)) /\
  map fst (snd (rpass scope used new xs)) = xs /\
  forall p, In p (snd (rpass scope used new xs)) -> good (fst (rpass scope used new xs)) p.
Proof.
  induction xs as [|x r IH]; intros new Hincl Hok; cbn [rpass].
  - cbn. split; auto. split; [apply grows_refl|]. split; auto. intros p [].
  - assert (Hx : In x xs0) by (apply Hincl; left; reflexivity).
    destruct (rstep_facts new x Hx Hok) as (Hok1 & Hg1 & Hgr1).
    destruct (rstep scope used new x) as [new1 n1]. cbn [fst snd] in *.
    destruct (IH new1 (fun y Hy => Hincl y (or_intror Hy)) Hok1) as (Hok2 & Hgr2 & Hmap & Hgood).
    destruct (rpass scope used new1 r) as [new2 ps]. cbn [fst snd] in *.
    split; auto. split; [intros p Hp Hg; apply Hgr2; auto|]. split; [cbn; f_equal; exact Hmap|].
    intros p [<-|Hp]; [apply Hgr2; auto|apply Hgood; exact Hp].
Qed.

Lemma new_ok_nil : new_ok [].
Proof. split; [cbn; constructor|]. split; [cbn; constructor|]. split; intros o n []. Qed.

Lemma NoDup_snd_inj (new : list (nat * string)) o o' n : NoDup (map snd new) -> In (o, n) new -> In (o', n) new -> o = o'.
Proof.
  induction new as [|[k v] r IH]; intros Hnd H1 H2; [destruct H1|]. cbn in Hnd. inversion Hnd; subst.
  destruct H1 as [E1|H1], H2 as [E2|H2].
  - congruence.
  - injection E1 as -> ->. exfalso. apply H3. apply in_map_iff. exists (o', n). auto.
  - injection E2 as -> ->. exfalso. apply H3. apply in_map_iff. exists (o, n). auto.
  - eapply IH; eauto.
Qed.

(* C15: the renaming pass never makes two identifiers coincide that did not coincide in the source, renames an object
   consistently, gives renamed objects names outside the file scope, and leaves everything else as written *)
Theorem rename_no_capture :
  let ps := snd (rpass scope used [] xs0) in
  map fst ps = xs0 /\
  (forall p q, In p ps -> In q ps -> snd p = snd q ->
     (exists o, o_obj (fst p) = Some o /\ o_obj (fst q) = Some o) \/
     (o_name (fst p) = o_name (fst q) /\ snd p = o_name (fst p) /\ snd q = o_name (fst q))) /\
  (forall p q o, In p ps -> In q ps -> o_obj (fst p) = Some o -> o_obj (fst q) = Some o -> snd p = snd q) /\
  (forall p, In p ps -> snd p = o_name (fst p) \/ (~ In (snd p) scope /\ ~ In (snd p) used /\ wants (fst p) = true)).
Proof.
  intros ps. destruct (rpass_facts xs0 [] (fun y H => H) new_ok_nil) as (Hok & _ & Hmap & Hgood).
  fold ps in Hmap, Hgood. set (fin := fst (rpass scope used [] xs0)) in *.
  assert (Hin0 : forall p, In p ps -> In (fst p) xs0).
  { intros p Hp. rewrite <- Hmap. apply in_map. exact Hp. }
  destruct Hok as (N1 & N2 & N3 & N4).
  split; [exact Hmap|]. split; [|split].
  - intros p q Hp Hq E. pose proof (Hgood p Hp) as Gp. pose proof (Hgood q Hq) as Gq. unfold good in Gp, Gq.
    destruct (o_obj (fst p)) as [op|] eqn:Ep; destruct (o_obj (fst q)) as [oq|] eqn:Eq.
    + destruct Gp as [[Gp _]|[_ [Gp _]]]; destruct Gq as [[Gq _]|[_ [Gq _]]].
      * left. exists op. split; auto. f_equal. symmetry.
        apply (NoDup_snd_inj fin op oq (snd p) N1); [apply new_of_In; exact Gp|apply new_of_In; rewrite E; exact Gq].
      * exfalso. destruct (N3 op (snd p) (new_of_In _ _ _ Gp)) as [_ Hu]. apply Hu. rewrite E, Gq. unfold used. apply in_map. apply Hin0. exact Hq.
      * exfalso. destruct (N3 oq (snd q) (new_of_In _ _ _ Gq)) as [_ Hu]. apply Hu. rewrite <- E, Gp. unfold used. apply in_map. apply Hin0. exact Hp.
      * right. split; [congruence|auto].
    + destruct Gp as [[Gp _]|[_ [Gp _]]].
      * exfalso. destruct (N3 op (snd p) (new_of_In _ _ _ Gp)) as [_ Hu]. apply Hu. rewrite E, Gq. unfold used. apply in_map. apply Hin0. exact Hq.
      * right. split; [congruence|auto].
    + destruct Gq as [[Gq _]|[_ [Gq _]]].
      * exfalso. destruct (N3 oq (snd q) (new_of_In _ _ _ Gq)) as [_ Hu]. apply Hu. rewrite <- E, Gp. unfold used. apply in_map. apply Hin0. exact Hp.
      * right. split; [congruence|auto].
    + right. split; [congruence|auto].
  - intros p q o Hp Hq Ep Eq. pose proof (Hgood p Hp) as Gp. pose proof (Hgood q Hq) as Gq. unfold good in Gp, Gq.
    rewrite Ep in Gp. rewrite Eq in Gq.
    destruct Gp as [[Gp _]|[Gp [Np _]]]; destruct Gq as [[Gq _]|[Gq [Nq _]]]; try congruence.
    rewrite Np, Nq. apply (coherent (fst p) (fst q) o); auto.
  - intros p Hp. pose proof (Hgood p Hp) as Gp. unfold good in Gp.
    destruct (o_obj (fst p)) as [o|]; [|left; exact Gp].
    destruct Gp as [[Gp W]|[_ [Gp _]]]; [|left; exact Gp].
    right. destruct (N3 o (snd p) (new_of_In _ _ _ Gp)) as [A B]. auto.
Qed.
End Fixed.

(* ------------------------------------------------------------------ the pass before the repair (used = []) *)
(* x2 := 10; x := 1; return x - x2   with a package-level x: the later local takes the earlier one's name, and the
   earlier one's use is renamed to a name nothing declares *)
Definition witness : list occ :=
  [mkOcc (Some 1) "x2" true; mkOcc (Some 2) "x" true; mkOcc (Some 2) "x" true; mkOcc (Some 1) "x2" true].

Example unrepaired_pass_captures :
  map snd (snd (rpass ["x"] [] [] witness)) = ["x2"; "x2"; "x2"; "x2_2"].
Proof. vm_compute. reflexivity. Qed.

Example repaired_pass_on_the_witness :
  map snd (snd (rpass ["x"] (map o_name witness) [] witness)) = ["x2"; "x3"; "x3"; "x2"].
Proof. vm_compute. reflexivity. Qed.

(* ------------------------------------------------------------------ evaluation for the correspondence *)
Definition occ_agree (x y : occ) : bool :=
  match o_obj x, o_obj y with
  | Some a, Some b => if Nat.eqb a b then String.eqb (o_name x) (o_name y) && Bool.eqb (o_local x) (o_local y) else true
  | _, _ => true
  end.

Definition coherentb (xs : list occ) : bool := forallb (fun x => forallb (occ_agree x) xs) xs.

Lemma coherentb_spec xs : coherentb xs = true ->
  forall x y o, In x xs -> In y xs -> o_obj x = Some o -> o_obj y = Some o -> o_name x = o_name y /\ o_local x = o_local y.
Proof.
  unfold coherentb. rewrite forallb_forall. intros H x y o Hx Hy Ex Ey.
  specialize (H x Hx). rewrite forallb_forall in H. specialize (H y Hy). unfold occ_agree in H.
  rewrite Ex, Ey, Nat.eqb_refl in H. apply andb_true_iff in H. destruct H as [H1 H2].
  apply String.eqb_eq in H1. apply Bool.eqb_prop in H2. auto.
Qed.

Record rcase := mkRCase { rk_id : nat; rk_scope : list string; rk_occs : list occ; rk_after : list string }.

Definition run_rcase (k : rcase) : list string :=
  map snd (snd (rpass (rk_scope k) (map o_name (rk_occs k)) [] (rk_occs k))).

Definition rmismatches (ks : list rcase) : list nat :=
  map rk_id (filter (fun k => negb (list_eqb String.eqb (run_rcase k) (rk_after k))) ks).

(* cases on which the theorem's hypothesis fails (expected: none) *)
Definition rincoherent (ks : list rcase) : list nat :=
  map rk_id (filter (fun k => negb (coherentb (rk_occs k))) ks).
