From Coq Require Import List String.
From Wire Require Import Sets Model.
Import ListNotations.
Open Scope string_scope.

(* The permutation theorem of the analysis (C10_analysis_order_independent) permutes imports, providers, struct
   providers, values and field selections -- not bindings.  For bindings the statement is false of the faithful model,
   as it is of the code: buildProviderMap resolves them sequentially, so an interface bound to an interface that is
   itself bound later in the argument list is refused, and accepted when the two wire.Bind calls are swapped.
   The witness below, replayed on the implementation, is the recorded finding
   bind-chain:acceptance-depends-on-argument-order; the second one is bind-chain:contributing-binding-reported-unused. *)

Definition pC : provider := mkProv 1 0 "NewC" [] [] false false [1] false false.      (* provides *T0 (type 1) *)
Definition bAB : binding := mkBind 2 2 4.                                             (* A (2) -> B (4) *)
Definition bBC : binding := mkBind 1 4 1.                                             (* B (4) -> *T0 (1) *)

Definition set_in_order (bs : list binding) : rset := RSet 0 [RSet 1 [] [pC] [] [] [] bs] [] [] [] [] [].

Definition accepted (r : result) : bool := match r with ROk _ _ => true | RErr _ _ => false end.

Theorem C10_binding_order_refuted :
  exists bs bs', Permutation.Permutation bs bs' /\
    accepted (analyze [1; 2; 4] (set_in_order bs) [] 2 false false) = true /\
    accepted (analyze [1; 2; 4] (set_in_order bs') [] 2 false false) = false.
Proof.
  exists [bBC; bAB], [bAB; bBC]. split; [apply Permutation.perm_swap|]. split; vm_compute; reflexivity.
Qed.

(* listed directly in wire.Build, in the order that resolves: the B binding is reported unused although A is built
   through it *)
Theorem C08_chain_binding_reported_unused :
  analyze [1; 2; 4] (RSet 0 [] [pC] [] [] [] [bBC; bAB]) [] 2 false false = RErr StSolve [DUnusedBind 1].
Proof. vm_compute. reflexivity. Qed.
