From Coq Require Import List Arith Lia Bool.
Import ListNotations.

(* What injectPass/funcProviderCall emit for provider calls, and what it does at run time.
   Only function-provider steps matter for the error / cleanup paths; struct, value and field steps
   are pure bindings and are modelled as a step without cleanup and without error. *)

Record pstep := { p_id : nat; p_args : list nat; p_cleanup : bool; p_err : bool }.

(* ---- emitted code (abstract syntax of the generated function body) ---- *)
Inductive instr :=
| ICall (p : nat) (args : list nat) (cl : option nat) (haserr : bool) (unwind : list nat).
  (* v[, cleanup_cl][, err] := p(args...)
     if err != nil { for c in unwind: cleanup_c() ; return zero[, nil], err }   -- only when haserr *)

Record code := { body : list instr; ret_cleanups : option (list nat) }.
  (* return v, func() { for c in ret_cleanups: cleanup_c() }, nil    -- closure only if the injector declares one *)

(* ---- emitter: mirrors injectPass + funcProviderCall (cleanupNames stack = 0..ncl-1) ---- *)
Fixpoint rev_seq (n : nat) : list nat := match n with 0 => [] | S k => k :: rev_seq k end.

Fixpoint emit_body (plan : list pstep) (ncl : nat) : list instr * nat :=
  match plan with
  | [] => ([], ncl)
  | s :: r =>
    let prev := ncl in
    let cl := if p_cleanup s then Some ncl else None in
    let ncl' := if p_cleanup s then S ncl else ncl in
    let '(is, n) := emit_body r ncl' in
    (ICall (p_id s) (p_args s) cl (p_err s) (rev_seq prev) :: is, n)
  end.

Definition emit (plan : list pstep) (sig_cleanup : bool) : code :=
  let '(is, n) := emit_body plan 0 in
  {| body := is; ret_cleanups := if sig_cleanup then Some (rev_seq n) else None |}.

(* ---- run-time semantics ---- *)
Inductive event := ECall (p : nat) | ECleanup (owner : nat) | EReturnOk | EReturnErr (p : nat).

(* the oracle says, per provider, whether it fails *)
Section Run.
Variable fails : nat -> bool.

(* cleanup variable c holds the cleanup of provider owner(c) *)
Fixpoint run (is : list instr) (owner : list nat) (tr : list event) : list event * list nat * bool :=
  (* returns trace, owner table, and whether the function already returned with an error *)
  match is with
  | [] => (tr, owner, false)
  | ICall p args cl haserr unwind :: r =>
    let tr1 := tr ++ [ECall p] in
    if haserr && fails p then
      (tr1 ++ map (fun c => ECleanup (nth c owner 0)) unwind ++ [EReturnErr p], owner, true)
    else
      let owner' := match cl with Some _ => owner ++ [p] | None => owner end in
      run r owner' tr1
  end.

Definition run_code (c : code) : list event * list event :=
  (* (trace of the call, trace of invoking the returned cleanup) *)
  let '(tr, owner, failed) := run (body c) [] [] in
  if failed then (tr, [])
  else (tr ++ [EReturnOk],
        match ret_cleanups c with
        | Some l => map (fun c => ECleanup (nth c owner 0)) l
        | None => []
        end).
End Run.

(* ---- specification ---- *)
Definition cleanup_owners (plan : list pstep) : list nat :=
  map p_id (filter p_cleanup plan).

(* first failing step splits the plan *)
Fixpoint split_fail (fails : nat -> bool) (plan : list pstep) : list pstep * option pstep :=
  match plan with
  | [] => ([], None)
  | s :: r => if p_err s && fails (p_id s) then ([], Some s)
              else let '(pre, f) := split_fail fails r in (s :: pre, f)
  end.

Lemma nth_app_owner (o : list nat) p : nth (length o) (o ++ [p]) 0 = p.
Proof. rewrite app_nth2; [|lia]. rewrite Nat.sub_diag. reflexivity. Qed.

Lemma map_rev_seq_owner (o extra : list nat) :
  map (fun c => nth c (o ++ extra) 0) (rev_seq (length o)) = rev o.
Proof.
  revert extra. induction o as [|x o IH] using rev_ind; intros extra; [reflexivity|].
  rewrite app_length. simpl. rewrite Nat.add_1_r. cbn [rev_seq map].
  rewrite rev_app_distr. simpl. f_equal.
  - rewrite <- app_assoc. rewrite app_nth2; [|lia]. rewrite Nat.sub_diag. reflexivity.
  - rewrite <- app_assoc. apply IH.
Qed.

Lemma map_rev_seq_owner0 (o : list nat) :
  map (fun c => nth c o 0) (rev_seq (length o)) = rev o.
Proof. pose proof (map_rev_seq_owner o []) as H. rewrite app_nil_r in H. exact H. Qed.

Lemma cleanups_rev (o : list nat) :
  map (fun c => ECleanup (nth c o 0)) (rev_seq (length o)) = map ECleanup (rev o).
Proof. rewrite <- (map_rev_seq_owner0 o). rewrite map_map. reflexivity. Qed.

(* Generalised run lemma: starting with owner table o (ncl = length o) and trace tr *)
Lemma run_emit fails : forall plan o tr,
  let '(is, n) := emit_body plan (length o) in
  let '(pre, f) := split_fail fails plan in
  run fails is o tr =
    match f with
    | Some s =>
      (tr ++ map ECall (map p_id pre) ++ [ECall (p_id s)]
          ++ map ECleanup (rev (o ++ cleanup_owners pre)) ++ [EReturnErr (p_id s)],
       o ++ cleanup_owners pre, true)
    | None => (tr ++ map ECall (map p_id pre), o ++ cleanup_owners pre, false)
    end
  /\ (f = None -> n = length (o ++ cleanup_owners pre)).
Proof.
  induction plan as [|s r IH]; intros o tr.
  - cbn. rewrite !app_nil_r. auto.
  - cbn [emit_body split_fail].
    set (o' := if p_cleanup s then o ++ [p_id s] else o).
    assert (Hlen : (if p_cleanup s then S (length o) else length o) = length o').
    { unfold o'. destruct (p_cleanup s); [rewrite app_length; simpl; lia|reflexivity]. }
    rewrite Hlen.
    specialize (IH o' (tr ++ [ECall (p_id s)])).
    destruct (emit_body r (length o')) as [is n].
    destruct (p_err s && fails (p_id s)) eqn:Ef.
    + cbn [run]. rewrite Ef. cbn [map app]. split; [|discriminate].
      unfold cleanup_owners. cbn [filter map]. rewrite !app_nil_r.
      rewrite cleanups_rev. rewrite <- !app_assoc. reflexivity.
    + destruct (split_fail fails r) as [pre f]. cbn [run]. rewrite Ef.
      assert (Ho : (match (if p_cleanup s then Some (length o) else None) with
                    | Some _ => o ++ [p_id s] | None => o end) = o').
      { unfold o'. destruct (p_cleanup s); reflexivity. }
      rewrite Ho. destruct IH as [IH1 IH2]. rewrite IH1.
      assert (Hco : o' ++ cleanup_owners pre = o ++ cleanup_owners (s :: pre)).
      { unfold o', cleanup_owners. cbn [filter]. destruct (p_cleanup s); cbn [map].
        - rewrite <- app_assoc. reflexivity.
        - reflexivity. }
      rewrite Hco. split.
      * destruct f; cbn [map]; rewrite <- !app_assoc; reflexivity.
      * intros Hf. rewrite <- Hco. auto.
Qed.

(* C03: a failing provider aborts, earlier cleanups run in reverse, its own cleanup never runs,
   nothing later runs, the error returned is the failing provider's *)
Theorem C03_failure fails plan sigc pre s :
  split_fail fails plan = (pre, Some s) ->
  run_code fails (emit plan sigc) =
    (map ECall (map p_id pre) ++ [ECall (p_id s)]
       ++ map ECleanup (rev (cleanup_owners pre)) ++ [EReturnErr (p_id s)], []).
Proof.
  intros Hs. unfold run_code, emit.
  pose proof (run_emit fails plan [] []) as H. cbn [length] in H.
  destruct (emit_body plan 0) as [is n]. rewrite Hs in H. destruct H as [H _].
  cbn [body]. rewrite H. reflexivity.
Qed.

(* C04: on success the returned closure runs every cleanup once, in reverse acquisition order,
   and no cleanup runs before it is invoked *)
Theorem C04_success fails plan pre :
  split_fail fails plan = (pre, None) ->
  run_code fails (emit plan true) =
    (map ECall (map p_id plan) ++ [EReturnOk], map ECleanup (rev (cleanup_owners plan))).
Proof.
  intros Hs. unfold run_code, emit.
  pose proof (run_emit fails plan [] []) as H. cbn [length] in H.
  destruct (emit_body plan 0) as [is n]. rewrite Hs in H. destruct H as [H Hn].
  cbn [body ret_cleanups]. rewrite H. cbn [app].
  assert (Hpre : pre = plan).
  { clear -Hs. revert pre Hs. induction plan as [|s r IH]; intros pre Hs; cbn in Hs.
    - inversion Hs; reflexivity.
    - destruct (p_err s && fails (p_id s)); [discriminate|].
      destruct (split_fail fails r) as [pre' f] eqn:E. inversion Hs; subst. f_equal. apply IH. reflexivity. }
  subst pre. rewrite (Hn eq_refl). cbn [app]. rewrite cleanups_rev. reflexivity.
Qed.


